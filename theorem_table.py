#!/usr/bin/env python3
"""Rewrites the table of property theorems in DESIGN.md (between the THEOREM-TABLE markers) from the
`theorem` declarations of lean/PhQVerif/Props/Cnn.lean."""
import glob
import os
import re

HERE = os.path.dirname(os.path.abspath(__file__))


def main():
    rows = []
    for f in sorted(glob.glob(os.path.join(HERE, 'lean/PhQVerif/Props/C[0-9][0-9].lean'))):
        s = open(f).read()
        rows.append((os.path.basename(f)[:3], re.findall(r'^theorem\s+([A-Za-z0-9_\.]+)', s, flags=re.M),
                     len(re.findall(r'^example\b', s, flags=re.M))))
    lines = ['<!-- THEOREM-TABLE -->',
             '| property | theorems in `Props/Cnn.lean` (each audited by `Audit/Cnn.lean`) | non-vacuity examples |',
             '|---|---|---|']
    for pid, names, ex in rows:
        lines.append('| %s | %s | %d |' % (pid, ', '.join('`%s`' % n for n in names), ex))
    lines.append('<!-- /THEOREM-TABLE -->')
    txt = '\n'.join(lines)
    p = os.path.join(HERE, 'DESIGN.md')
    s = open(p).read()
    s = re.sub(r'<!-- THEOREM-TABLE -->.*?<!-- /THEOREM-TABLE -->', lambda m: txt, s, flags=re.S)
    open(p, 'w').write(s)


if __name__ == '__main__':
    main()
