#!/usr/bin/env python3-vt
"""check.py Cnn [--tier quick|thorough] [--replay path]

Decides one property of properties.jsonl for /repo's current working tree (DESIGN.md section 6):
regenerates the Lean model from the source, rebuilds the property's theorems, audits their axioms,
runs the model/implementation correspondence, and, if anything no longer checks, searches the real
code for a concrete failing input.

exit 0: the property held on everything explored (KNOWN-FINDING lines may be printed);
exit 1: "VIOLATION property=<id> replay=<path>" printed for each violation not listed in
        known_findings.json.
"""
import argparse
import json
import os
import sys

VERIF = os.path.dirname(os.path.abspath(__file__))
sys.path.insert(0, VERIF)
import checklib as cl  # noqa: E402
import props  # noqa: E402


def main():
    ap = argparse.ArgumentParser()
    ap.add_argument('prop')
    ap.add_argument('--tier', default=os.environ.get('VERIF_TIER', 'quick'))
    ap.add_argument('--replay')
    args = ap.parse_args()
    seed = int(os.environ.get('VERIF_SEED', '20260926'))
    prop = args.prop
    spec = props.SPECS.get(prop)
    if spec is None:
        print('unknown or unclaimed property ' + prop)
        return 2
    if args.replay:
        return props.replay(prop, args.replay)
    return props.run(spec, args.tier, seed)


if __name__ == '__main__':
    sys.exit(main())
