#!/usr/bin/env python3-vt
"""setup: build the framework for the current /repo tree from files on disk only (offline):
translate the tree, generate the Lean model, build every claimed property's theorems, and build
the native correspondence harness. Everything lands under /verif/.cache and /verif/lean/.lake."""
import os
import subprocess
import sys

VERIF = os.path.dirname(os.path.abspath(__file__))
sys.path.insert(0, VERIF)
import checklib as cl  # noqa: E402
import props  # noqa: E402
import correspond as co  # noqa: E402


def main():
    T = cl.Timer()
    cache, res = cl.prepare()
    cl.log('setup: model ready %.1fs' % T.s())
    targets = sorted({t for s in props.SPECS.values() for t in s['lean_targets']})
    p = subprocess.Popen(['lake', 'build'] + targets, cwd=cl.LEAN)
    exe = co.build_native(cache, variant='O1')
    cl.log('setup: native harness %s %.1fs' % (exe, T.s()))
    rc = p.wait()
    cl.log('setup: lake build rc=%d %.1fs' % (rc, T.s()))
    return rc


if __name__ == '__main__':
    sys.exit(main())
