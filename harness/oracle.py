"""Independent Python copy of the unit-symbol oracle (the Lean one is Core/Symbol.lean + Core/Atoms.lean),
used only by the failing-input searches to judge the *real* code's numbers: atom table with SI / NIST
definitional constants, tokenizer and grammar for unit symbols."""
import re
from fractions import Fraction as F

# dims order T L M I Th N J
def D(T=0,L=0,M=0,I=0,Th=0,N=0,J=0): return (T,L,M,I,Th,N,J)
ATOMS={}
def atom(names, q, d, k=0):
    for n in names.split():
        ATOMS.setdefault(n,[]).append((F(q),k,d))
# SI base & named
atom('m',1,D(L=1)); atom('g',F(1,1000),D(M=1)); atom('s',1,D(T=1)); atom('A',1,D(I=1)); atom('K',1,D(Th=1))
atom('mol',1,D(N=1)); atom('N',1,D(T=-2,L=1,M=1)); atom('J',1,D(T=-2,L=2,M=1)); atom('W',1,D(T=-3,L=2,M=1))
atom('Pa',1,D(T=-2,L=-1,M=1)); atom('Hz',1,D(T=-1)); atom('C',1,D(T=1,I=1)); atom('L',F(1,1000),D(L=3))
atom('cal',F(4184,1000),D(T=-2,L=2,M=1)); atom('eV',F(1602176634,10**28),D(T=-2,L=2,M=1))
PREF={'k':1000,'M':10**6,'G':10**9,'T':10**12,'P':10**15,'m':F(1,1000),'μ':F(1,10**6),'u':F(1,10**6),'n':F(1,10**9),'c':F(1,100),'d':F(1,10)}
for base in ['m','g','s','A','mol','N','J','W','Pa','Hz','C','L','cal','eV']:
    for p,f in PREF.items():
        for (q,k,d) in list(ATOMS[base]):
            if base=='C' and False: continue
            ATOMS.setdefault(p+base,[]).append((q*f,k,d))
# temperature scale factors (differences)
atom('°C degC',1,D(Th=1)); atom('°K degK',1,D(Th=1)); atom('°F degF F °R degR R',F(5,9),D(Th=1))
ATOMS['C'].append((F(1),0,D(Th=1)))  # C as Celsius degree
# time
atom('min mins',60,D(T=1)); atom('hr hrs',3600,D(T=1)); atom('day days',86400,D(T=1)); atom('week weeks wk',604800,D(T=1))
# length imperial
atom('ft',F(3048,10000),D(L=1)); atom('in',F(254,10000),D(L=1)); atom('yd',F(9144,10000),D(L=1)); atom('mi',F(1609344,1000),D(L=1))
atom('nmi NM',1852,D(L=1)); atom('mil mils thou thous milin',F(254,10**7),D(L=1)); atom('μin uin',F(254,10**10),D(L=1))
# area/volume
atom('ha',10**4,D(L=2)); atom('ac',F(40468564224,10**7),D(L=2))
# mass/force
LBF=F(44482216152605,10**13); LBM=F(45359237,10**8)
atom('lbf',LBF,D(T=-2,L=1,M=1)); atom('lbm',LBM,D(M=1)); atom('lb',LBF,D(T=-2,L=1,M=1)); ATOMS['lb'].append((LBM,0,D(M=1)))
atom('slug',LBF/F(3048,10000),D(M=1)); atom('slinch',LBF/F(254,10000),D(M=1)); atom('dyn',F(1,10**5),D(T=-2,L=1,M=1))
# pressure
atom('atm',101325,D(T=-2,L=-1,M=1)); atom('bar',10**5,D(T=-2,L=-1,M=1)); atom('psi',LBF/F(254,10000)**2,D(T=-2,L=-1,M=1)); atom('psf',LBF/F(3048,10000)**2,D(T=-2,L=-1,M=1))
# energy
atom('BTU btu',F(105505585262,10**8),D(T=-2,L=2,M=1)); atom('Cal',4184,D(T=-2,L=2,M=1))
# viscosity, speed
atom('P',F(1,10),D(T=-1,L=-1,M=1)); atom('kn',F(1852,3600),D(T=-1,L=1))
# charge, amount
atom('e',F(1602176634,10**28),D(T=1,I=1)); atom('particles',1/F(602214076*10**15),D(N=1))
# angle
Z=D()
atom('rad',1,Z); atom('sr',1,Z); atom("deg ° ",F(1,180),Z,1); atom("arcmin am '",F(1,10800),Z,1); atom('arcsec as arcs "',F(1,648000),Z,1); atom('rev',2,Z,1)
# memory
atom('b bit',1,Z); atom('B byte',8,Z)
for p,f in {'k':1000,'M':10**6,'G':10**9,'T':10**12,'P':10**15,'ki':1024,'Mi':1024**2,'Gi':1024**3,'Ti':1024**4,'Pi':1024**5}.items():
    ATOMS.setdefault(p+'b',[]).append((F(f),0,Z)); ATOMS.setdefault(p+'B',[]).append((F(8*f),0,Z))

# English names
for pw_,f in {'':1,'kilo':1000,'centi':F(1,100),'milli':F(1,1000),'deci':F(1,10),'micro':F(1,10**6),'Micro':F(1,10**6)}.items():
    for nm in ['meter','meters','metre','metres']:
        atom(pw_+nm,f,D(L=1))
atom('inch inches',F(254,10000),D(L=1)); atom('foot feet',F(3048,10000),D(L=1)); atom('yard yards',F(9144,10000),D(L=1))
atom('mile miles',F(1609344,1000),D(L=1)); atom('micron microns',F(1,10**6),D(L=1)); atom('nautical',F(1852*1000,1609344),D())
atom('milliinch milliinches millinch thousandth thousandths',F(254,10**7),D(L=1)); atom('microinch microinches',F(254,10**10),D(L=1))
atom('second seconds',1,D(T=1)); atom('minute minutes',60,D(T=1)); atom('hour hours',3600,D(T=1))
atom('millisecond milliseconds',F(1,1000),D(T=1)); atom('microsecond microseconds',F(1,10**6),D(T=1)); atom('nanosecond nanoseconds',F(1,10**9),D(T=1))
atom('radian radians',1,D()); atom('degree degrees',F(1,180),D(),1); atom('arcminute arcminutes',F(1,10800),D(),1); atom('arcsecond arcseconds',F(1,648000),D(),1)
atom('revolution revolutions',2,D(),1); atom('knot knots',F(1852,3600),D(T=-1,L=1)); atom('atmosphere',101325,D(T=-2,L=-1,M=1))
for p_,f in {'kilo':1000,'mega':10**6,'giga':10**9,'tera':10**12,'peta':10**15,'kibi':1024,'mebi':1024**2,'gibi':1024**3,'tebi':1024**4,'pebi':1024**5}.items():
    atom(p_+'bit '+p_+'bits',f,D()); atom(p_+'byte '+p_+'bytes',8*f,D())
atom('bits',1,D()); atom('bytes',8,D())
OPS='·*/()^'
def tokenize(s):
    toks=[];i=0
    while i<len(s):
        c=s[i]
        if c in OPS: toks.append(c); i+=1
        elif c==' ': i+=1
        elif c=='-' and toks and toks[-1] in ('^','('): 
            j=i+1
            while j<len(s) and s[j].isdigit(): j+=1
            toks.append(s[i:j]); i=j
        elif c.isdigit() and (not toks or toks[-1] in OPS):
            j=i
            while j<len(s) and s[j].isdigit(): j+=1
            toks.append(s[i:j]); i=j
        else:
            j=i
            while j<len(s) and s[j] not in OPS and s[j]!=' ': j+=1
            toks.append(s[i:j]); i=j
    return toks
def mul(a,b): return [(q1*q2,k1+k2,tuple(x+y for x,y in zip(d1,d2))) for (q1,k1,d1) in a for (q2,k2,d2) in b]
def pw(a,n): return [(q**n,k*n,tuple(x*n for x in d)) for (q,k,d) in a]
def parse(s):
    toks=tokenize(s); pos=0
    def peek(): return toks[pos] if pos<len(toks) else None
    def exponent():
        nonlocal pos
        if peek()=='^':
            pos+=1
            if peek()=='(':
                pos+=1; n=int(toks[pos]); pos+=1
                assert toks[pos]==')'; pos+=1; return n
            n=int(toks[pos]); pos+=1; return n
        return 1
    def term():
        nonlocal pos
        tk=peek()
        if tk is None: raise ValueError('eof')
        if tk=='/' and pos==0:
            pos+=1
            return pw(term(),-1)
        if tk=='(':
            pos+=1; v=expr(); assert peek()==')'; pos+=1
            return pw(v,exponent())
        if tk in OPS: raise ValueError('op '+tk)
        pos+=1
        if re.fullmatch(r'\d+',tk):
            if tk=='1': return [(F(1),0,(0,)*7)]
            raise ValueError('num')
        mm=re.fullmatch(r'(.*?[^\d])(\d+)',tk)
        n=1
        name=tk
        if name not in ATOMS and mm: name,n=mm.group(1),int(mm.group(2))
        if name not in ATOMS: raise KeyError(name)
        e=exponent()
        return pw(ATOMS[name],n*e)
    def expr():
        nonlocal pos
        v=term()
        while peek() is not None and peek()!=')':
            if peek() in ('·','*'): pos+=1; v=mul(v,term())
            elif peek()=='/': pos+=1; v=mul(v,pw(term(),-1))
            else: v=mul(v,term())
        return v
    v=expr()
    if pos!=len(toks): raise ValueError('trailing')
    return v


def readings(s, dims):
    try:
        return [c for c in parse(s) if tuple(c[2]) == tuple(dims)]
    except Exception:
        return []


PI = F(314159265358979323846264338327950288419716939937510, 10 ** 50)


def value(m):
    q, k, d = m
    return q * (PI ** k if k >= 0 else 1 / PI ** (-k))
