"""C19: namespace-scope objects using every table-backed facility of the real library before main(),
built with both compilers at -O0 and -O2, compared with the same expressions evaluated inside main().

Two probe programs per configuration, so that a crash is attributable:
  tables  : Abbreviation / operator<< / ParseEnumeration for all enumerations; ConsistentUnit /
            RelatedUnitSystem / Standard for all unit types; quantities constructed in their standard
            unit, printed and compared
  convert : Convert between two units for every unit type; quantities constructed from, and read in,
            a non-standard unit
Thorough tier adds a two-translation-unit program linked in both orders.
"""
import json
import os
import subprocess
from concurrent.futures import ThreadPoolExecutor

QUANTITIES = [  # (class, unit type, args before the unit, a second value)
    ('Time', 'Time', '1.5', '2.5'), ('Length', 'Length', '1.5', '2.5'), ('Mass', 'Mass', '1.5', '2.5'),
    ('Temperature', 'Temperature', '1.5', '2.5'), ('Force', 'Force', 'PhQ::Vector<>{1.5, -2.5, 3.5}', 'PhQ::Vector<>{0.5, 1.0, 2.0}'),
    ('Stress', 'Pressure', 'PhQ::SymmetricDyad<>{1.0, 2.0, 3.0, 4.0, 5.0, 6.0}', 'PhQ::SymmetricDyad<>{6.0, 5.0, 4.0, 3.0, 2.0, 1.0}'),
]

PRELUDE = r'''
#include <cstdio>
#include <sstream>
#include <string>
%(includes)s
using namespace PhQ;
namespace probe {
static std::string Hex(const std::string& s) {
  static const char* d = "0123456789abcdef"; std::string o;
  for (unsigned char c : s) { o += d[c >> 4]; o += d[c & 15]; }
  return o;
}
template <typename E> std::string Enum(const E e, const char* spelling) {
  std::ostringstream os;
  os << Abbreviation(e) << "|";
  const auto p = ParseEnumeration<E>(spelling);
  os << (p.has_value() ? static_cast<long>(p.value()) : -1L) << "|" << e;
  return os.str();
}
template <typename U> std::string Sys(const U u) {
  std::ostringstream os;
  for (int s = 0; s < 4; ++s) os << static_cast<long>(ConsistentUnit<U>(static_cast<UnitSystem>(s))) << ",";
  const auto r = RelatedUnitSystem(u);
  os << (r.has_value() ? static_cast<long>(r.value()) : -1L) << "," << static_cast<long>(Standard<U>) << ","
     << RelatedDimensions<U>.Print();
  return os.str();
}
template <typename Q> std::string Quant(const Q& a, const Q& b) {
  std::ostringstream os;
  os << a.Print() << "|" << a.JSON() << "|" << (a == b) << (a != b) << (a < b) << (a > b) << (a <= b) << (a >= b) << "|" << a;
  return os.str();
}
static int bad = 0, good = 0;
static void Check(const char* what, const std::string& before, const std::string& inside) {
  if (before == inside) { ++good; } else { ++bad; std::printf("DIFF %%s before-main=%%s in-main=%%s\n", what, Hex(before).c_str(), Hex(inside).c_str()); }
}
}  // namespace probe
'''


def c_str(s):
    return '"' + ''.join('\\x%02x""' % b if (b < 32 or b > 126 or chr(b) in '"\\?') else chr(b) for b in s.encode('utf-8')) + '"'


def all_includes(inc):
    hs = sorted(fn for fn in os.listdir(os.path.join(inc, 'PhQ')) if fn.endswith('.hpp'))
    hs += sorted('Unit/' + fn for fn in os.listdir(os.path.join(inc, 'PhQ', 'Unit')) if fn.endswith('.hpp'))
    return '\n'.join('#include "PhQ/%s"' % h for h in hs)


def gen(tables, inc, kind, part=None):
    """Source of one probe. `part`: None = whole program; 'a'/'b' = the two halves of the two-TU
    program ('a' also holds main)."""
    units = tables['units']
    enums = units + tables['enums']
    decls, checks = [], []
    if kind == 'tables':
        for k, u in enumerate(enums):
            t = 'PhQ::' + u['name']
            names = dict((v, n) for n, v in u['enumerators'])
            for (v, ab) in dict(u['abbreviations'][:3] + u['abbreviations'][-1:]).items():
                e = '%s::%s' % (t, names[v])
                expr = 'probe::Enum(%s, %s)' % (e, c_str(ab))
                decls.append(('e_%d_%d' % (k, v), expr, '%s %s' % (u['name'], names[v])))
        for k, u in enumerate(units):
            t = 'PhQ::' + u['name']
            names = dict((v, n) for n, v in u['enumerators'])
            for v in sorted({u['standard'], u['enumerators'][-1][1]}):
                decls.append(('s_%d_%d' % (k, v), 'probe::Sys(%s::%s)' % (t, names[v]), 'systems %s' % u['name']))
        for (cls, ut, a, b) in QUANTITIES:
            u = next(x for x in units if x['name'] == 'Unit::' + ut)
            names = dict((v, n) for n, v in u['enumerators'])
            std = 'PhQ::Unit::%s::%s' % (ut, names[u['standard']])
            decls.append(('q_' + cls, 'probe::Quant(PhQ::%s<>{%s, %s}, PhQ::%s<>{%s, %s})' % (cls, a, std, cls, b, std),
                          'quantity in standard unit ' + cls))
    else:
        for k, u in enumerate(units):
            t = 'PhQ::' + u['name']
            names = dict((v, n) for n, v in u['enumerators'])
            others = [v for _, v in u['enumerators'] if v != u['standard']]
            if not others:
                continue
            a = others[0]
            b = others[-1] if len(others) > 1 else u['standard']
            decls.append(('c_%d' % k, 'PhQ::Print(PhQ::Convert(1.5, %s::%s, %s::%s))' % (t, names[a], t, names[b]),
                          'Convert %s %s->%s' % (u['name'], names[a], names[b])))
        for (cls, ut, a, b) in QUANTITIES:
            u = next(x for x in units if x['name'] == 'Unit::' + ut)
            names = dict((v, n) for n, v in u['enumerators'])
            others = [v for _, v in u['enumerators'] if v != u['standard']]
            o1 = 'PhQ::Unit::%s::%s' % (ut, names[others[0]])
            o2 = 'PhQ::Unit::%s::%s' % (ut, names[others[-1]])
            decls.append(('q_' + cls, 'probe::Quant(PhQ::%s<>{%s, %s}, PhQ::%s<>{%s, %s}) + PhQ::%s<>{%s, %s}.Print(%s)' % (
                cls, a, o1, cls, b, o2, cls, a, o1, o2), 'quantity in non-standard units ' + cls))
    if part is not None:
        half = len(decls) // 2
        mine = decls[:half] if part == 'a' else decls[half:]
    else:
        mine = decls
    out = [PRELUDE % {'includes': all_includes(inc)}]
    ns = 'part_' + (part or 'x')
    out.append('namespace %s {' % ns)
    for (n, expr, what) in mine:
        out.append('const std::string %s = %s;' % (n, expr))
    out.append('int Verify() {')
    for (n, expr, what) in mine:
        out.append('  probe::Check(%s, %s, %s);' % (c_str(what), n, expr))
    out.append('  return 0;\n}\n}')
    if part == 'a':
        out.append('namespace part_b { int Verify(); }')
    if part in (None, 'a'):
        out.append('int main() {\n  %s::Verify();' % ns)
        if part == 'a':
            out.append('  part_b::Verify();')
        out.append('  std::printf("RESULT good=%d bad=%d\\n", probe::good, probe::bad);\n  return probe::bad ? 1 : 0;\n}')
    src = '\n'.join(out)
    if part == 'b':
        # counters live in TU a
        src = src.replace('static int bad = 0, good = 0;', 'extern int bad, good;')
    if part == 'a':
        src = src.replace('static int bad = 0, good = 0;', 'int bad = 0, good = 0;')
    return src


def configs(tier):
    cfg = []
    for cxx in ('g++', 'clang++-14'):
        for opt in ('-O0', '-O2'):
            cfg.append((cxx, opt))
    if tier == 'quick':
        return [('g++', '-O0'), ('g++', '-O2'), ('clang++-14', '-O0'), ('clang++-14', '-O2')]
    return cfg


def run_all(cache, inc, tier, workdir):
    tables = json.load(open(os.path.join(cache, 'tables.json')))
    os.makedirs(workdir, exist_ok=True)
    jobs = []
    for kind in ('tables', 'convert'):
        src = os.path.join(workdir, kind + '.cpp')
        open(src, 'w').write(gen(tables, inc, kind))
        for (cxx, opt) in configs(tier):
            jobs.append({'kind': kind, 'cxx': cxx, 'opt': opt, 'srcs': [src], 'order': 'single-tu'})
    if tier != 'quick':
        for kind in ('tables', 'convert'):
            pa = os.path.join(workdir, kind + '_a.cpp')
            pb = os.path.join(workdir, kind + '_b.cpp')
            open(pa, 'w').write(gen(tables, inc, kind, 'a'))
            open(pb, 'w').write(gen(tables, inc, kind, 'b'))
            for (cxx, opt) in configs(tier):
                jobs.append({'kind': kind, 'cxx': cxx, 'opt': opt, 'srcs': [pa, pb], 'order': 'two-tu a,b'})
                jobs.append({'kind': kind, 'cxx': cxx, 'opt': opt, 'srcs': [pb, pa], 'order': 'two-tu b,a'})

    def run(j):
        tag = '%s_%s_%s_%s' % (j['kind'], j['cxx'].replace('+', 'x'), j['opt'].strip('-'), j['order'].replace(' ', '').replace(',', ''))
        exe = os.path.join(workdir, tag)
        objs = []
        for s in j['srcs']:
            o = os.path.join(workdir, tag + '_' + os.path.basename(s) + '.o')
            p = subprocess.run([j['cxx'], '-std=c++17', j['opt'], '-w', '-I', inc, '-c', s, '-o', o],
                               stdout=subprocess.PIPE, stderr=subprocess.STDOUT, text=True)
            if p.returncode != 0:
                j.update(status='compile-error', detail=p.stdout[-1500:])
                return j
            objs.append(o)
        p = subprocess.run([j['cxx'], '-o', exe] + objs, stdout=subprocess.PIPE, stderr=subprocess.STDOUT, text=True)
        if p.returncode != 0:
            j.update(status='link-error', detail=p.stdout[-1500:])
            return j
        try:
            r = subprocess.run([exe], stdout=subprocess.PIPE, stderr=subprocess.PIPE, text=True, timeout=120)
        except subprocess.TimeoutExpired:
            j.update(status='timeout', detail='')
            return j
        res = [l for l in r.stdout.splitlines() if l.startswith('RESULT')]
        if r.returncode == 0 and res:
            j.update(status='ok', detail=res[0])
        elif res:
            j.update(status='differs', detail='\n'.join(r.stdout.splitlines()[:5]))
        else:
            j.update(status='crash', detail='exit status %d before main() finished: %s' % (r.returncode, (r.stderr or r.stdout)[-300:]))
        for f in objs + [exe]:
            try:
                os.unlink(f)
            except OSError:
                pass
        return j
    with ThreadPoolExecutor(max_workers=16) as ex:
        return list(ex.map(run, jobs))


if __name__ == '__main__':
    import sys
    for j in run_all(sys.argv[1], '/repo/include', sys.argv[2] if len(sys.argv) > 2 else 'quick', '/tmp/c19/work'):
        print(j['kind'], j['cxx'], j['opt'], j['order'], j['status'], j['detail'][:200].replace('\n', ' / '))
