// printsweep: C15 failing-input search on the real PhQ::Print / PhQ::ParseNumber (native types).
//
//   printsweep range <lo> <hi>                 all float bit patterns in [lo, hi)
//   printsweep near <32|64|80> <N>             N neighbours each side of every cascade threshold
//   printsweep random <32|64|80> <seed> <cnt>  random bit patterns (finite, normal)
// argv tail (always): three hexfloats c1 c2 c3 = the smallest long doubles >= 0.1, 0.01, 0.001 (computed
// exactly by the caller), used to decide "|x| >= 10^-k" exactly for every type.
//
// For every finite normal x: the text must have max_digits10+1 significant digits, be in fixed
// notation iff 0.001 <= |x| < 10000, and parse back to x bit for bit. Zeros must print as "0".
// Output: "FAIL <kind> <fmt> <hexfloat> <text>" (at most 40 per kind and format), then
// "DONE <fmt> checked=<n> digits=<n> notation=<n> roundtrip=<n> zero=<n>".
#include <cmath>
#include <cstdint>
#include <cstdio>
#include <cstdlib>
#include <cstring>
#include <limits>
#include <random>
#include <string>

#include "PhQ/Base.hpp"

static long double C1, C2, C3;
static unsigned long long fails[4];
static unsigned long long checked;

template <typename T> static int FmtOf() { return sizeof(T) == 4 ? 32 : sizeof(T) == 8 ? 64 : 80; }

static void Report(int kind, int fmt, long double x, const std::string& text) {
  static const char* names[] = {"digits", "notation", "roundtrip", "zero"};
  if (fails[kind]++ < 40) std::printf("FAIL %s %d %La %s\n", names[kind], fmt, x, text.c_str());
}

template <typename T> static void Check(const T x) {
  const int fmt = FmtOf<T>();
  if (!std::isfinite(x)) return;
  const std::string s = PhQ::Print(x);
  if (x == 0) {
    ++checked;
    if (s != "0") Report(3, fmt, x, s);
    return;
  }
  if (!std::isnormal(x)) return;
  ++checked;
  // significant digits of the mantissa
  int digits = 0;
  bool leading = true, sci = false;
  for (const char c : s) {
    if (c == 'e' || c == 'E') { sci = true; break; }
    if (c >= '0' && c <= '9') {
      if (leading && c == '0') continue;
      leading = false;
      ++digits;
    }
  }
  if (digits != std::numeric_limits<T>::max_digits10 + 1) Report(0, fmt, x, s);
  const long double a = std::fabs(static_cast<long double>(x));
  const bool want_fixed = a >= C3 && a < 10000.0L;
  if (sci == want_fixed) Report(1, fmt, x, s);
  const std::optional<T> back = PhQ::ParseNumber<T>(s);
  if (!back.has_value() || std::memcmp(&back.value(), &x, sizeof(T) == 16 ? 10 : sizeof(T)) != 0)
    Report(2, fmt, x, s);
}

template <typename T> static void Near(int n) {
  const long double thresholds[] = {C3, C2, C1, 1.0L, 10.0L, 100.0L, 1000.0L, 10000.0L,
                                    0.001L, 0.01L, 0.1L, static_cast<long double>(0.001),
                                    static_cast<long double>(0.01), static_cast<long double>(0.1)};
  for (const long double t : thresholds) {
    for (int sign = -1; sign <= 1; sign += 2) {
      T x = static_cast<T>(t);
      T y = x;
      Check<T>(static_cast<T>(sign) * x);
      for (int k = 0; k < n; ++k) {
        x = std::nextafter(x, std::numeric_limits<T>::infinity());
        y = std::nextafter(y, static_cast<T>(0));
        Check<T>(static_cast<T>(sign) * x);
        Check<T>(static_cast<T>(sign) * y);
      }
    }
  }
}

template <typename T> static void Random(unsigned long long seed, unsigned long long count) {
  std::mt19937_64 gen(seed);
  for (unsigned long long i = 0; i < count; ++i) {
    T x;
    if constexpr (sizeof(T) == 4) {
      const uint32_t b = static_cast<uint32_t>(gen());
      std::memcpy(&x, &b, 4);
    } else if constexpr (sizeof(T) == 8) {
      const uint64_t b = gen();
      std::memcpy(&x, &b, 8);
    } else {
      // x87 extended: explicit integer bit set for normal numbers
      const uint64_t m = gen() | 0x8000000000000000ULL;
      uint16_t se = static_cast<uint16_t>(gen());
      if ((se & 0x7fff) == 0) se |= 1;          // no zeros / pseudo-denormals
      if ((se & 0x7fff) == 0x7fff) se ^= 0x4000;  // no infinities / NaNs
      unsigned char buf[16] = {0};
      std::memcpy(buf, &m, 8);
      std::memcpy(buf + 8, &se, 2);
      std::memcpy(&x, buf, 16);
    }
    Check<T>(x);
    // a second stream concentrated on the printable range 1e-6 .. 1e7
    if ((i & 3) == 0) {
      const double e = std::ldexp(static_cast<double>(gen() >> 11), -53) * 13.0 - 6.0;
      const long double v = std::pow(10.0L, static_cast<long double>(e)) *
                            (1.0L + std::ldexp(static_cast<long double>(gen() >> 1), -63));
      Check<T>(static_cast<T>((gen() & 1) ? -v : v));
    }
  }
}

int main(int argc, char** argv) {
  if (argc < 5) return 2;
  C1 = std::strtold(argv[argc - 3], nullptr);
  C2 = std::strtold(argv[argc - 2], nullptr);
  C3 = std::strtold(argv[argc - 1], nullptr);
  const std::string mode = argv[1];
  int fmt = 32;
  if (mode == "range") {
    const unsigned long long lo = std::strtoull(argv[2], nullptr, 0), hi = std::strtoull(argv[3], nullptr, 0);
    for (unsigned long long b = lo; b < hi; ++b) {
      const uint32_t bits = static_cast<uint32_t>(b);
      float x;
      std::memcpy(&x, &bits, 4);
      Check<float>(x);
    }
  } else if (mode == "near") {
    fmt = std::atoi(argv[2]);
    const int n = std::atoi(argv[3]);
    if (fmt == 32) Near<float>(n); else if (fmt == 64) Near<double>(n); else Near<long double>(n);
  } else if (mode == "random") {
    fmt = std::atoi(argv[2]);
    const unsigned long long seed = std::strtoull(argv[3], nullptr, 0), cnt = std::strtoull(argv[4], nullptr, 0);
    if (fmt == 32) Random<float>(seed, cnt); else if (fmt == 64) Random<double>(seed, cnt); else Random<long double>(seed, cnt);
  } else {
    return 2;
  }
  std::printf("DONE %d checked=%llu digits=%llu notation=%llu roundtrip=%llu zero=%llu\n", fmt, checked, fails[0],
              fails[1], fails[2], fails[3]);
  return 0;
}
