"""Correspondence check: the generated Lean definitions (evaluated with the bit-exact soft-float of
Core/Fl.lean by lean/Driver.lean) against the real library instantiated at float / double /
long double (the same generated entry functions compiled with -DVERIF_NATIVE), on the same inputs.

Numbers are compared bit for bit (sign of zero included). Only where the root of an output is a
libm call (acos, pow(x,y), cbrt, exp, log...) is the comparison approximate: the Lean side reports
the exact argument, a high-precision reference is computed here, and the native result must be
within LIBM_ULPS of it.
"""
import json
import re
import os
import random
import subprocess
import sys
from concurrent.futures import ThreadPoolExecutor
from fractions import Fraction

HERE = os.path.dirname(os.path.abspath(__file__))
VERIF = os.path.dirname(HERE)
sys.path.insert(0, os.path.join(VERIF, 'extract'))
import sexpr  # noqa: E402

FMT = {32: (24, 127), 64: (53, 1023), 80: (64, 16383)}
LIBM_ULPS = 4   # glibc documents up to 4 ulps for cbrt(double) on x86-64 (2.01 observed in 300 000 samples)
NSHARDS = 16
VARIANTS = {
    'O1': ['-O1'],
    'O0': ['-O0'],
    'O2': ['-O2'],
    'san': ['-O0', '-fsanitize=address,undefined', '-fno-sanitize-recover=all', '-D_GLIBCXX_ASSERTIONS'],
}


class HarnessError(Exception):
    pass


def build_native(cache, repo='/repo', variant='O1', cxx='g++'):
    """Build the native harness for this cache entry (same generated sources as the tracer)."""
    import fcntl
    exe = os.path.join(cache, 'native_%s_%s' % (cxx.replace('+', 'x'), variant))
    if os.path.exists(exe):
        return exe
    lock = open(os.path.join(cache, 'native_%s.lock' % variant), 'w')
    fcntl.flock(lock, fcntl.LOCK_EX)       # one builder at a time; the others find the result
    try:
        if os.path.exists(exe):
            return exe
        return _build_native(cache, repo, variant, cxx, exe)
    finally:
        fcntl.flock(lock, fcntl.LOCK_UN)
        lock.close()


def _build_native(cache, repo, variant, cxx, exe):
    inc = os.path.join(repo, 'include')
    extract = os.path.join(VERIF, 'extract')
    flags = [cxx, '-std=c++17', '-w', '-fno-fast-math', '-ffp-contract=off', '-DVERIF_NATIVE',
             '-I', extract, '-I', inc] + VARIANTS[variant]
    objs = []
    jobs = []
    for i in range(NSHARDS):
        o = os.path.join(cache, 'n_%s_%02d.o' % (variant, i))
        objs.append(o)
        jobs.append(flags + ['-c', os.path.join(cache, 'gen', 'entries_%02d.cpp' % i), '-o', o])
    o = os.path.join(cache, 'n_%s_main.o' % variant)
    objs.append(o)
    jobs.append(flags + ['-c', os.path.join(extract, 'trace_main.cpp'), '-o', o])
    errs = []

    def run(cmd):
        p = subprocess.run(cmd, stdout=subprocess.PIPE, stderr=subprocess.PIPE, text=True)
        if p.returncode != 0:
            errs.append(p.stderr[-3000:])
    with ThreadPoolExecutor(max_workers=17) as ex:
        list(ex.map(run, jobs))
    if errs:
        raise HarnessError('native harness does not compile:\n' + '\n'.join(errs))
    link = [cxx, '-o', exe] + objs
    if variant == 'san':
        link += ['-fsanitize=address,undefined']
    p = subprocess.run(link, stdout=subprocess.PIPE, stderr=subprocess.PIPE, text=True)
    if p.returncode != 0:
        raise HarnessError('native harness does not link:\n' + p.stderr[-3000:])
    for o in objs:
        os.unlink(o)
    return exe


# ---- numbers ----------------------------------------------------------------------------------------

def canon(fr, neg_zero=False):
    """Canonical text of an exact value: 'M E' with M odd; '0 0' / '-0 0'."""
    if fr == 0:
        return '-0 0' if neg_zero else '0 0'
    neg, m, e = sexpr.dyadic(fr)
    return '%s%d %d' % ('-' if neg else '', m, e)


def canon_of_hex(h):
    s = h.strip().lower()
    if 'nan' in s:
        return 'nan'
    if 'inf' in s:
        return '-inf' if s.startswith('-') else 'inf'
    fr = sexpr.hex_to_fraction(s)
    return canon(fr, neg_zero=s.startswith('-'))


def frac_of_canon(c):
    m, e = c.split()
    return Fraction(int(m)) * Fraction(2) ** int(e)


def hex_of(neg, m, e):
    """C99 hex float text of ±m·2^e (accepted by strtold)."""
    return '%s0x%xp%+d' % ('-' if neg else '', m, e)


def lean_tok(neg, m, e):
    return '%s%d:%d' % ('-' if neg else '', m, e)


def random_value(rng, fmt, kind):
    """A value representable in `fmt`: (neg, m, e)."""
    p, emax = FMT[fmt]
    emin = 1 - emax
    neg = rng.random() < 0.35
    if kind == 'special':
        c = rng.choice(['zero', 'negzero', 'one', 'sub', 'tiny', 'huge', 'max', 'int'])
        if c == 'zero':
            return (False, 0, 0)
        if c == 'negzero':
            return (True, 0, 0)
        if c == 'one':
            return (neg, 1, 0)
        if c == 'sub':
            return (neg, rng.getrandbits(p - 1) | 1, emin - (p - 1))
        if c == 'tiny':
            return (neg, (1 << (p - 1)) | rng.getrandbits(p - 1), emin - (p - 1) + rng.randrange(0, 8))
        if c == 'huge':
            return (neg, (1 << (p - 1)) | rng.getrandbits(p - 1), emax - (p - 1) - rng.randrange(0, 8))
        if c == 'max':
            return (neg, (1 << p) - 1, emax - (p - 1))
        return (neg, rng.randrange(0, 1000), 0)
    bits = rng.choice([p, p, p, rng.randrange(1, p + 1), rng.randrange(1, 12)])
    m = (1 << (bits - 1)) | rng.getrandbits(bits - 1) if bits > 1 else 1
    if kind == 'moderate':
        lead = rng.randrange(-12, 13)
    elif kind == 'wide':
        lead = rng.randrange(emin, emax + 1)
    else:  # medium
        lead = rng.randrange(-60, 61)
    lead = max(emin, min(emax, lead))
    return (neg, m, lead - (bits - 1))


def gen_inputs(rng, fmts, n, positive=False):
    r = rng.random()
    kinds = ['moderate'] * n
    if r < 0.15:
        kinds = ['medium'] * n
    elif r < 0.25:
        kinds = [rng.choice(['moderate', 'wide']) for _ in range(n)]
    elif r < 0.40:
        kinds = [rng.choice(['moderate', 'moderate', 'special']) for _ in range(n)]
    vals = [random_value(rng, fmts[i], k) for i, k in enumerate(kinds)]
    if rng.random() < 0.15 and n >= 2:
        # ties between inputs (branches of lexicographic comparisons, parallel vectors ...)
        half = n // 2
        for i in range(half):
            if rng.random() < 0.8 and fmts[half + i] == fmts[i]:
                vals[half + i] = vals[i]
    if positive:
        vals = [(False, m, e) for (_, m, e) in vals]
    return vals


# ---- reference for libm -------------------------------------------------------------------------------

def libm_reference(op, args):
    import mpmath
    mpmath.mp.prec = 400
    xs = []
    for a in args:
        if a in ('nan', 'inf', '-inf'):
            return None
        xs.append(mpmath.mpf(frac_of_canon(a).numerator) / mpmath.mpf(frac_of_canon(a).denominator))
    x = xs[0]
    try:
        if op == 'acos':
            if abs(x) > 1:
                return 'nan'
            return mpmath.acos(x)
        if op == 'cbrt':
            return mpmath.cbrt(x) if x >= 0 else -mpmath.cbrt(-x)
        if op == 'exp':
            return mpmath.exp(x)
        if op == 'log':
            return mpmath.log(x) if x > 0 else None
        if op == 'log2':
            return mpmath.log(x, 2) if x > 0 else None
        if op == 'log10':
            return mpmath.log10(x) if x > 0 else None
        if op == 'pow':
            if x <= 0:
                return None
            return mpmath.power(x, xs[1])
    except Exception:
        return None
    return None


def within_ulps(native_canon, ref, fmt, ulps):
    import mpmath
    if native_canon in ('nan', 'inf', '-inf'):
        return None
    p, emax = FMT[fmt]
    fr = frac_of_canon(native_canon)
    nat = mpmath.mpf(fr.numerator) / mpmath.mpf(fr.denominator)
    if ref == 0:
        return nat == 0
    e = mpmath.floor(mpmath.log(abs(ref), 2))
    e = max(e, 1 - emax)
    ulp = mpmath.mpf(2) ** (e - (p - 1))
    if abs(ref) > mpmath.mpf(2) ** (emax + 1) or abs(ref) < mpmath.mpf(2) ** (1 - emax - p):
        return None  # overflow / underflow region: not compared
    return abs(nat - ref) <= ulps * ulp


# ---- processes -----------------------------------------------------------------------------------------

class Native:
    def __init__(self, exe):
        env = dict(os.environ, ASAN_OPTIONS='detect_leaks=0:abort_on_error=0', UBSAN_OPTIONS='print_stacktrace=1')
        self.p = subprocess.Popen([exe], stdin=subprocess.PIPE, stdout=subprocess.PIPE,
                                  stderr=subprocess.PIPE, text=True, env=env)

    def run_batch(self, reqs):
        """reqs: list of (index, fmt, [hex...], [params]) -> list of dicts (None if the process died)."""
        data = ''.join('%d %d %s %s\n' % (i, f, ' '.join(v), ' '.join('@%d' % p for p in ps))
                       for (i, f, v, ps) in reqs)
        out, err = self.p.communicate(data)
        lines = out.splitlines()
        res = []
        for k in range(len(reqs)):
            if k < len(lines):
                try:
                    res.append(json.loads(lines[k]))
                except Exception:
                    res.append(None)
            else:
                res.append(None)
        return res, err, self.p.returncode


def run_lean(lean_dir, reqs):
    """reqs: list of (id, fmt, [tokens]) -> list of output lines."""
    data = ''.join('%s\t%d\t%s\n' % (i, f, ' '.join(t)) for (i, f, t) in reqs)
    p = subprocess.run(['lake', 'env', 'lean', '--run', 'Driver.lean'], cwd=lean_dir, input=data,
                       stdout=subprocess.PIPE, stderr=subprocess.PIPE, text=True)
    if p.returncode != 0:
        raise HarnessError('Lean driver failed: ' + p.stderr[-2000:])
    lines = p.stdout.splitlines()
    if not lines or not lines[0].startswith('ready'):
        raise HarnessError('Lean driver did not start: ' + p.stdout[:500] + p.stderr[-500:])
    return lines[1:]


STR_NUM_RE = re.compile(r'⟦([^⟧]*)⟧')


def compare_outputs(native_rec, lean_line, fmt, printed=None):
    """Return (ok, detail, n_exact, n_libm). `printed`, when given, maps (fmt, canonical number text) to
    the text PhQ::Print gives that number; string outputs are then compared too."""
    if native_rec is None:
        return False, 'native harness produced no output (crash?)', 0, 0
    if native_rec.get('error'):
        return False, 'native error: ' + native_rec['error'], 0, 0
    outs = native_rec['outs']
    louts = lean_line.split('\t') if lean_line != '' else []
    if lean_line in ('none', 'unknown-entry', 'bad-input', 'bad-request'):
        return False, 'lean: ' + lean_line, 0, 0
    if len(outs) != len(louts):
        return False, 'slot count: native %d lean %d' % (len(outs), len(louts)), 0, 0
    n_exact = n_libm = 0
    for o, l in zip(outs, louts):
        ty = o['l'].rsplit(':', 1)[1]
        if ty.startswith('num'):
            nat = canon_of_hex(o['t'])
            if l.startswith('libm:'):
                parts = l.split(':')
                op = parts[1]
                ofmt = int(parts[2].split('>')[-1])
                ref = libm_reference(op, parts[3:])
                n_libm += 1
                if ref is None:
                    continue
                if isinstance(ref, str):
                    if nat != ref:
                        return False, '%s: native %s, reference %s' % (o['l'], nat, ref), n_exact, n_libm
                    continue
                ok = within_ulps(nat, ref, ofmt, LIBM_ULPS)
                if ok is False:
                    return False, '%s: native %s not within %d ulp of %s(%s)' % (
                        o['l'], nat, LIBM_ULPS, op, parts[3:]), n_exact, n_libm
                continue
            if l == 'libm-inner':
                n_libm += 1
                continue
            n_exact += 1
            if nat != l:
                return False, '%s: native %s lean %s' % (o['l'], nat, l), n_exact, n_libm
        elif ty == 'bool':
            if o['t'] != l:
                return False, '%s: native %s lean %s' % (o['l'], o['t'], l), n_exact, n_libm
            n_exact += 1
        elif ty == 'str' and printed is not None and l.startswith('str:'):
            bad = []

            def sub(m):
                t = printed.get((fmt, m.group(1)))
                if t is None:
                    bad.append(m.group(1))
                    return '?'
                return t
            want = STR_NUM_RE.sub(sub, l[4:])
            if bad:
                continue   # libm inside a printed number: not comparable text for text
            n_exact += 1
            if o['t'] != want:
                return False, '%s: native %r, model %r' % (o['l'], o['t'], want), n_exact, n_libm
        else:
            # ints (hashes, enumerators), strings, dims: compared by the property-specific checks
            continue
    return True, '', n_exact, n_libm


_IN_RE = None


def input_formats(tree, n, default):
    """Format of each input variable, read off the `(in i fmt)` leaves of the traced tree."""
    import re
    global _IN_RE
    if _IN_RE is None:
        _IN_RE = re.compile(r'\(in (\d+) (\d+)\)')
    fm = [default] * n
    for i, f in _IN_RE.findall(json.dumps(tree)):
        if int(i) < n:
            fm[int(i)] = int(f)
    return fm


def select_entries(model_entries, pred):
    return [e for e in model_entries if pred(e)]


def correspond(cache, lean_dir, entries, seed, per_entry=2, variant='O1', fmts=(32, 64, 80),
               positive=False, exe=None, corpus=None, str_printer=None):
    """Run the correspondence on the given model entries. Returns a result dict."""
    rng = random.Random(seed)
    if exe is None:
        exe = build_native(cache, variant=variant)
    reqs_native, reqs_lean, meta = [], [], []
    for e in entries:
        for inst in e['instances']:
            for fmt in fmts:
                v = inst['fmts'].get(str(fmt))
                if v is None:
                    continue
                if e['meta']['kind'] == 'convert-copy' and e['meta']['args'] == ['num']:
                    continue  # emitted in compact form; covered through the kernels
                n = v['n_in']
                infm = input_formats(v['tree'], n, fmt)
                for _ in range(per_entry):
                    vals = gen_inputs(rng, infm, n, positive)
                    iid = e['id'] + (('@' + ','.join(str(p) for p in inst['params'])) if inst['params'] else '')
                    reqs_native.append((e['index'], fmt, [hex_of(*x) for x in vals], inst['params']))
                    reqs_lean.append((iid, fmt, [lean_tok(*x) for x in vals]))
                    meta.append((iid, fmt, vals))
    for c in (corpus or []):
        reqs_native.append((c['index'], c['fmt'], c['hex'], c.get('params', [])))
        reqs_lean.append((c['id'], c['fmt'], c['lean']))
        meta.append((c['id'], c['fmt'], None))
    # native in parallel slices
    nslices = 16
    slices = [list(range(k, len(reqs_native), nslices)) for k in range(nslices)]

    def run_slice(idxs):
        if not idxs:
            return [], '', 0
        nat = Native(exe)
        return nat.run_batch([reqs_native[i] for i in idxs])
    with ThreadPoolExecutor(max_workers=nslices + 1) as ex:
        lean_future = ex.submit(run_lean, lean_dir, reqs_lean)
        nat_results = list(ex.map(run_slice, slices))
        lean_lines = lean_future.result()
    native = [None] * len(reqs_native)
    crashes = []
    for idxs, (res, err, rc) in zip(slices, nat_results):
        for i, r in zip(idxs, res):
            native[i] = r
        if rc not in (0, None) and idxs:
            crashes.append({'returncode': rc, 'stderr': err[-3000:]})
    disagreements = []
    n_exact = n_libm = 0
    hist = {}
    printed = None
    if str_printer is not None:
        want = set()
        for k, (iid, fmt, vals) in enumerate(meta):
            l = lean_lines[k] if k < len(lean_lines) else ''
            for part in l.split('\t'):
                if part.startswith('str:'):
                    for t in STR_NUM_RE.findall(part):
                        if not t.startswith('libm'):
                            want.add((fmt, t))
        printed = str_printer(sorted(want))
    for k, (iid, fmt, vals) in enumerate(meta):
        l = lean_lines[k] if k < len(lean_lines) else 'missing'
        ok, detail, ne, nl = compare_outputs(native[k], l, fmt, printed)
        n_exact += ne
        n_libm += nl
        if vals:
            for (_, m, e) in vals:
                lead = e + m.bit_length() - 1
                b = 'zero' if m == 0 else ('[-12,12]' if -12 <= lead <= 12 else '[-60,60]' if -60 <= lead <= 60
                                           else '<-60' if lead < 0 else '>60')
                hist[b] = hist.get(b, 0) + 1
        if not ok:
            disagreements.append({'id': iid, 'fmt': fmt, 'detail': detail,
                                  'native_request': '%d %d %s %s' % (
                                      reqs_native[k][0], fmt, ' '.join(reqs_native[k][2]),
                                      ' '.join('@%d' % p for p in reqs_native[k][3])),
                                  'lean_request': '%s\t%d\t%s' % (iid, fmt, ' '.join(reqs_lean[k][2])),
                                  'native': native[k], 'lean': l})
    return {'lines': len(meta), 'slots_exact': n_exact, 'slots_libm': n_libm,
            'disagreements': disagreements, 'crashes': crashes, 'exponent_histogram': hist,
            'sample_lines': [{'request': '%s\t%d\t%s' % (meta[k][0], meta[k][1], ' '.join(reqs_lean[k][2])),
                              'lean': lean_lines[k] if k < len(lean_lines) else None,
                              'native': [o['t'] for o in (native[k] or {}).get('outs', [])]}
                             for k in range(0, min(len(meta), 3))]}


if __name__ == '__main__':
    # smoke test: correspondence over all quantity entries
    import time
    sys.path.insert(0, os.path.join(VERIF, 'extract'))
    import extract
    cache = extract.ensure()
    model = json.load(open(os.path.join(cache, 'model.json')))['entries']
    sel = [e for e in model if not e['meta']['cls'].startswith('unit:')] if len(sys.argv) < 2 else \
        [e for e in model if sys.argv[1] in e['id']]
    t0 = time.time()
    res = correspond(cache, os.path.join(VERIF, 'lean'), sel, seed=int(os.environ.get('VERIF_SEED', '1')),
                     per_entry=1)
    print('lines', res['lines'], 'exact slots', res['slots_exact'], 'libm', res['slots_libm'],
          'disagreements', len(res['disagreements']), 'crashes', len(res['crashes']),
          '%.1fs' % (time.time() - t0))
    for d in res['disagreements'][:15]:
        print(d['id'], d['fmt'], d['detail'])
        print('   ', d['lean_request'])
    print(res['exponent_histogram'])
