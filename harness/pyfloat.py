"""Exact reference arithmetic for the failing-input search: round an exact rational to binary32 /
binary64 / x87-80 with round-to-nearest-even, gradual underflow and overflow to infinity.
Independent of the Lean model (it is only used to judge the *real* code's outputs)."""
from fractions import Fraction

FMT = {32: (24, 127), 64: (53, 1023), 80: (64, 16383)}


def round_to(fr, fmt):
    """Returns 'inf' / '-inf' or a Fraction (the rounded value). Zero keeps no sign here."""
    p, emax = FMT[fmt]
    if fr == 0:
        return Fraction(0)
    neg = fr < 0
    x = abs(fr)
    n, d = x.numerator, x.denominator
    e0 = n.bit_length() - d.bit_length()
    # want 2^e0 <= x < 2^(e0+1)
    if (n << max(0, -e0)) < (d << max(0, e0)):
        e0 -= 1
    q = max(e0 - (p - 1), 1 - emax - (p - 1))
    if q >= 0:
        N, D = n, d << q
    else:
        N, D = n << (-q), d
    m, r = divmod(N, D)
    if 2 * r > D or (2 * r == D and m % 2 == 1):
        m += 1
    val = Fraction(m) * Fraction(2) ** q
    if val >= Fraction(2) ** (emax + 1):
        return '-inf' if neg else 'inf'
    return -val if neg else val


def binop(op, a, b, fmt):
    if op == 'add':
        return round_to(a + b, fmt)
    if op == 'sub':
        return round_to(a - b, fmt)
    if op == 'mul':
        return round_to(a * b, fmt)
    if op == 'div':
        return round_to(a / b, fmt)
    raise ValueError(op)
