/-
PrintDriver.lean — runs the hand-written model of `PhQ::Print` / number parsing (Core/Print.lean) on
requests read from stdin:

    p <32|64|80> <[-]m:e>     -> <printed text>\t<significant digits>\t<parse-back == x>
    n <32|64|80> <text>       -> canonical `M E` text of the parsed number, or `none`

Run with: lake env lean --run PrintDriver.lean
-/
import PhQVerif.Core.Print
open PhQVerif PhQVerif.Print

def fmOf (s : String) : Option Fm :=
  if s == "32" then some .f32 else if s == "64" then some .f64 else if s == "80" then some .f80 else none

def parseFl (f : Fmt) (tok : String) : Option Fl :=
  let neg := tok.startsWith "-"
  let body := if neg then (tok.drop 1).toString else tok
  match body.splitOn ":" with
  | [ms, es] =>
    match ms.toNat?, es.toInt? with
    | some m, some e => some (Fl.roundE f neg m e)
    | _, _ => none
  | _ => none

partial def loop (h : IO.FS.Stream) : IO Unit := do
  let line ← h.getLine
  if line.isEmpty then return ()
  let toks := (line.trimAscii.toString.splitOn " ").filter (· ≠ "")
  match toks with
  | ["p", f, v] =>
    match fmOf f with
    | none => IO.println "bad-request"
    | some fm =>
      match parseFl fm.fmt v with
      | none => IO.println "bad-request"
      | some x =>
        match select fm x with
        | none => IO.println "none"
        | some pr => IO.println s!"{pr.render}\t{pr.sigDigits}\t{pr.parseBack fm == x}"
  | ["n", f, t] =>
    match fmOf f with
    | none => IO.println "bad-request"
    | some fm =>
      match parseDec fm t with
      | none => IO.println "none"
      | some x => IO.println x.toText
  | _ => IO.println "bad-request"
  loop h

def main : IO Unit := do loop (← IO.getStdin)
