/-
DimDriver.lean — runs the hand-written model of the `Dimensions` class (Props/C06.lean) on tuples
read from stdin: one line `a1 … a7 b1 … b7` per request; prints `print<TAB>cmp<TAB>hash a<TAB>hash b`.
Run with: lake env lean --run DimDriver.lean
-/
import PhQVerif.Props.C06
open PhQVerif.Props.C06

partial def loop (h : IO.FS.Stream) : IO Unit := do
  let line ← h.getLine
  if line.isEmpty then return ()
  let nums := ((line.trimAscii.toString.splitOn " ").filter (· ≠ "")).filterMap String.toInt?
  if nums.length == 14 then
    let a := nums.take 7
    let b := nums.drop 7
    let c : Nat := match DimModel.cmp a b with | .lt => 0 | .eq => 1 | .gt => 2
    IO.println s!"{DimModel.print a}\t{c}\t{DimModel.hash a}\t{DimModel.hash b}"
  else
    IO.println "bad-request"
  loop h

def main : IO Unit := do loop (← IO.getStdin)
