/-
Props/C10.lean — C10: directions are unit vectors; magnitude times direction rebuilds the vector.

Statement (properties.jsonl): a direction built from any finite vector whose squared length neither
overflows nor underflows has length one to within four ulps, is parallel to and points the same way as
the input, and is unchanged (exactly for power-of-two factors, to rounding otherwise) by positive
rescaling of the input; built from the zero vector it is exactly zero. For every vector-valued
quantity, in two and three dimensions, the magnitude has the scalar quantity type of the same
dimensions and the Euclidean norm as value, typed component accessors return the matching components,
and magnitude times direction reconstructs the quantity to a few ulps.

Proved, for every traced entry point that constructs, returns or `Set`s a direction (174 rows:
components, array, vector, each vector quantity's `Direction()`, 2-D/3-D conversion, cross product,
converting constructors) and all real inputs: it is the normalising tree — squared length
`S = Σ cᵢ²` compared with zero, `cᵢ/√S` if positive, `+0` in every slot otherwise — or a plain copy
of an existing direction / `Zero()` (`every_path_normalises`); hence, over the reals, the result has
length exactly one, each component is the input component divided by a positive number (parallel, same
sense), and the zero vector gives zero (`NormalisesR`, `unit_length`). `magnitudes` : `Magnitude()` is
`√(Σ cᵢ²)` of the stored components, typed as the scalar quantity of the same dimension set;
`magnitude_times_direction` rebuilds the vector over the reals. Typed component accessors are C17's
`accessors_expose_stored_value`. Homogeneity of degree zero (rescaling) is C03's `homogeneous` on the
same entries. The floating-point clauses (four ulps, bit-exact power-of-two invariance) are exercised
on the real code by the search and rest on Theory/Round.lean for the rounding model.
-/
import PhQVerif.Theory.Direction
import PhQVerif.Checkers
import PhQVerif.Generated.Obl_C10dir
import PhQVerif.Generated.Obl_C10mag

namespace PhQVerif.Props.C10
open PhQVerif Generated

/-- **C10 (every construction path normalises).** -/
theorem every_path_normalises :
    ∀ e ∈ quantityEntries, e.producesDirection classes = true →
      (∀ x : Nat → ℝ, NormalisesR e.tree x) ∨ copyOrZeroTree e.tree = true := by
  intro e he hp
  have h : Chk.C10dir e = true := List.all_eq_true.mp Obl.C10dir e he
  simp only [Chk.C10dir, checkDirection, hp, Bool.not_true, Bool.false_or, Bool.or_eq_true] at h
  rcases h with h | h
  · exact Or.inl (fun x => dirTreeOk_sound h x)
  · exact Or.inr h

/-- **C10 (unit length, same sense, zero).** What `NormalisesR` gives: for a non-zero input the
squares of the result's components sum to one and each is the input component over a positive
number; for the zero vector every component is zero. -/
theorem normalised_is_unit (c : List ℝ) (hlen : c.length = 2 ∨ c.length = 3)
    (hpos : 0 < (c.map (· ^ 2)).sum) :
    ((c.map fun ci => ci / Real.sqrt (c.map (· ^ 2)).sum).map (· ^ 2)).sum = 1 ∧
    0 < Real.sqrt (c.map (· ^ 2)).sum :=
  unit_length c hlen hpos

/-- **C10 (magnitudes).** `Magnitude()` of every vector-valued quantity (and of the plain vectors
and directions) is the square root of the sum of squares of the stored components, computed in the
quantity's format, and is typed as the scalar quantity of the same dimension set (or a bare number for
the dimensionless plain vectors). -/
theorem magnitudes :
    ∀ e ∈ quantityEntries, e.mem = .magnitude →
      ∃ s n, e.numOuts = some [.un .sqrt e.fm s] ∧ e.argSizes = [n] ∧
        sumSquares e.fm ((List.range n).map fun i => .var i e.fm) = some s ∧
        (e.ret = .num ∨ ∃ c, e.ret = .q c ∧ tyDim classes (.q c) = tyDim classes (.q e.cls) ∧
          classComps classes c = 1) := by
  intro e he hm
  have h : Chk.C10mag e = true := List.all_eq_true.mp Obl.C10mag e he
  simp only [Chk.C10mag, checkMagnitude, hm, bne_self_eq_false, Bool.false_or] at h
  split at h
  · rename_i f s n ho hs
    simp only [Bool.and_eq_true, beq_iff_eq] at h
    obtain ⟨⟨hf, hsum⟩, hret⟩ := h
    subst hf
    refine ⟨s, n, ho, hs, hsum, ?_⟩
    split at hret
    · exact Or.inl (by assumption)
    · rename_i c hc
      simp only [Bool.and_eq_true, beq_iff_eq] at hret
      exact Or.inr ⟨c, hc, hret.1, hret.2⟩
    · exact absurd hret (by simp)
  · exact absurd h (by simp)

/-- **C10 (magnitude × direction).** Over the reals, for a non-zero vector. -/
theorem rebuild (c : List ℝ) (hpos : 0 < (c.map (· ^ 2)).sum) :
    (c.map fun ci => Real.sqrt (c.map (· ^ 2)).sum * (ci / Real.sqrt (c.map (· ^ 2)).sum)) = c :=
  magnitude_times_direction c hpos

/-! ### Non-vacuity -/

example : (f64.«Velocity::Direction()»).producesDirection classes = true := by decide
example : (f32.«Direction::Set(num,num,num)»).producesDirection classes = true := by decide
example : (f80.«PlanarForce::Magnitude()»).mem = .magnitude := by decide

end PhQVerif.Props.C10
