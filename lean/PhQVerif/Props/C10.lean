/-
Props/C10.lean — C10: directions are unit vectors; magnitude times direction rebuilds the vector.

Statement (properties.jsonl): a direction built from any finite vector whose squared length neither
overflows nor underflows has length one to within four ulps, is parallel to and points the same way as
the input, and is unchanged (exactly for power-of-two factors, to rounding otherwise) by positive
rescaling of the input; built from the zero vector it is exactly zero. For every vector-valued
quantity, in two and three dimensions, the magnitude has the scalar quantity type of the same
dimensions and the Euclidean norm as value, typed component accessors return the matching components,
and magnitude times direction reconstructs the quantity to a few ulps.

Proved, for every traced entry point that constructs, returns or `Set`s a direction (174 rows:
components, array, vector, each vector quantity's `Direction()`, 2-D/3-D conversion, cross product,
converting constructors) and all real inputs: it is the normalising tree — squared length
`S = Σ cᵢ²` compared with zero, `cᵢ/√S` if positive, `+0` in every slot otherwise — or a plain copy
of an existing direction / `Zero()` (`every_path_normalises`); hence, over the reals, the result has
length exactly one, each component is the input component divided by a positive number (parallel, same
sense), and the zero vector gives zero (`NormalisesR`, `unit_length`). `magnitudes` : `Magnitude()` is
`√(Σ cᵢ²)` of the stored components, typed as the scalar quantity of the same dimension set;
`magnitude_times_direction` rebuilds the vector over the reals. Typed component accessors are C17's
`accessors_expose_stored_value`. Homogeneity of degree zero (rescaling) is C03's `homogeneous` on the
same entries. Floating point: `unit_length_four_ulps` — for the entries that normalise their inputs
directly (147 of the 168 normalising ones), all finite inputs with non-zero components of either sign and
no intermediate under/overflow: the computed direction has length within `8·2^-p` (four ulps) of one and
every component has the sign of its input (Theory/UnitLength.lean: five roundings per component from
`posFrag_sound`, exact sign symmetry of `x·x` and `a/b`). Bit-exact power-of-two invariance, and
vectors with zero components, are exercised on the real code by the search.
-/
import PhQVerif.Theory.Direction
import PhQVerif.Theory.UnitLength
import PhQVerif.Checkers
import PhQVerif.Generated.Obl_C10dir
import PhQVerif.Generated.Obl_C10mag
import PhQVerif.Generated.Obl_C10scale
import PhQVerif.Generated.Obl_C17access
import PhQVerif.Theory.Access
import PhQVerif.Theory.RelErr
import PhQVerif.Theory.Arith

namespace PhQVerif.Props.C10
open PhQVerif Generated

/-- **C10 (every construction path normalises).** -/
theorem every_path_normalises :
    ∀ e ∈ quantityEntries, e.producesDirection classes = true →
      (∀ x : Nat → ℝ, NormalisesR e.tree x) ∨ copyOrZeroTree e.tree = true := by
  intro e he hp
  have h : Chk.C10dir e = true := List.all_eq_true.mp Obl.C10dir e he
  simp only [Chk.C10dir, checkDirection, hp, Bool.not_true, Bool.false_or, Bool.or_eq_true] at h
  rcases h with h | h
  · exact Or.inl (fun x => dirTreeOk_sound h x)
  · exact Or.inr h

/-- **C10 (unit length, same sense, zero).** What `NormalisesR` gives: for a non-zero input the
squares of the result's components sum to one and each is the input component over a positive
number; for the zero vector every component is zero. -/
theorem normalised_is_unit (c : List ℝ) (hlen : c.length = 2 ∨ c.length = 3)
    (hpos : 0 < (c.map (· ^ 2)).sum) :
    ((c.map fun ci => ci / Real.sqrt (c.map (· ^ 2)).sum).map (· ^ 2)).sum = 1 ∧
    0 < Real.sqrt (c.map (· ^ 2)).sum :=
  unit_length c hlen hpos

/-- **C10 (magnitudes).** `Magnitude()` of every vector-valued quantity (and of the plain vectors
and directions) is the square root of the sum of squares of the stored components, computed in the
quantity's format, and is typed as the scalar quantity of the same dimension set (or a bare number for
the dimensionless plain vectors). -/
theorem magnitudes :
    ∀ e ∈ quantityEntries, e.mem = .magnitude →
      ∃ s n, e.numOuts = some [.un .sqrt e.fm s] ∧ e.argSizes = [n] ∧
        sumSquares e.fm ((List.range n).map fun i => .var i e.fm) = some s ∧
        (e.ret = .num ∨ ∃ c, e.ret = .q c ∧ tyDim classes (.q c) = tyDim classes (.q e.cls) ∧
          classComps classes c = 1) := by
  intro e he hm
  have h : Chk.C10mag e = true := List.all_eq_true.mp Obl.C10mag e he
  simp only [Chk.C10mag, checkMagnitude, hm, bne_self_eq_false, Bool.false_or] at h
  split at h
  · rename_i f s n ho hs
    simp only [Bool.and_eq_true, beq_iff_eq] at h
    obtain ⟨⟨hf, hsum⟩, hret⟩ := h
    subst hf
    refine ⟨s, n, ho, hs, hsum, ?_⟩
    split at hret
    · exact Or.inl (by assumption)
    · rename_i c hc
      simp only [Bool.and_eq_true, beq_iff_eq] at hret
      exact Or.inr ⟨c, hc, hret.1, hret.2⟩
    · exact absurd hret (by simp)
  · exact absurd h (by simp)

/-- **C10 (magnitude × direction).** Over the reals, for a non-zero vector. -/
theorem rebuild (c : List ℝ) (hpos : 0 < (c.map (· ^ 2)).sum) :
    (c.map fun ci => Real.sqrt (c.map (· ^ 2)).sum * (ci / Real.sqrt (c.map (· ^ 2)).sum)) = c :=
  magnitude_times_direction c hpos

/-- **C10 (scalar × direction constructors).** Every constructor of a vector quantity from a scalar
quantity and a direction, in either argument order, stores in slot `i` the one correctly rounded
product of the scalar and the direction's component `i` — for all values. With `magnitudes` and
`every_path_normalises` this is what `Q(q.Magnitude(), q.Direction())` computes: `|q| · (qᵢ / |q|)` in
slot `i`, which `rebuild` shows to be `qᵢ` over the reals. -/
theorem scalar_times_direction_constructors :
    ∀ e ∈ quantityEntries, e.isScaleDirCtor classes = true →
      ∃ outs, e.numOuts = some outs ∧ ∃ n sIdx dOff, outs.length = n ∧
        ((sIdx = 0 ∧ dOff = 1 ∧ e.argSizes = [1, n]) ∨ (sIdx = n ∧ dOff = 0 ∧ e.argSizes = [n, 1])) ∧
        ∀ i ex, outs[i]? = some ex → ∀ (L : Libm) (env : Nat → Fl),
          ∃ u v, IsStoredOrCast e.fm (env sIdx) u ∧ IsStoredOrCast e.fm (env (dOff + i)) v ∧
            ex.evalF L env = Fl.mul e.fm.fmt u v := by
  intro e he hk
  have h : Chk.C10scale e = true := List.all_eq_true.mp Obl.C10scale e he
  simp only [Entry.isScaleDirCtor, Bool.and_eq_true, beq_iff_eq] at hk
  obtain ⟨hkind, hargs⟩ := hk
  simp only [Chk.C10scale, checkScaleDir, hkind, bne_self_eq_false, Bool.false_or] at h
  rcases hargs' : e.args with _ | ⟨a, _ | ⟨b, _ | _⟩⟩
  · simp [hargs'] at hargs
  · cases a <;> simp [hargs'] at hargs
  · cases a <;> cases b <;> simp only [hargs'] at hargs h <;> try (simp at hargs)
    rename_i a b
    by_cases h1 : (classIsDirection classes b && !classIsDirection classes a && classComps classes a == 1) = true
    · simp only [h1, if_true, Bool.and_eq_true, beq_iff_eq] at h
      obtain ⟨⟨_, hsz⟩, hout⟩ := h
      cases ho : e.numOuts with
      | none => simp [ho] at hout
      | some outs =>
        simp only [ho, Bool.and_eq_true, beq_iff_eq] at hout
        refine ⟨outs, rfl, classComps classes b, 0, 1, hout.1, Or.inl ⟨rfl, rfl, hsz⟩, ?_⟩
        intro i ex hi L env
        have hall := hout.2
        simp only [allIdx, List.all_eq_true] at hall
        have hmem : (ex, i) ∈ outs.zipIdx := by
          rw [List.mem_zipIdx_iff_getElem?]; simpa using hi
        obtain ⟨u, v, hu, hv, hev⟩ := isBinOf_sound (by decide) (hall _ hmem) L env
        exact ⟨u, v, hu, hv, hev⟩
    · have h2 : (classIsDirection classes a && !classIsDirection classes b && classComps classes b == 1) = true := by
        rcases hargs with h' | h'
        · exact absurd (by simpa using h') h1
        · simpa using h'
      simp only [h1, h2, if_true, Bool.false_eq_true, if_false, Bool.and_eq_true, beq_iff_eq] at h
      obtain ⟨⟨_, hsz⟩, hout⟩ := h
      cases ho : e.numOuts with
      | none => simp [ho] at hout
      | some outs =>
        simp only [ho, Bool.and_eq_true, beq_iff_eq] at hout
        refine ⟨outs, rfl, classComps classes a, classComps classes a, 0, hout.1, Or.inr ⟨rfl, rfl, hsz⟩, ?_⟩
        intro i ex hi L env
        have hall := hout.2
        simp only [allIdx, List.all_eq_true] at hall
        have hmem : (ex, i) ∈ outs.zipIdx := by
          rw [List.mem_zipIdx_iff_getElem?]; simpa using hi
        obtain ⟨u, v, hu, hv, hev⟩ := isBinOf_sound (by decide) (hall _ hmem) L env
        refine ⟨v, u, hv, ?_, ?_⟩
        · simpa using hu
        · rw [hev]; exact Fl.mul_comm _ _ _
  · simp [hargs'] at hargs

/-- **C10 (typed component accessors).** `x()`, `y()`, `z()` of every vector-valued quantity (and the
component accessors of every other multi-component type) return exactly the stored component of that
name: accessor number `k` returns stored slot `k`, for all values. -/
theorem typed_component_accessors :
    ∀ e ∈ quantityEntries, ∀ k, e.mem = .comp k →
      ∃ ex, e.numOuts = some [ex] ∧ k < classComps classes e.cls ∧
        ∀ (L : Libm) (env : Nat → Fl), ex.evalF L env = env k := by
  intro e he k hk
  have h : Chk.C17access e = true := List.all_eq_true.mp Obl.C17access e he
  simp only [Chk.C17access, checkAccess, hk] at h
  cases ho : e.numOuts with
  | none => simp [ho] at h
  | some outs =>
    simp only [ho] at h
    match outs, h with
    | [ex], h =>
      simp only [Bool.and_eq_true, decide_eq_true_eq] at h
      exact ⟨ex, rfl, h.1, fun L env => isVar_sound h.2 L env⟩

/-- The output expressions of the normalising branch (squared length positive) of a direction tree. -/
def normalisedOuts : DTree → List Expr
  | .node _ _ _ (.leaf outs) _ => outs.filterMap fun o => match o with | .num e => some e | _ => none
  | _ => []

/-- At most 7 roundings in any normalised component that lies in the positive fragment (399 of the 426
slots of the 174 direction-producing entries; the others come after a subtraction, e.g. a cross
product). -/
theorem normalised_rounding_counts :
    (quantityEntries.filter (fun e => e.producesDirection classes && dirTreeOk e.fm e.tree)).all
      (fun e => (normalisedOuts e.tree).all (fun ex =>
        match posFrag e.fm.fmt.p ex with | some k => decide (k ≤ 7) | none => true)) = true := by
  decide +kernel

/-- **C10 (floating-point accuracy of the components) — partial.** For every direction-producing entry
and every normalised component whose formula is in the positive fragment (count `k ≤ 7`): for all
positive inputs without intermediate under- or overflow the computed component is within `k` roundings
of the exact `cᵢ / ‖c‖` (the real value of the traced formula, `every_path_normalises`). Partial: the
statement covers positive components only (the general-sign case needs the sign symmetry of the
floating-point operations, not proved), and `k ≤ 7` roundings per component gives `|‖d‖ - 1| ≲ 7u`
rather than the `4u` of the property, because the square root is only bounded by two roundings here;
the real-code search checks the `4u` bound for all signs. -/
theorem normalised_components_few_ulps_partial :
    ∀ e ∈ quantityEntries, ∀ ex ∈ normalisedOuts e.tree, ∀ k, posFrag e.fm.fmt.p ex = some k →
      ∀ (L : Libm) (env : Nat → Fl) (x : Nat → ℝ), (∀ i, 0 < x i ∧ Fl.toReal (env i) = x i) →
        InRange L env ex →
        Within ((2 : ℝ) ^ (-(e.fm.fmt.p : Int))) k (Fl.toReal (ex.evalF L env)) (ex.evalR x) := by
  intro e _ ex _ k hk L env x henv hr
  exact posFrag_sound e.fm.fmt.p (fm_p_pos e.fm) ex k hk L env x henv hr

/-- The entry normalises *input components* directly (`xᵢ / √(Σ xⱼ²)` on the stored numbers it is
given — every construction path from components, an array, a vector or a vector quantity), and every
normalised component is at most five roundings from exact. -/
def fiveRoundings (e : Entry) : Bool :=
  dirTreeOk e.fm e.tree &&
  (normalisedOuts e.tree).all (fun ex =>
    (match ex with | .bin .div _ (.var _ _) (.un .sqrt _ _) => true | _ => false) &&
    (match posFrag e.fm.fmt.p ex with | some k => decide (k ≤ 5) | none => false))

/-- **C10 (length one to within four ulps; same sense) — floating point, all signs.** For every
direction-producing entry that normalises its inputs directly (`fiveRoundings`; the count is printed by
Audit/C10 — the others normalise a converted or derived vector, e.g. a cross product or a value of another precision —):
for all finite inputs with non-zero components of either sign, provided no intermediate result under-
or overflows (`InRange`, stated on the absolute values), the Euclidean length of the *computed*
direction differs from one by at most `8·2^-p` — four units in the last place of one — and every
computed component has the sign of its input component. Partial in one respect only: vectors with a
component exactly zero are not covered by this statement (that component is then exactly zero and the
bound holds for the others; exercised by the search). -/
theorem unit_length_four_ulps (e : Entry) (h : fiveRoundings e = true) (L : Libm) (env : Nat → Fl)
    (hfin : ∀ i, (env i).isFinite = true ∧ Fl.toReal (env i) ≠ 0)
    (hr : ∀ ex ∈ normalisedOuts e.tree, InRange L (fun j => Fl.abs (env j)) ex) :
    |Real.sqrt (((normalisedOuts e.tree).map fun ex => (Fl.toReal (ex.evalF L env)) ^ 2).sum) - 1| ≤
      8 * uOf e.fm.fmt.p ∧
    ∀ ex ∈ normalisedOuts e.tree, ∃ g i fi D, ex = .bin .div g (.var i fi) D ∧
      (ex.evalF L env).sign = (env i).sign := by
  have hp4 : 4 ≤ e.fm.fmt.p := by cases e.fm <;> decide
  unfold fiveRoundings at h
  simp only [Bool.and_eq_true] at h
  obtain ⟨hdir, hall⟩ := h
  unfold dirTreeOk at hdir
  split at hdir
  · rename_i t0 S lf le f1 a g1 s1 f2 b g2 s2 z1 z2 heq
    simp only [Bool.and_eq_true, beq_iff_eq] at hdir
    obtain ⟨⟨⟨⟨h1, h2⟩, hS⟩, _⟩, _⟩ := hdir
    subst h1; subst h2
    rw [heq] at hall hr ⊢
    simp only [normalisedOuts, List.filterMap_cons, List.filterMap_nil, List.all_cons, List.all_nil,
      Bool.and_true, Bool.and_eq_true, List.mem_cons, List.not_mem_nil, or_false, forall_eq_or_imp,
      forall_eq] at hall hr ⊢
    obtain ⟨⟨ha, hka⟩, ⟨hb, hkb⟩⟩ := hall
    cases a <;> simp only [Bool.false_eq_true] at ha
    cases b <;> simp only [Bool.false_eq_true] at hb
    rename_i i0 f0 i1 f1'
    cases hp0 : posFrag e.fm.fmt.p (.bin .div f1 (.var i0 f0) (.un .sqrt g1 s2)) with
    | none => simp [hp0] at hka
    | some k0 =>
      cases hp1 : posFrag e.fm.fmt.p (.bin .div f2 (.var i1 f1') (.un .sqrt g2 s2)) with
      | none => simp [hp1] at hkb
      | some k1 =>
        simp only [hp0, hp1, decide_eq_true_eq] at hka hkb
        subst hS
        have := unit_length2 e.fm.fmt.p hp4 L env hfin e.fm f1 f2 f0 f1' g1 g2 i0 i1 k0 k1 hka hkb
          hp0 hp1 hr.1 hr.2
        simp only [List.map_cons, List.map_nil, List.sum_cons, List.sum_nil, add_zero]
        exact ⟨this.1, ⟨_, _, _, _, rfl, this.2.1⟩, ⟨_, _, _, _, rfl, this.2.2⟩⟩
  · rename_i t0 S lf le f1 a g1 s1 f2 b g2 s2 f3 c g3 s3 z1 z2 z3 heq
    simp only [Bool.and_eq_true, beq_iff_eq] at hdir
    obtain ⟨⟨⟨⟨⟨⟨h1, h2⟩, h3⟩, hS⟩, _⟩, _⟩, _⟩ := hdir
    subst h1; subst h2; subst h3
    rw [heq] at hall hr ⊢
    simp only [normalisedOuts, List.filterMap_cons, List.filterMap_nil, List.all_cons, List.all_nil,
      Bool.and_true, Bool.and_eq_true, List.mem_cons, List.not_mem_nil, or_false, forall_eq_or_imp,
      forall_eq] at hall hr ⊢
    obtain ⟨⟨ha, hka⟩, ⟨hb, hkb⟩, ⟨hc, hkc⟩⟩ := hall
    cases a <;> simp only [Bool.false_eq_true] at ha
    cases b <;> simp only [Bool.false_eq_true] at hb
    cases c <;> simp only [Bool.false_eq_true] at hc
    rename_i i0 f0 i1 f1' i2 f2'
    cases hp0 : posFrag e.fm.fmt.p (.bin .div f1 (.var i0 f0) (.un .sqrt g1 s3)) with
    | none => simp [hp0] at hka
    | some k0 =>
      cases hp1 : posFrag e.fm.fmt.p (.bin .div f2 (.var i1 f1') (.un .sqrt g2 s3)) with
      | none => simp [hp1] at hkb
      | some k1 =>
        cases hp2 : posFrag e.fm.fmt.p (.bin .div f3 (.var i2 f2') (.un .sqrt g3 s3)) with
        | none => simp [hp2] at hkc
        | some k2 =>
          simp only [hp0, hp1, hp2, decide_eq_true_eq] at hka hkb hkc
          subst hS
          have := unit_length3 e.fm.fmt.p hp4 L env hfin e.fm f1 f2 f3 f0 f1' f2' g1 g2 g3 i0 i1 i2 k0 k1 k2
            hka hkb hkc hp0 hp1 hp2 hr.1 hr.2.1 hr.2.2
          simp only [List.map_cons, List.map_nil, List.sum_cons, List.sum_nil, add_zero, ← add_assoc]
          exact ⟨this.1, ⟨_, _, _, _, rfl, this.2.1⟩, ⟨_, _, _, _, rfl, this.2.2.1⟩,
            ⟨_, _, _, _, rfl, this.2.2.2⟩⟩
  · exact absurd hdir (by simp)

/-! ### Non-vacuity -/

example : (f64.«Force::y()»).mem = .comp 1 := by decide


example : (f64.«Displacement::ctor(Length,Direction)»).isScaleDirCtor classes = true := by decide


example : (f64.«Velocity::Direction()»).producesDirection classes = true := by decide
example : fiveRoundings (f64.«Velocity::Direction()») = true := by decide
example : fiveRoundings (f32.«PlanarDirection::Set(num,num)») = true := by decide
example : (f32.«Direction::Set(num,num,num)»).producesDirection classes = true := by decide
example : (f80.«PlanarForce::Magnitude()»).mem = .magnitude := by decide

end PhQVerif.Props.C10
