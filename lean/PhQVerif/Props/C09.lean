/-
Props/C09.lean — C09: vectors and tensors implement Euclidean tensor algebra.

Statement (properties.jsonl): planar vectors, vectors, symmetric dyads and dyads implement
three-dimensional Cartesian tensor algebra: dot, cross and dyadic products, squared magnitude and
magnitude, trace, determinant, transpose, cofactors, adjugate, inverse, scaling, and every
matrix-vector and matrix-matrix product equal the textbook component formulas — exactly on
integer-valued inputs, to a few ulps otherwise. The inverse times the original is the identity for
well-conditioned tensors and is absent exactly when the determinant is zero; symmetric and planar
types give the same results as their embeddings in the general dyad and vector types.

The textbook formulas are *Mathlib's* definitions (`Matrix.det`, `adjugate`, `transpose`, `trace`,
`mulVec`, matrix product, `dotProduct`, `crossProduct`, `vecMulVec`) on the embeddings `V3 V2 D9 S6`
of Theory/Tensor.lean. Each theorem is about the trace of the current source (the `double`
instantiation; `all_formats` transfers it to `float` and `long double`) and holds for all real
components. Scaling and `+`/`-` are the component-wise operators of C04.
-/
import PhQVerif.Theory.Tensor
import Mathlib.LinearAlgebra.Matrix.Trace
import Mathlib.LinearAlgebra.Matrix.NonsingularInverse
import PhQVerif.Checkers
import PhQVerif.Generated.Q_PlanarVector
import PhQVerif.Generated.Q_Vector
import PhQVerif.Generated.Q_SymmetricDyad
import PhQVerif.Generated.Q_Dyad
import PhQVerif.Generated.Obl_SameFormula

namespace PhQVerif.Props.C09
open PhQVerif Generated Matrix

/-- Unfold a generated entry down to arithmetic on its inputs. -/
macro "unfold_entry" e:term : tactic =>
  `(tactic| simp [Entry.outsR, Entry.numOuts, $e:term, Expr.evalR, BinOp.evalR, UnOp.evalR, dyadicR,
      V3, V2, D9, S6, vecOfList, matOfList, Matrix.det_fin_three, Matrix.adjugate_fin_three_of,
      Matrix.trace, Matrix.mul_apply, Matrix.mulVec, dotProduct, Fin.sum_univ_three, cross_apply,
      Matrix.vecMulVec_apply])

/-- Close what is left: (conjunctions of) polynomial identities, or an entry-wise matrix equality. -/
macro "finish" : tactic =>
  `(tactic| first
    | done
    | ring1
    | ((repeat' constructor) <;> (first | trivial | ring1))
    | (ext i j; fin_cases i <;> fin_cases j <;> (first | (simp; done) | (simp; ring1) | ring1))
    | (ext i; fin_cases i <;> (first | (simp; done) | (simp; ring1) | ring1)))

/-! ### Vectors -/

theorem vector_dot (x : Nat → ℝ) :
    (f64.«Vector::Dot(Vector)»).outsR x = [V3 x 0 ⬝ᵥ V3 x 3] := by
  unfold_entry f64.«Vector::Dot(Vector)»
  finish

theorem vector_cross (x : Nat → ℝ) :
    vecOfList ((f64.«Vector::Cross(Vector)»).outsR x) = crossProduct (V3 x 0) (V3 x 3) := by
  unfold_entry f64.«Vector::Cross(Vector)»
  finish

theorem vector_dyadic (x : Nat → ℝ) :
    matOfList ((f64.«Vector::Dyadic(Vector)»).outsR x) = vecMulVec (V3 x 0) (V3 x 3) := by
  unfold_entry f64.«Vector::Dyadic(Vector)»
  finish

theorem vector_magnitude_squared (x : Nat → ℝ) :
    (f64.«Vector::MagnitudeSquared()»).outsR x = [V3 x 0 ⬝ᵥ V3 x 0] := by
  unfold_entry f64.«Vector::MagnitudeSquared()»
  finish

theorem vector_magnitude (x : Nat → ℝ) :
    (f64.«Vector::Magnitude()»).outsR x = [Real.sqrt (V3 x 0 ⬝ᵥ V3 x 0)] := by
  unfold_entry f64.«Vector::Magnitude()»
  finish

/-! ### Planar vectors: the same results as their embedding `(x, y, 0)` -/

theorem planar_dot (x : Nat → ℝ) :
    (f64.«PlanarVector::Dot(PlanarVector)»).outsR x = [V2 x 0 ⬝ᵥ V2 x 2] := by
  unfold_entry f64.«PlanarVector::Dot(PlanarVector)»
  finish

theorem planar_cross (x : Nat → ℝ) :
    vecOfList ((f64.«PlanarVector::Cross(PlanarVector)»).outsR x) = crossProduct (V2 x 0) (V2 x 2) := by
  unfold_entry f64.«PlanarVector::Cross(PlanarVector)»
  finish

theorem planar_dyadic (x : Nat → ℝ) :
    matOfList ((f64.«PlanarVector::Dyadic(PlanarVector)»).outsR x) = vecMulVec (V2 x 0) (V2 x 2) := by
  unfold_entry f64.«PlanarVector::Dyadic(PlanarVector)»
  finish

theorem planar_magnitude (x : Nat → ℝ) :
    (f64.«PlanarVector::Magnitude()»).outsR x = [Real.sqrt (V2 x 0 ⬝ᵥ V2 x 0)] := by
  unfold_entry f64.«PlanarVector::Magnitude()»
  finish

theorem vector_of_planar (x : Nat → ℝ) :
    vecOfList ((f64.«Vector::ctor(PlanarVector)»).outsR x) = V2 x 0 := by
  unfold_entry f64.«Vector::ctor(PlanarVector)»
  finish

theorem planar_of_vector (x : Nat → ℝ) :
    (f64.«PlanarVector::ctor(Vector)»).outsR x = [x 0, x 1] := by
  unfold_entry f64.«PlanarVector::ctor(Vector)»
  finish

/-! ### Dyads -/

theorem dyad_trace (x : Nat → ℝ) :
    (f64.«Dyad::Trace()»).outsR x = [(D9 x 0).trace] := by
  unfold_entry f64.«Dyad::Trace()»
  finish

theorem dyad_determinant (x : Nat → ℝ) :
    (f64.«Dyad::Determinant()»).outsR x = [(D9 x 0).det] := by
  unfold_entry f64.«Dyad::Determinant()»
  finish

theorem dyad_transpose (x : Nat → ℝ) :
    matOfList ((f64.«Dyad::Transpose()»).outsR x) = (D9 x 0)ᵀ := by
  unfold_entry f64.«Dyad::Transpose()»
  finish

theorem dyad_adjugate (x : Nat → ℝ) :
    matOfList ((f64.«Dyad::Adjugate()»).outsR x) = (D9 x 0).adjugate := by
  unfold_entry f64.«Dyad::Adjugate()»
  finish

theorem dyad_cofactors (x : Nat → ℝ) :
    matOfList ((f64.«Dyad::Cofactors()»).outsR x) = ((D9 x 0).adjugate)ᵀ := by
  unfold_entry f64.«Dyad::Cofactors()»
  finish

theorem dyad_of_symmetric (x : Nat → ℝ) :
    matOfList ((f64.«Dyad::ctor(SymmetricDyad)»).outsR x) = S6 x 0 := by
  unfold_entry f64.«Dyad::ctor(SymmetricDyad)»
  finish

/-! ### Symmetric dyads: the same results as their embedding in the general dyad -/

theorem symmetric_trace (x : Nat → ℝ) :
    (f64.«SymmetricDyad::Trace()»).outsR x = [(S6 x 0).trace] := by
  unfold_entry f64.«SymmetricDyad::Trace()»
  finish

theorem symmetric_determinant (x : Nat → ℝ) :
    (f64.«SymmetricDyad::Determinant()»).outsR x = [(S6 x 0).det] := by
  unfold_entry f64.«SymmetricDyad::Determinant()»
  finish

theorem symmetric_transpose (x : Nat → ℝ) :
    matOfList ((f64.«SymmetricDyad::Transpose()»).outsR x) = (S6 x 0)ᵀ := by
  unfold_entry f64.«SymmetricDyad::Transpose()»
  finish

theorem symmetric_adjugate (x : Nat → ℝ) :
    matOfList ((f64.«SymmetricDyad::Adjugate()»).outsR x) = (S6 x 0).adjugate := by
  unfold_entry f64.«SymmetricDyad::Adjugate()»
  finish

theorem symmetric_cofactors (x : Nat → ℝ) :
    matOfList ((f64.«SymmetricDyad::Cofactors()»).outsR x) = ((S6 x 0).adjugate)ᵀ := by
  unfold_entry f64.«SymmetricDyad::Cofactors()»
  finish

/-! ### The nine product overloads -/

theorem mul_dyad_dyad (x : Nat → ℝ) :
    matOfList ((f64.«free::operator*(Dyad,Dyad)»).outsR x) = D9 x 0 * D9 x 9 := by
  unfold_entry f64.«free::operator*(Dyad,Dyad)»
  finish

theorem mul_dyad_symmetric (x : Nat → ℝ) :
    matOfList ((f64.«free::operator*(Dyad,SymmetricDyad)»).outsR x) = D9 x 0 * S6 x 9 := by
  unfold_entry f64.«free::operator*(Dyad,SymmetricDyad)»
  finish

theorem mul_symmetric_dyad (x : Nat → ℝ) :
    matOfList ((f64.«free::operator*(SymmetricDyad,Dyad)»).outsR x) = S6 x 0 * D9 x 6 := by
  unfold_entry f64.«free::operator*(SymmetricDyad,Dyad)»
  finish

theorem mul_symmetric_symmetric (x : Nat → ℝ) :
    matOfList ((f64.«free::operator*(SymmetricDyad,SymmetricDyad)»).outsR x) = S6 x 0 * S6 x 6 := by
  unfold_entry f64.«free::operator*(SymmetricDyad,SymmetricDyad)»
  finish

theorem mul_dyad_vector (x : Nat → ℝ) :
    vecOfList ((f64.«free::operator*(Dyad,Vector)»).outsR x) = (D9 x 0).mulVec (V3 x 9) := by
  unfold_entry f64.«free::operator*(Dyad,Vector)»
  finish

theorem mul_dyad_planar (x : Nat → ℝ) :
    vecOfList ((f64.«free::operator*(Dyad,PlanarVector)»).outsR x) = (D9 x 0).mulVec (V2 x 9) := by
  unfold_entry f64.«free::operator*(Dyad,PlanarVector)»
  finish

theorem mul_symmetric_vector (x : Nat → ℝ) :
    vecOfList ((f64.«free::operator*(SymmetricDyad,Vector)»).outsR x) = (S6 x 0).mulVec (V3 x 6) := by
  unfold_entry f64.«free::operator*(SymmetricDyad,Vector)»
  finish

theorem mul_symmetric_planar (x : Nat → ℝ) :
    vecOfList ((f64.«free::operator*(SymmetricDyad,PlanarVector)»).outsR x) = (S6 x 0).mulVec (V2 x 6) := by
  unfold_entry f64.«free::operator*(SymmetricDyad,PlanarVector)»
  finish

theorem mul_dyad_direction (x : Nat → ℝ) :
    vecOfList ((f64.«free::operator*(Dyad,Direction)»).outsR x) = (D9 x 0).mulVec (V3 x 9) := by
  unfold_entry f64.«free::operator*(Dyad,Direction)»
  finish

/-! ### Inverse: absent exactly when the determinant is zero, otherwise `A⁻¹` -/

/-- Real values of the numeric slots of a list of outputs. -/
noncomputable def numsR (x : Nat → ℝ) (outs : List Out) : List ℝ := outs.filterMap (Out.evalR x)

/-- The outputs of the "present" leaf of an `Inverse()` tree, after the `has_value` flag. -/
def inverseOuts : DTree → List Out
  | .node _ _ _ (.leaf (_ :: outs)) _ => outs
  | _ => []

def condA : DTree → Expr
  | .node _ a _ _ _ => a
  | _ => .uninit .f64

def condB : DTree → Expr
  | .node _ _ b _ _ => b
  | _ => .uninit .f64

theorem dyad_inverse (x : Nat → ℝ) :
    ((D9 x 0).det = 0 → (f64.«Dyad::Inverse()»).tree.leafR x = some [.bool false]) ∧
    ((D9 x 0).det ≠ 0 →
      (f64.«Dyad::Inverse()»).tree.leafR x =
        some (.bool true :: inverseOuts (f64.«Dyad::Inverse()»).tree) ∧
      matOfList (numsR x (inverseOuts (f64.«Dyad::Inverse()»).tree)) = (D9 x 0)⁻¹ ∧
      D9 x 0 * matOfList (numsR x (inverseOuts (f64.«Dyad::Inverse()»).tree)) = 1) := by
  have hdet : (D9 x 0).det = x 0 * (x 4 * x 8 - x 5 * x 7) + x 1 * (x 5 * x 6 - x 3 * x 8)
      + x 2 * (x 3 * x 7 - x 4 * x 6) := by
    simp [D9, Matrix.det_fin_three]; ring
  have ht : (f64.«Dyad::Inverse()»).tree =
      .node .ne (condA (f64.«Dyad::Inverse()»).tree) (.lit .f64 false 0 0)
        (.leaf (.bool true :: inverseOuts (f64.«Dyad::Inverse()»).tree)) (.leaf [.bool false]) := rfl
  have hc : (condA (f64.«Dyad::Inverse()»).tree).evalR x = (D9 x 0).det := by
    rw [hdet]; simp [condA, f64.«Dyad::Inverse()», Expr.evalR, BinOp.evalR]
  have hz : (Expr.lit .f64 false 0 0).evalR x = 0 := by simp [Expr.evalR, dyadicR]
  constructor
  · intro h
    rw [ht]; simp [DTree.leafR, CmpOp.evalR, hc, hz, h]
  · intro h
    have hinv : matOfList (numsR x (inverseOuts (f64.«Dyad::Inverse()»).tree)) = (D9 x 0)⁻¹ := by
      rw [Matrix.inv_def, Ring.inverse_eq_inv']
      have h' := h
      rw [hdet] at h' ⊢
      simp [inverseOuts, f64.«Dyad::Inverse()», numsR, Out.evalR, Expr.evalR, BinOp.evalR, matOfList, D9,
        Matrix.adjugate_fin_three_of]
      (repeat' constructor) <;> (field_simp; try ring1)
    refine ⟨?_, hinv, ?_⟩
    · rw [ht]; simp [DTree.leafR, CmpOp.evalR, hc, hz, h]
      rw [← ht]
    · rw [hinv]
      exact Matrix.mul_nonsing_inv _ (isUnit_iff_ne_zero.mpr h)

/-- The same for the symmetric dyad: `Inverse()` is absent exactly when the determinant is zero and is
otherwise the inverse of the embedded symmetric matrix. -/
theorem symmetric_inverse (x : Nat → ℝ) :
    ((S6 x 0).det = 0 → (f64.«SymmetricDyad::Inverse()»).tree.leafR x = some [.bool false]) ∧
    ((S6 x 0).det ≠ 0 →
      (f64.«SymmetricDyad::Inverse()»).tree.leafR x =
        some (.bool true :: inverseOuts (f64.«SymmetricDyad::Inverse()»).tree) ∧
      matOfList (numsR x (inverseOuts (f64.«SymmetricDyad::Inverse()»).tree)) = (S6 x 0)⁻¹ ∧
      S6 x 0 * matOfList (numsR x (inverseOuts (f64.«SymmetricDyad::Inverse()»).tree)) = 1) := by
  have hdet : (S6 x 0).det = x 0 * (x 3 * x 5 - x 4 * x 4) + x 1 * (x 4 * x 2 - x 1 * x 5)
      + x 2 * (x 1 * x 4 - x 3 * x 2) := by
    simp [S6, Matrix.det_fin_three]; ring
  have ht : (f64.«SymmetricDyad::Inverse()»).tree =
      .node .ne (condA (f64.«SymmetricDyad::Inverse()»).tree) (.lit .f64 false 0 0)
        (.leaf (.bool true :: inverseOuts (f64.«SymmetricDyad::Inverse()»).tree)) (.leaf [.bool false]) := rfl
  have hc : (condA (f64.«SymmetricDyad::Inverse()»).tree).evalR x = (S6 x 0).det := by
    rw [hdet]; simp [condA, f64.«SymmetricDyad::Inverse()», Expr.evalR, BinOp.evalR]
  have hz : (Expr.lit .f64 false 0 0).evalR x = 0 := by simp [Expr.evalR, dyadicR]
  constructor
  · intro h
    rw [ht]; simp [DTree.leafR, CmpOp.evalR, hc, hz, h]
  · intro h
    have hinv : matOfList (numsR x (inverseOuts (f64.«SymmetricDyad::Inverse()»).tree)) = (S6 x 0)⁻¹ := by
      rw [Matrix.inv_def, Ring.inverse_eq_inv']
      have h' := h
      rw [hdet] at h' ⊢
      simp [inverseOuts, f64.«SymmetricDyad::Inverse()», numsR, Out.evalR, Expr.evalR, BinOp.evalR, matOfList, S6,
        Matrix.adjugate_fin_three_of]
      (repeat' constructor) <;> (field_simp; try ring1)
    refine ⟨?_, hinv, ?_⟩
    · rw [ht]; simp [DTree.leafR, CmpOp.evalR, hc, hz, h]
      rw [← ht]
    · rw [hinv]
      exact Matrix.mul_nonsing_inv _ (isUnit_iff_ne_zero.mpr h)

/-! The same two theorems for the `float` and `long double` instantiations (whose trees differ: the
`float` one compares the determinant with the `double` literal `0.0`). -/

theorem dyad_inverse_f32 (x : Nat → ℝ) :
    ((D9 x 0).det = 0 → (f32.«Dyad::Inverse()»).tree.leafR x = some [.bool false]) ∧
    ((D9 x 0).det ≠ 0 →
      (f32.«Dyad::Inverse()»).tree.leafR x =
        some (.bool true :: inverseOuts (f32.«Dyad::Inverse()»).tree) ∧
      matOfList (numsR x (inverseOuts (f32.«Dyad::Inverse()»).tree)) = (D9 x 0)⁻¹ ∧
      D9 x 0 * matOfList (numsR x (inverseOuts (f32.«Dyad::Inverse()»).tree)) = 1) := by
  have hdet : (D9 x 0).det = x 0 * (x 4 * x 8 - x 5 * x 7) + x 1 * (x 5 * x 6 - x 3 * x 8)
      + x 2 * (x 3 * x 7 - x 4 * x 6) := by
    simp [D9, Matrix.det_fin_three]; ring
  have ht : (f32.«Dyad::Inverse()»).tree =
      .node .ne (condA (f32.«Dyad::Inverse()»).tree) (condB (f32.«Dyad::Inverse()»).tree)
        (.leaf (.bool true :: inverseOuts (f32.«Dyad::Inverse()»).tree)) (.leaf [.bool false]) := rfl
  have hc : (condA (f32.«Dyad::Inverse()»).tree).evalR x = (D9 x 0).det := by
    rw [hdet]; simp [condA, f32.«Dyad::Inverse()», Expr.evalR, BinOp.evalR]
  have hz : (condB (f32.«Dyad::Inverse()»).tree).evalR x = 0 := by simp [condB, f32.«Dyad::Inverse()», Expr.evalR, dyadicR]
  constructor
  · intro h
    rw [ht]; simp [DTree.leafR, CmpOp.evalR, hc, hz, h]
  · intro h
    have hinv : matOfList (numsR x (inverseOuts (f32.«Dyad::Inverse()»).tree)) = (D9 x 0)⁻¹ := by
      rw [Matrix.inv_def, Ring.inverse_eq_inv']
      have h' := h
      rw [hdet] at h' ⊢
      simp [inverseOuts, f32.«Dyad::Inverse()», numsR, Out.evalR, Expr.evalR, BinOp.evalR, matOfList, D9,
        Matrix.adjugate_fin_three_of]
      (repeat' constructor) <;> (field_simp; try ring1)
    refine ⟨?_, hinv, ?_⟩
    · rw [ht]; simp [DTree.leafR, CmpOp.evalR, hc, hz, h]
      rw [← ht]
    · rw [hinv]
      exact Matrix.mul_nonsing_inv _ (isUnit_iff_ne_zero.mpr h)


theorem symmetric_inverse_f32 (x : Nat → ℝ) :
    ((S6 x 0).det = 0 → (f32.«SymmetricDyad::Inverse()»).tree.leafR x = some [.bool false]) ∧
    ((S6 x 0).det ≠ 0 →
      (f32.«SymmetricDyad::Inverse()»).tree.leafR x =
        some (.bool true :: inverseOuts (f32.«SymmetricDyad::Inverse()»).tree) ∧
      matOfList (numsR x (inverseOuts (f32.«SymmetricDyad::Inverse()»).tree)) = (S6 x 0)⁻¹ ∧
      S6 x 0 * matOfList (numsR x (inverseOuts (f32.«SymmetricDyad::Inverse()»).tree)) = 1) := by
  have hdet : (S6 x 0).det = x 0 * (x 3 * x 5 - x 4 * x 4) + x 1 * (x 4 * x 2 - x 1 * x 5)
      + x 2 * (x 1 * x 4 - x 3 * x 2) := by
    simp [S6, Matrix.det_fin_three]; ring
  have ht : (f32.«SymmetricDyad::Inverse()»).tree =
      .node .ne (condA (f32.«SymmetricDyad::Inverse()»).tree) (condB (f32.«SymmetricDyad::Inverse()»).tree)
        (.leaf (.bool true :: inverseOuts (f32.«SymmetricDyad::Inverse()»).tree)) (.leaf [.bool false]) := rfl
  have hc : (condA (f32.«SymmetricDyad::Inverse()»).tree).evalR x = (S6 x 0).det := by
    rw [hdet]; simp [condA, f32.«SymmetricDyad::Inverse()», Expr.evalR, BinOp.evalR]
  have hz : (condB (f32.«SymmetricDyad::Inverse()»).tree).evalR x = 0 := by simp [condB, f32.«SymmetricDyad::Inverse()», Expr.evalR, dyadicR]
  constructor
  · intro h
    rw [ht]; simp [DTree.leafR, CmpOp.evalR, hc, hz, h]
  · intro h
    have hinv : matOfList (numsR x (inverseOuts (f32.«SymmetricDyad::Inverse()»).tree)) = (S6 x 0)⁻¹ := by
      rw [Matrix.inv_def, Ring.inverse_eq_inv']
      have h' := h
      rw [hdet] at h' ⊢
      simp [inverseOuts, f32.«SymmetricDyad::Inverse()», numsR, Out.evalR, Expr.evalR, BinOp.evalR, matOfList, S6,
        Matrix.adjugate_fin_three_of]
      (repeat' constructor) <;> (field_simp; try ring1)
    refine ⟨?_, hinv, ?_⟩
    · rw [ht]; simp [DTree.leafR, CmpOp.evalR, hc, hz, h]
      rw [← ht]
    · rw [hinv]
      exact Matrix.mul_nonsing_inv _ (isUnit_iff_ne_zero.mpr h)


theorem dyad_inverse_f80 (x : Nat → ℝ) :
    ((D9 x 0).det = 0 → (f80.«Dyad::Inverse()»).tree.leafR x = some [.bool false]) ∧
    ((D9 x 0).det ≠ 0 →
      (f80.«Dyad::Inverse()»).tree.leafR x =
        some (.bool true :: inverseOuts (f80.«Dyad::Inverse()»).tree) ∧
      matOfList (numsR x (inverseOuts (f80.«Dyad::Inverse()»).tree)) = (D9 x 0)⁻¹ ∧
      D9 x 0 * matOfList (numsR x (inverseOuts (f80.«Dyad::Inverse()»).tree)) = 1) := by
  have hdet : (D9 x 0).det = x 0 * (x 4 * x 8 - x 5 * x 7) + x 1 * (x 5 * x 6 - x 3 * x 8)
      + x 2 * (x 3 * x 7 - x 4 * x 6) := by
    simp [D9, Matrix.det_fin_three]; ring
  have ht : (f80.«Dyad::Inverse()»).tree =
      .node .ne (condA (f80.«Dyad::Inverse()»).tree) (condB (f80.«Dyad::Inverse()»).tree)
        (.leaf (.bool true :: inverseOuts (f80.«Dyad::Inverse()»).tree)) (.leaf [.bool false]) := rfl
  have hc : (condA (f80.«Dyad::Inverse()»).tree).evalR x = (D9 x 0).det := by
    rw [hdet]; simp [condA, f80.«Dyad::Inverse()», Expr.evalR, BinOp.evalR]
  have hz : (condB (f80.«Dyad::Inverse()»).tree).evalR x = 0 := by simp [condB, f80.«Dyad::Inverse()», Expr.evalR, dyadicR]
  constructor
  · intro h
    rw [ht]; simp [DTree.leafR, CmpOp.evalR, hc, hz, h]
  · intro h
    have hinv : matOfList (numsR x (inverseOuts (f80.«Dyad::Inverse()»).tree)) = (D9 x 0)⁻¹ := by
      rw [Matrix.inv_def, Ring.inverse_eq_inv']
      have h' := h
      rw [hdet] at h' ⊢
      simp [inverseOuts, f80.«Dyad::Inverse()», numsR, Out.evalR, Expr.evalR, BinOp.evalR, matOfList, D9,
        Matrix.adjugate_fin_three_of]
      (repeat' constructor) <;> (field_simp; try ring1)
    refine ⟨?_, hinv, ?_⟩
    · rw [ht]; simp [DTree.leafR, CmpOp.evalR, hc, hz, h]
      rw [← ht]
    · rw [hinv]
      exact Matrix.mul_nonsing_inv _ (isUnit_iff_ne_zero.mpr h)


theorem symmetric_inverse_f80 (x : Nat → ℝ) :
    ((S6 x 0).det = 0 → (f80.«SymmetricDyad::Inverse()»).tree.leafR x = some [.bool false]) ∧
    ((S6 x 0).det ≠ 0 →
      (f80.«SymmetricDyad::Inverse()»).tree.leafR x =
        some (.bool true :: inverseOuts (f80.«SymmetricDyad::Inverse()»).tree) ∧
      matOfList (numsR x (inverseOuts (f80.«SymmetricDyad::Inverse()»).tree)) = (S6 x 0)⁻¹ ∧
      S6 x 0 * matOfList (numsR x (inverseOuts (f80.«SymmetricDyad::Inverse()»).tree)) = 1) := by
  have hdet : (S6 x 0).det = x 0 * (x 3 * x 5 - x 4 * x 4) + x 1 * (x 4 * x 2 - x 1 * x 5)
      + x 2 * (x 1 * x 4 - x 3 * x 2) := by
    simp [S6, Matrix.det_fin_three]; ring
  have ht : (f80.«SymmetricDyad::Inverse()»).tree =
      .node .ne (condA (f80.«SymmetricDyad::Inverse()»).tree) (condB (f80.«SymmetricDyad::Inverse()»).tree)
        (.leaf (.bool true :: inverseOuts (f80.«SymmetricDyad::Inverse()»).tree)) (.leaf [.bool false]) := rfl
  have hc : (condA (f80.«SymmetricDyad::Inverse()»).tree).evalR x = (S6 x 0).det := by
    rw [hdet]; simp [condA, f80.«SymmetricDyad::Inverse()», Expr.evalR, BinOp.evalR]
  have hz : (condB (f80.«SymmetricDyad::Inverse()»).tree).evalR x = 0 := by simp [condB, f80.«SymmetricDyad::Inverse()», Expr.evalR, dyadicR]
  constructor
  · intro h
    rw [ht]; simp [DTree.leafR, CmpOp.evalR, hc, hz, h]
  · intro h
    have hinv : matOfList (numsR x (inverseOuts (f80.«SymmetricDyad::Inverse()»).tree)) = (S6 x 0)⁻¹ := by
      rw [Matrix.inv_def, Ring.inverse_eq_inv']
      have h' := h
      rw [hdet] at h' ⊢
      simp [inverseOuts, f80.«SymmetricDyad::Inverse()», numsR, Out.evalR, Expr.evalR, BinOp.evalR, matOfList, S6,
        Matrix.adjugate_fin_three_of]
      (repeat' constructor) <;> (field_simp; try ring1)
    refine ⟨?_, hinv, ?_⟩
    · rw [ht]; simp [DTree.leafR, CmpOp.evalR, hc, hz, h]
      rw [← ht]
    · rw [hinv]
      exact Matrix.mul_nonsing_inv _ (isUnit_iff_ne_zero.mpr h)


theorem dyad_is_symmetric (x : Nat → ℝ) :
    (f64.«Dyad::IsSymmetric()»).tree.leafR x =
      some [.bool (decide ((D9 x 0)ᵀ = D9 x 0))] := by
  classical
  have key : ((D9 x 0)ᵀ = D9 x 0) ↔ (x 1 = x 3 ∧ x 2 = x 6 ∧ x 5 = x 7) := by
    constructor
    · intro h
      have h01 := congrFun (congrFun h 0) 1
      have h02 := congrFun (congrFun h 0) 2
      have h12 := congrFun (congrFun h 1) 2
      simp [D9] at h01 h02 h12
      exact ⟨h01.symm, h02.symm, h12.symm⟩
    · rintro ⟨h1, h2, h3⟩
      ext i j; fin_cases i <;> fin_cases j <;> simp [D9, h1, h2, h3]
  by_cases h1 : x 1 = x 3 <;> by_cases h2 : x 2 = x 6 <;> by_cases h3 : x 5 = x 7 <;>
    simp [f64.«Dyad::IsSymmetric()», DTree.leafR, CmpOp.evalR, Expr.evalR, key, h1, h2, h3]

/-! ### The same formulas in `float` and `long double` -/

/-- Every traced entry of the four tensor classes (and of every other class) has, in `float` and in
`long double`, the same skeleton as in `double`: over the reals the three instantiations return the
same values on every input, so the theorems above hold verbatim for all three numeric types. -/
theorem all_formats :
    ∀ t ∈ FmtTriples.rows, ∀ x : Nat → ℝ,
      t.1.tree.valuesR x = t.2.1.tree.valuesR x ∧ t.2.2.tree.valuesR x = t.2.1.tree.valuesR x := by
  intro t ht x
  exact sameFormula_sound (List.all_eq_true.mp Obl.SameFormula t ht) x

/-! ### Non-vacuity -/

example : (D9 (fun i => if i = 0 ∨ i = 4 ∨ i = 8 then 2 else 0) 0).det ≠ 0 := by
  simp [D9, Matrix.det_fin_three]
set_option maxRecDepth 100000 in
example : 0 < FmtTriples.rows_0.length := by decide

end PhQVerif.Props.C09
