/-
Props/C12.lean — C12: an elastic isotropic solid is the same material from any modulus pair.

Statement (properties.jsonl): whichever of the twenty supported pairs of elastic moduli an elastic
isotropic solid is built from, it represents the same material: the seven moduli it reports satisfy
the identities of isotropic elasticity (E = μ(3λ+2μ)/(λ+μ), K = λ+2μ/3, M = λ+2μ, ν = λ/(2(λ+μ))) and
rebuilding it from any reported pair reproduces it, for Poisson ratios in [0, 0.5). Its stress is
2μ·ε + λ·tr(ε)·I, its strain function inverts that map, strain-rate arguments do not matter, and the
results are the same (to the precision of each type) in float, double and long double and through
the abstract model interface.

All theorems are about the traces of the current source (binary64 instantiation; `all_formats`,
`overloads_same_formula` transfer them to the other eight (model format × argument format)
combinations and to calls through `const ConstitutiveModel&`), over the reals, for all admissible
materials `μ > 0`, `λ ≥ 0` (⇔ `0 ≤ ν < ½`) and all strains / stresses.
-/
import Mathlib.Tactic.Ring
import Mathlib.Tactic.FieldSimp
import Mathlib.Tactic.Positivity
import Mathlib.Tactic.NormNum
import Mathlib.Tactic.Linarith
import PhQVerif.Theory.Tensor
import Mathlib.LinearAlgebra.Matrix.Trace
import PhQVerif.Checkers
import PhQVerif.Generated.M_ElasticIsotropicSolid
import PhQVerif.Generated.Obl_SameFormula
import PhQVerif.Generated.Obl_ModelOverloads
import PhQVerif.Generated.Obl_NarrowM
import PhQVerif.Generated.All

namespace PhQVerif.Props.C12
open PhQVerif Generated

/-! The textbook moduli as functions of the Lamé pair (μ, λ). -/
noncomputable def youngOf (μ l : ℝ) : ℝ := μ * (3 * l + 2 * μ) / (l + μ)
noncomputable def bulkOf (μ l : ℝ) : ℝ := l + 2 * μ / 3
noncomputable def pwaveOf (μ l : ℝ) : ℝ := l + 2 * μ
noncomputable def poissonOf (μ l : ℝ) : ℝ := l / (2 * (l + μ))

/-- Inputs given as a list. -/
def envOf (l : List ℝ) : Nat → ℝ := fun i => l.getD i 0

macro "unfold_entry" e:term : tactic =>
  `(tactic| simp [Entry.outsR, Entry.numOuts, $e:term, Expr.evalR, BinOp.evalR, UnOp.evalR, dyadicR, envOf,
      youngOf, bulkOf, pwaveOf, poissonOf])

/-! ### The seven reported moduli satisfy the identities of isotropic elasticity -/

theorem shear_accessor (x : Nat → ℝ) :
    (f64.«model::ElasticIsotropicSolid::ShearModulus()»).outsR x = [x 0] := by
  unfold_entry f64.«model::ElasticIsotropicSolid::ShearModulus()»

theorem lame_accessor (x : Nat → ℝ) :
    (f64.«model::ElasticIsotropicSolid::LameFirstModulus()»).outsR x = [x 1] := by
  unfold_entry f64.«model::ElasticIsotropicSolid::LameFirstModulus()»

theorem young_identity (x : Nat → ℝ) :
    (f64.«model::ElasticIsotropicSolid::YoungModulus()»).outsR x = [youngOf (x 0) (x 1)] := by
  unfold_entry f64.«model::ElasticIsotropicSolid::YoungModulus()»
  try ring

theorem isentropic_bulk_identity (x : Nat → ℝ) :
    (f64.«model::ElasticIsotropicSolid::IsentropicBulkModulus()»).outsR x = [bulkOf (x 0) (x 1)] := by
  unfold_entry f64.«model::ElasticIsotropicSolid::IsentropicBulkModulus()»
  try ring

theorem isothermal_bulk_identity (x : Nat → ℝ) :
    (f64.«model::ElasticIsotropicSolid::IsothermalBulkModulus()»).outsR x = [bulkOf (x 0) (x 1)] := by
  unfold_entry f64.«model::ElasticIsotropicSolid::IsothermalBulkModulus()»
  try ring

theorem pwave_identity (x : Nat → ℝ) :
    (f64.«model::ElasticIsotropicSolid::PWaveModulus()»).outsR x = [pwaveOf (x 0) (x 1)] := by
  unfold_entry f64.«model::ElasticIsotropicSolid::PWaveModulus()»
  try ring

theorem poisson_identity (x : Nat → ℝ) :
    (f64.«model::ElasticIsotropicSolid::PoissonRatio()»).outsR x = [poissonOf (x 0) (x 1)] := by
  unfold_entry f64.«model::ElasticIsotropicSolid::PoissonRatio()»
  by_cases h : x 1 + x 0 = 0
  · have h' : x 0 + x 1 = 0 := by linarith
    simp [h, h']
  · have h' : x 0 + x 1 ≠ 0 := by rwa [add_comm]
    field_simp
    ring

/-! ### Rebuilding from any reported pair reproduces the material

For each of the twenty constructors `C(A, B)`: feed it the exact values `A(μ, λ)`, `B(μ, λ)` of the
corresponding two moduli of an admissible material; the stored pair is `(μ, λ)` again. -/

/-- The stored `(μ, λ)` after constructing from the two given numbers. -/
noncomputable def built (e : Entry) (a b : ℝ) : List ℝ := e.outsR (envOf [a, b])

section Rebuild
variable (μ l : ℝ) (hμ : 0 < μ) (hl : 0 ≤ l)
include hμ hl
set_option linter.unusedSectionVars false

macro "rebuild" e:term : tactic =>
  `(tactic| (
    have h1 : l + μ ≠ 0 := by positivity
    have h2 : 3 * l + 2 * μ ≠ 0 := by positivity
    simp [built, Entry.outsR, Entry.numOuts, $e:term, Expr.evalR, BinOp.evalR, UnOp.evalR, dyadicR, envOf,
      youngOf, bulkOf, pwaveOf, poissonOf]
    all_goals (first
      | (constructor <;> first | (field_simp; ring1) | (field_simp; done) | ring1)
      | (field_simp; ring1) | (field_simp; done) | ring1)))

theorem rebuild_shear_lame :
    built f64.«model::ElasticIsotropicSolid::ctor(ShearModulus,LameFirstModulus)» μ l = [μ, l] := by
  simp [built, Entry.outsR, Entry.numOuts, f64.«model::ElasticIsotropicSolid::ctor(ShearModulus,LameFirstModulus)»,
    Expr.evalR, envOf]

theorem rebuild_shear_pwave :
    built f64.«model::ElasticIsotropicSolid::ctor(ShearModulus,PWaveModulus)» μ (pwaveOf μ l) = [μ, l] := by
  rebuild f64.«model::ElasticIsotropicSolid::ctor(ShearModulus,PWaveModulus)»

theorem rebuild_shear_isentropic :
    built f64.«model::ElasticIsotropicSolid::ctor(ShearModulus,IsentropicBulkModulus)» μ (bulkOf μ l) = [μ, l] := by
  rebuild f64.«model::ElasticIsotropicSolid::ctor(ShearModulus,IsentropicBulkModulus)»

theorem rebuild_shear_isothermal :
    built f64.«model::ElasticIsotropicSolid::ctor(ShearModulus,IsothermalBulkModulus)» μ (bulkOf μ l) = [μ, l] := by
  rebuild f64.«model::ElasticIsotropicSolid::ctor(ShearModulus,IsothermalBulkModulus)»

theorem rebuild_lame_pwave :
    built f64.«model::ElasticIsotropicSolid::ctor(LameFirstModulus,PWaveModulus)» l (pwaveOf μ l) = [μ, l] := by
  rebuild f64.«model::ElasticIsotropicSolid::ctor(LameFirstModulus,PWaveModulus)»

theorem rebuild_isentropic_lame :
    built f64.«model::ElasticIsotropicSolid::ctor(IsentropicBulkModulus,LameFirstModulus)» (bulkOf μ l) l = [μ, l] := by
  rebuild f64.«model::ElasticIsotropicSolid::ctor(IsentropicBulkModulus,LameFirstModulus)»

theorem rebuild_isothermal_lame :
    built f64.«model::ElasticIsotropicSolid::ctor(IsothermalBulkModulus,LameFirstModulus)» (bulkOf μ l) l = [μ, l] := by
  rebuild f64.«model::ElasticIsotropicSolid::ctor(IsothermalBulkModulus,LameFirstModulus)»

theorem rebuild_isentropic_pwave :
    built f64.«model::ElasticIsotropicSolid::ctor(IsentropicBulkModulus,PWaveModulus)» (bulkOf μ l) (pwaveOf μ l) = [μ, l] := by
  rebuild f64.«model::ElasticIsotropicSolid::ctor(IsentropicBulkModulus,PWaveModulus)»

theorem rebuild_isothermal_pwave :
    built f64.«model::ElasticIsotropicSolid::ctor(IsothermalBulkModulus,PWaveModulus)» (bulkOf μ l) (pwaveOf μ l) = [μ, l] := by
  rebuild f64.«model::ElasticIsotropicSolid::ctor(IsothermalBulkModulus,PWaveModulus)»

theorem rebuild_isentropic_poisson :
    built f64.«model::ElasticIsotropicSolid::ctor(IsentropicBulkModulus,PoissonRatio)» (bulkOf μ l) (poissonOf μ l) = [μ, l] := by
  rebuild f64.«model::ElasticIsotropicSolid::ctor(IsentropicBulkModulus,PoissonRatio)»

theorem rebuild_isothermal_poisson :
    built f64.«model::ElasticIsotropicSolid::ctor(IsothermalBulkModulus,PoissonRatio)» (bulkOf μ l) (poissonOf μ l) = [μ, l] := by
  rebuild f64.«model::ElasticIsotropicSolid::ctor(IsothermalBulkModulus,PoissonRatio)»

macro "open_ctor" e:term : tactic =>
  `(tactic| simp [built, Entry.outsR, Entry.numOuts, $e:term, Expr.evalR, BinOp.evalR, UnOp.evalR, dyadicR, envOf])

theorem rebuild_young_poisson :
    built f64.«model::ElasticIsotropicSolid::ctor(YoungModulus,PoissonRatio)» (youngOf μ l) (poissonOf μ l) = [μ, l] := by
  have h1 : l + μ ≠ 0 := by positivity
  have h2 : 3 * l + 2 * μ ≠ 0 := by positivity
  have s1 : 1 + poissonOf μ l = (3 * l + 2 * μ) / (2 * (l + μ)) := by unfold poissonOf; field_simp; ring
  have s2 : 1 - 2 * poissonOf μ l = μ / (l + μ) := by unfold poissonOf; field_simp; ring
  open_ctor f64.«model::ElasticIsotropicSolid::ctor(YoungModulus,PoissonRatio)»
  rw [s1, s2]; unfold youngOf poissonOf
  constructor <;> (field_simp)

theorem rebuild_young_shear :
    built f64.«model::ElasticIsotropicSolid::ctor(YoungModulus,ShearModulus)» (youngOf μ l) μ = [μ, l] := by
  have h1 : l + μ ≠ 0 := by positivity
  have s1 : 3 * μ - youngOf μ l = μ ^ 2 / (l + μ) := by unfold youngOf; field_simp; ring
  have s2 : youngOf μ l - 2 * μ = μ * l / (l + μ) := by unfold youngOf; field_simp; ring
  open_ctor f64.«model::ElasticIsotropicSolid::ctor(YoungModulus,ShearModulus)»
  rw [s1, s2]; field_simp

theorem rebuild_young_isentropic :
    built f64.«model::ElasticIsotropicSolid::ctor(YoungModulus,IsentropicBulkModulus)» (youngOf μ l) (bulkOf μ l) = [μ, l] := by
  have h1 : l + μ ≠ 0 := by positivity
  have h2 : 3 * l + 2 * μ ≠ 0 := by positivity
  have s1 : 9 * bulkOf μ l - youngOf μ l = (3 * l + 2 * μ) ^ 2 / (l + μ) := by
    unfold youngOf bulkOf; field_simp; ring
  have s2 : 3 * bulkOf μ l - youngOf μ l = (3 * l + 2 * μ) * l / (l + μ) := by
    unfold youngOf bulkOf; field_simp; ring
  open_ctor f64.«model::ElasticIsotropicSolid::ctor(YoungModulus,IsentropicBulkModulus)»
  rw [s1, s2]; unfold youngOf bulkOf
  constructor <;> (field_simp; try ring)

theorem rebuild_young_isothermal :
    built f64.«model::ElasticIsotropicSolid::ctor(YoungModulus,IsothermalBulkModulus)» (youngOf μ l) (bulkOf μ l) = [μ, l] := by
  have h1 : l + μ ≠ 0 := by positivity
  have h2 : 3 * l + 2 * μ ≠ 0 := by positivity
  have s1 : 9 * bulkOf μ l - youngOf μ l = (3 * l + 2 * μ) ^ 2 / (l + μ) := by
    unfold youngOf bulkOf; field_simp; ring
  have s2 : 3 * bulkOf μ l - youngOf μ l = (3 * l + 2 * μ) * l / (l + μ) := by
    unfold youngOf bulkOf; field_simp; ring
  open_ctor f64.«model::ElasticIsotropicSolid::ctor(YoungModulus,IsothermalBulkModulus)»
  rw [s1, s2]; unfold youngOf bulkOf
  constructor <;> (field_simp; try ring)

theorem rebuild_shear_poisson :
    built f64.«model::ElasticIsotropicSolid::ctor(ShearModulus,PoissonRatio)» μ (poissonOf μ l) = [μ, l] := by
  have h1 : l + μ ≠ 0 := by positivity
  have s2 : 1 - 2 * poissonOf μ l = μ / (l + μ) := by unfold poissonOf; field_simp; ring
  open_ctor f64.«model::ElasticIsotropicSolid::ctor(ShearModulus,PoissonRatio)»
  rw [s2]; unfold poissonOf; field_simp

theorem rebuild_pwave_poisson :
    built f64.«model::ElasticIsotropicSolid::ctor(PWaveModulus,PoissonRatio)» (pwaveOf μ l) (poissonOf μ l) = [μ, l] := by
  have h1 : l + μ ≠ 0 := by positivity
  have h3 : l + 2 * μ ≠ 0 := by positivity
  have s1 : 2 - 2 * poissonOf μ l = (l + 2 * μ) / (l + μ) := by unfold poissonOf; field_simp; ring
  have s2 : 1 - 2 * poissonOf μ l = μ / (l + μ) := by unfold poissonOf; field_simp; ring
  have s3 : 1 - poissonOf μ l = (l + 2 * μ) / (2 * (l + μ)) := by unfold poissonOf; field_simp; ring
  open_ctor f64.«model::ElasticIsotropicSolid::ctor(PWaveModulus,PoissonRatio)»
  rw [s1, s2, s3]; unfold pwaveOf poissonOf
  constructor <;> (field_simp)

/-- The pair (λ, ν) determines μ only when ν ≠ 0 (at ν = 0 both are zero and carry no information):
this one constructor is stated for λ > 0. -/
theorem rebuild_lame_poisson (hl' : 0 < l) :
    built f64.«model::ElasticIsotropicSolid::ctor(LameFirstModulus,PoissonRatio)» l (poissonOf μ l) = [μ, l] := by
  have h1 : l + μ ≠ 0 := by positivity
  have s1 : 2 * poissonOf μ l = l / (l + μ) := by unfold poissonOf; field_simp
  have s2 : 1 - 2 * poissonOf μ l = μ / (l + μ) := by unfold poissonOf; field_simp; ring
  open_ctor f64.«model::ElasticIsotropicSolid::ctor(LameFirstModulus,PoissonRatio)»
  rw [s1]
  have hl0 : l ≠ 0 := hl'.ne'
  field_simp; ring

theorem rebuild_young_lame :
    built f64.«model::ElasticIsotropicSolid::ctor(YoungModulus,LameFirstModulus)» (youngOf μ l) l = [μ, l] := by
  have h1 : l + μ ≠ 0 := by positivity
  have hS : 0 ≤ (2 * μ ^ 2 + 4 * μ * l + 3 * l ^ 2) / (l + μ) := by positivity
  have hR : youngOf μ l ^ 2 + 9 * l ^ 2 + 2 * youngOf μ l * l =
      ((2 * μ ^ 2 + 4 * μ * l + 3 * l ^ 2) / (l + μ)) ^ 2 := by
    unfold youngOf; field_simp; ring
  open_ctor f64.«model::ElasticIsotropicSolid::ctor(YoungModulus,LameFirstModulus)»
  rw [hR, Real.sqrt_sq hS]; unfold youngOf; field_simp; ring

theorem rebuild_young_pwave :
    built f64.«model::ElasticIsotropicSolid::ctor(YoungModulus,PWaveModulus)» (youngOf μ l) (pwaveOf μ l) = [μ, l] := by
  have h1 : l + μ ≠ 0 := by positivity
  have hS : 0 ≤ l * (3 * l + 4 * μ) / (l + μ) := by positivity
  have hR : youngOf μ l ^ 2 + 9 * pwaveOf μ l ^ 2 - 5 * 2 * youngOf μ l * pwaveOf μ l =
      (l * (3 * l + 4 * μ) / (l + μ)) ^ 2 := by
    unfold youngOf pwaveOf; field_simp; ring
  open_ctor f64.«model::ElasticIsotropicSolid::ctor(YoungModulus,PWaveModulus)»
  rw [hR, Real.sqrt_sq hS]; unfold youngOf pwaveOf
  constructor <;> (field_simp; ring)

end Rebuild

/-! ### Stress, strain, and the arguments that do not matter -/

open Matrix in
/-- **Hooke's law.** `Stress(ε) = 2μ·ε + λ·tr(ε)·I` for all strains (inputs 2…7 are ε, stored
`xx xy xz yy yz zz`; inputs 0, 1 are μ, λ). -/
theorem stress_is_hooke (x : Nat → ℝ) :
    matOfList ((f64.«model::ElasticIsotropicSolid::Stress(Strain)[A=64,direct]»).outsR x) =
      (2 * x 0) • S6 x 2 + (x 1 * (S6 x 2).trace) • (1 : Matrix (Fin 3) (Fin 3) ℝ) := by
  simp [Entry.outsR, Entry.numOuts, f64.«model::ElasticIsotropicSolid::Stress(Strain)[A=64,direct]»,
    Expr.evalR, BinOp.evalR, dyadicR, matOfList, S6, Matrix.trace, Fin.sum_univ_three]
  ext i j; fin_cases i <;> fin_cases j <;> simp <;> ring

/-- **The strain function inverts the stress function** for every admissible material and every
strain: `Strain(Stress(ε)) = ε`. -/
theorem strain_inverts_stress (μ l : ℝ) (hμ : 0 < μ) (hl : 0 ≤ l) (ε : List ℝ) (hε : ε.length = 6) :
    (f64.«model::ElasticIsotropicSolid::Strain(Stress)[A=64,direct]»).outsR
      (envOf (μ :: l :: (f64.«model::ElasticIsotropicSolid::Stress(Strain)[A=64,direct]»).outsR
        (envOf (μ :: l :: ε)))) = ε := by
  match ε, hε with
  | [a, b, c, d, e, f], _ =>
    have h1 : μ ≠ 0 := hμ.ne'
    have h2 : 2 * μ + 3 * l ≠ 0 := by positivity
    simp [Entry.outsR, Entry.numOuts, f64.«model::ElasticIsotropicSolid::Strain(Stress)[A=64,direct]»,
      f64.«model::ElasticIsotropicSolid::Stress(Strain)[A=64,direct]», Expr.evalR, BinOp.evalR, UnOp.evalR,
      dyadicR, envOf]
    refine ⟨?_, ?_, ?_, ?_, ?_, ?_⟩ <;> (field_simp; try ring)

/-- **Strain-rate arguments do not matter**: the two-argument `Stress(ε, ε̇)` returns exactly
`Stress(ε)`, whatever the strain rate (inputs 8…13). -/
theorem strain_rate_ignored (x : Nat → ℝ) :
    (f64.«model::ElasticIsotropicSolid::Stress(Strain,StrainRate)[A=64,direct]»).outsR x =
      (f64.«model::ElasticIsotropicSolid::Stress(Strain)[A=64,direct]»).outsR x := by
  simp [Entry.outsR, Entry.numOuts, f64.«model::ElasticIsotropicSolid::Stress(Strain,StrainRate)[A=64,direct]»,
    f64.«model::ElasticIsotropicSolid::Stress(Strain)[A=64,direct]», Expr.evalR]

/-- A strain rate alone produces zero stress, and a stress produces zero strain rate. -/
theorem rate_stubs_are_zero (x : Nat → ℝ) :
    (f64.«model::ElasticIsotropicSolid::Stress(StrainRate)[A=64,direct]»).outsR x = [0, 0, 0, 0, 0, 0] ∧
    (f64.«model::ElasticIsotropicSolid::StrainRate(Stress)[A=64,direct]»).outsR x = [0, 0, 0, 0, 0, 0] := by
  constructor <;>
  simp [Entry.outsR, Entry.numOuts, f64.«model::ElasticIsotropicSolid::Stress(StrainRate)[A=64,direct]»,
    f64.«model::ElasticIsotropicSolid::StrainRate(Stress)[A=64,direct]», Expr.evalR, dyadicR]

/-! ### All numeric types, and the abstract interface -/

/-- Every entry of the three model classes (constructors, accessors, virtual functions) computes in
`float` and `long double` the same formula as in `double`. -/
theorem all_formats :
    ∀ t ∈ FmtTriples.rows, ∀ x : Nat → ℝ,
      t.1.tree.valuesR x = t.2.1.tree.valuesR x ∧ t.2.2.tree.valuesR x = t.2.1.tree.valuesR x := by
  intro t ht x
  exact sameFormula_sound (List.all_eq_true.mp Obl.SameFormula t ht) x

/-- **C12 (every overload in its own precision).** No operation of any constructor, accessor or of any of
the three numeric-type overloads of the model functions — on models of all three numeric types, called
directly and through the abstract interface — is carried out with fewer significand bits than the lower
of the model's and the argument's numeric type. Together with `overloads_same_formula` (same formula over
the reals) this is what "the same, to the precision of each type" means; a `static_cast<float>` left in
the `double` overload is invisible to the formula but not to this theorem. -/
theorem overloads_keep_precision :
    ∀ e ∈ modelEntries, ∀ ex ∈ e.tree.exprs, e.needP ≤ ex.minP := by
  intro e he ex hex
  have h : Chk.NoNarrowing e = true := List.all_eq_true.mp Obl.NarrowM e he
  simp only [Chk.NoNarrowing, checkNoNarrowing, List.all_eq_true, decide_eq_true_eq] at h
  exact h ex hex

/-- Every one of the three numeric-type overloads of each of the five virtual functions (and of
`GetType`, `Print`, `JSON`, `XML`, `YAML`), called directly or **through a reference to the abstract
base class**, for each of the three model formats, computes the same formula as the `double`
overload of the `double` model called directly. `ModelOverloads.rows` pairs each such variant with
that reference variant. -/
theorem overloads_same_formula :
    ∀ t ∈ ModelOverloads.rows, ∀ x : Nat → ℝ, t.1.tree.valuesR x = t.2.1.tree.valuesR x := by
  intro t ht x
  exact (sameFormula_sound (List.all_eq_true.mp Obl.ModelOverloads t ht) x).1

/-! ### Non-vacuity -/

example : 0 < (1 : ℝ) ∧ (0 : ℝ) ≤ 0 := ⟨one_pos, le_refl 0⟩
set_option maxRecDepth 100000 in
example : 0 < ModelOverloads.rows_0.length := by decide

end PhQVerif.Props.C12
