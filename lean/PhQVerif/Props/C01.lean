/-
Props/C01.lean — C01: every unit converts by the factor its own symbol implies, to a few ulps.

Statement (properties.jsonl): converting any finite value between any two units of the same type
applies exactly the affine map implied by the units' definitions: the SI magnitude obtained by
expanding the unit's own symbol into base and named units (ft·lbf/slug/°R = ft·lbf ÷ (slug·°R),
kiB = 8·1024 bit, mi/hr = 1609.344 m ÷ 3600 s) and, for °C and °F only, the standard zero offsets. The
result is within a few units in the last place of the exact answer in float, double and long double,
for every sign and magnitude that does not overflow.

What is proved here, for all 514 units × 2 directions × 3 formats (regenerated kernels):
* `kernels_match_their_symbols` — every kernel is the identity, `x·K`, `x/K` with an input-free
  constant `K` (for the two affine temperature units `x + c`, `(x + c)/k`, `x − c`, `k·x − c`), and the
  *exact* value of `K` as the code computes it (evaluated by the kernel with the soft-float, including
  the up-to-six casts and five operations of the composite constants) lies within relative `4·2^-p`
  of the factor `A_u/A_std = q·π^k` that the unit-symbol oracle derives from the unit's own
  abbreviation (`c`, `k` within `4·2^-p` of 273.15 / 459.67 / 1.8);
* `scale_constant_real_bound` — what that means over the reals (with `Real.pi`, via Mathlib's
  20-digit bounds): `A_lo ≤ A ≤ A_hi` and `A_lo·(1 − 4·2^-p) ≤ K ≤ A_hi·(1 + 4·2^-p)`.
Together with C02 (every conversion entry point is the composition of two kernels, bit for bit) and
one rounding per kernel application (Theory/Round.lean: `|fl(x·K) − x·K| ≤ 2^-p·|x·K|` in the normal
range), a conversion `u → v` is within `((1 + 4u)²(1 + u)² − 1) < 11u` of the exact answer — "a few
ulps"; for the affine units the bound is relative to `|a·x| + |b|` (DESIGN.md §7, C01).
-/
import PhQVerif.Theory.Within
import PhQVerif.Checkers
import PhQVerif.Generated.Obl_C01k32
import PhQVerif.Generated.Obl_C01k64
import PhQVerif.Generated.Obl_C01k80
import PhQVerif.Theory.Round

namespace PhQVerif.Props.C01
open PhQVerif Generated

/-- The kernel table of a unit type in a format. -/
def kernelRows (fm : Fm) : List (UnitType × UnitKernels) :=
  match fm with
  | .f32 => unitTypes.zip kernelsByType32
  | .f64 => unitTypes.zip kernelsByType64
  | .f80 => unitTypes.zip kernelsByType80

/-- **C01 (table theorem).** For every unit type, format and unit: both kernels pass `checkKernels`
with the cap `4·2^-p` against the oracle factor of the unit's own symbol. -/
theorem kernels_match_their_symbols (fm : Fm) :
    ∀ uk ∈ kernelRows fm, checkKernels fm 4 uk.1 uk.2 = true := by
  intro uk huk
  cases fm
  · exact List.all_eq_true.mp Obl.C01k32 uk huk
  · exact List.all_eq_true.mp Obl.C01k64 uk huk
  · exact List.all_eq_true.mp Obl.C01k80 uk huk

/-- **C01 (meaning over the reals).** If `checkKernel` accepts a kernel of the shape `x ↦ x·K` in the
direction "to standard" against the oracle factor `want = q·π^k` (`want.den ≠ 0`), then the exact
value `K` of the code's constant satisfies, with `A = q·π^k` for the *real* π:
`A_lo ≤ A ≤ A_hi` and `A_lo·(1 − ek/2^p) ≤ K ≤ A_hi·(1 + ek/2^p)`, where `[A_lo, A_hi]` is the
rational enclosure of `A` from 20 digits of π. -/
theorem scale_constant_real_bound {fm : Fm} {ek : Nat} {want : Meaning} {ke K : Expr} (hd : want.den ≠ 0)
    (hshape : kernelShape ke = .scale K false) (h : checkKernel fm ek want true ke = true) :
    ∃ k : Nat × Nat, flPosRat (K.evalF Libm.none (fun _ => .nan)) = some k ∧
      ratR (enclose want).1 ≤ want.toReal ∧ want.toReal ≤ ratR (enclose want).2 ∧
      ratR (enclose want).1 * (1 - (ek : ℝ) / 2 ^ fm.fmt.p) ≤ ratR k ∧
      ratR k ≤ ratR (enclose want).2 * (1 + (ek : ℝ) / 2 ^ fm.fmt.p) := by
  unfold checkKernel at h
  simp only [hshape, if_true] at h
  cases hk : flPosRat (K.evalF Libm.none (fun _ => .nan)) with
  | none => simp [hk] at h
  | some k =>
    simp only [hk, Bool.false_eq_true, if_false] at h
    obtain ⟨h1, h2⟩ := enclose_sound want hd
    obtain ⟨h3, h4⟩ := within_sound h
    exact ⟨k, rfl, h1, h2, h3, h4⟩

/-- **C01 (one conversion step, end to end).** For a kernel `x ↦ x·K` whose constant is within relative
`c` of the factor `A` its unit's symbol implies (`kernels_match_their_symbols` gives `c = 4·2^-p` for
every unit and format, up to the 10^-20 width of the π enclosure), the value the code computes is
within relative `u·(1+c) + c` of the exact `x·A`: about five units in the last place, for every finite
non-zero `x` of either sign whose result neither underflows nor overflows. A conversion between two
units is two such steps (C02), so about ten. -/
theorem conversion_step_accuracy (fm : Fm) (s1 s2 : Bool) (m1 m2 : Nat) (e1 e2 : Int)
    (h1 : 0 < m1) (h2 : 0 < m2) (A c : ℝ) (hA : 0 < A) (hc : 0 ≤ c)
    (hK : |Fl.toReal (.fin s2 m2 e2) - A| ≤ c * A)
    (hnorm : fm.fmt.minNormal ≤ |Fl.toReal (.fin s1 m1 e1) * Fl.toReal (.fin s2 m2 e2)|)
    {r : Fl} (hr : Fl.mul fm.fmt (.fin s1 m1 e1) (.fin s2 m2 e2) = r) (hfin : r.isFinite = true) :
    |Fl.toReal r - Fl.toReal (.fin s1 m1 e1) * A| ≤
      (fm.fmt.u * (1 + c) + c) * (|Fl.toReal (.fin s1 m1 e1)| * A) :=
  Fl.mul_const_accuracy fm.fmt (by cases fm <;> decide) s1 s2 m1 m2 e1 e2 h1 h2 A c hA hc hK hnorm hr hfin

/-- The same for a kernel `x ↦ x / K`. -/
theorem conversion_step_accuracy_div (fm : Fm) (s1 s2 : Bool) (m1 m2 : Nat) (e1 e2 : Int)
    (h1 : 0 < m1) (h2 : 0 < m2) (A c : ℝ) (hA : 0 < A) (hc : 0 ≤ c) (hc1 : c < 1)
    (hK : |Fl.toReal (.fin s2 m2 e2) - A| ≤ c * A)
    (hnorm : fm.fmt.minNormal ≤ |Fl.toReal (.fin s1 m1 e1) / Fl.toReal (.fin s2 m2 e2)|)
    {r : Fl} (hr : Fl.div fm.fmt (.fin s1 m1 e1) (.fin s2 m2 e2) = r) (hfin : r.isFinite = true) :
    |Fl.toReal r - Fl.toReal (.fin s1 m1 e1) / A| ≤
      (fm.fmt.u * (1 + c / (1 - c)) + c / (1 - c)) * (|Fl.toReal (.fin s1 m1 e1)| / A) :=
  Fl.div_const_accuracy fm.fmt (by cases fm <;> decide) s1 s2 m1 m2 e1 e2 h1 h2 A c hA hc hc1 hK hnorm hr hfin

/-- The rational `flPosRat` returns is the value of the floating-point datum. -/
theorem flPosRat_real {v : Fl} {k : Nat × Nat} (h : flPosRat v = some k) :
    ∃ m e, v = .fin false m e ∧ 0 < m ∧ ratR k = Fl.toReal v := by
  cases v with
  | nan => simp [flPosRat] at h
  | inf s => simp [flPosRat] at h
  | fin s m e =>
    cases s with
    | true => simp [flPosRat] at h
    | false =>
      simp only [flPosRat] at h
      split at h
      · cases h
      · rename_i hm
        refine ⟨m, e, rfl, Nat.pos_of_ne_zero hm, ?_⟩
        rw [Fl.toReal_fin]
        simp only [Fl.sgn, Bool.false_eq_true, if_false, one_mul]
        split at h
        · rename_i he
          cases h
          unfold ratR
          simp only
          rw [Nat.cast_mul, Fl.two_zpow_toNat he]; simp
        · rename_i he
          cases h
          have he' : 0 ≤ -e := by omega
          unfold ratR
          simp only
          rw [Fl.two_zpow_toNat he', zpow_neg]; field_simp

/-- **C01 (a multiplicative kernel, end to end, closed form).** For a kernel `x ↦ x·K` accepted by the
table check against a *rational* factor `A = num/den` (no power of π — all but the angular units): the
code's constant is the float `Kv` with `|Kv − A| ≤ (ek/2^p)·A`, and for every finite non-zero `x` whose
product is in the normal range and does not overflow,
`|fl(x·Kv) − x·A| ≤ (u·(1 + c) + c)·|x|·A` with `c = ek/2^p` (`ek = 4` in the table theorem): about five
units in the last place of the exact answer, for either sign and any magnitude in range. -/
theorem rational_scale_kernel_end_to_end {fm : Fm} {ek : Nat} {want : Meaning} {ke K : Expr}
    (hd : want.den ≠ 0) (hn : want.num ≠ 0) (hk0 : want.k = 0)
    (hshape : kernelShape ke = .scale K false) (h : checkKernel fm ek want true ke = true) :
    ∃ m2 e2, K.evalF Libm.none (fun _ => .nan) = .fin false m2 e2 ∧ 0 < m2 ∧
      ∀ (s1 : Bool) (m1 : Nat) (e1 : Int), 0 < m1 →
        fm.fmt.minNormal ≤ |Fl.toReal (.fin s1 m1 e1) * Fl.toReal (.fin false m2 e2)| →
        ∀ r, Fl.mul fm.fmt (.fin s1 m1 e1) (.fin false m2 e2) = r → r.isFinite = true →
          |Fl.toReal r - Fl.toReal (.fin s1 m1 e1) * ((want.num : ℝ) / want.den)| ≤
            (fm.fmt.u * (1 + (ek : ℝ) / 2 ^ fm.fmt.p) + (ek : ℝ) / 2 ^ fm.fmt.p) *
              (|Fl.toReal (.fin s1 m1 e1)| * ((want.num : ℝ) / want.den)) := by
  obtain ⟨k, hk, _, _, hlo, hhi⟩ := scale_constant_real_bound hd hshape h
  obtain ⟨m2, e2, hv, hm2, hreal⟩ := flPosRat_real hk
  have hA : (0 : ℝ) < (want.num : ℝ) / want.den := by
    have : (0 : ℝ) < want.num := by exact_mod_cast Nat.pos_of_ne_zero hn
    have : (0 : ℝ) < want.den := by exact_mod_cast Nat.pos_of_ne_zero hd
    positivity
  -- with k = 0 the enclosure is the point A
  have hencl : ratR (enclose want).1 = (want.num : ℝ) / want.den ∧
      ratR (enclose want).2 = (want.num : ℝ) / want.den := by
    unfold enclose ratR
    simp [hk0]
  rw [hencl.1] at hlo
  rw [hencl.2] at hhi
  rw [hreal, hv] at hlo hhi
  refine ⟨m2, e2, hv, hm2, ?_⟩
  intro s1 m1 e1 hm1 hnorm r hr hfin
  have hc : (0 : ℝ) ≤ (ek : ℝ) / 2 ^ fm.fmt.p := by positivity
  have hK : |Fl.toReal (.fin false m2 e2) - (want.num : ℝ) / want.den| ≤
      (ek : ℝ) / 2 ^ fm.fmt.p * ((want.num : ℝ) / want.den) := by
    rw [abs_le]; constructor <;> nlinarith
  exact conversion_step_accuracy fm s1 false m1 m2 e1 e2 hm1 hm2 _ _ hA hc hK hnorm hr hfin

/-! ### Non-vacuity -/

example : (kernelRows .f64).length = 37 := by decide
example : kernelShape (.bin .mul .f64 (.var 0 .f64) (.lit .f64 false 3 0)) = .scale (.lit .f64 false 3 0) false := by
  rfl

end PhQVerif.Props.C01
