/-
Props/C16.lean — C16: changing floating-point precision casts each component and nothing else.

Statement (properties.jsonl): copy-constructing or assigning any quantity, vector or tensor from one
with another floating-point precision converts every stored component with a plain numeric cast and
keeps it in the same slot; widening followed by narrowing is the identity. For directions the
result is additionally re-normalised, which changes it by no more than two ulps.

The direction clause (DESIGN.md §7, C16): the converting constructor *and* the converting assignment of
`Direction`/`PlanarDirection` cast the components and re-normalise (`direction_cast_then_normalise`).
On the pinned tree the assignment stored the cast components without normalising — a `Direction<double>`
assigned from a `Direction<float>` had length `1 + 1e-8` — which this property's search reproduced on the
real code; it was repaired by the `fix:` commit recorded in known_findings.json, and the theorem fails
to build on the unrepaired source.
-/
import PhQVerif.Theory.Access
import PhQVerif.Theory.Round
import PhQVerif.Checkers
import PhQVerif.Generated.Obl_C16cast
import PhQVerif.Generated.Obl_C16dir

namespace PhQVerif.Props.C16
open PhQVerif Generated

/-- Is `e` a converting constructor or assignment that is specified to be the plain cast (every class
but the two direction classes, whose converting members re-normalise)? -/
def IsPlainCast (e : Entry) : Prop :=
  (e.kind = .castCtor ∨ e.kind = .castAssign) ∧ ¬ (classIsDirection classes e.cls = true)

/-- **C16 (cast, slot for slot).** For every converting constructor and converting assignment of
every quantity, vector and tensor type, every ordered pair of distinct formats and **all** values:
output component `i` is `Fl.cast` (one correctly rounded format conversion) of source component `i`
— nothing else, no other slot. For an assignment the previous contents of the target (the first `n`
inputs) do not occur. -/
theorem cast_componentwise :
    ∀ e ∈ quantityEntries, IsPlainCast e →
      ∃ outs, e.numOuts = some outs ∧
        ((e.kind = .castCtor ∧ e.argSizes = [outs.length] ∧
          ∀ i ex, outs[i]? = some ex → ∀ (L : Libm) (env : Nat → Fl),
            ex.evalF L env = Fl.cast e.fm.fmt (env i)) ∨
         (e.kind = .castAssign ∧ e.argSizes = [outs.length, outs.length] ∧
          ∀ i ex, outs[i]? = some ex → ∀ (L : Libm) (env : Nat → Fl),
            ex.evalF L env = Fl.cast e.fm.fmt (env (outs.length + i)))) := by
  intro e he ⟨hk, hnd⟩
  have hchk : Chk.C16cast e = true := List.all_eq_true.mp Obl.C16cast e he
  have hk' : (e.kind == .castCtor || e.kind == .castAssign) = true := by
    rcases hk with h | h <;> simp [h]
  simp only [Chk.C16cast, checkCast, hk', Bool.not_true, Bool.false_or] at hchk
  cases hu : e.ufm with
  | none => simp [hu] at hchk
  | some u =>
    simp only [hu] at hchk
    have hdir' : classIsDirection classes e.cls = false := by
      simpa using hnd
    simp only [hdir', Bool.false_eq_true, if_false] at hchk
    cases ho : e.numOuts with
    | none => simp [ho] at hchk
    | some outs =>
      refine ⟨outs, rfl, ?_⟩
      simp only [ho] at hchk
      rcases hs : e.argSizes with _ | ⟨n, _ | ⟨m, _ | _⟩⟩
      · simp [hs] at hchk
      · left
        simp only [hs, Bool.and_eq_true, beq_iff_eq] at hchk
        obtain ⟨⟨hkk, hlen⟩, hall⟩ := hchk
        refine ⟨hkk, by rw [hlen], ?_⟩
        intro i ex hi L env
        simp only [allIdx, List.all_eq_true] at hall
        have hmem : (ex, i) ∈ outs.zipIdx := by
          rw [List.mem_zipIdx_iff_getElem?]; simpa using hi
        exact isCastOfVar_sound (hall _ hmem) L env
      · right
        simp only [hs, Bool.and_eq_true, beq_iff_eq] at hchk
        obtain ⟨⟨⟨hkk, hnm⟩, hlen⟩, hall⟩ := hchk
        subst hnm
        refine ⟨hkk, by rw [hlen], ?_⟩
        intro i ex hi L env
        simp only [allIdx, List.all_eq_true] at hall
        have hmem : (ex, i) ∈ outs.zipIdx := by
          rw [List.mem_zipIdx_iff_getElem?]; simpa using hi
        rw [hlen]
        exact isCastOfVar_sound (hall _ hmem) L env
      · simp [hs] at hchk

/-- **C16 (directions).** The converting constructor *and the converting assignment* of a direction
class compute, on every input and along every branch, exactly what the normalising constructor computes
on the component-wise cast of the source: cast first, then re-normalise (zero stays exactly zero; for
the assignment the target's previous components, inputs `0 … n-1`, do not occur). -/
theorem direction_cast_then_normalise :
    ∀ t ∈ DirCast.rows, ∃ u, t.1.ufm = some u ∧ ∀ (L : Libm) (env : Nat → Fl),
      t.1.tree.valuesF L env =
        t.2.tree.valuesF L (fun i => Fl.cast t.1.fm.fmt (env (t.1.castOffset + i))) := by
  intro t ht
  have hchk : Chk.C16dir t = true := List.all_eq_true.mp Obl.C16dir t ht
  simp only [Chk.C16dir, checkDirCast, Bool.and_eq_true] at hchk
  obtain ⟨_, hchk⟩ := hchk
  cases hu : t.1.ufm with
  | none => simp [hu] at hchk
  | some u =>
    simp only [hu] at hchk
    refine ⟨u, rfl, fun L env => ?_⟩
    rw [DTree.beq_eq hchk, DTree.valuesF_subst]
    rfl

/-- Every format of the library has at least one significand bit and a positive `emax`. -/
theorem fm_ok (fm : Fm) : 1 ≤ fm.fmt.p ∧ 1 ≤ fm.fmt.emax := by cases fm <;> decide

/-- **C16 (widening then narrowing is the identity), arithmetic core.** For formats `f ⊆ g` and every
datum `x` of format `f` (every IEEE value of that format, including subnormals, zeros, infinities
and NaN): converting to `g` and back returns `x` itself — bit for bit, for all `x`. -/
theorem widen_narrow_core (f g : Fm) (h : f.fmt.le g.fmt) (x : Fl) (hx : Fl.Canonical f.fmt x) :
    Fl.cast f.fmt (Fl.cast g.fmt x) = x :=
  Fl.cast_cast_of_le f.fmt g.fmt (fm_ok f).1 (fm_ok f).2 h x hx

/-- **C16 (widening then narrowing is the identity), for the converting members.** Take any
converting constructor `wide` into format `g` and any converting constructor `narrow` into format
`f ⊆ g` that are plain casts. Feed `wide` any values of format `f`, and feed its outputs to `narrow`:
slot `i` of the result is the original slot `i`, for all values. -/
theorem widen_then_narrow_is_identity :
    ∀ wide ∈ quantityEntries, ∀ narrow ∈ quantityEntries, IsPlainCast wide → IsPlainCast narrow →
      wide.kind = .castCtor → narrow.kind = .castCtor → narrow.fm.fmt.le wide.fm.fmt →
      ∀ ow on, wide.numOuts = some ow → narrow.numOuts = some on →
      ∀ (L : Libm) (env : Nat → Fl), (∀ i, Fl.Canonical narrow.fm.fmt (env i)) →
      ∀ i ew en, ow[i]? = some ew → on[i]? = some en →
        en.evalF L (fun j => match ow[j]? with | some e => e.evalF L env | none => Fl.nan) = env i := by
  intro wide hw narrow hn pw pn kw kn hle ow on how hon L env hcan i ew en hiw hin
  obtain ⟨ow', how', hW⟩ := cast_componentwise wide hw pw
  obtain ⟨on', hon', hN⟩ := cast_componentwise narrow hn pn
  rw [how] at how'; cases how'
  rw [hon] at hon'; cases hon'
  rcases hW with ⟨_, _, hW⟩ | ⟨hk, _⟩
  · rcases hN with ⟨_, _, hN⟩ | ⟨hk, _⟩
    · rw [hN i en hin L, hiw]
      simp only
      rw [hW i ew hiw L env]
      exact Fl.cast_cast_of_le _ _ (fm_ok _).1 (fm_ok _).2 hle _ (hcan i)
    · rw [kn] at hk; cases hk
  · rw [kw] at hk; cases hk

/-! ### Non-vacuity -/

example : F32.le F64 ∧ F32.le F80 ∧ F64.le F80 := ⟨Fl.F32_le_F64, Fl.F32_le_F80, Fl.F64_le_F80⟩
example : Fl.Canonical F32 (Fl.fin false (2 ^ 23 + 1) (-20)) := by
  unfold Fl.Canonical; decide

example : IsPlainCast (f32.«Velocity::ctor(Velocity<Othernum>)[U=64]») := by
  refine ⟨Or.inl (by decide), ?_⟩
  decide
example : IsPlainCast (f64.«Dyad::operator=(Dyad<Othernum>)[U=80]») := by
  refine ⟨Or.inr (by decide), ?_⟩
  decide
example : (f64.«Direction::operator=(Direction<Othernum>)[U=32]»).castOffset = 3 := by decide
example : DirCast.rows ≠ [] := by simp [DirCast.rows, DirCast.rows_0]

end PhQVerif.Props.C16
