/-
Props/C13.lean — C13: Newtonian fluid models: linear viscous stress and its exact inverse.

Statement (properties.jsonl): for the Newtonian fluid models the stress is 2μ·D, plus μ_b·tr(D)·I for
the compressible model, the strain-rate function inverts that map, strain arguments are ignored (zero
stress from strain alone, zero strain from stress), and building the compressible model from a
dynamic viscosity alone means zero bulk viscosity. These hold identically in float, double and long
double, through the abstract model interface, and both maps are linear.

Theorems are about the traces of the current source (binary64; `all_formats` and
`overloads_same_formula` transfer them to the other numeric types, overloads and to calls through the
base class), over the reals, for all viscosities and all tensors.
-/
import Mathlib.Tactic.Ring
import Mathlib.Tactic.FieldSimp
import Mathlib.Tactic.Positivity
import Mathlib.Tactic.Linarith
import Mathlib.LinearAlgebra.Matrix.Trace
import PhQVerif.Theory.Tensor
import PhQVerif.Checkers
import PhQVerif.Generated.M_CompressibleNewtonianFluid
import PhQVerif.Generated.M_IncompressibleNewtonianFluid
import PhQVerif.Generated.Obl_SameFormula
import PhQVerif.Generated.Obl_ModelOverloads
import PhQVerif.Generated.Obl_NarrowM
import PhQVerif.Generated.All

namespace PhQVerif.Props.C13
open PhQVerif Generated

def envOf (l : List ℝ) : Nat → ℝ := fun i => l.getD i 0

/-! ### Compressible Newtonian fluid (inputs 0, 1: μ, μ_b; inputs 2…7: the tensor) -/

open Matrix in
theorem compressible_stress (x : Nat → ℝ) :
    matOfList ((f64.«model::CompressibleNewtonianFluid::Stress(StrainRate)[A=64,direct]»).outsR x) =
      (2 * x 0) • S6 x 2 + (x 1 * (S6 x 2).trace) • (1 : Matrix (Fin 3) (Fin 3) ℝ) := by
  simp [Entry.outsR, Entry.numOuts, f64.«model::CompressibleNewtonianFluid::Stress(StrainRate)[A=64,direct]»,
    Expr.evalR, BinOp.evalR, dyadicR, matOfList, S6, Matrix.trace, Fin.sum_univ_three]
  ext i j; fin_cases i <;> fin_cases j <;> simp <;> ring

/-- The strain-rate function inverts the stress function, for every `μ > 0`, `μ_b ≥ 0` and every
strain rate `D`. -/
theorem compressible_strain_rate_inverts_stress (μ b : ℝ) (hμ : 0 < μ) (hb : 0 ≤ b) (D : List ℝ)
    (hD : D.length = 6) :
    (f64.«model::CompressibleNewtonianFluid::StrainRate(Stress)[A=64,direct]»).outsR
      (envOf (μ :: b :: (f64.«model::CompressibleNewtonianFluid::Stress(StrainRate)[A=64,direct]»).outsR
        (envOf (μ :: b :: D)))) = D := by
  match D, hD with
  | [a, c, d, e, f, g], _ =>
    have h1 : μ ≠ 0 := hμ.ne'
    have h2 : 2 * μ + 3 * b ≠ 0 := by positivity
    simp [Entry.outsR, Entry.numOuts, f64.«model::CompressibleNewtonianFluid::StrainRate(Stress)[A=64,direct]»,
      f64.«model::CompressibleNewtonianFluid::Stress(StrainRate)[A=64,direct]», Expr.evalR, BinOp.evalR,
      UnOp.evalR, dyadicR, envOf]
    refine ⟨?_, ?_, ?_, ?_, ?_, ?_⟩ <;> (field_simp; try ring)

/-- Strain arguments are ignored: zero stress from strain alone, zero strain from stress, and the
two-argument `Stress(ε, D)` is `Stress(D)`. -/
theorem compressible_strain_ignored (x : Nat → ℝ) :
    (f64.«model::CompressibleNewtonianFluid::Stress(Strain)[A=64,direct]»).outsR x = [0, 0, 0, 0, 0, 0] ∧
    (f64.«model::CompressibleNewtonianFluid::Strain(Stress)[A=64,direct]»).outsR x = [0, 0, 0, 0, 0, 0] ∧
    (f64.«model::CompressibleNewtonianFluid::Stress(Strain,StrainRate)[A=64,direct]»).outsR x =
      (f64.«model::CompressibleNewtonianFluid::Stress(StrainRate)[A=64,direct]»).outsR
        (fun i => if i < 2 then x i else x (i + 6)) := by
  refine ⟨?_, ?_, ?_⟩ <;>
  simp [Entry.outsR, Entry.numOuts, f64.«model::CompressibleNewtonianFluid::Stress(Strain)[A=64,direct]»,
    f64.«model::CompressibleNewtonianFluid::Strain(Stress)[A=64,direct]»,
    f64.«model::CompressibleNewtonianFluid::Stress(Strain,StrainRate)[A=64,direct]»,
    f64.«model::CompressibleNewtonianFluid::Stress(StrainRate)[A=64,direct]», Expr.evalR, BinOp.evalR, dyadicR]

/-- Built from a dynamic viscosity alone, the bulk dynamic viscosity is (positive) zero. -/
theorem compressible_one_argument_constructor :
    (f64.«model::CompressibleNewtonianFluid::ctor(DynamicViscosity)»).numOuts =
      some [.var 0 .f64, .lit .f64 false 0 0] := by
  simp [Entry.numOuts, f64.«model::CompressibleNewtonianFluid::ctor(DynamicViscosity)»]

/-- The stress map is linear in the strain rate (additive and homogeneous). -/
theorem compressible_stress_linear (μ b c : ℝ) (D E : List ℝ) (hD : D.length = 6) (hE : E.length = 6) :
    (f64.«model::CompressibleNewtonianFluid::Stress(StrainRate)[A=64,direct]»).outsR
        (envOf (μ :: b :: List.zipWith (fun d e => c * d + e) D E)) =
      List.zipWith (fun s t => c * s + t)
        ((f64.«model::CompressibleNewtonianFluid::Stress(StrainRate)[A=64,direct]»).outsR (envOf (μ :: b :: D)))
        ((f64.«model::CompressibleNewtonianFluid::Stress(StrainRate)[A=64,direct]»).outsR (envOf (μ :: b :: E))) := by
  match D, hD, E, hE with
  | [d0, d1, d2, d3, d4, d5], _, [e0, e1, e2, e3, e4, e5], _ =>
    simp [Entry.outsR, Entry.numOuts, f64.«model::CompressibleNewtonianFluid::Stress(StrainRate)[A=64,direct]»,
      Expr.evalR, BinOp.evalR, dyadicR, envOf]
    refine ⟨?_, ?_, ?_, ?_, ?_, ?_⟩ <;> ring

/-- **C13 (every overload in its own precision).** No operation of any constructor, accessor or of any of
the three numeric-type overloads of the model functions — on models of all three numeric types, called
directly and through the abstract interface — is carried out with fewer significand bits than the lower
of the model's and the argument's numeric type. Together with `overloads_same_formula` (same formula over
the reals) this is what "the same, to the precision of each type" means; a `static_cast<float>` left in
the `double` overload is invisible to the formula but not to this theorem. -/
theorem overloads_keep_precision :
    ∀ e ∈ modelEntries, ∀ ex ∈ e.tree.exprs, e.needP ≤ ex.minP := by
  intro e he ex hex
  have h : Chk.NoNarrowing e = true := List.all_eq_true.mp Obl.NarrowM e he
  simp only [Chk.NoNarrowing, checkNoNarrowing, List.all_eq_true, decide_eq_true_eq] at h
  exact h ex hex

/-- The strain-rate map is linear in the stress. -/
theorem compressible_strain_rate_linear (μ b c : ℝ) (S T : List ℝ) (hS : S.length = 6) (hT : T.length = 6) :
    (f64.«model::CompressibleNewtonianFluid::StrainRate(Stress)[A=64,direct]»).outsR
        (envOf (μ :: b :: List.zipWith (fun d e => c * d + e) S T)) =
      List.zipWith (fun s t => c * s + t)
        ((f64.«model::CompressibleNewtonianFluid::StrainRate(Stress)[A=64,direct]»).outsR (envOf (μ :: b :: S)))
        ((f64.«model::CompressibleNewtonianFluid::StrainRate(Stress)[A=64,direct]»).outsR (envOf (μ :: b :: T))) := by
  match S, hS, T, hT with
  | [d0, d1, d2, d3, d4, d5], _, [e0, e1, e2, e3, e4, e5], _ =>
    simp [Entry.outsR, Entry.numOuts, f64.«model::CompressibleNewtonianFluid::StrainRate(Stress)[A=64,direct]»,
      Expr.evalR, BinOp.evalR, UnOp.evalR, dyadicR, envOf]
    refine ⟨?_, ?_, ?_, ?_, ?_, ?_⟩ <;> ring

/-! ### Incompressible Newtonian fluid (input 0: μ; inputs 1…6: the tensor) -/

open Matrix in
theorem incompressible_stress (x : Nat → ℝ) :
    matOfList ((f64.«model::IncompressibleNewtonianFluid::Stress(StrainRate)[A=64,direct]»).outsR x) =
      (2 * x 0) • S6 x 1 := by
  simp [Entry.outsR, Entry.numOuts, f64.«model::IncompressibleNewtonianFluid::Stress(StrainRate)[A=64,direct]»,
    Expr.evalR, BinOp.evalR, dyadicR, matOfList, S6]
  (repeat' constructor) <;> ring

theorem incompressible_strain_rate_inverts_stress (μ : ℝ) (hμ : 0 < μ) (D : List ℝ) (hD : D.length = 6) :
    (f64.«model::IncompressibleNewtonianFluid::StrainRate(Stress)[A=64,direct]»).outsR
      (envOf (μ :: (f64.«model::IncompressibleNewtonianFluid::Stress(StrainRate)[A=64,direct]»).outsR
        (envOf (μ :: D)))) = D := by
  match D, hD with
  | [a, c, d, e, f, g], _ =>
    have h1 : μ ≠ 0 := hμ.ne'
    simp [Entry.outsR, Entry.numOuts, f64.«model::IncompressibleNewtonianFluid::StrainRate(Stress)[A=64,direct]»,
      f64.«model::IncompressibleNewtonianFluid::Stress(StrainRate)[A=64,direct]», Expr.evalR, BinOp.evalR,
      UnOp.evalR, dyadicR, envOf]
    refine ⟨?_, ?_, ?_, ?_, ?_, ?_⟩ <;> (field_simp; try ring)

theorem incompressible_strain_ignored (x : Nat → ℝ) :
    (f64.«model::IncompressibleNewtonianFluid::Stress(Strain)[A=64,direct]»).outsR x = [0, 0, 0, 0, 0, 0] ∧
    (f64.«model::IncompressibleNewtonianFluid::Strain(Stress)[A=64,direct]»).outsR x = [0, 0, 0, 0, 0, 0] ∧
    (f64.«model::IncompressibleNewtonianFluid::Stress(Strain,StrainRate)[A=64,direct]»).outsR x =
      (f64.«model::IncompressibleNewtonianFluid::Stress(StrainRate)[A=64,direct]»).outsR
        (fun i => if i < 1 then x i else x (i + 6)) := by
  refine ⟨?_, ?_, ?_⟩ <;>
  simp [Entry.outsR, Entry.numOuts, f64.«model::IncompressibleNewtonianFluid::Stress(Strain)[A=64,direct]»,
    f64.«model::IncompressibleNewtonianFluid::Strain(Stress)[A=64,direct]»,
    f64.«model::IncompressibleNewtonianFluid::Stress(Strain,StrainRate)[A=64,direct]»,
    f64.«model::IncompressibleNewtonianFluid::Stress(StrainRate)[A=64,direct]», Expr.evalR, BinOp.evalR, dyadicR]

/-! ### All numeric types, and the abstract interface -/

theorem all_formats :
    ∀ t ∈ FmtTriples.rows, ∀ x : Nat → ℝ,
      t.1.tree.valuesR x = t.2.1.tree.valuesR x ∧ t.2.2.tree.valuesR x = t.2.1.tree.valuesR x := by
  intro t ht x
  exact sameFormula_sound (List.all_eq_true.mp Obl.SameFormula t ht) x

theorem overloads_same_formula :
    ∀ t ∈ ModelOverloads.rows, ∀ x : Nat → ℝ, t.1.tree.valuesR x = t.2.1.tree.valuesR x := by
  intro t ht x
  exact (sameFormula_sound (List.all_eq_true.mp Obl.ModelOverloads t ht) x).1

example : 0 < (1 : ℝ) ∧ (0 : ℝ) ≤ 0 := ⟨one_pos, le_refl 0⟩

end PhQVerif.Props.C13
