/-
Props/C08.lean — C08: enumeration tables are total, unambiguous and parse to the unit meant.

Statement (properties.jsonl): every enumerator of every unit type, of the unit-system type and of the
constitutive-model type has an abbreviation, streams as that abbreviation, parses back from it, and
(for units) converts to and from the standard unit; abbreviations are unique within a type. Every
accepted spelling parses to an enumerator whose physical magnitude is the one the spelling denotes
(rad^2 is a steradian, nmi/hr is a knot), and strings that are not accepted spellings parse to
nothing.

The tables are the library's real objects, dumped by iterating them (translator); the enumerator
lists come from the `enum class` declarations (clang's AST). "What a spelling denotes" is the
independent unit-symbol oracle of Core/Symbol.lean + Core/Atoms.lean. Streaming and the behaviour of
`std::unordered_map::find` on arbitrary strings are checked on the real code (textio tool).
-/
import PhQVerif.Theory.Tables
import PhQVerif.Checkers
import PhQVerif.Generated.Obl_C08unit
import PhQVerif.Generated.Obl_C08plain
import PhQVerif.Generated.Obl_C08spell

namespace PhQVerif.Props.C08
open PhQVerif Generated

/-- **C08 (total and unambiguous).** For every unit type, `UnitSystem` and `ConstitutiveModel::Type`:
the enumerators carried by the tables are exactly those of the declaration; every enumerator has an
abbreviation; abbreviations are pairwise distinct; each abbreviation is an accepted spelling that
parses back to its own enumerator; every spelling maps to a declared enumerator. -/
theorem tables_total_and_unambiguous :
    ∀ u ∈ unitTypes ++ plainEnums,
      u.declared.length = u.values.length ∧
      (∀ v, v ∈ u.values ↔ v ∈ u.abbreviations.map (·.1)) ∧
      pairwiseDistinct (u.abbreviations.map (·.2)) = true ∧
      (∀ a ∈ u.abbreviations, lookup a.2 u.spellings = some a.1) ∧
      (∀ s ∈ u.spellings, s.2 ∈ u.values) := by
  intro u hu
  have h : ∃ b, checkEnumTables b u = true := by
    rcases List.mem_append.mp hu with h | h
    · exact ⟨true, List.all_eq_true.mp Obl.C08unit u h⟩
    · exact ⟨false, List.all_eq_true.mp Obl.C08plain u h⟩
  obtain ⟨b, h⟩ := h
  simp only [checkEnumTables, Bool.and_eq_true, beq_iff_eq, List.all_eq_true, List.contains_iff_mem] at h
  obtain ⟨⟨⟨⟨⟨⟨h1, h2⟩, h3⟩, h4⟩, h5⟩, _⟩, _⟩ := h
  exact ⟨h1, fun v => ((sameSet_mem h2) v).symm, h3, h4, h5⟩

/-- **C08 (dispatch tables).** For every unit type and all three numeric types, both conversion
dispatch tables have exactly the declared enumerators as keys (so `find(...)->second` always hits),
and the standard unit is one of them. -/
theorem dispatch_tables_total :
    ∀ u ∈ unitTypes, ∀ v, (v ∈ u.values ↔ v ∈ u.mapTo32) ∧ (v ∈ u.values ↔ v ∈ u.mapFrom32) ∧
      (v ∈ u.values ↔ v ∈ u.mapTo64) ∧ (v ∈ u.values ↔ v ∈ u.mapFrom64) ∧
      (v ∈ u.values ↔ v ∈ u.mapTo80) ∧ (v ∈ u.values ↔ v ∈ u.mapFrom80) := by
  intro u hu v
  have h : checkEnumTables true u = true := List.all_eq_true.mp Obl.C08unit u hu
  simp only [checkEnumTables, Bool.and_eq_true, Bool.not_true, Bool.false_or] at h
  obtain ⟨_, ⟨⟨⟨⟨⟨⟨a, b⟩, c⟩, d⟩, e⟩, f⟩, _⟩⟩ := h
  exact ⟨((sameSet_mem a) v).symm, ((sameSet_mem b) v).symm, ((sameSet_mem c) v).symm,
    ((sameSet_mem d) v).symm, ((sameSet_mem e) v).symm, ((sameSet_mem f) v).symm⟩

/-- **C08 (spellings denote what they parse to).** Every accepted spelling `s ↦ v` of every unit
type has a reading, in the type's dimension set, with exactly the SI magnitude (`num/den · π^k`) of
the abbreviation of `v`. -/
theorem spellings_denote :
    ∀ u ∈ unitTypes, ∀ s ∈ u.spellings, ∃ m ms, magnitudeOf u s.2 = some m ∧
      ms ∈ Symbol.readings u.dims s.1 ∧ Symbol.sameMagnitude m ms = true := by
  intro u hu s hs
  have h : checkSpellings u = true := List.all_eq_true.mp Obl.C08spell u hu
  simp only [checkSpellings, List.all_eq_true] at h
  have := h s hs
  cases hm : magnitudeOf u s.2 with
  | none => simp [hm] at this
  | some m =>
    simp only [hm, List.any_eq_true] at this
    obtain ⟨ms, h1, h2⟩ := this
    exact ⟨m, ms, rfl, h1, h2⟩

/-- **C08 (nothing else parses).** In the model `parse s = lookup s spellings`, a string that is not
an accepted spelling parses to nothing. -/
theorem non_spellings_parse_to_nothing (u : UnitType) (s : List Nat) (h : ∀ p ∈ u.spellings, p.1 ≠ s) :
    lookup s u.spellings = none :=
  lookup_none_of_not_key h

set_option maxRecDepth 100000 in
example : 0 < unitTypes.length := by decide

end PhQVerif.Props.C08
