/-
Props/C18.lean — C18: named physical definitions evaluate their textbook formulas.

Statement (properties.jsonl): the physical definitions the library implements evaluate to their
textbook formulas including the dimensionless constants: dynamic pressure ½ρv² and its kinematic form
½v², total = static + dynamic pressure, sound speed √(K/ρ) = √(γp/ρ) = √(γRT), Mach, Reynolds and
Prandtl numbers, γ = cp/cv and R = cp − cv in extensive and specific forms, thermal diffusivity
k/(ρcp), kinematic viscosity μ/ρ, period = 1/frequency, strain and strain rate as symmetric parts of
the displacement and velocity gradients, thermal strain αΔT and (βΔT/3)·I, von Mises stress,
traction σ·n and static pressure as the isotropic stress −p·I. Each holds to a few ulps for all
positive finite inputs in all three numeric types.

This file is the fixed table. Each formula is stated as a function of the inputs *in the declared
argument order* (so a permuted Reynolds number cannot coincide) and is paired by name and signature
with a generated relation: the file does not elaborate if one is missing. The theorems are over the
reals for all inputs; `all_formats` transfers them to `float` and `long double`. The few-ulp clause is
covered by the bit-exact correspondence and (for the rounding model) Theory/Round.lean.
-/
import Mathlib.Tactic.Ring
import Mathlib.Tactic.FieldSimp
import Mathlib.Tactic.NormNum
import Mathlib.LinearAlgebra.Matrix.Trace
import PhQVerif.Theory.Tensor
import PhQVerif.Checkers
import PhQVerif.Generated.All
import PhQVerif.Generated.Obl_SameFormula
import PhQVerif.Theory.RelErr
import PhQVerif.Props.C05

namespace PhQVerif.Props.C18
open PhQVerif Generated

/-- `e` evaluates, on all real inputs, to the given formula(s) of its inputs. -/
def Evaluates (e : Entry) (formula : (Nat → ℝ) → List ℝ) : Prop :=
  ∀ x : Nat → ℝ, e.outsR x = formula x

macro "formula" e:term : tactic =>
  `(tactic| (intro x; simp [Entry.outsR, Entry.numOuts, $e:term, Expr.evalR, BinOp.evalR, UnOp.evalR, dyadicR];
             try ring_nf))

/-! ### Pressures -/

theorem dynamic_pressure :
    Evaluates f64.«DynamicPressure::ctor(MassDensity,Speed)» fun x => [1 / 2 * x 0 * x 1 ^ 2] := by
  formula f64.«DynamicPressure::ctor(MassDensity,Speed)»

theorem dynamic_kinematic_pressure :
    Evaluates f64.«DynamicKinematicPressure::ctor(Speed)» fun x => [1 / 2 * x 0 ^ 2] := by
  formula f64.«DynamicKinematicPressure::ctor(Speed)»

theorem total_pressure :
    Evaluates f64.«TotalPressure::ctor(StaticPressure,DynamicPressure)» fun x => [x 0 + x 1] := by
  formula f64.«TotalPressure::ctor(StaticPressure,DynamicPressure)»

theorem total_kinematic_pressure :
    Evaluates f64.«TotalKinematicPressure::ctor(StaticKinematicPressure,DynamicKinematicPressure)»
      fun x => [x 0 + x 1] := by
  formula f64.«TotalKinematicPressure::ctor(StaticKinematicPressure,DynamicKinematicPressure)»

/-! ### Sound speed, Mach, Reynolds, Prandtl -/

theorem sound_speed_bulk :
    Evaluates f64.«SoundSpeed::ctor(IsentropicBulkModulus,MassDensity)» fun x => [Real.sqrt (x 0 / x 1)] := by
  formula f64.«SoundSpeed::ctor(IsentropicBulkModulus,MassDensity)»

theorem sound_speed_pressure :
    Evaluates f64.«SoundSpeed::ctor(HeatCapacityRatio,StaticPressure,MassDensity)»
      fun x => [Real.sqrt (x 0 * x 1 / x 2)] := by
  formula f64.«SoundSpeed::ctor(HeatCapacityRatio,StaticPressure,MassDensity)»

theorem sound_speed_temperature :
    Evaluates f64.«SoundSpeed::ctor(HeatCapacityRatio,SpecificGasConstant,Temperature)»
      fun x => [Real.sqrt (x 0 * x 1 * x 2)] := by
  formula f64.«SoundSpeed::ctor(HeatCapacityRatio,SpecificGasConstant,Temperature)»

theorem mach_number :
    Evaluates f64.«MachNumber::ctor(Speed,SoundSpeed)» fun x => [x 0 / x 1] := by
  formula f64.«MachNumber::ctor(Speed,SoundSpeed)»

theorem reynolds_number :
    Evaluates f64.«ReynoldsNumber::ctor(MassDensity,Speed,Length,DynamicViscosity)»
      fun x => [x 0 * x 1 * x 2 / x 3] := by
  formula f64.«ReynoldsNumber::ctor(MassDensity,Speed,Length,DynamicViscosity)»

theorem reynolds_number_kinematic :
    Evaluates f64.«ReynoldsNumber::ctor(Speed,Length,KinematicViscosity)» fun x => [x 0 * x 1 / x 2] := by
  formula f64.«ReynoldsNumber::ctor(Speed,Length,KinematicViscosity)»

theorem prandtl_number :
    Evaluates f64.«PrandtlNumber::ctor(SpecificIsobaricHeatCapacity,DynamicViscosity,ScalarThermalConductivity)»
      fun x => [x 0 * x 1 / x 2] := by
  formula f64.«PrandtlNumber::ctor(SpecificIsobaricHeatCapacity,DynamicViscosity,ScalarThermalConductivity)»

theorem prandtl_number_kinematic :
    Evaluates f64.«PrandtlNumber::ctor(KinematicViscosity,ThermalDiffusivity)» fun x => [x 0 / x 1] := by
  formula f64.«PrandtlNumber::ctor(KinematicViscosity,ThermalDiffusivity)»

/-! ### Heat capacities and gas constants, extensive and specific -/

theorem heat_capacity_ratio :
    Evaluates f64.«HeatCapacityRatio::ctor(IsobaricHeatCapacity,IsochoricHeatCapacity)» fun x => [x 0 / x 1] := by
  formula f64.«HeatCapacityRatio::ctor(IsobaricHeatCapacity,IsochoricHeatCapacity)»

theorem heat_capacity_ratio_specific :
    Evaluates f64.«HeatCapacityRatio::ctor(SpecificIsobaricHeatCapacity,SpecificIsochoricHeatCapacity)»
      fun x => [x 0 / x 1] := by
  formula f64.«HeatCapacityRatio::ctor(SpecificIsobaricHeatCapacity,SpecificIsochoricHeatCapacity)»

theorem gas_constant :
    Evaluates f64.«GasConstant::ctor(IsobaricHeatCapacity,IsochoricHeatCapacity)» fun x => [x 0 - x 1] := by
  formula f64.«GasConstant::ctor(IsobaricHeatCapacity,IsochoricHeatCapacity)»

theorem gas_constant_specific :
    Evaluates f64.«SpecificGasConstant::ctor(SpecificIsobaricHeatCapacity,SpecificIsochoricHeatCapacity)»
      fun x => [x 0 - x 1] := by
  formula f64.«SpecificGasConstant::ctor(SpecificIsobaricHeatCapacity,SpecificIsochoricHeatCapacity)»

/-! ### Transport properties, period -/

theorem thermal_diffusivity :
    Evaluates f64.«ThermalDiffusivity::ctor(ScalarThermalConductivity,MassDensity,SpecificIsobaricHeatCapacity)»
      fun x => [x 0 / (x 1 * x 2)] := by
  formula f64.«ThermalDiffusivity::ctor(ScalarThermalConductivity,MassDensity,SpecificIsobaricHeatCapacity)»

theorem kinematic_viscosity :
    Evaluates f64.«KinematicViscosity::ctor(DynamicViscosity,MassDensity)» fun x => [x 0 / x 1] := by
  formula f64.«KinematicViscosity::ctor(DynamicViscosity,MassDensity)»

theorem period_of_frequency :
    Evaluates f64.«Frequency::Period()» fun x => [1 / x 0] := by
  formula f64.«Frequency::Period()»

theorem frequency_of_period :
    Evaluates f64.«Time::Frequency()» fun x => [1 / x 0] := by
  formula f64.«Time::Frequency()»

theorem time_from_frequency :
    Evaluates f64.«Time::ctor(Frequency)» fun x => [1 / x 0] := by
  formula f64.«Time::ctor(Frequency)»

/-! ### Strain, strain rate, thermal strain -/

open Matrix in
/-- Strain is the symmetric part of the displacement gradient, `(G + Gᵀ)/2`. -/
theorem strain_of_displacement_gradient (x : Nat → ℝ) :
    matOfList ((f64.«Strain::ctor(DisplacementGradient)»).outsR x) = (1 / 2 : ℝ) • (D9 x 0 + (D9 x 0)ᵀ) := by
  simp [Entry.outsR, Entry.numOuts, f64.«Strain::ctor(DisplacementGradient)», Expr.evalR, BinOp.evalR, dyadicR,
    matOfList, D9]
  ext i j; fin_cases i <;> fin_cases j <;> simp <;> ring

open Matrix in
theorem strain_rate_of_velocity_gradient (x : Nat → ℝ) :
    matOfList ((f64.«StrainRate::ctor(VelocityGradient)»).outsR x) = (1 / 2 : ℝ) • (D9 x 0 + (D9 x 0)ᵀ) := by
  simp [Entry.outsR, Entry.numOuts, f64.«StrainRate::ctor(VelocityGradient)», Expr.evalR, BinOp.evalR, dyadicR,
    matOfList, D9]
  ext i j; fin_cases i <;> fin_cases j <;> simp <;> ring

theorem linear_thermal_strain :
    Evaluates f64.«ScalarStrain::ctor(LinearThermalExpansionCoefficient,TemperatureDifference)»
      fun x => [x 0 * x 1] := by
  formula f64.«ScalarStrain::ctor(LinearThermalExpansionCoefficient,TemperatureDifference)»

theorem volumetric_thermal_strain :
    Evaluates f64.«Strain::ctor(VolumetricThermalExpansionCoefficient,TemperatureDifference)»
      fun x => [x 0 * x 1 / 3, 0, 0, x 0 * x 1 / 3, 0, x 0 * x 1 / 3] := by
  formula f64.«Strain::ctor(VolumetricThermalExpansionCoefficient,TemperatureDifference)»

/-! ### Stress: von Mises, traction, isotropic pressure -/

/-- von Mises equivalent stress of the stored components `xx xy xz yy yz zz` (inputs 0…5). -/
theorem von_mises :
    Evaluates f64.«Stress::VonMises()» fun x =>
      [Real.sqrt (1 / 2 * ((x 0 - x 3) ^ 2 + (x 3 - x 5) ^ 2 + (x 5 - x 0) ^ 2
        + 6 * (x 1 ^ 2 + x 2 ^ 2 + x 4 ^ 2)))] := by
  formula f64.«Stress::VonMises()»

open Matrix in
/-- Traction is `σ·n` (inputs 0…5: σ, inputs 6…8: n). -/
theorem traction (x : Nat → ℝ) :
    vecOfList ((f64.«Stress::Traction(Direction)»).outsR x) = (S6 x 0).mulVec (V3 x 6) := by
  simp [Entry.outsR, Entry.numOuts, f64.«Stress::Traction(Direction)», Expr.evalR, BinOp.evalR, vecOfList, S6, V3]
  ext i; fin_cases i <;> simp [Matrix.mulVec, dotProduct, Fin.sum_univ_three] <;> ring

theorem traction_constructor (x : Nat → ℝ) :
    (f64.«Traction::ctor(Stress,Direction)»).outsR x = (f64.«Stress::Traction(Direction)»).outsR x := by
  simp [Entry.outsR, Entry.numOuts, f64.«Traction::ctor(Stress,Direction)», f64.«Stress::Traction(Direction)»,
    Expr.evalR]

/-- A static pressure is the isotropic stress `−p·I`. -/
theorem isotropic_stress :
    Evaluates f64.«Stress::ctor(StaticPressure)» fun x => [-x 0, 0, 0, -x 0, 0, -x 0] := by
  formula f64.«Stress::ctor(StaticPressure)»

/-! ### All numeric types -/

theorem all_formats :
    ∀ t ∈ FmtTriples.rows, ∀ x : Nat → ℝ,
      t.1.tree.valuesR x = t.2.1.tree.valuesR x ∧ t.2.2.tree.valuesR x = t.2.1.tree.valuesR x := by
  intro t ht x
  exact sameFormula_sound (List.all_eq_true.mp Obl.SameFormula t ht) x

/-! ### To a few ulps -/

/-- The definitional relations of this file, at the three numeric types. -/
def definitions : List Entry :=
  [f32.«DynamicKinematicPressure::ctor(Speed)», f64.«DynamicKinematicPressure::ctor(Speed)», f80.«DynamicKinematicPressure::ctor(Speed)»,
   f32.«DynamicPressure::ctor(MassDensity,Speed)», f64.«DynamicPressure::ctor(MassDensity,Speed)», f80.«DynamicPressure::ctor(MassDensity,Speed)»,
   f32.«Frequency::Period()», f64.«Frequency::Period()», f80.«Frequency::Period()»,
   f32.«GasConstant::ctor(IsobaricHeatCapacity,IsochoricHeatCapacity)», f64.«GasConstant::ctor(IsobaricHeatCapacity,IsochoricHeatCapacity)», f80.«GasConstant::ctor(IsobaricHeatCapacity,IsochoricHeatCapacity)»,
   f32.«HeatCapacityRatio::ctor(IsobaricHeatCapacity,IsochoricHeatCapacity)», f64.«HeatCapacityRatio::ctor(IsobaricHeatCapacity,IsochoricHeatCapacity)», f80.«HeatCapacityRatio::ctor(IsobaricHeatCapacity,IsochoricHeatCapacity)»,
   f32.«HeatCapacityRatio::ctor(SpecificIsobaricHeatCapacity,SpecificIsochoricHeatCapacity)», f64.«HeatCapacityRatio::ctor(SpecificIsobaricHeatCapacity,SpecificIsochoricHeatCapacity)», f80.«HeatCapacityRatio::ctor(SpecificIsobaricHeatCapacity,SpecificIsochoricHeatCapacity)»,
   f32.«KinematicViscosity::ctor(DynamicViscosity,MassDensity)», f64.«KinematicViscosity::ctor(DynamicViscosity,MassDensity)», f80.«KinematicViscosity::ctor(DynamicViscosity,MassDensity)»,
   f32.«MachNumber::ctor(Speed,SoundSpeed)», f64.«MachNumber::ctor(Speed,SoundSpeed)», f80.«MachNumber::ctor(Speed,SoundSpeed)»,
   f32.«PrandtlNumber::ctor(KinematicViscosity,ThermalDiffusivity)», f64.«PrandtlNumber::ctor(KinematicViscosity,ThermalDiffusivity)», f80.«PrandtlNumber::ctor(KinematicViscosity,ThermalDiffusivity)»,
   f32.«PrandtlNumber::ctor(SpecificIsobaricHeatCapacity,DynamicViscosity,ScalarThermalConductivity)», f64.«PrandtlNumber::ctor(SpecificIsobaricHeatCapacity,DynamicViscosity,ScalarThermalConductivity)», f80.«PrandtlNumber::ctor(SpecificIsobaricHeatCapacity,DynamicViscosity,ScalarThermalConductivity)»,
   f32.«ReynoldsNumber::ctor(MassDensity,Speed,Length,DynamicViscosity)», f64.«ReynoldsNumber::ctor(MassDensity,Speed,Length,DynamicViscosity)», f80.«ReynoldsNumber::ctor(MassDensity,Speed,Length,DynamicViscosity)»,
   f32.«ReynoldsNumber::ctor(Speed,Length,KinematicViscosity)», f64.«ReynoldsNumber::ctor(Speed,Length,KinematicViscosity)», f80.«ReynoldsNumber::ctor(Speed,Length,KinematicViscosity)»,
   f32.«ScalarStrain::ctor(LinearThermalExpansionCoefficient,TemperatureDifference)», f64.«ScalarStrain::ctor(LinearThermalExpansionCoefficient,TemperatureDifference)», f80.«ScalarStrain::ctor(LinearThermalExpansionCoefficient,TemperatureDifference)»,
   f32.«SoundSpeed::ctor(HeatCapacityRatio,SpecificGasConstant,Temperature)», f64.«SoundSpeed::ctor(HeatCapacityRatio,SpecificGasConstant,Temperature)», f80.«SoundSpeed::ctor(HeatCapacityRatio,SpecificGasConstant,Temperature)»,
   f32.«SoundSpeed::ctor(HeatCapacityRatio,StaticPressure,MassDensity)», f64.«SoundSpeed::ctor(HeatCapacityRatio,StaticPressure,MassDensity)», f80.«SoundSpeed::ctor(HeatCapacityRatio,StaticPressure,MassDensity)»,
   f32.«SoundSpeed::ctor(IsentropicBulkModulus,MassDensity)», f64.«SoundSpeed::ctor(IsentropicBulkModulus,MassDensity)», f80.«SoundSpeed::ctor(IsentropicBulkModulus,MassDensity)»,
   f32.«SpecificGasConstant::ctor(SpecificIsobaricHeatCapacity,SpecificIsochoricHeatCapacity)», f64.«SpecificGasConstant::ctor(SpecificIsobaricHeatCapacity,SpecificIsochoricHeatCapacity)», f80.«SpecificGasConstant::ctor(SpecificIsobaricHeatCapacity,SpecificIsochoricHeatCapacity)»,
   f32.«Strain::ctor(VolumetricThermalExpansionCoefficient,TemperatureDifference)», f64.«Strain::ctor(VolumetricThermalExpansionCoefficient,TemperatureDifference)», f80.«Strain::ctor(VolumetricThermalExpansionCoefficient,TemperatureDifference)»,
   f32.«Stress::VonMises()», f64.«Stress::VonMises()», f80.«Stress::VonMises()»,
   f32.«Stress::ctor(StaticPressure)», f64.«Stress::ctor(StaticPressure)», f80.«Stress::ctor(StaticPressure)»,
   f32.«ThermalDiffusivity::ctor(ScalarThermalConductivity,MassDensity,SpecificIsobaricHeatCapacity)», f64.«ThermalDiffusivity::ctor(ScalarThermalConductivity,MassDensity,SpecificIsobaricHeatCapacity)», f80.«ThermalDiffusivity::ctor(ScalarThermalConductivity,MassDensity,SpecificIsobaricHeatCapacity)»,
   f32.«Time::Frequency()», f64.«Time::Frequency()», f80.«Time::Frequency()»,
   f32.«Time::ctor(Frequency)», f64.«Time::ctor(Frequency)», f80.«Time::ctor(Frequency)»,
   f32.«TotalKinematicPressure::ctor(StaticKinematicPressure,DynamicKinematicPressure)», f64.«TotalKinematicPressure::ctor(StaticKinematicPressure,DynamicKinematicPressure)», f80.«TotalKinematicPressure::ctor(StaticKinematicPressure,DynamicKinematicPressure)»,
   f32.«TotalPressure::ctor(StaticPressure,DynamicPressure)», f64.«TotalPressure::ctor(StaticPressure,DynamicPressure)», f80.«TotalPressure::ctor(StaticPressure,DynamicPressure)»]

/-- **C18 (rearrangements).** A definition the library also offers solved for one of its arguments (a
length, a speed, a viscosity … from a Reynolds number; a speed from a Mach number; `cv` from `R` and
`γ`; …) is the textbook rearrangement: composed with the tabled definition it returns the original
argument, for all positive inputs in the domain. This is C05's theorem, read for the pairs one side of
which is a definition of this table (a pair's `id` is `"g ∘ f"`); it is restated here so that a wrong
rearrangement of a tabled definition fails this property's check as well. -/
theorem rearrangements_invert_the_definitions :
    ∀ p ∈ InversePairs.rows, (∃ d ∈ definitions, (p.id.splitOn d.id).length > 1) → InverseOn p :=
  fun p hp _ => C05.inverse_pairs p hp

/-- The largest rounding count among the output slots of `e` that lie in the positive fragment
(inputs, positive literals, `×`, `÷`, `+`, `√`, integer powers, conversions). -/
def maxCount (e : Entry) : Nat :=
  ((e.numOuts.getD []).filterMap (posFrag e.fm.fmt.p)).foldl max 0

/-- Every slot of every definition that lies in the positive fragment needs at most 8 roundings
(`float` instantiations that compute through `double` count each `double` operation as a full
`float` rounding, which is why their counts are higher, not their errors). -/
theorem rounding_counts : definitions.all (fun e => decide (maxCount e ≤ 8)) = true := by decide +kernel

/-- **C18 (to a few ulps).** For every definition and every output slot whose traced formula lies in
the positive fragment, with rounding count `k` (at most 8 by `rounding_counts`): for **all** positive
inputs for which no intermediate result under- or overflows, the value the code computes is within
`k` roundings of the real value of the traced formula — which the theorems above identify with the
textbook formula: `exact·(1-u)^k ≤ computed` and `computed·(1-u)^k ≤ exact`, `u = 2^-p` the unit
round-off of the numeric type, i.e. a relative error of about `k·u`. Not in the fragment (and
therefore covered only by the search with exact rational oracles): the differences `R = cp − cv`,
von Mises' differences, the isotropic stress `−p`, and the zero off-diagonal slots of the thermal
strain (which are exact). -/
theorem few_ulps :
    ∀ e ∈ definitions, ∀ outs, e.numOuts = some outs → ∀ ex ∈ outs, ∀ k, posFrag e.fm.fmt.p ex = some k →
      ∀ (L : Libm) (env : Nat → Fl) (x : Nat → ℝ), (∀ i, 0 < x i ∧ Fl.toReal (env i) = x i) →
        InRange L env ex →
        Within ((2 : ℝ) ^ (-(e.fm.fmt.p : Int))) k (Fl.toReal (ex.evalF L env)) (ex.evalR x) := by
  intro e _ outs _ ex _ k hk L env x henv hr
  exact posFrag_sound e.fm.fmt.p (fm_p_pos e.fm) ex k hk L env x henv hr

/-- The same bound as a relative error. -/
theorem few_ulps_relative (U : ℝ) (hU0 : 0 ≤ U) (hU1 : U < 1) (k : Nat) (computed exact : ℝ)
    (h : Within U k computed exact) : |computed - exact| ≤ (((1 - U) ^ k)⁻¹ - 1) * exact :=
  h.rel_error hU0 hU1

example : posFrag 53 ((f64.«SoundSpeed::ctor(IsentropicBulkModulus,MassDensity)».numOuts.getD []).headD (.uninit .f64))
    = some 3 := by decide +kernel

/-- Non-vacuity: the Reynolds number really depends on all four arguments in their roles. -/
example : (f64.«ReynoldsNumber::ctor(MassDensity,Speed,Length,DynamicViscosity)»).outsR
    (fun i => [2, 3, 5, 7].getD i 0) = [2 * 3 * 5 / 7] := by
  rw [reynolds_number]; norm_num

end PhQVerif.Props.C18
