/-
Props/C18.lean — C18: named physical definitions evaluate their textbook formulas.

Statement (properties.jsonl): the physical definitions the library implements evaluate to their
textbook formulas including the dimensionless constants: dynamic pressure ½ρv² and its kinematic form
½v², total = static + dynamic pressure, sound speed √(K/ρ) = √(γp/ρ) = √(γRT), Mach, Reynolds and
Prandtl numbers, γ = cp/cv and R = cp − cv in extensive and specific forms, thermal diffusivity
k/(ρcp), kinematic viscosity μ/ρ, period = 1/frequency, strain and strain rate as symmetric parts of
the displacement and velocity gradients, thermal strain αΔT and (βΔT/3)·I, von Mises stress,
traction σ·n and static pressure as the isotropic stress −p·I. Each holds to a few ulps for all
positive finite inputs in all three numeric types.

This file is the fixed table. Each formula is stated as a function of the inputs *in the declared
argument order* (so a permuted Reynolds number cannot coincide) and is paired by name and signature
with a generated relation: the file does not elaborate if one is missing. The theorems are over the
reals for all inputs; `all_formats` transfers them to `float` and `long double`. The few-ulp clause is
covered by the bit-exact correspondence and (for the rounding model) Theory/Round.lean.
-/
import Mathlib.Tactic.Ring
import Mathlib.Tactic.FieldSimp
import Mathlib.Tactic.NormNum
import Mathlib.LinearAlgebra.Matrix.Trace
import PhQVerif.Theory.Tensor
import PhQVerif.Checkers
import PhQVerif.Generated.All
import PhQVerif.Generated.Obl_SameFormula

namespace PhQVerif.Props.C18
open PhQVerif Generated

/-- `e` evaluates, on all real inputs, to the given formula(s) of its inputs. -/
def Evaluates (e : Entry) (formula : (Nat → ℝ) → List ℝ) : Prop :=
  ∀ x : Nat → ℝ, e.outsR x = formula x

macro "formula" e:term : tactic =>
  `(tactic| (intro x; simp [Entry.outsR, Entry.numOuts, $e:term, Expr.evalR, BinOp.evalR, UnOp.evalR, dyadicR];
             try ring_nf))

/-! ### Pressures -/

theorem dynamic_pressure :
    Evaluates f64.«DynamicPressure::ctor(MassDensity,Speed)» fun x => [1 / 2 * x 0 * x 1 ^ 2] := by
  formula f64.«DynamicPressure::ctor(MassDensity,Speed)»

theorem dynamic_kinematic_pressure :
    Evaluates f64.«DynamicKinematicPressure::ctor(Speed)» fun x => [1 / 2 * x 0 ^ 2] := by
  formula f64.«DynamicKinematicPressure::ctor(Speed)»

theorem total_pressure :
    Evaluates f64.«TotalPressure::ctor(StaticPressure,DynamicPressure)» fun x => [x 0 + x 1] := by
  formula f64.«TotalPressure::ctor(StaticPressure,DynamicPressure)»

theorem total_kinematic_pressure :
    Evaluates f64.«TotalKinematicPressure::ctor(StaticKinematicPressure,DynamicKinematicPressure)»
      fun x => [x 0 + x 1] := by
  formula f64.«TotalKinematicPressure::ctor(StaticKinematicPressure,DynamicKinematicPressure)»

/-! ### Sound speed, Mach, Reynolds, Prandtl -/

theorem sound_speed_bulk :
    Evaluates f64.«SoundSpeed::ctor(IsentropicBulkModulus,MassDensity)» fun x => [Real.sqrt (x 0 / x 1)] := by
  formula f64.«SoundSpeed::ctor(IsentropicBulkModulus,MassDensity)»

theorem sound_speed_pressure :
    Evaluates f64.«SoundSpeed::ctor(HeatCapacityRatio,StaticPressure,MassDensity)»
      fun x => [Real.sqrt (x 0 * x 1 / x 2)] := by
  formula f64.«SoundSpeed::ctor(HeatCapacityRatio,StaticPressure,MassDensity)»

theorem sound_speed_temperature :
    Evaluates f64.«SoundSpeed::ctor(HeatCapacityRatio,SpecificGasConstant,Temperature)»
      fun x => [Real.sqrt (x 0 * x 1 * x 2)] := by
  formula f64.«SoundSpeed::ctor(HeatCapacityRatio,SpecificGasConstant,Temperature)»

theorem mach_number :
    Evaluates f64.«MachNumber::ctor(Speed,SoundSpeed)» fun x => [x 0 / x 1] := by
  formula f64.«MachNumber::ctor(Speed,SoundSpeed)»

theorem reynolds_number :
    Evaluates f64.«ReynoldsNumber::ctor(MassDensity,Speed,Length,DynamicViscosity)»
      fun x => [x 0 * x 1 * x 2 / x 3] := by
  formula f64.«ReynoldsNumber::ctor(MassDensity,Speed,Length,DynamicViscosity)»

theorem reynolds_number_kinematic :
    Evaluates f64.«ReynoldsNumber::ctor(Speed,Length,KinematicViscosity)» fun x => [x 0 * x 1 / x 2] := by
  formula f64.«ReynoldsNumber::ctor(Speed,Length,KinematicViscosity)»

theorem prandtl_number :
    Evaluates f64.«PrandtlNumber::ctor(SpecificIsobaricHeatCapacity,DynamicViscosity,ScalarThermalConductivity)»
      fun x => [x 0 * x 1 / x 2] := by
  formula f64.«PrandtlNumber::ctor(SpecificIsobaricHeatCapacity,DynamicViscosity,ScalarThermalConductivity)»

theorem prandtl_number_kinematic :
    Evaluates f64.«PrandtlNumber::ctor(KinematicViscosity,ThermalDiffusivity)» fun x => [x 0 / x 1] := by
  formula f64.«PrandtlNumber::ctor(KinematicViscosity,ThermalDiffusivity)»

/-! ### Heat capacities and gas constants, extensive and specific -/

theorem heat_capacity_ratio :
    Evaluates f64.«HeatCapacityRatio::ctor(IsobaricHeatCapacity,IsochoricHeatCapacity)» fun x => [x 0 / x 1] := by
  formula f64.«HeatCapacityRatio::ctor(IsobaricHeatCapacity,IsochoricHeatCapacity)»

theorem heat_capacity_ratio_specific :
    Evaluates f64.«HeatCapacityRatio::ctor(SpecificIsobaricHeatCapacity,SpecificIsochoricHeatCapacity)»
      fun x => [x 0 / x 1] := by
  formula f64.«HeatCapacityRatio::ctor(SpecificIsobaricHeatCapacity,SpecificIsochoricHeatCapacity)»

theorem gas_constant :
    Evaluates f64.«GasConstant::ctor(IsobaricHeatCapacity,IsochoricHeatCapacity)» fun x => [x 0 - x 1] := by
  formula f64.«GasConstant::ctor(IsobaricHeatCapacity,IsochoricHeatCapacity)»

theorem gas_constant_specific :
    Evaluates f64.«SpecificGasConstant::ctor(SpecificIsobaricHeatCapacity,SpecificIsochoricHeatCapacity)»
      fun x => [x 0 - x 1] := by
  formula f64.«SpecificGasConstant::ctor(SpecificIsobaricHeatCapacity,SpecificIsochoricHeatCapacity)»

/-! ### Transport properties, period -/

theorem thermal_diffusivity :
    Evaluates f64.«ThermalDiffusivity::ctor(ScalarThermalConductivity,MassDensity,SpecificIsobaricHeatCapacity)»
      fun x => [x 0 / (x 1 * x 2)] := by
  formula f64.«ThermalDiffusivity::ctor(ScalarThermalConductivity,MassDensity,SpecificIsobaricHeatCapacity)»

theorem kinematic_viscosity :
    Evaluates f64.«KinematicViscosity::ctor(DynamicViscosity,MassDensity)» fun x => [x 0 / x 1] := by
  formula f64.«KinematicViscosity::ctor(DynamicViscosity,MassDensity)»

theorem period_of_frequency :
    Evaluates f64.«Frequency::Period()» fun x => [1 / x 0] := by
  formula f64.«Frequency::Period()»

theorem frequency_of_period :
    Evaluates f64.«Time::Frequency()» fun x => [1 / x 0] := by
  formula f64.«Time::Frequency()»

theorem time_from_frequency :
    Evaluates f64.«Time::ctor(Frequency)» fun x => [1 / x 0] := by
  formula f64.«Time::ctor(Frequency)»

/-! ### Strain, strain rate, thermal strain -/

open Matrix in
/-- Strain is the symmetric part of the displacement gradient, `(G + Gᵀ)/2`. -/
theorem strain_of_displacement_gradient (x : Nat → ℝ) :
    matOfList ((f64.«Strain::ctor(DisplacementGradient)»).outsR x) = (1 / 2 : ℝ) • (D9 x 0 + (D9 x 0)ᵀ) := by
  simp [Entry.outsR, Entry.numOuts, f64.«Strain::ctor(DisplacementGradient)», Expr.evalR, BinOp.evalR, dyadicR,
    matOfList, D9]
  ext i j; fin_cases i <;> fin_cases j <;> simp <;> ring

open Matrix in
theorem strain_rate_of_velocity_gradient (x : Nat → ℝ) :
    matOfList ((f64.«StrainRate::ctor(VelocityGradient)»).outsR x) = (1 / 2 : ℝ) • (D9 x 0 + (D9 x 0)ᵀ) := by
  simp [Entry.outsR, Entry.numOuts, f64.«StrainRate::ctor(VelocityGradient)», Expr.evalR, BinOp.evalR, dyadicR,
    matOfList, D9]
  ext i j; fin_cases i <;> fin_cases j <;> simp <;> ring

theorem linear_thermal_strain :
    Evaluates f64.«ScalarStrain::ctor(LinearThermalExpansionCoefficient,TemperatureDifference)»
      fun x => [x 0 * x 1] := by
  formula f64.«ScalarStrain::ctor(LinearThermalExpansionCoefficient,TemperatureDifference)»

theorem volumetric_thermal_strain :
    Evaluates f64.«Strain::ctor(VolumetricThermalExpansionCoefficient,TemperatureDifference)»
      fun x => [x 0 * x 1 / 3, 0, 0, x 0 * x 1 / 3, 0, x 0 * x 1 / 3] := by
  formula f64.«Strain::ctor(VolumetricThermalExpansionCoefficient,TemperatureDifference)»

/-! ### Stress: von Mises, traction, isotropic pressure -/

/-- von Mises equivalent stress of the stored components `xx xy xz yy yz zz` (inputs 0…5). -/
theorem von_mises :
    Evaluates f64.«Stress::VonMises()» fun x =>
      [Real.sqrt (1 / 2 * ((x 0 - x 3) ^ 2 + (x 3 - x 5) ^ 2 + (x 5 - x 0) ^ 2
        + 6 * (x 1 ^ 2 + x 2 ^ 2 + x 4 ^ 2)))] := by
  formula f64.«Stress::VonMises()»

open Matrix in
/-- Traction is `σ·n` (inputs 0…5: σ, inputs 6…8: n). -/
theorem traction (x : Nat → ℝ) :
    vecOfList ((f64.«Stress::Traction(Direction)»).outsR x) = (S6 x 0).mulVec (V3 x 6) := by
  simp [Entry.outsR, Entry.numOuts, f64.«Stress::Traction(Direction)», Expr.evalR, BinOp.evalR, vecOfList, S6, V3]
  ext i; fin_cases i <;> simp [Matrix.mulVec, dotProduct, Fin.sum_univ_three] <;> ring

theorem traction_constructor (x : Nat → ℝ) :
    (f64.«Traction::ctor(Stress,Direction)»).outsR x = (f64.«Stress::Traction(Direction)»).outsR x := by
  simp [Entry.outsR, Entry.numOuts, f64.«Traction::ctor(Stress,Direction)», f64.«Stress::Traction(Direction)»,
    Expr.evalR]

/-- A static pressure is the isotropic stress `−p·I`. -/
theorem isotropic_stress :
    Evaluates f64.«Stress::ctor(StaticPressure)» fun x => [-x 0, 0, 0, -x 0, 0, -x 0] := by
  formula f64.«Stress::ctor(StaticPressure)»

/-! ### All numeric types -/

theorem all_formats :
    ∀ t ∈ FmtTriples.rows, ∀ x : Nat → ℝ,
      t.1.tree.valuesR x = t.2.1.tree.valuesR x ∧ t.2.2.tree.valuesR x = t.2.1.tree.valuesR x := by
  intro t ht x
  exact sameFormula_sound (List.all_eq_true.mp Obl.SameFormula t ht) x

/-- Non-vacuity: the Reynolds number really depends on all four arguments in their roles. -/
example : (f64.«ReynoldsNumber::ctor(MassDensity,Speed,Length,DynamicViscosity)»).outsR
    (fun i => [2, 3, 5, 7].getD i 0) = [2 * 3 * 5 / 7] := by
  rw [reynolds_number]; norm_num

end PhQVerif.Props.C18
