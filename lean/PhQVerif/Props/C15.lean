/-
Props/C15.lean — C15: printing is lossless and canonical; serialisations are well-formed.

Statement (properties.jsonl): printing any finite normal number in any of the three numeric types
produces exactly max_digits10+1 significant digits — fixed notation for 0.001 <= |x| < 10000,
scientific otherwise, and 0 for either zero — and parsing that text returns the same number bit for
bit. The printed, JSON, XML and YAML forms of quantities, vectors and tensors consist of exactly those
number strings in declared component order together with the unit's abbreviation, streaming equals
printing, and the JSON form is valid JSON whose fields carry those values.

What is modelled, and how it is tied to the code (DESIGN.md §7, C15):
* `Print.select` (Core/Print.lean) is a hand-written model of `PhQ::Print`'s interval cascade and of
  what a correctly rounding `printf("%.Nf" / "%.Ne")` prints; `Printed.parseBack` is the contract of a
  correctly rounding `strtof/strtod/strtold`. Both are compared with the real `PhQ::Print` /
  `PhQ::ParseNumber` (i.e. with libstdc++/glibc) text for text by the correspondence check.
* The composite forms are *translated*: the strings each `Print()/JSON()/XML()/YAML()/operator<<`
  builds are traced from the real code (`Generated/Serial.lean`, `Streams.lean`).
-/
import PhQVerif.Theory.PrintRT
import PhQVerif.Theory.Serial
import PhQVerif.Checkers
import PhQVerif.Generated.Obl_C15serial
import PhQVerif.Generated.Obl_C15stream
import PhQVerif.Generated.PrintFacts

namespace PhQVerif.Props.C15
open PhQVerif Generated Print Serial

/-! ### Numbers -/

/-- **C15 (lossless).** For every normal number `x = ±m·2^q` of each of the three formats (every
finite normal `float`, `double`, `long double`), the decimal number `PhQ::Print` selects, parsed back
with correct rounding, is `x` — bit for bit. -/
theorem printing_is_lossless (fm : Fm) (s : Bool) (m : Nat) (q : Int)
    (hx : Fl.Canonical fm.fmt (Fl.fin s m q)) (hnormal : 2 ^ (fm.fmt.p - 1) ≤ m) (pr : Printed)
    (h : select fm (Fl.fin s m q) = some pr) : pr.parseBack fm = Fl.fin s m q :=
  print_parse_roundtrip fm s m q hx hnormal pr h

/-- **C15 (zero).** Either zero prints as `0`. -/
theorem zero_prints_zero (fm : Fm) (s : Bool) (q : Int) :
    select fm (Fl.fin s 0 q) = some .zero ∧ Printed.render .zero = "0" := by
  refine ⟨?_, rfl⟩
  unfold select magRat
  by_cases hq : 0 ≤ q <;> simp [hq]

/-- **C15 (notation by interval).** A non-zero finite number is printed in scientific notation with
`max_digits10` decimals exactly when `|x|` is below the threshold `0.001` or not below `10000`
(the thresholds of the source, see `thresholds` and `cascade_constants_match_source`); otherwise in
fixed notation. -/
theorem notation_by_interval (fm : Fm) (x : Fl) (a : Nat × Nat) (ha : magRat x = some a) (h0 : a.1 ≠ 0) :
    ((ltR a (thr 1 1000) = true ∨ ltR a (thr 10000 1) = false) →
      select fm x = some (sciSel x.sign (maxDigits10 fm) a.1 a.2)) ∧
    ((ltR a (thr 1 1000) = false ∧ ltR a (thr 10000 1) = true) →
      ∃ prec, select fm x = some (fixedSel x.sign prec a.1 a.2)) := by
  unfold select
  simp only [ha, h0, if_false]
  constructor
  · intro h
    rw [(bandPrec_none_iff _ a).mpr h]
  · rintro ⟨hlo, hhi⟩
    cases hb : bandPrec (maxDigits10 fm) a with
    | none =>
      rcases (bandPrec_none_iff _ a).mp hb with h | h
      · rw [hlo] at h; cases h
      · rw [hhi] at h; cases h
    | some prec => exact ⟨prec, rfl⟩

/-- Equality of non-negative rationals given as pairs. -/
def ratEq (a b : Nat × Nat) : Bool := a.1 * b.2 == b.1 * a.2 && a.2 != 0 && b.2 != 0

/-- The model's thresholds and leaves, in the order of the cascade as the model writes it. -/
def modelThresholds : List (Nat × Nat) :=
  [thr 1 1, thr 1 1000, thr 1 10, thr 1 100, thr 1000 1, thr 10 1, thr 100 1, thr 10000 1]

def modelLeaves : List (Option (Bool × Int)) :=
  [none, some (true, 0), some (false, 3), some (false, 2), some (false, 1), some (false, 0),
   some (false, -1), some (false, -2), some (false, -3), some (true, 0)]

/-- **The model's constants are the source's constants.** The literals `PhQ::Print` compares `|x|`
with, and the notation and precision of each of its leaves — both read from the text of Base.hpp on
every run — are exactly the thresholds and the leaves of the model: every source literal is a model
threshold and conversely, and the source's leaves are a rearrangement of the model's (the comparison
is insensitive to the order in which an equivalent cascade tests its intervals; which interval gets
which leaf is checked text for text by the correspondence on every band). -/
theorem cascade_constants_match_source :
    (printThresholds.all (fun a => modelThresholds.any (ratEq a)) = true ∧
      modelThresholds.all (fun b => printThresholds.any (fun a => ratEq a b)) = true) ∧
    (printLeaves.length = modelLeaves.length ∧
      modelLeaves.all (fun l => printLeaves.count l == modelLeaves.count l) = true) := by
  decide +kernel

/-- The low thresholds are at least the decimals they stand for, and by less than one unit in the last
place of a `long double`: comparing with them is comparing with `0.001`, `0.01`, `0.1` exactly. -/
theorem thresholds :
    thr 1 1000 = (0x83126e978d4fdf3c, 2 ^ 73) ∧ thr 1 100 = (0xa3d70a3d70a3d70b, 2 ^ 70) ∧
    thr 1 10 = (0xcccccccccccccccd, 2 ^ 67) ∧
    (0x83126e978d4fdf3c - 1) * 1000 < 2 ^ 73 ∧ 2 ^ 73 ≤ 0x83126e978d4fdf3c * 1000 ∧
    (0xa3d70a3d70a3d70b - 1) * 100 < 2 ^ 70 ∧ 2 ^ 70 ≤ 0xa3d70a3d70a3d70b * 100 ∧
    (0xcccccccccccccccd - 1) * 10 < 2 ^ 67 ∧ 2 ^ 67 ≤ 0xcccccccccccccccd * 10 := by
  decide +kernel

/-- **C15 (digit count, scientific notation).** In scientific notation the mantissa always has exactly
`max_digits10 + 1` digits. -/
theorem sci_has_md_plus_one_digits (fm : Fm) (neg : Bool) (n d : Nat) (hn : 0 < n) (hd : 0 < d) :
    ∃ m e, sciSel neg (maxDigits10 fm) n d = .sci neg m (maxDigits10 fm) e ∧
      10 ^ maxDigits10 fm ≤ m ∧ m < 10 ^ (maxDigits10 fm + 1) :=
  sciSel_digits neg _ n d hn hd

/-- **C15 (digit count, fixed notation).** For every normal number `x = ±m·2^q` of each of the three
formats that the cascade prints in fixed notation (with `prec` decimals), the digits printed form an
integer in `[10^md, 10^(md+1))`: exactly `max_digits10 + 1` significant digits.

The lower bound is the band's lower threshold (`bandPrec_lower`); the upper bound needs that the
largest number of the format below the band's upper threshold still prints that many digits — a fact
about the spacing of the format (`Fl.canonical_gap`) evaluated by the kernel for each of the
3 formats × 7 bands (`all_band_tops_ok`). With the `double` thresholds the library had before commit
5125562 this theorem is false for `long double` (`findings/C15-long-double-bands-*.json`). -/
theorem fixed_has_md_plus_one_digits (fm : Fm) (s : Bool) (m : Nat) (q : Int)
    (hx : Fl.Canonical fm.fmt (Fl.fin s m q)) (a : Nat × Nat) (ha2 : 0 < a.2)
    (hax : (a.1 : ℝ) / a.2 = (m : ℝ) * (2 : ℝ) ^ q) (prec : Nat)
    (h : bandPrec (maxDigits10 fm) a = some prec) (neg : Bool) :
    ∃ sc, fixedSel neg prec a.1 a.2 = .fixed neg sc prec ∧ 10 ^ maxDigits10 fm ≤ sc ∧
      sc < 10 ^ (maxDigits10 fm + 1) :=
  fixedSel_exact_digits fm s m q hx a ha2 hax prec h neg

/-! ### Composite forms -/

/-- The value a class member denotes for given inputs: slot `i` of `Value()` / `Value(unit)`. -/
def slotValue (vals : List Expr) (L : Libm) (env : Nat → Fl) (i : Nat) : Fl :=
  match vals[i]? with | some e => e.evalF L env | none => Fl.nan

/-- **C15 (composite forms).** For every `Print`, `JSON`, `XML` and `YAML` member of every quantity,
vector and tensor type, with and without a unit argument, at every numeric type: whatever the
number printer `pr` is and for **all** values, the text built is exactly the template of that form
— the numbers `pr (Value(unit) slot i)` in declared component order, and the abbreviation of the
unit (of the standard unit when no unit is given) for dimensional types. -/
theorem composite_forms :
    ∀ row ∈ Generated.Serial.rows, ∃ form comps abbr vals parts,
      formOf row.1.mem = some form ∧ strOutOf row.1 = some parts ∧
      Serial.abbrOf classes unitTypes row.1 = some abbr ∧ valuesOf row.1 comps row.2 = some vals ∧
      vals.length = comps ∧
      ∀ (pr : Fl → List Nat) (L : Libm) (env : Nat → Fl),
        render pr L env parts = renderTemplate pr (slotValue vals L env) (template form comps abbr) := by
  intro row hrow
  have hchk : Chk.C15serial row = true := List.all_eq_true.mp Obl.C15serial row hrow
  obtain ⟨e, v⟩ := row
  simp only [Chk.C15serial, checkSerial] at hchk
  cases hf : formOf e.mem with
  | none => simp [hf] at hchk
  | some form =>
  cases hs : strOutOf e with
  | none => simp [hf, hs] at hchk
  | some parts =>
  cases hab : Serial.abbrOf classes unitTypes e with
  | none => simp [hf, hs, hab] at hchk
  | some abbr =>
  cases hcl : (if e.cls = 0 then none else classes[e.cls - 1]?) with
  | none => simp [hf, hs, hab, hcl] at hchk
  | some c =>
  simp only [hf, hs, hab, hcl] at hchk
  cases hv : valuesOf e c.comps v with
  | none => simp [hv] at hchk
  | some vals =>
  simp only [hv, Bool.and_eq_true, beq_iff_eq] at hchk
  obtain ⟨⟨hlen, hinst⟩, _⟩ := hchk
  cases hi : instantiate vals (template form c.comps abbr) with
  | none => simp [hi] at hinst
  | some want =>
  simp only [hi, beq_iff_eq] at hinst
  refine ⟨form, c.comps, abbr, vals, parts, rfl, rfl, rfl, hv, hlen, fun pr L env => ?_⟩
  rw [render_eq_of_norm_eq pr L env hinst]
  exact render_instantiate pr L env vals _ want hi

/-- **C15 (valid JSON).** Every JSON form, with each number replaced by number text (`0`, or
`-1.25e+07`), is a valid JSON value by the RFC 8259 grammar: the skeleton — braces, quoted keys,
colons, commas, the quoted abbreviation — is well-formed. -/
theorem json_skeleton_valid :
    ∀ row ∈ Generated.Serial.rows, formOf row.1.mem = some .json →
      ∃ parts, strOutOf row.1 = some parts ∧ jsonValid (renderWith (cps "0") parts) = true ∧
        jsonValid (renderWith (cps "-1.25e+07") parts) = true := by
  intro row hrow hj
  have hchk : Chk.C15serial row = true := List.all_eq_true.mp Obl.C15serial row hrow
  obtain ⟨e, v⟩ := row
  simp only [Chk.C15serial, checkSerial] at hchk
  simp only at hj
  rw [hj] at hchk
  cases hs : strOutOf e with
  | none => simp [hs] at hchk
  | some parts =>
  cases hab : Serial.abbrOf classes unitTypes e with
  | none => simp [hs, hab] at hchk
  | some abbr =>
  cases hcl : (if e.cls = 0 then none else classes[e.cls - 1]?) with
  | none => simp [hs, hab, hcl] at hchk
  | some c =>
  simp only [hs, hab, hcl] at hchk
  cases hv : valuesOf e c.comps v with
  | none => simp [hv] at hchk
  | some vals =>
  simp only [hv, Bool.and_eq_true] at hchk
  obtain ⟨_, hjs⟩ := hchk
  simp at hjs
  exact ⟨parts, rfl, hjs.2, hjs.1⟩

/-- **C15 (streaming equals printing).** For every type with a stream operator and all values,
`stream << q` writes exactly the text `q.Print()` returns. -/
theorem streaming_equals_printing :
    ∀ row ∈ Generated.Streams.rows, ∃ p a b, row.2 = some p ∧ p.mem = .print ∧ p.cls = row.1.cls ∧
      strOutOf row.1 = some a ∧ strOutOf p = some b ∧
      ∀ (pr : Fl → List Nat) (L : Libm) (env : Nat → Fl), render pr L env a = render pr L env b := by
  intro row hrow
  have hchk : Chk.C15stream row = true := List.all_eq_true.mp Obl.C15stream row hrow
  obtain ⟨s, p⟩ := row
  cases p with
  | none => simp [Chk.C15stream, checkStream] at hchk
  | some p =>
  simp only [Chk.C15stream, checkStream, Bool.and_eq_true, beq_iff_eq] at hchk
  obtain ⟨⟨⟨⟨⟨_, hmem⟩, hcls⟩, _⟩, _⟩, hstr⟩ := hchk
  cases ha : strOutOf s with
  | none => simp [ha] at hstr
  | some a =>
  cases hb : strOutOf p with
  | none => simp [ha, hb] at hstr
  | some b =>
  simp only [ha, hb, Bool.and_eq_true, beq_iff_eq] at hstr
  exact ⟨p, a, b, rfl, hmem, hcls.symm, rfl, hb, fun pr L env => render_eq_of_norm_eq pr L env hstr.1⟩

/-! ### Non-vacuity -/

example : Generated.Serial.rows.length ≠ 0 := by decide +kernel
example : Generated.Streams.rows.length ≠ 0 := by decide +kernel
example : Fl.Canonical F64 (Fl.fin false (2 ^ 52 + 12345) (-60)) ∧ 2 ^ (F64.p - 1) ≤ 2 ^ 52 + 12345 := by
  unfold Fl.Canonical; decide

end PhQVerif.Props.C15
