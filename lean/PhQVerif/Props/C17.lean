/-
Props/C17.lean — C17: quantities are bare numbers in memory.

Statement (properties.jsonl): every quantity type occupies exactly 1, 2, 3, 6 or 9 numbers of its
numeric type, with no padding or hidden state, and is trivially copyable and standard-layout, so
arrays of quantities can be handled as arrays of numbers. Zero() has every component equal to +0,
and the value accessors and mutators expose exactly that stored SI value.

Two halves. The behavioural half (`zero_is_pos_zero`, `accessors_expose_stored_value`,
`no_uninitialised_read`) is proved on the traces for all inputs. The static half (`layout`) is a
complete table of facts reported by the compiler for all 96 × 3 instantiations (`sizeof`, `alignof`,
`std::is_trivially_copyable`, `std::is_standard_layout`, `std::is_polymorphic`), checked against the
class table; the facts themselves are the compiler's, not a model of mine (DESIGN.md §7, C17).
-/
import PhQVerif.Theory.Access
import PhQVerif.Checkers
import PhQVerif.Generated.Obl_C17access
import PhQVerif.Generated.Obl_C17layout
import PhQVerif.Generated.Obl_C20uninitQ

namespace PhQVerif.Props.C17
open PhQVerif Generated

/-- **C17 (layout).** Every instantiation `Q<T>` of every quantity, vector and tensor class at
`float`, `double`, `long double` is exactly `k ∈ {1,2,3,6,9}` numbers of type `T` (`sizeof Q = k ·
sizeof T`, `alignof Q = alignof T`, so no padding and no hidden member), has no vptr, and is trivially
copyable and standard-layout. -/
theorem layout :
    ∀ r ∈ Layout.rows,
      let n := classComps classes r.cls
      (n = 1 ∨ n = 2 ∨ n = 3 ∨ n = 6 ∨ n = 9) ∧ r.size = n * r.numSize ∧ r.align = r.numSize ∧
      r.triviallyCopyable = true ∧ r.standardLayout = true ∧ r.polymorphic = false := by
  intro r hr
  have h : Chk.C17layout r = true := List.all_eq_true.mp Obl.C17layout r hr
  simp only [Chk.C17layout, checkLayout, Bool.and_eq_true, Bool.or_eq_true, beq_iff_eq,
    Bool.not_eq_true'] at h
  obtain ⟨⟨⟨⟨⟨⟨h1, h2⟩, h3⟩, h4⟩, h5⟩, h6⟩, _⟩ := h
  exact ⟨by omega, h2, h3, h4, h5, h6⟩

/-- **C17 (`Zero()`).** `Zero()` of every class, in every format, returns the positive zero of the
format in every one of its `k` slots. -/
theorem zero_is_pos_zero :
    ∀ e ∈ quantityEntries, e.mem = .zero →
      ∃ outs, e.numOuts = some outs ∧ outs.length = classComps classes e.cls ∧
        ∀ ex ∈ outs, ∀ (L : Libm) (env : Nat → Fl), ∃ f : Fmt, ex.evalF L env = Fl.zero f false := by
  intro e he hm
  have h : Chk.C17access e = true := List.all_eq_true.mp Obl.C17access e he
  simp only [Chk.C17access, checkAccess, hm] at h
  cases ho : e.numOuts with
  | none => simp [ho] at h
  | some outs =>
    simp only [ho, Bool.and_eq_true, beq_iff_eq, List.all_eq_true] at h
    exact ⟨outs, rfl, h.1, fun ex hex L env => isPosZero_sound (h.2 ex hex) L env⟩

/-- What each accessor / mutator must return, as a function of the `n` stored numbers (inputs
`0 … n-1`) and, for mutators, the new value (inputs from `n`). -/
def expectedSlot (n : Nat) : Mem → Nat → Option Nat
  | .value, i => some i
  | .allComps, i => some i
  | .comp k, _ => some k
  | .setValue, i => some (n + i)
  | .mutableValue, i => some (n + i)
  | .setAll, i => some (n + i)
  | .mutAll, i => some (n + i)
  | .setComp k, i => some (if i = k then n else i)
  | .mutComp k, i => some (if i = k then n else i)
  | _, _ => none

/-- **C17 (accessors and mutators).** `Value()` and the component accessors return exactly the
stored numbers, slot for slot; `SetValue`, `MutableValue() = v`, the `Set_*`/`Mutable_*` members
store exactly their argument in exactly the addressed slot(s) and leave the others untouched — bit
for bit, for all values (no arithmetic is performed on them at all). -/
theorem accessors_expose_stored_value :
    ∀ e ∈ quantityEntries, ∀ outs, e.numOuts = some outs →
      ∀ i ex, outs[i]? = some ex → ∀ j, expectedSlot (classComps classes e.cls) e.mem i = some j →
        ∀ (L : Libm) (env : Nat → Fl), ex.evalF L env = env j := by
  intro e he outs ho i ex hi j hj L env
  have h : Chk.C17access e = true := List.all_eq_true.mp Obl.C17access e he
  have hmem : (ex, i) ∈ outs.zipIdx := by
    rw [List.mem_zipIdx_iff_getElem?]; simpa using hi
  simp only [Chk.C17access, checkAccess, ho] at h
  have plain : ∀ off, (outs.length == classComps classes e.cls &&
        allIdx outs fun i ex => isVar (off + i) ex) = true → ex.evalF L env = env (off + i) := by
    intro off h
    simp only [Bool.and_eq_true, allIdx, List.all_eq_true] at h
    exact isVar_sound (h.2 _ hmem) L env
  have one : ∀ k, (outs.length == classComps classes e.cls && decide (k < classComps classes e.cls) &&
        allIdx outs fun i ex => if i == k then isVar (classComps classes e.cls) ex else isVar i ex) = true →
        ex.evalF L env = env (if i = k then classComps classes e.cls else i) := by
    intro k h
    simp only [Bool.and_eq_true, allIdx, List.all_eq_true] at h
    have := h.2 _ hmem
    simp only at this
    by_cases hik : i = k
    · simp only [hik, beq_self_eq_true, if_true] at this ⊢
      exact isVar_sound this L env
    · have hb : (i == k) = false := by simpa using hik
      simp only [hb, Bool.false_eq_true, if_false, hik] at this ⊢
      exact isVar_sound this L env
  cases hm : e.mem with
  | value =>
    simp only [hm, expectedSlot, Option.some.injEq] at h hj; subst hj
    simpa using plain 0 (by simpa using h)
  | allComps =>
    simp only [hm, expectedSlot, Option.some.injEq] at h hj; subst hj
    simpa using plain 0 (by simpa using h)
  | setValue =>
    simp only [hm, expectedSlot, Option.some.injEq] at h hj; subst hj
    exact plain _ h
  | mutableValue =>
    simp only [hm, expectedSlot, Option.some.injEq] at h hj; subst hj
    exact plain _ h
  | setAll =>
    simp only [hm, expectedSlot, Option.some.injEq] at h hj; subst hj
    exact plain _ h
  | mutAll =>
    simp only [hm, expectedSlot, Option.some.injEq] at h hj; subst hj
    exact plain _ h
  | setComp k =>
    simp only [hm, expectedSlot, Option.some.injEq] at h hj; subst hj
    exact one k h
  | mutComp k =>
    simp only [hm, expectedSlot, Option.some.injEq] at h hj; subst hj
    exact one k h
  | comp k =>
    simp only [hm, expectedSlot, Option.some.injEq] at h hj; subst hj
    match outs, h, hi with
    | [ex'], h, hi =>
      simp only [Bool.and_eq_true] at h
      have : ex = ex' := by
        cases i with
        | zero => simpa using hi.symm
        | succ i => simp at hi
      subst this
      exact isVar_sound h.2 L env
  | _ => simp [hm, expectedSlot] at hj

/-- **C17 (no hidden state is read).** No traced entry point of any quantity class reads a
default-initialised number on any path. -/
theorem no_uninitialised_read :
    ∀ e ∈ quantityEntries, e.tree.readsUninit = false := by
  intro e he
  have h : Chk.C20uninitStrict e = true := List.all_eq_true.mp Obl.C20uninitQ e he
  simpa [Chk.C20uninitStrict, checkNoUninit] using h

example : (f64.«Velocity::Zero()»).mem = .zero := by decide
example : (f32.«Stress::SetValue(SymmetricDyad)»).mem = .setValue := by decide
example : expectedSlot 3 (f80.«Vector::Set_y(num)»).mem 1 = some 3 := by decide
example : Layout.rows ≠ [] := by simp [Layout.rows, Layout.rows_0]

end PhQVerif.Props.C17
