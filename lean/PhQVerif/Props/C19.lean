/-
Props/C19.lean — C19: quantities work during static initialisation.

Statement (properties.jsonl): objects with static storage duration can be constructed from a value in
any unit, converted, compared and printed before main() starts, in any translation unit that includes
the library's headers and with either supported compiler, with the same results as the same
expressions evaluated inside main().

What is proved. The order in which namespace-scope variables are dynamically initialised is chosen by
the implementation, constrained only by [basic.start.dynamic]. `Theory/Init.lean` models those
constraints and proves, for **every** order a conforming implementation may choose:
* a partially-ordered table defined in a header is initialised before every user object defined after
  the `#include` (`header_table_before_user_object`);
* an unordered variable may be initialised last, after any user object (`unordered_may_come_last`).
How each of the library's tables is declared is read from clang's AST on every run
(`Generated/InitFacts.lean`); the theorems below classify all of them.

Result: abbreviations, spellings, consistent units, related unit systems and standard units are
available during static initialisation for every enumeration. The conversion dispatch tables
`MapOfConversions{From,To}Standard<Unit, NumericType>` are *partial specialisations*, so the variables
are implicit instantiations with unordered initialisation: the property does **not** hold for
construction from, or conversion to, a non-standard unit — the standard allows an order in which the
user's object runs first (`conversion_tables_are_unordered`), and GCC chooses such an order (known
finding C19-conversion-maps-unordered, reproduced against the real code by the check).
-/
import PhQVerif.Theory.Init
import PhQVerif.Generated.InitFacts

namespace PhQVerif.Props.C19
open PhQVerif Init Generated

/-- The enumerations of the library that have an abbreviation table: 37 unit types, `UnitSystem`,
`ConstitutiveModel::Type`. -/
def enumerations : List String := argsOf tableDecls "Abbreviations"

/-- The unit types (those with a conversion table). -/
def unitTypes : List String := argsOf tableDecls "MapOfConversionsFromStandard"

/-- **C19 (enumeration tables).** For every enumeration, the tables behind `Abbreviation`,
`operator<<`, `Print()` and `ParseEnumeration` are explicit specialisations of inline variable
templates (partially-ordered initialisation) — so, by `header_table_before_user_object`, they are
initialised before any user object defined after the include, under every conforming order. -/
theorem enumeration_tables_ready :
    ∀ e ∈ enumerations, facilityReady tableDecls .abbreviation e = true ∧
      facilityReady tableDecls .parse e = true := by decide +kernel

/-- **C19 (unit tables).** For every unit type, the tables behind `ConsistentUnit`,
`RelatedUnitSystem`, `Standard` and `RelatedDimensions` are ready before any user object: the first
two partially-ordered, the last two `constexpr` (constant-initialised). -/
theorem unit_tables_ready :
    ∀ u ∈ unitTypes, facilityReady tableDecls .consistentUnit u = true ∧
      facilityReady tableDecls .relatedUnitSystem u = true ∧
      facilityReady tableDecls .standardUnit u = true := by decide +kernel

/-- **C19 (everything but conversion).** Every facility of every unit type is ready before user
objects, except possibly the conversion dispatch (see `Props/C19Finding.lean`: on the current tree it
is not, which is the known finding; this theorem holds whether or not that is repaired). -/
theorem all_facilities_but_conversion_ready :
    ∀ u ∈ unitTypes, ∀ f ∈ Facility.all, f ≠ .convert → facilityReady tableDecls f u = true := by
  decide +kernel

/-- The two halves combined with the ordering theorems: in any program, any allowed order `s`, a user
object `w` and a table `v`:
* if `v` is partially ordered and defined before `w` wherever `w` is defined, `v` comes first;
* if `v` is unordered there is an allowed order (a permutation of `s`) in which `w` comes first. -/
theorem ordering_dichotomy (P : Prog) (s : List Nat) (hs : P.Valid s) (v w : Nat) (hv : v ∈ s) (hw : w ∈ s)
    (hne : v ≠ w) :
    (P.cls v = .partiallyOrdered → P.cls w ≠ .unordered → P.defBefore v w = true → Before s v w) ∧
    (P.cls v = .unordered → ∃ s', P.Valid s' ∧ s'.Perm s ∧ Before s' w v) :=
  ⟨fun h1 h2 h3 => header_table_before_user_object P s hs v w hv hw hne h1 h2 h3,
   fun h => unordered_may_come_last P s hs v w hv hw (Ne.symm hne) h⟩

/-! ### Non-vacuity -/

example : enumerations.length = 39 ∧ unitTypes.length = 37 := by decide +kernel
/-- A concrete allowed order: table 0 (partially ordered, in a header), user object 1. -/
example : (⟨fun i => if i = 0 then .partiallyOrdered else .ordered, fun v w => v == 0 && w == 1,
    fun _ _ => false⟩ : Prog).Valid [0, 1] := by
  refine ⟨by decide, ?_⟩
  simp [Prog.seqBefore]

end PhQVerif.Props.C19
