/-
Props/C19Finding.lean — the known finding C19-conversion-maps-unordered, as theorems about the
current tree. This module is *not* an obligation of the C19 check: when the defect is repaired these
statements stop being true, and the check then simply no longer reports the finding.
-/
import PhQVerif.Props.C19

namespace PhQVerif.Props.C19
open PhQVerif Init Generated

/-- **C19 fails for conversions (the finding, stated positively).** For every unit type both conversion
dispatch tables are provided by a *partial* specialisation, hence every `MapOfConversions…<U, T>` is an
implicitly instantiated specialisation with **unordered** initialisation. -/
theorem conversion_tables_are_unordered :
    ∀ u ∈ unitTypes, ∀ t ∈ ["MapOfConversionsFromStandard", "MapOfConversionsToStandard"],
      ∃ d, provider tableDecls t u = some d ∧ d.decl = .partialSpec ∧ classify d = .unordered := by
  decide +kernel

/-- Consequently no conversion facility is `ready`: the count of unit types for which
construction / conversion in a non-standard unit is guaranteed before `main()` is zero. -/
theorem conversion_never_guaranteed :
    ∀ u ∈ unitTypes, facilityReady tableDecls .convert u = false := by decide +kernel

end PhQVerif.Props.C19
