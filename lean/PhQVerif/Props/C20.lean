/-
Props/C20.lean — C20: no exceptions and no undefined behaviour on any finite input.

Statement (properties.jsonl): no library call on finite inputs throws anything but std::bad_alloc or
executes undefined behaviour: every table lookup hits, no uninitialised value is read, no signed
overflow or invalid enum value is produced. Number and enumeration parsing are total on arbitrary byte
strings, returning a value or nothing and never throwing.

What a theorem can carry here, and what it cannot (DESIGN.md §7, C20):
* *every table lookup hits* — a table theorem over the library's real tables, dumped on every run;
* *no uninitialised value is read* — a theorem over the translated model of every entry point: the
  tracing numeric type marks default-initialised numbers, and no traced expression contains one;
* *nothing throws* — the translator drives every branch of every entry point of the real code and
  records any exception; the theorem is that the record is empty, which (because the only
  data-dependent control flow in the numeric code is the recorded comparisons, and enumerator
  arguments are enumerated exhaustively) means no input can make a traced path throw;
* *enumeration parsing is total* — `ParseEnumeration` is a `find` on the spelling table, modelled by
  the total function `lookup`;
* signed overflow, invalid enum values, out-of-bounds accesses and the totality of
  `std::stof/stod/stold` behind `ParseNumber`'s catch-all are runtime behaviour of compiled code that
  the model cannot exhibit: they are checked by running every entry point of the real library under
  AddressSanitizer, UndefinedBehaviorSanitizer and libstdc++ assertions, and the parsers on arbitrary
  byte strings (this part is testing, labelled as such in the evidence).
-/
import PhQVerif.Checkers
import PhQVerif.Generated.All
import PhQVerif.Generated.Throws
import PhQVerif.Generated.Obl_C20uninitQ
import PhQVerif.Generated.Obl_C20uninitU
import PhQVerif.Generated.Obl_C20uninitM
import PhQVerif.Generated.Obl_C20lookups
import PhQVerif.Generated.Obl_C20abbr

namespace PhQVerif.Props.C20
open PhQVerif Generated

/-- **C20 (every table lookup hits).** For every unit type: each declared enumerator is a key of the
abbreviation table and of both conversion dispatch tables in all three numeric types; each unit system
is a key of the consistent-unit table; the standard unit is a declared enumerator. So the unchecked
`find(e)->second` of `Abbreviation` and `ConvertInPlace`, and the `at(system)` of `ConsistentUnit`,
never miss on a valid enumerator. -/
theorem every_lookup_hits :
    ∀ u ∈ unitTypes,
      (∀ v ∈ u.values, (lookup v u.abbreviations).isSome = true ∧
        u.mapTo32.contains v = true ∧ u.mapFrom32.contains v = true ∧
        u.mapTo64.contains v = true ∧ u.mapFrom64.contains v = true ∧
        u.mapTo80.contains v = true ∧ u.mapFrom80.contains v = true) ∧
      (∀ s ∈ unitSystemValues, (lookup s u.consistent).isSome = true) ∧
      u.values.contains u.standard = true := by
  intro u hu
  have h : Chk.C20lookups u = true := List.all_eq_true.mp Obl.C20lookups u hu
  simp only [Chk.C20lookups, checkLookupsHit, Bool.and_eq_true, List.all_eq_true] at h
  obtain ⟨⟨⟨h1, h2⟩, h3⟩, h4⟩ := h
  refine ⟨fun v hv => ?_, h3, h4⟩
  have a := h1 v hv
  have b := h2 v hv
  obtain ⟨⟨⟨⟨⟨b1, b2⟩, b3⟩, b4⟩, b5⟩, b6⟩ := b
  exact ⟨a, b1, b2, b3, b4, b5, b6⟩

/-- The same for `UnitSystem` and `ConstitutiveModel::Type`. -/
theorem every_abbreviation_lookup_hits :
    ∀ u ∈ plainEnums, ∀ v ∈ u.values, (lookup v u.abbreviations).isSome = true := by
  intro u hu
  have h : Chk.C20abbr u = true := List.all_eq_true.mp Obl.C20abbr u hu
  simpa [Chk.C20abbr, checkAbbreviationsHit, List.all_eq_true] using h

/-- **C20 (no uninitialised value is read).** No entry point of any quantity class or unit facility
reads a default-initialised number on any path; no entry point of a constitutive model does either,
except observing a default-constructed model (whose moduli the library leaves uninitialised, the one
documented exception: it has no inputs at all). -/
theorem no_uninitialised_read :
    (∀ e ∈ quantityEntries, e.tree.readsUninit = false) ∧
    (∀ e ∈ unitEntries, e.tree.readsUninit = false) ∧
    (∀ e ∈ modelEntries, (e.kind = .modelCtor ∧ e.nIn = 0) ∨ e.tree.readsUninit = false) := by
  refine ⟨fun e he => ?_, fun e he => ?_, fun e he => ?_⟩
  · have h : Chk.C20uninitStrict e = true := List.all_eq_true.mp Obl.C20uninitQ e he
    simpa [Chk.C20uninitStrict, checkNoUninit] using h
  · have h : Chk.C20uninitStrict e = true := List.all_eq_true.mp Obl.C20uninitU e he
    simpa [Chk.C20uninitStrict, checkNoUninit] using h
  · have h : Chk.C20uninit e = true := List.all_eq_true.mp Obl.C20uninitM e he
    simp only [Chk.C20uninit, checkNoUninit, Bool.or_eq_true, Bool.and_eq_true, beq_iff_eq,
      Bool.not_eq_true'] at h
    exact h

/-- **C20 (nothing throws on any explored path).** The translator ran every branch of every entry
point of the real code (`tracedInstantiations` instantiations): none raised an exception, and none
behaved differently on two runs with the same branch outcomes. -/
theorem no_explored_path_throws : throwingPaths = [] ∧ inconsistentEntries = [] := by decide

/-- **C20 (enumeration parsing is total).** The model of `ParseEnumeration` — `find` on the spelling
table — answers `some`/`none` for every byte string: it is a total function, and it returns only
declared enumerators. -/
theorem parse_enumeration_total_and_valid :
    ∀ u ∈ unitTypes, ∀ (bytes : List Nat) (v : Nat), lookup bytes u.spellings = some v →
      ∃ p ∈ u.spellings, p.2 = v := by
  intro u _ bytes v h
  generalize u.spellings = l at h ⊢
  induction l with
  | nil => simp [lookup] at h
  | cons p r ih =>
    obtain ⟨a, b⟩ := p
    simp only [lookup] at h
    split at h
    · exact ⟨(a, b), by simp, by simpa using h⟩
    · obtain ⟨q, hq, hv⟩ := ih h
      exact ⟨q, List.mem_cons_of_mem _ hq, hv⟩

/-! ### Non-vacuity -/

example : tracedInstantiations > 90000 := by decide
example : unitTypes.length = 37 := by decide +kernel
example : quantityEntries.length > 20000 := by decide +kernel

end PhQVerif.Props.C20
