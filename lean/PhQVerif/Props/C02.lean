/-
Props/C02.lean — C02: all conversion entry points agree; a quantity read back in its unit is
unchanged.

Statement (properties.jsonl): a value supplied with a unit is converted once, on construction, to
the standard unit, and every way of getting it back out agrees with the plain scalar conversion to
within one ulp, component by component: value-in-unit accessors (run-time and compile-time),
printing and JSON/XML/YAML in a unit, the free convert functions on scalars, fixed arrays,
std::vector, planar vectors, vectors, symmetric dyads and dyads (copying and in-place forms), and
compile-time creation. Constructing in unit u and reading back in unit u returns the original number
up to rounding, converting a unit to itself is the identity, and the copying forms never modify their
argument.

What is proved is stronger than "within one ulp": every entry point computes, on each component,
*bit for bit* the same function `convF` (run-time forms) / `convStaticF` (compile-time forms) — the
composition of the two traced unit kernels — and nothing else. The rounding clauses ("up to
rounding") are in Props/C01.lean, which bounds the kernels themselves.
-/
import PhQVerif.Theory.Convert
import PhQVerif.Checkers
import PhQVerif.Generated.Obl_C02unit
import PhQVerif.Generated.Obl_C02class
import PhQVerif.Generated.Obl_C02pairs32
import PhQVerif.Generated.Obl_C02pairs64
import PhQVerif.Generated.Obl_C02pairs80
import PhQVerif.Generated.Obl_NarrowU

namespace PhQVerif.Props.C02
open PhQVerif Generated

/-- **C02 (free convert functions and dispatch tables).** For every unit type, every traced
container form (scalar, `std::array`, `std::vector`, planar vector, vector, symmetric dyad, dyad),
copying and in-place, run-time and compile-time, and every traced pair of units, in every format and
for **all** values: output component `i` is bit for bit the scalar conversion of input component `i`
(`convF` for the run-time forms, `convStaticF` for `ConvertStatically`: the composition of the two
traced kernels), the copying forms return their argument unmodified, and the run-time dispatch
tables hold under each enumerator exactly the kernel of that enumerator (`UnitEntrySpec`). -/
theorem free_functions_agree :
    ∀ e ∈ unitEntries, ∃ t u rest k, e.enumArgs = (t, u) :: rest ∧ kernelsOf e.fm t = some k ∧
      ∀ L : Libm, UnitEntrySpec L k e := by
  intro e he
  have hchk : Chk.C02unit e = true := List.all_eq_true.mp Obl.C02unit e he
  unfold Chk.C02unit at hchk
  rcases hen : e.enumArgs with _ | ⟨⟨t, u⟩, rest⟩
  · simp [hen] at hchk
  · simp only [hen] at hchk
    cases hk : kernelsOf e.fm t with
    | none => simp [hk] at hchk
    | some k =>
      simp only [hk] at hchk
      exact ⟨t, u, rest, k, rfl, hk, fun L => checkUnitEntry_sound L hchk⟩

/-- **C02 (scalar `Convert`, all ordered pairs).** For every unit type and **every ordered pair**
of its units (binary64; the neighbouring pairs in the other two formats), `Convert(x, from, to)` is
`convF` of `x`, and the argument is unchanged. -/
theorem scalar_convert_all_pairs (fm : Fm)
    (tbl : List (Nat × List (Nat × Nat × Expr × Expr)))
    (htbl : (fm = .f32 ∧ tbl = convertPairsByType32) ∨ (fm = .f64 ∧ tbl = convertPairsByType64) ∨
            (fm = .f80 ∧ tbl = convertPairsByType80)) :
    ∀ tr ∈ tbl, ∃ k, kernelsOf fm tr.1 = some k ∧ ∀ row ∈ tr.2, ∀ (L : Libm) (env : Nat → Fl),
      convF L k row.1 row.2.1 (env 0) = some (row.2.2.1.evalF L env) ∧
      row.2.2.2.evalF L env = env 0 := by
  intro tr htr
  have hchk : Chk.C02pairs fm tr = true := by
    rcases htbl with ⟨h1, h2⟩ | ⟨h1, h2⟩ | ⟨h1, h2⟩ <;> subst h1 <;> subst h2
    · exact List.all_eq_true.mp Obl.C02pairs32 tr htr
    · exact List.all_eq_true.mp Obl.C02pairs64 tr htr
    · exact List.all_eq_true.mp Obl.C02pairs80 tr htr
  unfold Chk.C02pairs at hchk
  cases hk : kernelsOf fm tr.1 with
  | none => simp [hk] at hchk
  | some k =>
    simp only [hk, List.all_eq_true] at hchk
    refine ⟨k, rfl, fun row hrow L env => ?_⟩
    have := hchk row hrow
    simp only [checkConvertPair, Bool.and_eq_true, beq_iff_eq] at this
    exact ⟨convExpr_sound this.1 L env, isVar_sound this.2 L env⟩

/-- **C02 (per-class entry points).** For every quantity class and every unit of its unit type:
construction from a value in a unit, `Value(unit)`, `StaticValue<unit>()`, `Create<unit>(…)` and the
numbers inside `Print/JSON/XML/YAML(unit)` are, slot for slot and bit for bit, the scalar conversion
(`convF` run-time, `convStaticF` compile-time) of the corresponding component — converted once, in
the direction the entry point implies (`ClassUnitSpec`). -/
theorem class_entry_points_agree :
    ∀ e ∈ quantityEntries, ∀ L : Libm, ClassUnitSpec L classes (kernelsOf e.fm) e := by
  intro e he L
  exact checkClassUnit_sound L (List.all_eq_true.mp Obl.C02class e he)

/-- **C02 (conversions in the type's own precision).** No operation of any conversion entry point — the
free functions on every container form, the dispatch-table routines, the compile-time kernels — is carried
out with fewer significand bits than the numeric type it is instantiated at. (Constants may be written
in any precision; their accuracy is C01.) -/
theorem conversions_keep_precision :
    ∀ e ∈ unitEntries, ∀ ex ∈ e.tree.exprs, e.needP ≤ ex.minP := by
  intro e he ex hex
  have h : Chk.NoNarrowing e = true := List.all_eq_true.mp Obl.NarrowU e he
  simp only [Chk.NoNarrowing, checkNoNarrowing, List.all_eq_true, decide_eq_true_eq] at h
  exact h ex hex

/-- **C02 (a unit converted to the standard unit and back / the standard unit itself).** In the
standard unit both run-time steps are skipped: `Convert(x, std, std)` is `x` itself, bit for bit, so
constructing in the standard unit and reading back in the standard unit returns the original number
exactly. -/
theorem standard_unit_exact (L : Libm) (k : UnitKernels) (x : Fl) :
    convF L k k.standard k.standard x = some x := by
  simp [convF]

/-! ### Non-vacuity -/

example : Chk.C02unit (f64.«unit::Convert<Length>(Dyad)@1,2») = true := by decide
example : (f32.«Speed::ctor(num,Unit::Speed)[KilometrePerHour]»).enumArgs ≠ [] := by decide
example : convertPairsByType64 ≠ [] := by simp [convertPairsByType64]

end PhQVerif.Props.C02
