/-
Props/C02.lean — C02: all conversion entry points agree; a quantity read back in its unit is
unchanged.

Statement (properties.jsonl): a value supplied with a unit is converted once, on construction, to
the standard unit, and every way of getting it back out agrees with the plain scalar conversion to
within one ulp, component by component: value-in-unit accessors (run-time and compile-time),
printing and JSON/XML/YAML in a unit, the free convert functions on scalars, fixed arrays,
std::vector, planar vectors, vectors, symmetric dyads and dyads (copying and in-place forms), and
compile-time creation. Constructing in unit u and reading back in unit u returns the original number
up to rounding, converting a unit to itself is the identity, and the copying forms never modify their
argument.

What is proved is stronger than "within one ulp": every entry point computes, on each component,
*bit for bit* the same function `convF` (run-time forms) / `convStaticF` (compile-time forms) — the
composition of the two traced unit kernels — and nothing else. The rounding clauses: C01 bounds the
kernels themselves; `read_back_in_the_same_unit` (below, with Theory/ReadBack.lean) shows that converting
to the standard unit and back returns the original number to within twelve roundings, for every unit
with a rational factor and scaling kernels, from exactly the facts C01's table check establishes.
-/
import PhQVerif.Theory.Convert
import PhQVerif.Checkers
import PhQVerif.Generated.Obl_C02unit
import PhQVerif.Generated.Obl_C02class
import PhQVerif.Generated.Obl_C02pairs32
import PhQVerif.Generated.Obl_C02pairs64
import PhQVerif.Generated.Obl_C02pairs80
import PhQVerif.Generated.Obl_NarrowU
import PhQVerif.Theory.ReadBack
import PhQVerif.Props.C01

namespace PhQVerif.Props.C02
open PhQVerif Generated

/-- **C02 (free convert functions and dispatch tables).** For every unit type, every traced
container form (scalar, `std::array`, `std::vector`, planar vector, vector, symmetric dyad, dyad),
copying and in-place, run-time and compile-time, and every traced pair of units, in every format and
for **all** values: output component `i` is bit for bit the scalar conversion of input component `i`
(`convF` for the run-time forms, `convStaticF` for `ConvertStatically`: the composition of the two
traced kernels), the copying forms return their argument unmodified, and the run-time dispatch
tables hold under each enumerator exactly the kernel of that enumerator (`UnitEntrySpec`). -/
theorem free_functions_agree :
    ∀ e ∈ unitEntries, ∃ t u rest k, e.enumArgs = (t, u) :: rest ∧ kernelsOf e.fm t = some k ∧
      ∀ L : Libm, UnitEntrySpec L k e := by
  intro e he
  have hchk : Chk.C02unit e = true := List.all_eq_true.mp Obl.C02unit e he
  unfold Chk.C02unit at hchk
  rcases hen : e.enumArgs with _ | ⟨⟨t, u⟩, rest⟩
  · simp [hen] at hchk
  · simp only [hen] at hchk
    cases hk : kernelsOf e.fm t with
    | none => simp [hk] at hchk
    | some k =>
      simp only [hk] at hchk
      exact ⟨t, u, rest, k, rfl, hk, fun L => checkUnitEntry_sound L hchk⟩

/-- **C02 (scalar `Convert`, all ordered pairs).** For every unit type and **every ordered pair**
of its units (binary64; the neighbouring pairs in the other two formats), `Convert(x, from, to)` is
`convF` of `x`, and the argument is unchanged. -/
theorem scalar_convert_all_pairs (fm : Fm)
    (tbl : List (Nat × List (Nat × Nat × Expr × Expr)))
    (htbl : (fm = .f32 ∧ tbl = convertPairsByType32) ∨ (fm = .f64 ∧ tbl = convertPairsByType64) ∨
            (fm = .f80 ∧ tbl = convertPairsByType80)) :
    ∀ tr ∈ tbl, ∃ k, kernelsOf fm tr.1 = some k ∧ ∀ row ∈ tr.2, ∀ (L : Libm) (env : Nat → Fl),
      convF L k row.1 row.2.1 (env 0) = some (row.2.2.1.evalF L env) ∧
      row.2.2.2.evalF L env = env 0 := by
  intro tr htr
  have hchk : Chk.C02pairs fm tr = true := by
    rcases htbl with ⟨h1, h2⟩ | ⟨h1, h2⟩ | ⟨h1, h2⟩ <;> subst h1 <;> subst h2
    · exact List.all_eq_true.mp Obl.C02pairs32 tr htr
    · exact List.all_eq_true.mp Obl.C02pairs64 tr htr
    · exact List.all_eq_true.mp Obl.C02pairs80 tr htr
  unfold Chk.C02pairs at hchk
  cases hk : kernelsOf fm tr.1 with
  | none => simp [hk] at hchk
  | some k =>
    simp only [hk, List.all_eq_true] at hchk
    refine ⟨k, rfl, fun row hrow L env => ?_⟩
    have := hchk row hrow
    simp only [checkConvertPair, Bool.and_eq_true, beq_iff_eq] at this
    exact ⟨convExpr_sound this.1 L env, isVar_sound this.2 L env⟩

/-- **C02 (per-class entry points).** For every quantity class and every unit of its unit type:
construction from a value in a unit, `Value(unit)`, `StaticValue<unit>()`, `Create<unit>(…)` and the
numbers inside `Print/JSON/XML/YAML(unit)` are, slot for slot and bit for bit, the scalar conversion
(`convF` run-time, `convStaticF` compile-time) of the corresponding component — converted once, in
the direction the entry point implies (`ClassUnitSpec`). -/
theorem class_entry_points_agree :
    ∀ e ∈ quantityEntries, ∀ L : Libm, ClassUnitSpec L classes (kernelsOf e.fm) e := by
  intro e he L
  exact checkClassUnit_sound L (List.all_eq_true.mp Obl.C02class e he)

/-- **C02 (conversions in the type's own precision).** No operation of any conversion entry point — the
free functions on every container form, the dispatch-table routines, the compile-time kernels — is carried
out with fewer significand bits than the numeric type it is instantiated at. (Constants may be written
in any precision; their accuracy is C01.) -/
theorem conversions_keep_precision :
    ∀ e ∈ unitEntries, ∀ ex ∈ e.tree.exprs, e.needP ≤ ex.minP := by
  intro e he ex hex
  have h : Chk.NoNarrowing e = true := List.all_eq_true.mp Obl.NarrowU e he
  simp only [Chk.NoNarrowing, checkNoNarrowing, List.all_eq_true, decide_eq_true_eq] at h
  exact h ex hex

/-- **C02 (a unit converted to the standard unit and back / the standard unit itself).** In the
standard unit both run-time steps are skipped: `Convert(x, std, std)` is `x` itself, bit for bit, so
constructing in the standard unit and reading back in the standard unit returns the original number
exactly. -/
theorem standard_unit_exact (L : Libm) (k : UnitKernels) (x : Fl) :
    convF L k k.standard k.standard x = some x := by
  simp [convF]

/-! ### Reading back in the same unit -/

/-- What C01's table check says about one scaling kernel whose unit's factor is rational (`want.k = 0`:
no power of π — all but the angular units): the code's constant is a positive float within five
roundings of the number `C` for which the kernel's exact factor `stepR d C` is the unit's factor `A`
(to the standard unit) resp. `1/A` (from it). -/
theorem scaling_kernel_constant {fm : Fm} {want : Meaning} {ts : Bool} {ke K : Expr} {d : Bool}
    (hd : want.den ≠ 0) (hn : want.num ≠ 0) (hk0 : want.k = 0)
    (hshape : kernelShape ke = .scale K d) (h : checkKernel fm 4 want ts ke = true) :
    ∃ m e, K.evalF Libm.none (fun _ => .nan) = .fin false m e ∧ 0 < m ∧
      ∃ C : ℝ, Within fm.fmt.u 5 (Fl.toReal (.fin false m e)) C ∧
        stepR d C = (if ts then (want.num : ℝ) / want.den else (want.den : ℝ) / want.num) := by
  have hnum : (0 : ℝ) < want.num := by exact_mod_cast Nat.pos_of_ne_zero hn
  have hden : (0 : ℝ) < want.den := by exact_mod_cast Nat.pos_of_ne_zero hd
  have hu0 : 0 ≤ fm.fmt.u := (Fl.u_pos _).le
  have hu16 : fm.fmt.u ≤ 1 / 16 := by
    unfold Fmt.u
    have : (2 : ℝ) ^ (-(fm.fmt.p : Int)) ≤ (2 : ℝ) ^ (-(4 : Int)) :=
      (zpow_le_zpow_iff_right₀ (by norm_num : (1 : ℝ) < 2)).mpr (by cases fm <;> decide)
    exact this.trans (by norm_num)
  have hE : (4 : ℝ) / 2 ^ fm.fmt.p = 4 * fm.fmt.u := by
    unfold Fmt.u; rw [zpow_neg, zpow_natCast]; ring
  have hencl : enclose want = ((want.num, want.den), (want.num, want.den)) := by
    unfold enclose; simp [hk0]
  unfold checkKernel at h
  simp only [hshape, hencl] at h
  cases hk : flPosRat (K.evalF Libm.none (fun _ => .nan)) with
  | none => simp [hk] at h
  | some k =>
    simp only [hk] at h
    obtain ⟨m, e, hv, hm, hreal⟩ := C01.flPosRat_real hk
    refine ⟨m, e, hv, hm, ?_⟩
    rw [← hv, ← hreal]
    -- the four cases: direction × multiply/divide
    have key : ∀ (lo : Nat × Nat) (C : ℝ), 0 < C → ratR lo = C → within k lo lo 4 fm.fmt.p = true →
        Within fm.fmt.u 5 (ratR k) C := by
      intro lo C hC hlo hw
      obtain ⟨h1, h2⟩ := within_sound hw
      rw [hlo] at h1 h2
      simp only [Nat.cast_ofNat] at h1 h2
      rw [hE] at h1 h2
      apply within_of_rel hu0 hu16 hC
      rw [abs_le]; constructor <;> nlinarith
    cases ts <;> cases d <;> simp only [Bool.false_eq_true, if_false, if_true, invRat] at h
    · -- from standard, multiply: K ≈ den/num
      refine ⟨(want.den : ℝ) / want.num, key (want.den, want.num) _ (by positivity) rfl h, by simp [stepR]⟩
    · -- from standard, divide: K ≈ num/den, factor 1/K
      refine ⟨(want.num : ℝ) / want.den, key (want.num, want.den) _ (by positivity) rfl h, ?_⟩
      simp [stepR]
    · refine ⟨(want.num : ℝ) / want.den, key (want.num, want.den) _ (by positivity) rfl h, by simp [stepR]⟩
    · refine ⟨(want.den : ℝ) / want.num, key (want.den, want.num) _ (by positivity) rfl h, ?_⟩
      simp [stepR]

/-- **C02 (construct in unit `u`, read back in unit `u`).** Take a unit whose factor is rational and
whose two kernels are scalings (`x·K` or `x/K`) accepted by C01's table check (`kernels_match_their_symbols`
establishes exactly these two `checkKernel` facts for every non-affine unit of every type and format).
Then for every positive finite `x`, with no under- or overflow in either step, the value obtained by
converting to the standard unit and back is within twelve roundings of `x`:
`x·(1-u)^12 ≤ read back ≤ x/(1-u)^12` — "the original number up to rounding". (Values of the other sign
behave identically, the operations being sign-symmetric; in the standard unit the result is `x` itself,
`standard_unit_exact`.) -/
theorem read_back_in_the_same_unit {fm : Fm} {want : Meaning} {ke1 ke2 K1 K2 : Expr} {d1 d2 : Bool}
    (hd : want.den ≠ 0) (hn : want.num ≠ 0) (hk0 : want.k = 0)
    (hs1 : kernelShape ke1 = .scale K1 d1) (hs2 : kernelShape ke2 = .scale K2 d2)
    (h1 : checkKernel fm 4 want true ke1 = true) (h2 : checkKernel fm 4 want false ke2 = true)
    (x : Fl) (hx : 0 < Fl.toReal x) :
    let k1 := K1.evalF Libm.none (fun _ => .nan)
    let k2 := K2.evalF Libm.none (fun _ => .nan)
    fm.fmt.minNormal ≤ (if d1 then Fl.toReal x / Fl.toReal k1 else Fl.toReal x * Fl.toReal k1) →
    (stepF fm.fmt d1 x k1).isFinite = true →
    fm.fmt.minNormal ≤ (if d2 then Fl.toReal (stepF fm.fmt d1 x k1) / Fl.toReal k2
                          else Fl.toReal (stepF fm.fmt d1 x k1) * Fl.toReal k2) →
    (stepF fm.fmt d2 (stepF fm.fmt d1 x k1) k2).isFinite = true →
    Within fm.fmt.u 12 (Fl.toReal (stepF fm.fmt d2 (stepF fm.fmt d1 x k1) k2)) (Fl.toReal x) := by
  intro k1 k2 hn1 hf1 hn2 hf2
  obtain ⟨m1, e1, hv1, _, C1, w1, c1⟩ := scaling_kernel_constant hd hn hk0 hs1 h1
  obtain ⟨m2, e2, hv2, _, C2, w2, c2⟩ := scaling_kernel_constant hd hn hk0 hs2 h2
  have hnum : (0 : ℝ) < want.num := by exact_mod_cast Nat.pos_of_ne_zero hn
  have hden : (0 : ℝ) < want.den := by exact_mod_cast Nat.pos_of_ne_zero hd
  have hu1 : fm.fmt.u < 1 := by
    unfold Fmt.u
    have : (2 : ℝ) ^ (-(fm.fmt.p : Int)) < (2 : ℝ) ^ (0 : Int) :=
      (zpow_lt_zpow_iff_right₀ (by norm_num : (1 : ℝ) < 2)).mpr (by cases fm <;> decide)
    simpa using this
  have hcancel : stepR d1 C1 * stepR d2 C2 = 1 := by
    rw [c1, c2]; simp only [if_true, Bool.false_eq_true, if_false]; field_simp
  rw [← hv1] at w1
  rw [← hv2] at w2
  exact read_back fm.fmt (fm_p_pos fm) (Fl.u_pos _).le hu1 le_rfl x k1 k2 d1 d2 hx w1 w2 hcancel hn1 hf1 hn2 hf2

/-! ### Non-vacuity -/

example : Chk.C02unit (f64.«unit::Convert<Length>(Dyad)@1,2») = true := by decide
example : (f32.«Speed::ctor(num,Unit::Speed)[KilometrePerHour]»).enumArgs ≠ [] := by decide
example : convertPairsByType64 ≠ [] := by simp [convertPairsByType64]
-- the hypotheses of `read_back_in_the_same_unit` are met, e.g. by the nautical mile in `float`
example : checkKernel .f32 4 ⟨1852, 1, 0, ⟨0, 1, 0, 0, 0, 0, 0⟩⟩ true
    (.bin .mul .f32 (.var 0 .f32) (.cast .f32 (.lit .f80 false 463 2))) = true ∧
  checkKernel .f32 4 ⟨1852, 1, 0, ⟨0, 1, 0, 0, 0, 0, 0⟩⟩ false
    (.bin .div .f32 (.var 0 .f32) (.cast .f32 (.lit .f80 false 463 2))) = true := by decide +kernel
example : kernelShape (.bin .div .f32 (.var 0 .f32) (.cast .f32 (.lit .f80 false 463 2))) =
    .scale (.cast .f32 (.lit .f80 false 463 2)) true := rfl

end PhQVerif.Props.C02
