/-
Props/C07.lean — C07: each unit system is coherent: its units combine with factor one.

Statement (properties.jsonl): in each of the four unit systems, the consistent unit of every unit type
has exactly the SI magnitude of the product of that system's base units (length, mass, time,
temperature, current, amount) raised to the type's dimension exponents, so arithmetic on values
expressed in one system's units needs no conversion factors; the standard system's consistent units
are the standard units. The system related to a unit is s exactly when that unit is the consistent
unit of s and of no other system, and is absent otherwise.

Magnitudes are those of the independent unit-symbol oracle (Core/Symbol.lean, Core/Atoms.lean),
compared exactly as rationals times powers of π. That the library's own conversion constants agree
with the same oracle is C01; its table theorem is restated here (`constants_match_magnitudes`) so that a
consistent unit whose *conversion constant* drifts from its symbol's magnitude fails this check too.
-/
import PhQVerif.Theory.Tables
import PhQVerif.Checkers
import PhQVerif.Generated.Obl_C07
import PhQVerif.Props.C01

namespace PhQVerif.Props.C07
open PhQVerif Generated

/-- **C07.** For every unit type `u` (37) and every unit system `s` (4): (e) `s` has a consistent
unit; (a) its oracle magnitude equals `∏ base_s(j)^(dims u)_j` exactly, where `base_s` are the
system's own consistent units of time, length, mass, current, temperature and amount (types with a
luminous-intensity exponent are exempt: the library has no unit type for the candela); (c) the standard
system's consistent unit is the type's standard unit; (d) `RelatedUnitSystem(v) = s` iff `v` is the
consistent unit of `s` and of no other system, and is absent otherwise. -/
theorem coherent :
    ∀ u ∈ unitTypes,
      (∀ s ∈ unitSystemValues, ∃ v, consistentUnit u s = some v) ∧
      (u.dims.j = 0 → ∀ s ∈ unitSystemValues, ∃ v want m, consistentUnit u s = some v ∧
        coherentMagnitude unitTypes baseTypes s u.dims = some want ∧ magnitudeOf u v = some m ∧
        sameFactor m want = true) ∧
      consistentUnit u standardUnitSystem = some u.standard ∧
      (∀ v ∈ u.values, ∀ s, lookup v u.related = some s →
        unitSystemValues.filter (fun t => consistentUnit u t == some v) = [s]) ∧
      (∀ v ∈ u.values, lookup v u.related = none →
        (unitSystemValues.filter (fun t => consistentUnit u t == some v)).length ≠ 1) := by
  intro u hu
  have h : Chk.C07 u = true := List.all_eq_true.mp Obl.C07 u hu
  simp only [Chk.C07, checkUnitSystem, Bool.and_eq_true, List.all_eq_true, Bool.or_eq_true,
    beq_iff_eq, bne_iff_ne] at h
  obtain ⟨⟨⟨⟨h1, _⟩, h3⟩, h4⟩, h5⟩ := h
  refine ⟨?_, ?_, h4, ?_, ?_⟩
  · intro s hs
    exact Option.isSome_iff_exists.mp (h1 s hs)
  · intro hj s hs
    rcases h3 with h3 | h3
    · exact absurd hj h3
    · have := h3 s hs
      cases hc : consistentUnit u s with
      | none => simp [hc] at this
      | some v =>
        cases hw : coherentMagnitude unitTypes baseTypes s u.dims with
        | none => simp [hc, hw] at this
        | some want =>
          cases hm : magnitudeOf u v with
          | none => simp [hc, hw, hm] at this
          | some m =>
            simp only [hc, hw, hm] at this
            exact ⟨v, want, m, rfl, rfl, hm, this⟩
  · intro v hv s hs
    have := h5 v hv
    simp only [hs, beq_iff_eq] at this
    exact this
  · intro v hv hs
    have := h5 v hv
    simpa [hs] using this

example : unitSystemValues = [0, 1, 2, 3] := by decide

/-- **C07 (the code's constants).** The magnitudes above are those of the symbols; the constants the
code converts with agree with them to `4·2^-p` in every numeric type, for every unit — in particular for
the 148 consistent units (C01's table theorem). -/
theorem constants_match_magnitudes (fm : Fm) :
    ∀ uk ∈ C01.kernelRows fm, checkKernels fm 4 uk.1 uk.2 = true :=
  C01.kernels_match_their_symbols fm

end PhQVerif.Props.C07
