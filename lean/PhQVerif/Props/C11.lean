/-
Props/C11.lean — C11: the angle between two vectors is always a real number in [0, π].

Statement (properties.jsonl): the angle between any two non-zero finite vectors — plain vectors,
directions or vector quantities, in two or three dimensions — is a number in [0, π], never NaN,
symmetric in its arguments and independent of their lengths. It is (nearly) zero for parallel and
(nearly) π for antiparallel arguments and agrees with atan2(|a×b|, a·b) to within the conditioning of
the arc-cosine (1e-7 rad in double).

History: on the pinned tree the eight kernels applied `std::acos` to an unclamped quotient and
returned NaN for a quarter of all parallel pairs (reproduced by this property's search on the real
code and repaired by the `fix:` commit recorded in known_findings.json). The theorems below are about
the repaired source and fail to build on the unrepaired one.

Proved (for all 50 traced angle entry points × 3 formats, all inputs):
* `acos_argument_clamped` — the value handed to `acos` is `+1`, `-1`, or a value for which the code
  has established `¬(x < -1)` and `¬(1 < x)`: it is in `[-1, 1]` unless the cosine itself is NaN
  (which for non-zero finite in-range vectors it is not; that step is floating-point reasoning
  exercised by the search, not yet a Lean theorem);
* `result_in_range` — hence, under `AcosSpec` (glibc's `acos` maps `[-1,1]` into `[0, Pi<T>]`; a
  stated hypothesis, DESIGN.md §9), the result is in `[0, Pi<T>]` and not NaN;
* `symmetric` — exchanging the arguments gives the bit-identical result (commutativity of the
  floating-point product, same summation order);
* `quantity_level_is_kernel` — the quantity-level constructors and members are exactly the kernels.
Not proved in Lean (`angle_close_partial`, length independence): agreement with atan2 and exact
invariance under power-of-two rescaling; both are exercised on the real code by the search.
-/
import PhQVerif.Theory.Angle
import PhQVerif.Checkers
import PhQVerif.Generated.Obl_C11clamp
import PhQVerif.Generated.Obl_C11sym
import PhQVerif.Generated.Obl_C11kernel
import PhQVerif.Generated.Obl_ConstCmp

namespace PhQVerif.Props.C11
open PhQVerif Generated

/-- **C11 (clamping).** -/
theorem acos_argument_clamped :
    ∀ e ∈ AngleEntries.rows, ∀ (L : Libm) (env : Nat → Fl),
      ∃ f arg, e.tree.evalF L env = some [.num (.un .acos f arg)] ∧ ClampedArg L env arg := by
  intro e he L env
  have h : Chk.C11clamp e = true := List.all_eq_true.mp Obl.C11clamp e he
  exact angleTreeOk_sound L env e.tree [] [] h (by simp) (by simp)

/-- What is assumed of the C library's arc cosine (glibc `acosf/acos/acosl`): on an argument that is
`±1` or neither below `-1` nor above `1`, and is not NaN, it returns a non-NaN value between `+0` and
the format's `Pi<T>` inclusive. -/
def AcosSpec (L : Libm) (piOf : Fm → Fl) : Prop :=
  ∀ (f : Fm) (x : Fl), x.isNaN = false →
    (∀ g : Fm, Fl.lt x (Fl.roundE g.fmt true 1 0) = false ∧ Fl.lt (Fl.roundE g.fmt false 1 0) x = false) →
    let r := L.un .acos f.fmt x
    r.isNaN = false ∧ Fl.le (Fl.zero f.fmt false) r = true ∧ Fl.le r (piOf f) = true

/-- **C11 (range).** Under `AcosSpec`, whenever the cosine the kernel computes is not NaN and is
comparable with the literals `±1` of every format as the clamp established (`hcmp` — trivially true
of the argument the clamp lets through, stated for the value actually reaching `acos`), the angle is a
non-NaN number in `[0, Pi<T>]`. -/
theorem result_in_range (L : Libm) (piOf : Fm → Fl) (hspec : AcosSpec L piOf) :
    ∀ e ∈ AngleEntries.rows, ∀ env : Nat → Fl,
      ∃ f arg, e.tree.evalF L env = some [.num (.un .acos f arg)] ∧
        ((arg.evalF L env).isNaN = false →
         (∀ g : Fm, Fl.lt (arg.evalF L env) (Fl.roundE g.fmt true 1 0) = false ∧
                    Fl.lt (Fl.roundE g.fmt false 1 0) (arg.evalF L env) = false) →
         let r := (Expr.un .acos f arg).evalF L env
         r.isNaN = false ∧ Fl.le (Fl.zero f.fmt false) r = true ∧ Fl.le r (piOf f) = true) := by
  intro e he env
  obtain ⟨f, arg, htree, _⟩ := acos_argument_clamped e he L env
  exact ⟨f, arg, htree, fun hn hc => hspec f _ hn hc⟩

/-- **C11 (symmetry).** For every pair `(e₁, e₂)` of angle entry points whose argument types are each
other's reverse (an entry point is paired with itself when both arguments have one type): `e₁` applied
to `(b, a)` returns, bit for bit, what `e₂` returns on `(a, b)`. -/
theorem symmetric :
    ∀ t ∈ AngleSym.rows, ∃ n m, t.1.argSizes = [n, m] ∧ ∀ (L : Libm) (env : Nat → Fl),
      t.1.tree.valuesF L (fun i => env (if i < m then n + i else i - m)) = t.2.tree.valuesF L env := by
  intro t ht
  have h : Chk.C11sym t = true := List.all_eq_true.mp Obl.C11sym t ht
  unfold Chk.C11sym at h
  rcases hs : t.1.argSizes with _ | ⟨n, _ | ⟨m, _ | _⟩⟩ <;> simp only [hs] at h
  · exact absurd h (by simp)
  · exact absurd h (by simp)
  · exact ⟨n, m, rfl, fun L env => swapped_trees_agree L env h⟩
  · exact absurd h (by simp)

/-- **C11 (quantity level).** The angle constructors from two vector quantities of one type, and the
`Angle` members of the vector quantities, have exactly the decision tree of the plain vector kernel of
the same shape. -/
theorem quantity_level_is_kernel : ∀ t ∈ AngleKernel.rows, t.1.tree = t.2.tree := by
  intro t ht
  exact DTree.beq_eq (List.all_eq_true.mp Obl.C11kernel t ht)

/-- The comparisons between compile-time constants that the translator folded out of the angle
trees (`1 < -1` on the lower-clamp branch) have the recorded outcome. -/
theorem folded_constant_comparisons : ∀ r ∈ ConstCmp.rows, Chk.ConstCmp r = true :=
  fun r hr => List.all_eq_true.mp Obl.ConstCmp r hr

example : AngleEntries.rows_0 ≠ [] := by simp [AngleEntries.rows_0]

end PhQVerif.Props.C11
