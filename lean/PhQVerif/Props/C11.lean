/-
Props/C11.lean — C11: the angle between two vectors is always a real number in [0, π].

Statement (properties.jsonl): the angle between any two non-zero finite vectors — plain vectors,
directions or vector quantities, in two or three dimensions — is a number in [0, π], never NaN,
symmetric in its arguments and independent of their lengths. It is (nearly) zero for parallel and
(nearly) π for antiparallel arguments and agrees with atan2(|a×b|, a·b) to within the conditioning of
the arc-cosine (1e-7 rad in double).

History: on the pinned tree the eight kernels applied `std::acos` to an unclamped quotient and
returned NaN for a quarter of all parallel pairs (reproduced by this property's search on the real
code and repaired by the `fix:` commit recorded in known_findings.json). The theorems below are about
the repaired source and fail to build on the unrepaired one.

Proved (for all 50 traced angle entry points × 3 formats, all inputs):
* `acos_argument_clamped` — the value handed to `acos` is `+1`, `-1`, or a value for which the code
  has established `¬(x < -1)` and `¬(1 < x)`: it is in `[-1, 1]` unless the cosine itself is NaN
  (which for non-zero finite in-range vectors it is not; that step is floating-point reasoning
  exercised by the search, not yet a Lean theorem);
* `result_in_range` — hence, under `AcosSpec` (glibc's `acos` maps `[-1,1]` into `[0, Pi<T>]`; a
  stated hypothesis, DESIGN.md §9), the result is in `[0, Pi<T>]` and not NaN;
* `symmetric` — exchanging the arguments gives the bit-identical result (commutativity of the
  floating-point product, same summation order);
* `quantity_level_is_kernel` — the quantity-level constructors and members are exactly the kernels.
* `value_is_arccos`, `cos_*`, `kernels_compute_the_angle` — over the reals (all rounding ignored) every
  entry point returns `arccos c` of one expression `c` on every path (the clamp is invisible there,
  `arccos` being constant beyond `±1`), and for each of the 8 kernels in each of the 3 formats `c` is
  `a·b / (|a||b|)` (for a direction argument: under `|d| = 1`): the kernel computes
  `angleR a b = arccos (a·b / (|a||b|))`;
* for `angleR` (Theory/AngleReal.lean), for all vectors: `symmetric_over_reals`, `length_independent`,
  `range_over_reals`, `parallel_is_zero`, `antiparallel_is_pi`, and `is_atan2`:
  `cos θ·|a||b| = a·b ∧ sin θ·|a||b| = |a × b| ∧ θ ∈ [0, π]`, the defining equations of
  `atan2(|a × b|, a·b)`.
Not proved in Lean: the *floating-point* distance to that real angle (1e-7 rad in double, the
conditioning of `acos` at `±1`) and bit-exact invariance under power-of-two rescaling; both are
exercised on the real code by the search, against an exact reference.
-/
import PhQVerif.Theory.Angle
import PhQVerif.Theory.AngleReal
import PhQVerif.Generated.Obl_C11exact
import PhQVerif.Checkers
import PhQVerif.Generated.Obl_C11clamp
import PhQVerif.Generated.Obl_C11sym
import PhQVerif.Generated.Obl_C11kernel
import PhQVerif.Generated.Obl_ConstCmp

namespace PhQVerif.Props.C11
open PhQVerif Generated

/-- **C11 (clamping).** -/
theorem acos_argument_clamped :
    ∀ e ∈ AngleEntries.rows, ∀ (L : Libm) (env : Nat → Fl),
      ∃ f arg, e.tree.evalF L env = some [.num (.un .acos f arg)] ∧ ClampedArg L env arg := by
  intro e he L env
  have h : Chk.C11clamp e = true := List.all_eq_true.mp Obl.C11clamp e he
  exact angleTreeOk_sound L env e.tree [] [] h (by simp) (by simp)

/-- What is assumed of the C library's arc cosine (glibc `acosf/acos/acosl`): on an argument that is
`±1` or neither below `-1` nor above `1`, and is not NaN, it returns a non-NaN value between `+0` and
the format's `Pi<T>` inclusive. -/
def AcosSpec (L : Libm) (piOf : Fm → Fl) : Prop :=
  ∀ (f : Fm) (x : Fl), x.isNaN = false →
    (∀ g : Fm, Fl.lt x (Fl.roundE g.fmt true 1 0) = false ∧ Fl.lt (Fl.roundE g.fmt false 1 0) x = false) →
    let r := L.un .acos f.fmt x
    r.isNaN = false ∧ Fl.le (Fl.zero f.fmt false) r = true ∧ Fl.le r (piOf f) = true

/-- **C11 (range).** Under `AcosSpec`, whenever the cosine the kernel computes is not NaN and is
comparable with the literals `±1` of every format as the clamp established (`hcmp` — trivially true
of the argument the clamp lets through, stated for the value actually reaching `acos`), the angle is a
non-NaN number in `[0, Pi<T>]`. -/
theorem result_in_range (L : Libm) (piOf : Fm → Fl) (hspec : AcosSpec L piOf) :
    ∀ e ∈ AngleEntries.rows, ∀ env : Nat → Fl,
      ∃ f arg, e.tree.evalF L env = some [.num (.un .acos f arg)] ∧
        ((arg.evalF L env).isNaN = false →
         (∀ g : Fm, Fl.lt (arg.evalF L env) (Fl.roundE g.fmt true 1 0) = false ∧
                    Fl.lt (Fl.roundE g.fmt false 1 0) (arg.evalF L env) = false) →
         let r := (Expr.un .acos f arg).evalF L env
         r.isNaN = false ∧ Fl.le (Fl.zero f.fmt false) r = true ∧ Fl.le r (piOf f) = true) := by
  intro e he env
  obtain ⟨f, arg, htree, _⟩ := acos_argument_clamped e he L env
  exact ⟨f, arg, htree, fun hn hc => hspec f _ hn hc⟩

/-- **C11 (symmetry).** For every pair `(e₁, e₂)` of angle entry points whose argument types are each
other's reverse (an entry point is paired with itself when both arguments have one type): `e₁` applied
to `(b, a)` returns, bit for bit, what `e₂` returns on `(a, b)`. -/
theorem symmetric :
    ∀ t ∈ AngleSym.rows, ∃ n m, t.1.argSizes = [n, m] ∧ ∀ (L : Libm) (env : Nat → Fl),
      t.1.tree.valuesF L (fun i => env (if i < m then n + i else i - m)) = t.2.tree.valuesF L env := by
  intro t ht
  have h : Chk.C11sym t = true := List.all_eq_true.mp Obl.C11sym t ht
  unfold Chk.C11sym at h
  rcases hs : t.1.argSizes with _ | ⟨n, _ | ⟨m, _ | _⟩⟩ <;> simp only [hs] at h
  · exact absurd h (by simp)
  · exact absurd h (by simp)
  · exact ⟨n, m, rfl, fun L env => swapped_trees_agree L env h⟩
  · exact absurd h (by simp)

/-- **C11 (quantity level).** The angle constructors from two vector quantities of one type, and the
`Angle` members of the vector quantities, have exactly the decision tree of the plain vector kernel of
the same shape. -/
theorem quantity_level_is_kernel : ∀ t ∈ AngleKernel.rows, t.1.tree = t.2.tree := by
  intro t ht
  exact DTree.beq_eq (List.all_eq_true.mp Obl.C11kernel t ht)

/-- The comparisons between compile-time constants that the translator folded out of the angle
trees (`1 < -1` on the lower-clamp branch) have the recorded outcome. -/
theorem folded_constant_comparisons : ∀ r ∈ ConstCmp.rows, Chk.ConstCmp r = true :=
  fun r hr => List.all_eq_true.mp Obl.ConstCmp r hr

/-! ### Over the reals: every kernel computes the angle -/

/-- **C11 (one expression).** Over the reals every angle entry point returns, on every input and
along every path, the arc cosine of the single expression it clamps. -/
theorem value_is_arccos : ∀ e ∈ AngleEntries.rows, ∀ x : Nat → ℝ,
    e.tree.valuesR x = some [some (Real.arccos (e.cosR x))] := by
  intro e he x
  exact checkAngleExact_sound (List.all_eq_true.mp Obl.C11exact e he) x

/-- Unfold the clamped expression of a generated kernel down to arithmetic on its inputs. -/
macro "unfold_cos" e:term : tactic =>
  `(tactic| simp [Entry.cosR, DTree.angleCos, isLitOne, $e:term, Expr.evalR, BinOp.evalR, UnOp.evalR,
      cosineR, V3, V2, dotProduct, Fin.sum_univ_three])

/-- `|d| = 1` for inputs `o, o+1, o+2` read as a direction. -/
def Unit3 (x : Nat → ℝ) (o : Nat) : Prop := x o * x o + x (o + 1) * x (o + 1) + x (o + 2) * x (o + 2) = 1
/-- `|d| = 1` for inputs `o, o+1` read as a planar direction. -/
def Unit2 (x : Nat → ℝ) (o : Nat) : Prop := x o * x o + x (o + 1) * x (o + 1) = 1

theorem cos_f32_Vector_Vector (x : Nat → ℝ) :
    (f32.«Angle::ctor(Vector,Vector)»).cosR x = cosineR (V3 x 0) (V3 x 3) := by
  unfold_cos f32.«Angle::ctor(Vector,Vector)»

theorem cos_f32_Vector_Direction (x : Nat → ℝ) (hb : Unit3 x 3) :
    (f32.«Angle::ctor(Vector,Direction)»).cosR x = cosineR (V3 x 0) (V3 x 3) := by
  unfold Unit3 at hb
  unfold_cos f32.«Angle::ctor(Vector,Direction)»
  simp [hb]

theorem cos_f32_Direction_Vector (x : Nat → ℝ) (ha : Unit3 x 0) :
    (f32.«Angle::ctor(Direction,Vector)»).cosR x = cosineR (V3 x 0) (V3 x 3) := by
  unfold Unit3 at ha
  unfold_cos f32.«Angle::ctor(Direction,Vector)»
  simp [ha]

theorem cos_f32_Direction_Direction (x : Nat → ℝ) (ha : Unit3 x 0) (hb : Unit3 x 3) :
    (f32.«Angle::ctor(Direction,Direction)»).cosR x = cosineR (V3 x 0) (V3 x 3) := by
  unfold Unit3 at ha hb
  unfold_cos f32.«Angle::ctor(Direction,Direction)»
  simp [ha, hb]

theorem cos_f32_PlanarVector_PlanarVector (x : Nat → ℝ) :
    (f32.«Angle::ctor(PlanarVector,PlanarVector)»).cosR x = cosineR (V2 x 0) (V2 x 2) := by
  unfold_cos f32.«Angle::ctor(PlanarVector,PlanarVector)»

theorem cos_f32_PlanarVector_PlanarDirection (x : Nat → ℝ) (hb : Unit2 x 2) :
    (f32.«Angle::ctor(PlanarVector,PlanarDirection)»).cosR x = cosineR (V2 x 0) (V2 x 2) := by
  unfold Unit2 at hb
  unfold_cos f32.«Angle::ctor(PlanarVector,PlanarDirection)»
  simp [hb]

theorem cos_f32_PlanarDirection_PlanarVector (x : Nat → ℝ) (ha : Unit2 x 0) :
    (f32.«Angle::ctor(PlanarDirection,PlanarVector)»).cosR x = cosineR (V2 x 0) (V2 x 2) := by
  unfold Unit2 at ha
  unfold_cos f32.«Angle::ctor(PlanarDirection,PlanarVector)»
  simp [ha]

theorem cos_f32_PlanarDirection_PlanarDirection (x : Nat → ℝ) (ha : Unit2 x 0) (hb : Unit2 x 2) :
    (f32.«Angle::ctor(PlanarDirection,PlanarDirection)»).cosR x = cosineR (V2 x 0) (V2 x 2) := by
  unfold Unit2 at ha hb
  unfold_cos f32.«Angle::ctor(PlanarDirection,PlanarDirection)»
  simp [ha, hb]

theorem cos_f64_Vector_Vector (x : Nat → ℝ) :
    (f64.«Angle::ctor(Vector,Vector)»).cosR x = cosineR (V3 x 0) (V3 x 3) := by
  unfold_cos f64.«Angle::ctor(Vector,Vector)»

theorem cos_f64_Vector_Direction (x : Nat → ℝ) (hb : Unit3 x 3) :
    (f64.«Angle::ctor(Vector,Direction)»).cosR x = cosineR (V3 x 0) (V3 x 3) := by
  unfold Unit3 at hb
  unfold_cos f64.«Angle::ctor(Vector,Direction)»
  simp [hb]

theorem cos_f64_Direction_Vector (x : Nat → ℝ) (ha : Unit3 x 0) :
    (f64.«Angle::ctor(Direction,Vector)»).cosR x = cosineR (V3 x 0) (V3 x 3) := by
  unfold Unit3 at ha
  unfold_cos f64.«Angle::ctor(Direction,Vector)»
  simp [ha]

theorem cos_f64_Direction_Direction (x : Nat → ℝ) (ha : Unit3 x 0) (hb : Unit3 x 3) :
    (f64.«Angle::ctor(Direction,Direction)»).cosR x = cosineR (V3 x 0) (V3 x 3) := by
  unfold Unit3 at ha hb
  unfold_cos f64.«Angle::ctor(Direction,Direction)»
  simp [ha, hb]

theorem cos_f64_PlanarVector_PlanarVector (x : Nat → ℝ) :
    (f64.«Angle::ctor(PlanarVector,PlanarVector)»).cosR x = cosineR (V2 x 0) (V2 x 2) := by
  unfold_cos f64.«Angle::ctor(PlanarVector,PlanarVector)»

theorem cos_f64_PlanarVector_PlanarDirection (x : Nat → ℝ) (hb : Unit2 x 2) :
    (f64.«Angle::ctor(PlanarVector,PlanarDirection)»).cosR x = cosineR (V2 x 0) (V2 x 2) := by
  unfold Unit2 at hb
  unfold_cos f64.«Angle::ctor(PlanarVector,PlanarDirection)»
  simp [hb]

theorem cos_f64_PlanarDirection_PlanarVector (x : Nat → ℝ) (ha : Unit2 x 0) :
    (f64.«Angle::ctor(PlanarDirection,PlanarVector)»).cosR x = cosineR (V2 x 0) (V2 x 2) := by
  unfold Unit2 at ha
  unfold_cos f64.«Angle::ctor(PlanarDirection,PlanarVector)»
  simp [ha]

theorem cos_f64_PlanarDirection_PlanarDirection (x : Nat → ℝ) (ha : Unit2 x 0) (hb : Unit2 x 2) :
    (f64.«Angle::ctor(PlanarDirection,PlanarDirection)»).cosR x = cosineR (V2 x 0) (V2 x 2) := by
  unfold Unit2 at ha hb
  unfold_cos f64.«Angle::ctor(PlanarDirection,PlanarDirection)»
  simp [ha, hb]

theorem cos_f80_Vector_Vector (x : Nat → ℝ) :
    (f80.«Angle::ctor(Vector,Vector)»).cosR x = cosineR (V3 x 0) (V3 x 3) := by
  unfold_cos f80.«Angle::ctor(Vector,Vector)»

theorem cos_f80_Vector_Direction (x : Nat → ℝ) (hb : Unit3 x 3) :
    (f80.«Angle::ctor(Vector,Direction)»).cosR x = cosineR (V3 x 0) (V3 x 3) := by
  unfold Unit3 at hb
  unfold_cos f80.«Angle::ctor(Vector,Direction)»
  simp [hb]

theorem cos_f80_Direction_Vector (x : Nat → ℝ) (ha : Unit3 x 0) :
    (f80.«Angle::ctor(Direction,Vector)»).cosR x = cosineR (V3 x 0) (V3 x 3) := by
  unfold Unit3 at ha
  unfold_cos f80.«Angle::ctor(Direction,Vector)»
  simp [ha]

theorem cos_f80_Direction_Direction (x : Nat → ℝ) (ha : Unit3 x 0) (hb : Unit3 x 3) :
    (f80.«Angle::ctor(Direction,Direction)»).cosR x = cosineR (V3 x 0) (V3 x 3) := by
  unfold Unit3 at ha hb
  unfold_cos f80.«Angle::ctor(Direction,Direction)»
  simp [ha, hb]

theorem cos_f80_PlanarVector_PlanarVector (x : Nat → ℝ) :
    (f80.«Angle::ctor(PlanarVector,PlanarVector)»).cosR x = cosineR (V2 x 0) (V2 x 2) := by
  unfold_cos f80.«Angle::ctor(PlanarVector,PlanarVector)»

theorem cos_f80_PlanarVector_PlanarDirection (x : Nat → ℝ) (hb : Unit2 x 2) :
    (f80.«Angle::ctor(PlanarVector,PlanarDirection)»).cosR x = cosineR (V2 x 0) (V2 x 2) := by
  unfold Unit2 at hb
  unfold_cos f80.«Angle::ctor(PlanarVector,PlanarDirection)»
  simp [hb]

theorem cos_f80_PlanarDirection_PlanarVector (x : Nat → ℝ) (ha : Unit2 x 0) :
    (f80.«Angle::ctor(PlanarDirection,PlanarVector)»).cosR x = cosineR (V2 x 0) (V2 x 2) := by
  unfold Unit2 at ha
  unfold_cos f80.«Angle::ctor(PlanarDirection,PlanarVector)»
  simp [ha]

theorem cos_f80_PlanarDirection_PlanarDirection (x : Nat → ℝ) (ha : Unit2 x 0) (hb : Unit2 x 2) :
    (f80.«Angle::ctor(PlanarDirection,PlanarDirection)»).cosR x = cosineR (V2 x 0) (V2 x 2) := by
  unfold Unit2 at ha hb
  unfold_cos f80.«Angle::ctor(PlanarDirection,PlanarDirection)»
  simp [ha, hb]

/-- **C11 (the kernels compute the angle).** In every format, over the reals, the vector-vector
kernels return `angleR a b = arccos (a·b / (|a||b|))` on every input (planar vectors embedded in three
dimensions); so do the kernels that take directions, for arguments of length one. The quantity-level
entry points are these kernels (`quantity_level_is_kernel`). -/
theorem kernels_compute_the_angle (x : Nat → ℝ) :
    (f32.«Angle::ctor(Vector,Vector)»).tree.valuesR x = some [some (angleR (V3 x 0) (V3 x 3))] ∧
    (f64.«Angle::ctor(Vector,Vector)»).tree.valuesR x = some [some (angleR (V3 x 0) (V3 x 3))] ∧
    (f80.«Angle::ctor(Vector,Vector)»).tree.valuesR x = some [some (angleR (V3 x 0) (V3 x 3))] ∧
    (f32.«Angle::ctor(PlanarVector,PlanarVector)»).tree.valuesR x = some [some (angleR (V2 x 0) (V2 x 2))] ∧
    (f64.«Angle::ctor(PlanarVector,PlanarVector)»).tree.valuesR x = some [some (angleR (V2 x 0) (V2 x 2))] ∧
    (f80.«Angle::ctor(PlanarVector,PlanarVector)»).tree.valuesR x = some [some (angleR (V2 x 0) (V2 x 2))] := by
  have mem : ∀ e, Chk.C11exact e = true → e.tree.valuesR x = some [some (Real.arccos (e.cosR x))] :=
    fun e h => checkAngleExact_sound h x
  refine ⟨?_, ?_, ?_, ?_, ?_, ?_⟩
  · rw [mem _ (by decide), cos_f32_Vector_Vector]; rfl
  · rw [mem _ (by decide), cos_f64_Vector_Vector]; rfl
  · rw [mem _ (by decide), cos_f80_Vector_Vector]; rfl
  · rw [mem _ (by decide), cos_f32_PlanarVector_PlanarVector]; rfl
  · rw [mem _ (by decide), cos_f64_PlanarVector_PlanarVector]; rfl
  · rw [mem _ (by decide), cos_f80_PlanarVector_PlanarVector]; rfl

/-- The kernels with direction arguments, for arguments of length one (what every construction path of
a direction establishes, C10). -/
theorem direction_kernels_compute_the_angle (x : Nat → ℝ) :
    (Unit3 x 3 → (f64.«Angle::ctor(Vector,Direction)»).tree.valuesR x = some [some (angleR (V3 x 0) (V3 x 3))]) ∧
    (Unit3 x 0 → (f64.«Angle::ctor(Direction,Vector)»).tree.valuesR x = some [some (angleR (V3 x 0) (V3 x 3))]) ∧
    (Unit3 x 0 → Unit3 x 3 →
      (f64.«Angle::ctor(Direction,Direction)»).tree.valuesR x = some [some (angleR (V3 x 0) (V3 x 3))]) ∧
    (Unit2 x 2 →
      (f64.«Angle::ctor(PlanarVector,PlanarDirection)»).tree.valuesR x = some [some (angleR (V2 x 0) (V2 x 2))]) ∧
    (Unit2 x 0 →
      (f64.«Angle::ctor(PlanarDirection,PlanarVector)»).tree.valuesR x = some [some (angleR (V2 x 0) (V2 x 2))]) ∧
    (Unit2 x 0 → Unit2 x 2 →
      (f64.«Angle::ctor(PlanarDirection,PlanarDirection)»).tree.valuesR x =
        some [some (angleR (V2 x 0) (V2 x 2))]) := by
  have mem : ∀ e, Chk.C11exact e = true → e.tree.valuesR x = some [some (Real.arccos (e.cosR x))] :=
    fun e h => checkAngleExact_sound h x
  refine ⟨?_, ?_, ?_, ?_, ?_, ?_⟩
  · intro hb; rw [mem _ (by decide), cos_f64_Vector_Direction x hb]; rfl
  · intro ha; rw [mem _ (by decide), cos_f64_Direction_Vector x ha]; rfl
  · intro ha hb; rw [mem _ (by decide), cos_f64_Direction_Direction x ha hb]; rfl
  · intro hb; rw [mem _ (by decide), cos_f64_PlanarVector_PlanarDirection x hb]; rfl
  · intro ha; rw [mem _ (by decide), cos_f64_PlanarDirection_PlanarVector x ha]; rfl
  · intro ha hb; rw [mem _ (by decide), cos_f64_PlanarDirection_PlanarDirection x ha hb]; rfl

/-! ### What that angle is (for all real vectors) -/

open Matrix in
/-- **C11 (symmetric).** -/
theorem symmetric_over_reals (a b : Fin 3 → ℝ) : angleR a b = angleR b a := angleR_comm a b

/-- **C11 (independent of the lengths).** -/
theorem length_independent {s t : ℝ} (hs : 0 < s) (ht : 0 < t) (a b : Fin 3 → ℝ) :
    angleR (s • a) (t • b) = angleR a b := angleR_smul_smul hs ht a b

/-- **C11 (range).** -/
theorem range_over_reals (a b : Fin 3 → ℝ) : 0 ≤ angleR a b ∧ angleR a b ≤ Real.pi := angleR_mem a b

/-- **C11 (parallel).** -/
theorem parallel_is_zero {a : Fin 3 → ℝ} (ha : a ≠ 0) {t : ℝ} (ht : 0 < t) : angleR a (t • a) = 0 :=
  angleR_parallel ha ht

/-- **C11 (antiparallel).** -/
theorem antiparallel_is_pi {a : Fin 3 → ℝ} (ha : a ≠ 0) {t : ℝ} (ht : t < 0) : angleR a (t • a) = Real.pi :=
  angleR_antiparallel ha ht

open Matrix in
/-- **C11 (atan2).** For non-zero vectors the angle `θ` is the number in `[0, π]` with
`cos θ·|a||b| = a·b` and `sin θ·|a||b| = |a × b|`, i.e. `atan2(|a × b|, a·b)`. -/
theorem is_atan2 {a b : Fin 3 → ℝ} (ha : a ≠ 0) (hb : b ≠ 0) :
    Real.cos (angleR a b) * (Real.sqrt (a ⬝ᵥ a) * Real.sqrt (b ⬝ᵥ b)) = a ⬝ᵥ b ∧
    Real.sin (angleR a b) * (Real.sqrt (a ⬝ᵥ a) * Real.sqrt (b ⬝ᵥ b)) =
      Real.sqrt ((a ⨯₃ b) ⬝ᵥ (a ⨯₃ b)) ∧
    0 ≤ angleR a b ∧ angleR a b ≤ Real.pi :=
  ⟨cos_angleR ha hb, sin_angleR ha hb, angleR_mem a b⟩

example : (![1, 2, 3] : Fin 3 → ℝ) ≠ 0 := by
  intro h; have := congrFun h 0; simp at this

example : AngleEntries.rows_0 ≠ [] := by simp [AngleEntries.rows_0]

end PhQVerif.Props.C11
