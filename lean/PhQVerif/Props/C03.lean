/-
Props/C03.lean — C03: every relation between quantities is dimensionally homogeneous.

Statement (properties.jsonl): every operator, constructor and member function that combines
physical quantities into another physical quantity is dimensionally homogeneous with respect to the
dimension sets the participating types declare: rescaling the seven base units by arbitrary positive
factors rescales the result by exactly the factor the result type's dimension set predicts. For the
multiplication and division operators the result type's dimension set is the sum, respectively
difference, of the operand types' dimension sets; sums and differences keep the dimension set.

The theorems quantify over `Generated.quantityEntries` — every public constructor, operator, static
and member function of every quantity class, traced from the current source in all three numeric
formats — and over all real inputs and all positive rescalings.
-/
import PhQVerif.Theory.Homog
import PhQVerif.Checkers
import PhQVerif.Generated.Obl_C03dim
import PhQVerif.Generated.Obl_C03op

namespace PhQVerif.Props.C03
open PhQVerif Generated

/-- Entry `e` is homogeneous of the degree its result type declares: for every positive rescaling
`r` of the base units and all real inputs `x`, the rescaled inputs take the same branch of the
entry's decision tree, and every numeric output component is multiplied by `r.scale d`, where `d`
is the dimension set of the result type. -/
def Homogeneous (e : Entry) : Prop :=
  ∃ d, tyDim classes e.ret = some d ∧ ∀ (r : Rescale) (x : Nat → ℝ),
    e.tree.leafR (r.env (e.varDim classes) x) = e.tree.leafR x ∧
    ∀ outs, e.tree.leafR x = some outs → ∀ ex, Out.num ex ∈ outs →
      ex.evalR (r.env (e.varDim classes) x) = r.scale d * ex.evalR x

/-- **C03 (homogeneity).** Every traced relation of every quantity type, in every numeric format,
is dimensionally homogeneous, for all inputs and all positive rescalings of the base units. -/
theorem homogeneous :
    ∀ e ∈ quantityEntries, e.isRelation = true → Homogeneous e := by
  intro e he hrel
  have hchk : Chk.C03dim e = true := List.all_eq_true.mp Obl.C03dim e he
  simp only [Chk.C03dim, checkDim, hrel, Bool.not_true, Bool.false_or] at hchk
  cases hd : tyDim classes e.ret with
  | none => simp [hd] at hchk
  | some d =>
    simp only [hd, Bool.and_eq_true] at hchk
    exact ⟨d, hd, fun r x => treeDimOk_sound r (e.varDim classes) d e.tree hchk.2 x⟩

/-- The dimension sets of the operands and result of a binary operator entry. -/
def OperatorDims (e : Entry) : Prop :=
  ∀ a b, e.args = [a, b] → ∃ x y z, tyDim classes a = some x ∧ tyDim classes b = some y ∧
    tyDim classes e.ret = some z ∧
    (e.opr = .mul → z = Dim.add x y) ∧ (e.opr = .div → z = Dim.sub x y) ∧
    (e.opr = .add → z = x ∧ z = y) ∧ (e.opr = .sub → z = x ∧ z = y)

/-- **C03 (operators).** For `*` and `/` the result type's dimension set is the sum, respectively
difference, of the operand types' sets; `+` and `-` keep the set. -/
theorem operator_dims :
    ∀ e ∈ quantityEntries, e.isRelation = true →
      (e.opr = .mul ∨ e.opr = .div ∨ e.opr = .add ∨ e.opr = .sub) → OperatorDims e := by
  intro e he hrel hop a b hargs
  have hchk : Chk.C03op e = true := List.all_eq_true.mp Obl.C03op e he
  simp only [Chk.C03op, checkOpDims, hrel, Bool.not_true, Bool.false_or, hargs] at hchk
  cases hx : tyDim classes a with
  | none => rcases hop with h | h | h | h <;> simp [h, hx] at hchk
  | some x =>
    cases hy : tyDim classes b with
    | none => rcases hop with h | h | h | h <;> simp [h, hx, hy] at hchk
    | some y =>
      cases hz : tyDim classes e.ret with
      | none => rcases hop with h | h | h | h <;> simp [h, hx, hy, hz] at hchk
      | some z =>
        refine ⟨x, y, z, rfl, rfl, rfl, ?_, ?_, ?_, ?_⟩ <;> intro h <;>
          simp only [h, hx, hy, hz, beq_iff_eq, Bool.and_eq_true] at hchk <;> exact hchk

/-! ### Non-vacuity: the hypotheses are met by concrete generated entries. -/

example : (f64.«Speed::ctor(Length,Time)»).isRelation = true := by decide
example : (f32.«DynamicPressure::ctor(MassDensity,Speed)»).isRelation = true := by decide
example : tyDim classes (f64.«Speed::ctor(Length,Time)»).ret = some ⟨-1, 1, 0, 0, 0, 0, 0⟩ := by decide
example : (f64.«Speed::operator*(Time)»).opr = .mul ∧ (f64.«Speed::operator*(Time)»).isRelation = true := by
  decide

end PhQVerif.Props.C03
