/-
Props/C06.lean — C06: declared dimension sets equal the dimensions of the units themselves.

Statement (properties.jsonl): the dimension set reported for a unit type, and by every quantity
measured in that unit type, equals the exponent vector obtained by expanding each of the type's unit
symbols into the seven base dimensions, and all units of one type share it. Its printed form lists
exactly the non-zero exponents in the order T, L, M, I, Θ, N, J, prints 1 when dimensionless, and its
equality, ordering and hash are those of the exponent 7-tuple.

(a), (b) are table theorems over the regenerated tables and the unit-symbol oracle. (c) is about the
non-template class `Dimensions` (it stores `int8_t`; nothing can be substituted into it, so it is not
traced): `DimModel` below is a hand-written model of `Dimensions.hpp` / `Dimension/*.hpp`, the
theorems are about the model for **all** integer 7-tuples, and the model is tied to the code by the
correspondence check (textio `dims`: exhaustive small box plus random `int8_t` tuples incl. ±127,
−128: strings, the six comparisons and the hash).
-/
import PhQVerif.Theory.Tables
import PhQVerif.Theory.Lex
import Mathlib.Data.Int.Order.Basic
import PhQVerif.Checkers
import PhQVerif.Generated.Obl_C06unit
import PhQVerif.Generated.Obl_C06class

namespace PhQVerif.Props.C06
open PhQVerif Generated

/-- **C06 (a).** Every unit of every unit type has a symbol that expands (unit-symbol oracle) to a
reading whose dimension exponents are the set its type declares; hence all units of a type share it. -/
theorem unit_symbols_have_declared_dimensions :
    ∀ u ∈ unitTypes, ∀ v ∈ u.values, ∃ m a, abbrOf u v = some a ∧ m ∈ Symbol.readings u.dims a ∧
      m.d = u.dims := by
  intro u hu v hv
  have h : checkUnitDims u = true := List.all_eq_true.mp Obl.C06unit u hu
  simp only [checkUnitDims, List.all_eq_true] at h
  have := h v hv
  obtain ⟨m, hm⟩ := Option.isSome_iff_exists.mp this
  obtain ⟨a, ha, hmem, hd⟩ := magnitudeOf_spec hm
  exact ⟨m, a, ha, hmem, hd⟩

/-- **C06 (b).** Every dimensional quantity class reports exactly the dimension set of its unit
type; every dimensionless class reports the zero set. -/
theorem quantity_dimensions :
    ∀ c ∈ classes, ∀ d, c.dims = some d →
      (c.dimensional = true → ∃ u, unitTypes[c.unitEnum - 1]? = some u ∧ u.dims = d) ∧
      (c.dimensional = false → d = Dim.zero) := by
  intro c hc d hd
  have h : checkClassDims unitTypes c = true := List.all_eq_true.mp Obl.C06class c hc
  simp only [checkClassDims, hd] at h
  constructor
  · intro hdim
    simp only [hdim, if_true] at h
    cases hu : unitTypes[c.unitEnum - 1]? with
    | none => simp [hu] at h
    | some u =>
      simp only [hu, Bool.and_eq_true, beq_iff_eq] at h
      exact ⟨u, rfl, h.2⟩
  · intro hdim
    simpa [hdim] using h

/-! ### (c) The `Dimensions` class: a hand-written model -/

/-- The seven symbols, in the library's order. -/
def symbols : List String := ["T", "L", "M", "I", "Θ", "N", "J"]

/-- `Dimension::X::Print()`: `X` for exponent 1, `X^n` for `n > 1`, `X^(-n)` for negative, empty for 0. -/
def printOne (sym : String) (n : Int) : String :=
  if n = 0 then ""
  else if n = 1 then sym
  else if 1 < n then sym ++ "^" ++ toString n
  else sym ++ "^(" ++ toString n ++ ")"

/-- The pieces `Dimensions::Print()` joins: one per **non-zero** exponent, in the order
T, L, M, I, Θ, N, J. (In the code each `Dimension::X::Print()` returns the empty string for exponent 0
and `Dimensions::Print()` skips empty pieces; a non-zero exponent never prints as the empty string.) -/
def DimModel.pieces (d : List Int) : List String :=
  ((symbols.zip d).filter (fun p => p.2 ≠ 0)).map (fun p => printOne p.1 p.2)

/-- `Dimensions::Print()`: the pieces joined by `·`, or `1` when there is none. -/
def DimModel.print (d : List Int) : String :=
  if (DimModel.pieces d).isEmpty then "1" else "·".intercalate (DimModel.pieces d)

/-- The six comparison operators and the hash of `Dimensions`, as functions of the 7-tuple. -/
def DimModel.cmp (a b : List Int) : Ordering := lexOrd a b
def DimModel.hash (a : List Int) : Nat :=
  a.foldl (fun r x => (31 * r + (x % 2 ^ 64).toNat) % 2 ^ 64) 17

/-- **C06 (c), printing.** For every integer 7-tuple: the printed form is `1` exactly when all
exponents are zero, and otherwise consists of one piece per non-zero exponent, in order. -/
theorem print_one_iff_dimensionless (d : List Int) (hd : d.length = 7) :
    DimModel.print d = "1" ∧ DimModel.pieces d = [] ↔ ∀ x ∈ d, x = 0 := by
  match d, hd with
  | [a, b, c, e, f, g, h], _ =>
    constructor
    · rintro ⟨_, hp⟩
      simp only [DimModel.pieces, symbols, List.zip_cons_cons, List.zip_nil_right, List.map_eq_nil_iff,
        List.filter_eq_nil_iff, List.mem_cons, List.not_mem_nil, or_false, decide_eq_true_eq,
        not_not, forall_eq_or_imp, forall_eq] at hp
      intro x hx
      simp only [List.mem_cons, List.not_mem_nil, or_false] at hx
      rcases hx with rfl | rfl | rfl | rfl | rfl | rfl | rfl <;> simp_all
    · intro hz
      have : a = 0 ∧ b = 0 ∧ c = 0 ∧ e = 0 ∧ f = 0 ∧ g = 0 ∧ h = 0 := by
        refine ⟨hz a ?_, hz b ?_, hz c ?_, hz e ?_, hz f ?_, hz g ?_, hz h ?_⟩ <;> simp
      obtain ⟨rfl, rfl, rfl, rfl, rfl, rfl, rfl⟩ := this
      decide

/-- **C06 (c), order.** In the model the comparison of two dimension sets is the lexicographic
comparison of their exponent 7-tuples: `==` is tuple equality, `<` a strict total order
(`Theory/Lex.lean`), and the hash is a function of the tuple, so equal sets hash equally. -/
theorem order_and_hash (a b : List Int) (h : a.length = b.length) :
    (DimModel.cmp a b = .eq ↔ a = b) ∧ DimModel.cmp b a = (DimModel.cmp a b).swap ∧
    (a = b → DimModel.hash a = DimModel.hash b) :=
  ⟨lexOrd_eq_iff a b h, lexOrd_swap a b, fun hab => by rw [hab]⟩

example : DimModel.print [0, 1, 0, 0, 0, 0, 0] = "L" := by decide
example : DimModel.print [-2, 1, 1, 0, 0, 0, 0] = "T^(-2)·L·M" := by decide
example : DimModel.print [0, 0, 0, 0, 0, 0, 0] = "1" := by decide

end PhQVerif.Props.C06
