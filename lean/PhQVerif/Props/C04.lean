/-
Props/C04.lean — C04: arithmetic on quantities is exactly arithmetic on their SI values.

Statement (properties.jsonl): for every binary operator defined between quantities, or between a
quantity and a plain number, the result's stored value equals the correctly rounded component-wise
sum, difference, product or quotient of the operands' stored values, with operands in the written
order. The compound assignments (+=, -=, *=, /=), in any interleaving, leave the same value as the
corresponding chain of pure operators, and a constructor that has an operator twin returns the
identical value; the standard math functions overloaded for dimensionless quantities return exactly
that function of the stored number.

"Correctly rounded" is `Fl.add/sub/mul/div` of Core/Fl.lean: the exact rational result rounded to
nearest-even once in the operation's format (Theory/Round.lean states what `round` guarantees).
-/
import PhQVerif.Theory.Arith
import PhQVerif.Checkers
import PhQVerif.Generated.Obl_C04arith
import PhQVerif.Generated.Obl_C04std
import PhQVerif.Generated.Obl_C04twin
import PhQVerif.Generated.Obl_C04compound
import PhQVerif.Generated.Obl_NarrowQ

namespace PhQVerif.Props.C04
open PhQVerif Generated

/-- Indices of the two stored numbers that output component `i` must combine, for operand sizes
`n`, `m`: component with component, or every component with the single number. -/
def operandIdx (n m i : Nat) : Nat × Nat :=
  if n == m then (i, n + i) else if m == 1 then (i, n) else (0, 1 + i)

/-- **C04 (operators and compound assignments).** For every component-wise operator instance and
every compound assignment of every quantity, vector and tensor type, in every numeric format, and
for **all** operand values: output component `i` is the single floating-point operation
`Fl.binop op` — the exact result rounded once — applied to the matching stored components, in the
written order (the stored number is first converted to the result's format when the operand was of
another numeric type, as the code does). -/
theorem operator_exact :
    ∀ e ∈ quantityEntries, e.isComponentwiseOp = true →
      ∃ op n m outs, e.opr.binOp? = some op ∧ op ≠ .pow ∧ e.argSizes = [n, m] ∧ e.numOuts = some outs ∧
        ∀ i ex, outs[i]? = some ex → ∀ (L : Libm) (env : Nat → Fl),
          ∃ u v, IsStoredOrCast e.fm (env (operandIdx n m i).1) u ∧
                 IsStoredOrCast e.fm (env (operandIdx n m i).2) v ∧
                 ex.evalF L env = Fl.binop op e.fm.fmt u v := by
  intro e he hcw
  have hchk : Chk.C04arith e = true := List.all_eq_true.mp Obl.C04arith e he
  simp only [Chk.C04arith, checkArith, hcw, Bool.not_true, Bool.false_or] at hchk
  cases hop : e.opr.binOp? with
  | none => simp [hop] at hchk
  | some op =>
    have hne : op ≠ .pow := by
      intro h; subst h
      cases ho : e.opr <;> simp [Opr.binOp?, ho] at hop
    cases hs : e.argSizes with
    | nil => simp [hop, hs] at hchk
    | cons n r1 =>
      cases r1 with
      | nil => simp [hop, hs] at hchk
      | cons m r2 =>
        cases r2 with
        | cons _ _ => simp [hop, hs] at hchk
        | nil =>
          cases ho : e.numOuts with
          | none => simp [hop, hs, ho] at hchk
          | some outs =>
            simp only [hop, hs, ho, Bool.and_eq_true] at hchk
            refine ⟨op, n, m, outs, rfl, hne, rfl, rfl, ?_⟩
            intro i ex hi L env
            have hall := hchk.2
            simp only [allIdx, List.all_eq_true] at hall
            have hmem : (ex, i) ∈ outs.zipIdx := by
              rw [List.mem_zipIdx_iff_getElem?]; simpa using hi
            have := hall _ hmem
            simp only at this
            unfold operandIdx
            by_cases h1 : (n == m) = true
            · simp only [h1, if_true] at this ⊢
              exact isBinOf_sound hne this L env
            · simp only [h1, Bool.false_eq_true, if_false] at this ⊢
              by_cases h2 : (m == 1) = true
              · simp only [h2, if_true] at this ⊢
                exact isBinOf_sound hne this L env
              · simp only [h2, Bool.false_eq_true, if_false] at this ⊢
                exact isBinOf_sound hne this L env

/-- **C04 (twins).** A constructor `C(A, B)` and its operator twin `A ∘ B` (or `B ∘ A`) return the
bit-identical value for all inputs. `Twins.rows` is derived from the declared signatures. -/
theorem twins_identical :
    ∀ t ∈ Twins.rows, ∃ a b, t.1.numOuts = some a ∧ t.2.1.numOuts = some b ∧ a.length = b.length ∧
      ∀ (L : Libm) (env : Nat → Fl),
        a.map (fun ex => ex.evalF L env) =
          b.map (fun ex => ex.evalF L (if t.2.2 then
            (fun j => env (match t.2.1.argSizes with | [n, m] => swapRenaming n m j | _ => j)) else env)) := by
  intro t ht
  exact checkTwin_sound (List.all_eq_true.mp Obl.C04twin t ht)

/-- One step of a history: the new stored components of the receiver, computed by the traced
outputs `outs` from the current components `state` followed by the operand's components. -/
def step (L : Libm) (outs : List Expr) (state operand : List Fl) : List Fl :=
  outs.map fun ex => ex.evalF L (fun i => (state ++ operand).getD i .nan)

/-- **C04 (histories of compound assignments).** Take any sequence of compound assignments
(each one a row of `Compound.rows`, i.e. some `op=` of some class paired with the pure `op` of the
same signature, together with arbitrary operand values). Executing the sequence with the compound
assignments leaves the same stored value as executing the corresponding chain of pure operators —
for every history, of any length, in any interleaving. -/
theorem compound_fold (L : Libm) (hist : List ((Entry × Entry × Bool) × List Fl))
    (hrows : ∀ h ∈ hist, h.1 ∈ Compound.rows) (init : List Fl) :
    hist.foldl (fun st h => step L ((h.1.1.numOuts).getD []) st h.2) init =
    hist.foldl (fun st h => step L ((h.1.2.1.numOuts).getD []) st h.2) init := by
  induction hist generalizing init with
  | nil => rfl
  | cons h rest ih =>
    simp only [List.foldl_cons]
    have hmem : h.1 ∈ Compound.rows := hrows h (List.mem_cons_self ..)
    have hchk : Chk.C04compound h.1 = true := List.all_eq_true.mp Obl.C04compound _ hmem
    have hsame : h.1.1.numOuts.getD [] = h.1.2.1.numOuts.getD [] := by
      simp only [Chk.C04compound] at hchk
      cases ha : h.1.1.numOuts with
      | none => simp [ha] at hchk
      | some a =>
        cases hb : h.1.2.1.numOuts with
        | none => simp [ha, hb] at hchk
        | some b =>
          simp only [ha, hb, beq_iff_eq] at hchk
          simp [hchk]
    rw [hsame]
    exact ih (fun x hx => hrows x (List.mem_cons_of_mem _ hx)) _

/-- **C04 (nothing is computed in a lower precision).** No operation, conversion or comparison of any
entry point of any quantity class is carried out with fewer significand bits than the numeric type the
entry is instantiated at (for the mixed-precision converting members: than the lower of the two). So
"correctly rounded" above means correctly rounded *in the type's own precision*: a `float` temporary
or a `cbrtf` inside `double` code, which leaves every formula over the reals unchanged, breaks this. -/
theorem precision_preserved :
    ∀ e ∈ quantityEntries, ∀ ex ∈ e.tree.exprs, e.needP ≤ ex.minP := by
  intro e he ex hex
  have h : Chk.NoNarrowing e = true := List.all_eq_true.mp Obl.NarrowQ e he
  simp only [Chk.NoNarrowing, checkNoNarrowing, List.all_eq_true, decide_eq_true_eq] at h
  exact h ex hex

/-- **C04 (`<cmath>` overloads).** The standard math functions overloaded for dimensionless scalar
quantities are exactly that function of the stored number, in the quantity's format. -/
theorem stdmath_exact :
    ∀ e ∈ quantityEntries, e.kind = .stdmath →
      (∃ op, e.numOuts = some [.un op e.fm (.var 0 e.fm)] ∨
             ∃ g, e.numOuts = some [.un op e.fm (.var 0 g)]) ∨
      (∃ g h, e.numOuts = some [.bin .pow e.fm (.var 0 g) (.var 1 h)]) := by
  intro e he hk
  have hchk : Chk.C04std e = true := List.all_eq_true.mp Obl.C04std e he
  simp only [Chk.C04std, checkStdMath, hk, bne_self_eq_false, Bool.false_or] at hchk
  split at hchk
  · rename_i op f g ho hs
    simp only [beq_iff_eq] at hchk
    subst hchk
    exact Or.inl ⟨op, Or.inr ⟨g, ho⟩⟩
  · rename_i f g h ho hs
    simp only [beq_iff_eq] at hchk
    subst hchk
    exact Or.inr ⟨g, h, ho⟩
  · exact absurd hchk (by simp)

/-! ### Non-vacuity -/

example : (f32.«Speed::operator*(Time)»).isComponentwiseOp = true := by decide
example : (f80.«Velocity::operator+=(Velocity)»).isComponentwiseOp = true := by decide
example : (f64.«free::operator*(Dyad,num)[U=32]»).isComponentwiseOp = true := by decide
example : Twins.rows ≠ [] := by simp [Twins.rows, Twins.rows_0]
example : Compound.rows ≠ [] := by simp [Compound.rows, Compound.rows_0]
example : (f64.«std::exp(MachNumber)»).kind = .stdmath := by decide

end PhQVerif.Props.C04
