/-
Props/C14.lean — C14: comparison is a total order on stored values; equal objects hash equally.

Statement (properties.jsonl): on every quantity, vector, tensor, dimension-set and
constitutive-model type the six comparison operators define, on non-NaN values, a strict total order
that coincides with comparison of the stored SI value, lexicographic in declared component order for
multi-component types, and == is exactly that order's equivalence. Equal objects have equal hashes
(including +0 and -0), so any collection of such objects can be stored in ordered and unordered
standard containers and found again.

`operators_are_lexicographic` is the table theorem (every traced comparison operator of every
quantity/vector/tensor class and of the three model classes, all three formats): over *any* linear
order on the component values — in particular the non-NaN floats under IEEE comparison with `+0 = −0`
identified — the operator returns exactly `op` of the lexicographic comparison `lexOrd` of the two
component lists in declared order. `lexOrd_*` (Theory/Lex.lean) are the order laws: reflexive
equivalence = component-wise equality, antisymmetry, transitivity, totality (an `Ordering` has three
values). `Dimensions` is a non-template class storing `int8_t`; its operators are hand-modelled in
Props/C06.lean.
-/
import PhQVerif.Theory.Lex
import Mathlib.Order.Nat
import PhQVerif.Checkers
import PhQVerif.Generated.Obl_C14cmpQ
import PhQVerif.Generated.Obl_C14cmpM
import PhQVerif.Generated.Obl_C14hash

namespace PhQVerif.Props.C14
open PhQVerif Generated

/-- Is `e` one of the six comparison operators between two objects? -/
def IsComparison (e : Entry) : Prop :=
  e.opr.cmpOp?.isSome = true ∧ (e.kind = .free ∨ e.kind = .modelCompare)

/-- **C14 (the six operators).** Every comparison operator of every class, for all component values
in any linear order: it evaluates to `op` of the lexicographic comparison of the two operands'
components in declared order (inputs `0 … n-1` are the left operand, `n … 2n-1` the right). -/
theorem operators_are_lexicographic {α : Type} [LinearOrder α] :
    ∀ e ∈ quantityEntries ++ modelEntries, IsComparison e →
      ∃ op n, e.opr.cmpOp? = some op ∧ e.nIn = 2 * n ∧ ∀ env : Nat → α,
        e.tree.evalOrd env = some [.bool (op.holdsOn
          (lexOrd ((List.range n).map env) ((List.range n).map (fun i => env (n + i)))))] := by
  intro e he ⟨hop, hk⟩
  have hchk : Chk.C14cmp e = true := by
    rcases List.mem_append.mp he with h | h
    · exact List.all_eq_true.mp Obl.C14cmpQ e h
    · exact List.all_eq_true.mp Obl.C14cmpM e h
  unfold Chk.C14cmp checkCompare at hchk
  cases hc : e.opr.cmpOp? with
  | none => simp [hc] at hop
  | some op =>
    have hk' : (e.kind == .free || e.kind == .modelCompare) = true := by
      rcases hk with h | h <;> simp [h]
    simp only [hc, hk', if_true, Bool.and_eq_true, beq_iff_eq] at hchk
    obtain ⟨hev, hok⟩ := hchk
    refine ⟨op, e.nIn / 2, rfl, by omega, fun env => ?_⟩
    rw [← lexCmp_eq_lexOrd]
    refine lexTreeOk_sound op (e.nIn / 2) env e.tree _ (by simp) ?_ hok
    intro i hi
    simp [List.getD_eq_getElem?_getD, hi, Poss.has, Poss.all]
    cases cmpAt env (e.nIn / 2) i <;> rfl

/-- The order laws of the lexicographic comparison (restated from Theory/Lex.lean): `==` is
component-wise equality; swapping operands swaps `<` and `>`; `<` is transitive. With the three-valued
`Ordering` this makes `<` a strict total order whose equivalence is `==`. -/
theorem order_laws {α : Type} [LinearOrder α] (u v w : List α) (h1 : u.length = v.length)
    (h2 : v.length = w.length) :
    (lexOrd u v = .eq ↔ u = v) ∧ lexOrd v u = (lexOrd u v).swap ∧
    (lexOrd u v = .lt → lexOrd v w = .lt → lexOrd u w = .lt) :=
  ⟨lexOrd_eq_iff u v h1, lexOrd_swap u v, lexOrd_trans u v w h1 h2⟩

/-- The combiner the library uses for multi-component hashes, on the component hashes (`size_t`
arithmetic is modulo 2^64). Hand-written from `Vector.hpp` (`17`, then `31·r + h` per slot); tied to
the code by the correspondence check. -/
def combine (hs : List Nat) : Nat := hs.foldl (fun r h => (31 * r + h) % 2 ^ 64) 17

/-- **C14 (hash inputs).** The hash of every object feeds exactly its stored components, each once,
in declared order, to `std::hash<NumericType>`: the hash is a function of the stored components. -/
theorem hash_feeds_components :
    ∀ row ∈ HashRows.rows, row.2.length = row.1.nIn ∧
      ∀ (i : Nat) (ex : Expr), row.2[i]? = some ex → ∃ f, ex = Expr.var i f := by
  intro row hrow
  have h : Chk.C14hash row = true := List.all_eq_true.mp Obl.C14hash row hrow
  simp only [Chk.C14hash, checkHashed, Bool.and_eq_true, beq_iff_eq, List.all_eq_true] at h
  refine ⟨h.1, fun i ex hi => ?_⟩
  have hmem : ((ex, i) : Expr × Nat) ∈ row.2.zipIdx := by
    rw [List.mem_zipIdx_iff_getElem?]; simpa using hi
  have := h.2 _ hmem
  cases ex <;> simp at this
  exact ⟨_, by rw [this]⟩

/-- **C14 (equal objects hash equally).** If two objects are equal component by component under a
relation `≈` that `std::hash<NumericType>` respects (IEEE `==`, which identifies `+0` and `−0`: the
one fact about libstdc++ this relies on, DESIGN.md §9), their combined hashes are equal. -/
theorem equal_objects_hash_equally {β : Type} (h : β → Nat) (r : β → β → Prop)
    (hresp : ∀ x y, r x y → h x = h y) (u v : List β) (huv : List.Forall₂ r u v) :
    combine (u.map h) = combine (v.map h) := by
  have : u.map h = v.map h := by
    induction huv with
    | nil => rfl
    | cons hxy _ ih => simp [hresp _ _ hxy, ih]
  rw [this]

/-! ### Non-vacuity -/

example : IsComparison (f64.«free::operator<(Dyad,Dyad)») := ⟨by decide, Or.inl (by decide)⟩
example : IsComparison (f32.«model::ElasticIsotropicSolid::operator>=») := ⟨by decide, Or.inr (by decide)⟩
example : lexOrd [1, 2, 3] [1, 2, (4 : Nat)] = Ordering.lt := by decide

end PhQVerif.Props.C14
