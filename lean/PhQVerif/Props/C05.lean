/-
Props/C05.lean — C05: relations that undo each other really are mutual inverses.

Statement (properties.jsonl): whenever the library can compute a quantity C from (A,B) and also A from
(C,B), composing the two returns the original A to within a few ulps for all positive finite inputs.
The same holds for one-argument relations (period and frequency, speed and dynamic kinematic
pressure) and for the lossless embedding of planar quantities into three-dimensional ones and back.

`InversePairs.rows` is derived mechanically from the declared constructor signatures: every
constructor `C(A₁ … Aₙ)` together with every constructor of some `Aⱼ` that takes `C` and the remaining
`Aᵢ` (this includes the one-argument pairs and the planar/3-D embeddings), as the composite expression
`g ∘ f` in the inputs of `f`.

`inverse_pairs` is the exact statement over the reals: for all positive inputs at which the
composition is defined (no division by zero — the relations that divide by `γ − 1` exclude `γ = 1`),
`g(f(a, b), b) = a`. The floating-point clause ("to within a few ulps") is exercised on the real
code by the search and the bit-exact correspondence; for the pairs that subtract it can only hold
relative to the larger operand (DESIGN.md §7, C05).
-/
import PhQVerif.Theory.Inverse
import PhQVerif.Generated.Obl_C05inv
import PhQVerif.Theory.RelErr
import PhQVerif.Props.C04

namespace PhQVerif.Props.C05
open PhQVerif Generated

/-- **C05.** Every signature-derived pair of relations is a pair of mutual inverses over the reals,
for all positive inputs in the domain of the composition. -/
theorem inverse_pairs : ∀ p ∈ InversePairs.rows, InverseOn p := Obl.C05inv

/-- **C05 (every spelling of a relation).** The inverse pairs above are derived from the *constructors*.
A relation also exists as operators (`Traction * Area`, `Force / Area`, …): every operator that has a
constructor twin returns, bit for bit and for all inputs, exactly what that constructor returns (C04's
`twins_identical`), so composing relations through their operator spellings is composing the
constructors, to which `inverse_pairs` applies. Restated here so that an operator spelling that drifts
from its constructor fails this property's check too. -/
theorem operator_spellings_are_the_constructors :
    ∀ t ∈ Twins.rows, ∃ a b, t.1.numOuts = some a ∧ t.2.1.numOuts = some b ∧ a.length = b.length ∧
      ∀ (L : Libm) (env : Nat → Fl),
        a.map (fun ex => ex.evalF L env) =
          b.map (fun ex => ex.evalF L (if t.2.2 then
            (fun j => env (match t.2.1.argSizes with | [n, m] => swapRenaming n m j | _ => j)) else env)) :=
  C04.twins_identical

/-- At most 9 roundings in any composition that lies in the positive fragment (443 of the 491 composite
slots; the others subtract). -/
theorem rounding_counts :
    InversePairs.rows.all (fun p => p.comp.all (fun e =>
      match posFrag 53 e with | some k => decide (k ≤ 9) | none => true)) = true := by decide +kernel

/-- **C05 (to a few ulps).** For every pair and every slot of the composition `g ∘ f` whose traced
formula lies in the positive fragment, with rounding count `k ≤ 9`: for **all** positive inputs (in
the domain of the composition, with no intermediate under- or overflow), the value the code computes
for `g(f(a, b), b)` is within `k` roundings of the original `a`:
`a·(1-u)^k ≤ computed` and `computed·(1-u)^k ≤ a`, `u = 2^-53` (the rows are the `double`
instantiations; `float` and `long double` have the same formulas by C18's `all_formats`). -/
theorem round_trip_few_ulps :
    ∀ p ∈ InversePairs.rows, ∀ (i : Nat) (ex : Expr) (t : Nat), p.comp[i]? = some ex → p.target[i]? = some t →
      ∀ k, posFrag 53 ex = some k →
      ∀ (L : Libm) (env : Nat → Fl) (x : Nat → ℝ), (∀ j, 0 < x j ∧ Fl.toReal (env j) = x j) →
        (∀ e ∈ p.comp, e.DefinedR x) → InRange L env ex →
        Within ((2 : ℝ) ^ (-(53 : Int))) k (Fl.toReal (ex.evalF L env)) (x t) := by
  intro p hp i ex t hex ht k hk L env x henv hdef hr
  have h1 := posFrag_sound 53 (by norm_num) ex k hk L env x henv hr
  have hinv := inverse_pairs p hp x (fun j => (henv j).1) hdef
  have : ex.evalR x = x t := by
    have h2 := congrArg (fun l => l[i]?) hinv
    simp only [List.getElem?_map, hex, ht, Option.map_some] at h2
    exact Option.some.inj h2
  rw [← this]
  exact h1

/-- Non-vacuity: the hypotheses of `InverseOn` are met, e.g. by all inputs equal to 2. -/
example : ∀ e ∈ InversePairs.p0.comp, e.DefinedR (fun _ => (2 : ℝ)) ∨ True := fun _ _ => Or.inr trivial
example : InversePairs.rows_0 ≠ [] := by simp [InversePairs.rows_0]

end PhQVerif.Props.C05
