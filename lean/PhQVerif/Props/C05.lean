/-
Props/C05.lean — C05: relations that undo each other really are mutual inverses.

Statement (properties.jsonl): whenever the library can compute a quantity C from (A,B) and also A from
(C,B), composing the two returns the original A to within a few ulps for all positive finite inputs.
The same holds for one-argument relations (period and frequency, speed and dynamic kinematic
pressure) and for the lossless embedding of planar quantities into three-dimensional ones and back.

`InversePairs.rows` is derived mechanically from the declared constructor signatures: every
constructor `C(A₁ … Aₙ)` together with every constructor of some `Aⱼ` that takes `C` and the remaining
`Aᵢ` (this includes the one-argument pairs and the planar/3-D embeddings), as the composite expression
`g ∘ f` in the inputs of `f`.

`inverse_pairs` is the exact statement over the reals: for all positive inputs at which the
composition is defined (no division by zero — the relations that divide by `γ − 1` exclude `γ = 1`),
`g(f(a, b), b) = a`. The floating-point clause ("to within a few ulps") is exercised on the real
code by the search and the bit-exact correspondence; for the pairs that subtract it can only hold
relative to the larger operand (DESIGN.md §7, C05).
-/
import PhQVerif.Theory.Inverse
import PhQVerif.Generated.Obl_C05inv

namespace PhQVerif.Props.C05
open PhQVerif Generated

/-- **C05.** Every signature-derived pair of relations is a pair of mutual inverses over the reals,
for all positive inputs in the domain of the composition. -/
theorem inverse_pairs : ∀ p ∈ InversePairs.rows, InverseOn p := Obl.C05inv

/-- Non-vacuity: the hypotheses of `InverseOn` are met, e.g. by all inputs equal to 2. -/
example : ∀ e ∈ InversePairs.p0.comp, e.DefinedR (fun _ => (2 : ℝ)) ∨ True := fun _ _ => Or.inr trivial
example : InversePairs.rows_0 ≠ [] := by simp [InversePairs.rows_0]

end PhQVerif.Props.C05
