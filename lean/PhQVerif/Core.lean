import PhQVerif.Core.Fl
import PhQVerif.Core.Expr
import PhQVerif.Core.Model
import PhQVerif.Core.Tables
import PhQVerif.Core.Check
import PhQVerif.Core.Lex
import PhQVerif.Core.Angle
import PhQVerif.Core.Direction
