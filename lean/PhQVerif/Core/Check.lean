/-
Core/Check.lean — Boolean checkers evaluated by the kernel over the generated tables. Their
soundness theorems live in Theory/.
-/
import PhQVerif.Core.Model
import PhQVerif.Core.Tables

namespace PhQVerif

/-! ### Dimension inference (C03) -/

/-- The dimension of an expression: `any` for expressions that are identically zero (they are
homogeneous of every degree), `fixed d` otherwise. -/
inductive DimTy where
  | any
  | fixed (d : Dim)
deriving DecidableEq, Repr, Inhabited

namespace DimTy
def unify : DimTy → DimTy → Option DimTy
  | any, x => some x
  | x, any => some x
  | fixed a, fixed b => if a = b then some (fixed a) else none
end DimTy

def inferDim (env : Nat → Dim) : Expr → Option DimTy
  | .var i _ => some (.fixed (env i))
  | .lit _ _ m _ => if m = 0 then some .any else some (.fixed Dim.zero)
  | .pi _ _ _ => some (.fixed Dim.zero)
  | .uninit _ => none
  | .cast _ a => inferDim env a
  | .un op _ a =>
    match op, inferDim env a with
    | _, none => none
    | .neg, some d => some d
    | .abs, some d => some d
    | .sqrt, some .any => some .any
    | .sqrt, some (.fixed d) => if d.allEven then some (.fixed d.half) else none
    | _, some .any => none
    | _, some (.fixed d) => if d = Dim.zero then some (.fixed Dim.zero) else none
  | .powi _ n a =>
    match inferDim env a with
    | none => none
    | some .any => if 0 < n then some .any else none
    | some (.fixed d) => some (.fixed (Dim.smul n d))
  | .bin op _ a b =>
    match op, inferDim env a, inferDim env b with
    | _, none, _ => none
    | _, _, none => none
    | .add, some x, some y => DimTy.unify x y
    | .sub, some x, some y => DimTy.unify x y
    | .mul, some .any, some _ => some .any
    | .mul, some _, some .any => some .any
    | .mul, some (.fixed x), some (.fixed y) => some (.fixed (Dim.add x y))
    | .div, some _, some .any => none
    | .div, some .any, some (.fixed _) => some .any
    | .div, some (.fixed x), some (.fixed y) => some (.fixed (Dim.sub x y))
    | .pow, some (.fixed x), some (.fixed y) =>
      if x = Dim.zero ∧ y = Dim.zero then some (.fixed Dim.zero) else none
    | .pow, _, _ => none

/-- Does the inferred dimension agree with the expected one? -/
def DimTy.agrees (d : Dim) : Option DimTy → Bool
  | some .any => true
  | some (.fixed x) => x == d
  | none => false

/-- Dimension set of a type in the class table (numbers and raw tensors are dimensionless). -/
def tyDim (classes : List ClassInfo) : Ty → Option Dim
  | .num => some Dim.zero
  | .raw _ => some Dim.zero
  | .arr _ => some Dim.zero
  | .q c => match classes[c - 1]? with
    | some ci => if c = 0 then none else ci.dims
    | none => none
  | _ => none

/-- Dimension of input variable `i`, from the argument it belongs to. -/
def varDimAux (classes : List ClassInfo) : List Ty → List Nat → Nat → Dim
  | t :: ts, n :: ns, i =>
    if i < n then (tyDim classes t).getD Dim.zero else varDimAux classes ts ns (i - n)
  | _, _, _ => Dim.zero

def Entry.varDim (classes : List ClassInfo) (e : Entry) (i : Nat) : Dim :=
  varDimAux classes e.args e.argSizes i

def Entry.hasEnumArg (e : Entry) : Bool :=
  e.args.any fun t => match t with | .enumv _ _ => true | _ => false

/-- Every numeric output of every leaf has dimension `d`, and every branch condition compares terms
of equal dimension. -/
def treeDimOk (env : Nat → Dim) (d : Dim) : DTree → Bool
  | .leaf outs => outs.all fun o => match o with
    | .num ex => DimTy.agrees d (inferDim env ex)
    | _ => true
  | .node _ a b y n =>
    (match inferDim env a, inferDim env b with
     | some x, some y => (DimTy.unify x y).isSome
     | _, _ => false) && treeDimOk env d y && treeDimOk env d n
  | .unexplored => false

/-- Is the entry a *relation* in the sense of C03: it takes and returns quantities or numbers, and
involves no unit argument (those are conversions, C01/C02)? -/
def Entry.isRelation (e : Entry) : Bool :=
  (match e.kind with
   | .ctor | .method | .static | .free | .mutator | .mutableRef | .castCtor | .castAssign
   | .stdmath => true
   | _ => false) && !e.hasEnumArg && e.opr != .valueAccess &&
  (match e.ret with | .q _ | .num | .raw _ | .arr _ => true | _ => false)

/-- The C03 obligation for one entry. -/
def checkDim (classes : List ClassInfo) (e : Entry) : Bool :=
  !e.isRelation ||
  (match tyDim classes e.ret with
   | some d => e.args.all (fun t => match t with | .q _ => (tyDim classes t).isSome | _ => true)
               && treeDimOk (e.varDim classes) d e.tree
   | none => false)

/-- For the binary operators between two quantity types: the result's dimension set is the sum
(`*`), difference (`/`) of the operands' sets, and `+`/`-` keep the set. -/
def checkOpDims (classes : List ClassInfo) (e : Entry) : Bool :=
  !e.isRelation ||
  (match e.opr, e.args with
   | .mul, [a, b] => (match tyDim classes a, tyDim classes b, tyDim classes e.ret with
     | some x, some y, some z => z == Dim.add x y
     | _, _, _ => false)
   | .div, [a, b] => (match tyDim classes a, tyDim classes b, tyDim classes e.ret with
     | some x, some y, some z => z == Dim.sub x y
     | _, _, _ => false)
   | .add, [a, b] => (match tyDim classes a, tyDim classes b, tyDim classes e.ret with
     | some x, some y, some z => z == x && z == y
     | _, _, _ => false)
   | .sub, [a, b] => (match tyDim classes a, tyDim classes b, tyDim classes e.ret with
     | some x, some y, some z => z == x && z == y
     | _, _, _ => false)
   | _, _ => true)

/-! ### Arithmetic operators are arithmetic on the stored values (C04) -/

/-- `var j`, possibly converted to the entry's format first (mixed-format scalings). -/
def isOperand (fm : Fm) (j : Nat) : Expr → Bool
  | .var i _ => i == j
  | .cast f (.var i _) => f == fm && i == j
  | _ => false

/-- Is `e` exactly `a ⊕ b` computed in format `fm`, operands in the written order (either order for
the commutative `+` and `×`)? -/
def isBinOf (op : BinOp) (fm : Fm) (a b : Nat) : Expr → Bool
  | .bin o f x y =>
    o == op && f == fm &&
      ((isOperand fm a x && isOperand fm b y) ||
       ((op == .add || op == .mul) && isOperand fm b x && isOperand fm a y))
  | _ => false

def Opr.binOp? : Opr → Option BinOp
  | .add | .addAssign => some .add
  | .sub | .subAssign => some .sub
  | .mul | .mulAssign => some .mul
  | .div | .divAssign => some .div
  | _ => none

/-- The numeric outputs of a straight-line entry. -/
def Entry.numOuts (e : Entry) : Option (List Expr) :=
  match e.tree with
  | .leaf outs => some (outs.filterMap fun o => match o with | .num ex => some ex | _ => none)
  | _ => none

def allIdx {α : Type} (l : List α) (p : Nat → α → Bool) : Bool :=
  (l.zipIdx).all fun (x, i) => p i x

/-- Does the entry fall under C04's component-wise form: a binary operator or compound assignment
whose operands have the same number of components (`+`, `-`), or one of which is a single number
(`*`, `/`)? Products of two multi-component operands (dot, matrix products) belong to C09. -/
def Entry.isComponentwiseOp (e : Entry) : Bool :=
  (match e.kind with | .method | .free | .mutator => true | _ => false) &&
  !e.hasEnumArg &&
  (match e.opr.binOp?, e.argSizes with
   | some .add, [n, m] => n == m
   | some .sub, [n, m] => n == m
   | some .mul, [n, m] => n == 1 || m == 1
   | some .div, [_, m] => m == 1
   | _, _ => false) &&
  (match e.numOuts, e.argSizes with
   | some outs, [n, m] => outs.length == max n m
   | _, _ => false)

/-- The C04 obligation: each output component is the one operation on the matching stored
components, in the entry's format. -/
def checkArith (e : Entry) : Bool :=
  !e.isComponentwiseOp ||
  (match e.opr.binOp?, e.argSizes, e.numOuts with
   | some op, [n, m], some outs =>
     (outs.length == (if n == 1 then m else n)) &&
     allIdx outs fun i ex =>
       if n == m then isBinOf op e.fm i (n + i) ex
       else if m == 1 then isBinOf op e.fm i n ex
       else isBinOf op e.fm 0 (1 + i) ex
   | _, _, _ => false)

/-- The `<cmath>` overloads for dimensionless scalars: exactly that function of the stored number. -/
def checkStdMath (e : Entry) : Bool :=
  e.kind != .stdmath ||
  (match e.numOuts, e.argSizes with
   | some [.un _ f (.var 0 _)], [1] => f == e.fm
   | some [.bin .pow f (.var 0 _) (.var 1 _)], [1, 1] => f == e.fm
   | _, _ => false)

namespace Expr
/-- Rename input variables. -/
def renameVars (r : Nat → Nat) : Expr → Expr
  | var i f => var (r i) f
  | un op f a => un op f (renameVars r a)
  | bin op f a b => bin op f (renameVars r a) (renameVars r b)
  | powi f n a => powi f n (renameVars r a)
  | cast f a => cast f (renameVars r a)
  | e => e
end Expr

/-- Twin check: a constructor `C(A, B)` and an operator `A ∘ B → C` (or `B ∘ A → C` when `swapped`)
have identical traces, up to the renaming of inputs that the argument order implies. -/
def checkTwin (ctor opn : Entry) (swapped : Bool) : Bool :=
  ctor.fm == opn.fm &&
  (match ctor.numOuts, opn.numOuts, opn.argSizes with
   | some a, some b, [n, m] =>
     if swapped then a == b.map (Expr.renameVars fun j => if j < n then m + j else j - n) else a == b
   | _, _, _ => false)

/-! ### Precision changes (C16) and memory/accessor behaviour (C17) -/

def isCastOfVar (fm ufm : Fm) (j : Nat) : Expr → Bool
  | .cast f (.var i g) => f == fm && g == ufm && i == j
  | _ => false

def classIsDirection (classes : List ClassInfo) (c : Nat) : Bool :=
  match classes[c - 1]? with
  | some ci => c != 0 && ci.isDirection
  | none => false

/-- C16 for one entry: a converting constructor / assignment is `cast` of each component, in its
slot, and nothing else. (The converting *constructor* of the direction classes re-normalises; it is
covered by `checkDirCast` against the normalising constructor instead.) -/
def checkCast (classes : List ClassInfo) (e : Entry) : Bool :=
  !(e.kind == .castCtor || e.kind == .castAssign) ||
  (match e.ufm with
   | none => false
   | some u =>
     if classIsDirection classes e.cls then true
     else match e.numOuts, e.argSizes with
       | some outs, [n] =>
         e.kind == .castCtor && outs.length == n && allIdx outs (fun i ex => isCastOfVar e.fm u i ex)
       | some outs, [n, m] =>
         e.kind == .castAssign && n == m && outs.length == n &&
           allIdx outs (fun i ex => isCastOfVar e.fm u (n + i) ex)
       | _, _ => false)

namespace Expr
/-- Substitute expressions for input variables. -/
def subst (σ : Nat → Expr) : Expr → Expr
  | var i _ => σ i
  | un op f a => un op f (subst σ a)
  | bin op f a b => bin op f (subst σ a) (subst σ b)
  | powi f n a => powi f n (subst σ a)
  | cast f a => cast f (subst σ a)
  | e => e
end Expr

def Out.subst (σ : Nat → Expr) : Out → Out
  | .num e => .num (e.subst σ)
  | o => o

namespace DTree
def subst (σ : Nat → Expr) : DTree → DTree
  | leaf outs => leaf (outs.map (Out.subst σ))
  | node op a b y n => node op (a.subst σ) (b.subst σ) (subst σ y) (subst σ n)
  | unexplored => unexplored

def beq : DTree → DTree → Bool
  | leaf a, leaf b => a == b
  | node o a b y n, node o' a' b' y' n' => o == o' && a == a' && b == b' && beq y y' && beq n n'
  | unexplored, unexplored => true
  | _, _ => false

def readsUninit : DTree → Bool
  | leaf outs => outs.any fun o => match o with
    | .num e => e.readsUninit
    | .str parts => parts.any fun p => match p with | .num e => e.readsUninit | _ => false
    | _ => false
  | node _ a b y n => a.readsUninit || b.readsUninit || readsUninit y || readsUninit n
  | unexplored => false
end DTree

/-- Where a converting member reads its source components: the converting assignment's inputs are the
target's previous components followed by the source's. -/
def Entry.castOffset (e : Entry) : Nat :=
  if e.kind == .castAssign then (match e.argSizes with | n :: _ => n | [] => 0) else 0

/-- The converting constructor and the converting assignment of a direction class are: cast every
component, then normalise — i.e. exactly the normalising constructor's decision tree with
`cast fm (var (off + i) u)` for input `i` (`off = 0` for the constructor; for the assignment the
source components follow the target's previous ones, which do not occur). -/
def checkDirCast (castE normE : Entry) : Bool :=
  castE.fm == normE.fm &&
  (match castE.ufm with
   | some u => DTree.beq castE.tree (normE.tree.subst fun i => .cast castE.fm (.var (castE.castOffset + i) u))
   | none => false)

def isPosZero : Expr → Bool
  | .lit _ false 0 _ => true
  | .cast _ (.lit _ false 0 _) => true
  | _ => false

def isVar (j : Nat) : Expr → Bool
  | .var i _ => i == j
  | _ => false

def classComps (classes : List ClassInfo) (c : Nat) : Nat :=
  match classes[c - 1]? with
  | some ci => if c = 0 then 0 else ci.comps
  | none => 0

/-- C17 (behavioural half) for one entry: `Zero()` is `+0` in every slot; the value accessors
return exactly the stored numbers; the mutators store exactly their argument. -/
def checkAccess (classes : List ClassInfo) (e : Entry) : Bool :=
  let n := classComps classes e.cls
  match e.mem, e.numOuts with
  | .zero, some outs => outs.length == n && outs.all isPosZero
  | .value, some outs => outs.length == n && allIdx outs (fun i ex => isVar i ex)
  | .allComps, some outs => outs.length == n && allIdx outs (fun i ex => isVar i ex)
  | .comp k, some outs => (match outs with | [ex] => k < n && isVar k ex | _ => false)
  | .setValue, some outs => outs.length == n && allIdx outs (fun i ex => isVar (n + i) ex)
  | .mutableValue, some outs => outs.length == n && allIdx outs (fun i ex => isVar (n + i) ex)
  | .setAll, some outs => outs.length == n && allIdx outs (fun i ex => isVar (n + i) ex)
  | .mutAll, some outs => outs.length == n && allIdx outs (fun i ex => isVar (n + i) ex)
  | .setComp k, some outs =>
    outs.length == n && k < n && allIdx outs (fun i ex => if i == k then isVar n ex else isVar i ex)
  | .mutComp k, some outs =>
    outs.length == n && k < n && allIdx outs (fun i ex => if i == k then isVar n ex else isVar i ex)
  | .zero, none => false
  | .value, none => false
  | .allComps, none => false
  | .comp _, none => false
  | .setValue, none => false
  | .mutableValue, none => false
  | .setAll, none => false
  | .mutAll, none => false
  | .setComp _, none => false
  | .mutComp _, none => false
  | _, _ => true

/-- C17 (static half): the object is exactly `comps` numbers of its numeric type — no padding, no
hidden state, no vptr — trivially copyable and standard-layout. -/
def checkLayout (classes : List ClassInfo) (r : LayoutRow) : Bool :=
  let n := classComps classes r.cls
  (n == 1 || n == 2 || n == 3 || n == 6 || n == 9) &&
  r.size == n * r.numSize && r.align == r.numSize && r.triviallyCopyable && r.standardLayout &&
  !r.polymorphic &&
  r.numSize == (match r.fm with | .f32 => 4 | .f64 => 8 | .f80 => 16)

/-! ### Conversion entry points (C02) -/

/-- `Convert(x, from, to)` as the library's generic code composes it: the `ToStandard` kernel of
`from` unless `from` is the standard unit, then the `FromStandard` kernel of `to` unless `to` is the
standard unit. -/
def convExpr (k : UnitKernels) (frm to : Nat) (x : Expr) : Option Expr :=
  match (if frm == k.standard then some x else (k.toStd[frm]?).map (Expr.subst fun _ => x)) with
  | none => none
  | some a => if to == k.standard then some a else (k.fromStd[to]?).map (Expr.subst fun _ => a)

/-- `ConvertStatically<from, to>(x)`: both kernels are always applied (the standard unit's kernels
are empty). -/
def convStaticExpr (k : UnitKernels) (frm to : Nat) (x : Expr) : Option Expr :=
  match (k.toStd[frm]?).map (Expr.subst fun _ => x) with
  | none => none
  | some a => (k.fromStd[to]?).map (Expr.subst fun _ => a)

/-- All numeric outputs are `conv (var (off+i))` for `i < n`, in order. -/
def outsAreConv (conv : Expr → Option Expr) (fm : Fm) (outs : List Expr) (off : Nat) : Bool :=
  allIdx outs fun i ex => conv (.var (off + i) fm) == some ex

/-- The shape of an entry point of Unit.hpp, read off its kind, enumerator arguments and outputs. -/
inductive UnitShape where
  | copy (f t : Nat) (outs : List Expr) (n : Nat)
  | inplace (f t : Nat) (outs : List Expr) (n : Nat)
  | static (f t : Nat) (outs : List Expr) (n : Nat)
  | kernelTo (u : Nat) (o : Expr)
  | kernelFrom (u : Nat) (o : Expr)
  | bad

def Entry.unitShape (e : Entry) : UnitShape :=
  match e.kind, e.enumArgs, e.numOuts, e.argSizes with
  | .convertCopy, [(_, f), (_, t)], some outs, n :: _ => .copy f t outs n
  | .convertInplace, [(_, f), (_, t)], some outs, n :: _ => .inplace f t outs n
  | .convertStatic, [(_, f), (_, t)], some outs, n :: _ => .static f t outs n
  | .mapKernelTo, [(_, u)], some [o], _ => .kernelTo u o
  | .mapKernelFrom, [(_, u)], some [o], _ => .kernelFrom u o
  | .staticKernelTo, [(_, u)], some [o], _ => .kernelTo u o
  | .staticKernelFrom, [(_, u)], some [o], _ => .kernelFrom u o
  | _, _, _, _ => .bad

/-- C02 for the entry points of Unit.hpp (one unit type, kernel table `k`). -/
def checkUnitEntry (k : UnitKernels) (e : Entry) : Bool :=
  match e.unitShape with
  | .copy f t outs n =>
    outs.length == 2 * n && outsAreConv (convExpr k f t) e.fm (outs.take n) 0 &&
      allIdx (outs.drop n) (fun i ex => isVar i ex)
  | .inplace f t outs n => outs.length == n && outsAreConv (convExpr k f t) e.fm outs 0
  | .static f t outs n =>
    outs.length == 2 * n && outsAreConv (convStaticExpr k f t) e.fm (outs.take n) 0 &&
      allIdx (outs.drop n) (fun i ex => isVar i ex)
  | .kernelTo u o => k.toStd[u]? == some o
  | .kernelFrom u o => k.fromStd[u]? == some o
  | .bad => false

/-- The scalar `Convert` over all ordered pairs (compact rows: from, to, result, argument after). -/
def checkConvertPair (k : UnitKernels) (fm : Fm) (row : Nat × Nat × Expr × Expr) : Bool :=
  convExpr k row.1 row.2.1 (.var 0 fm) == some row.2.2.1 && isVar 0 row.2.2.2

/-- The numeric parts of a traced string, in order. -/
def strNums : List StrPart → List Expr
  | [] => []
  | .num e :: r => e :: strNums r
  | .text _ :: r => strNums r

def Entry.strOut (e : Entry) : Option (List StrPart) :=
  match e.tree with
  | .leaf [.str parts] => some parts
  | _ => none

/-- The shape of a per-class entry point that takes a unit: which scalar conversion (`frm → to`,
run-time or compile-time form) must have been applied to which list of numbers. -/
inductive ClassUnitShape where
  | noUnit
  | conv (runtime : Bool) (frm to : Nat) (k : UnitKernels) (nums : List Expr) (comps : Nat)
  | bad

def Entry.classUnitShape (classes : List ClassInfo) (kof : Nat → Option UnitKernels) (e : Entry) :
    ClassUnitShape :=
  match e.enumArgs with
  | [] => .noUnit
  | [(t, u)] =>
    (match kof t, classes[e.cls - 1]? with
     | some k, some ci =>
       if ci.unitEnum == t && e.cls != 0 then
         (match e.mem, e.kind, e.numOuts, e.strOut with
          | .print, _, _, some parts => .conv true k.standard u k (strNums parts) ci.comps
          | .json, _, _, some parts => .conv true k.standard u k (strNums parts) ci.comps
          | .xml, _, _, some parts => .conv true k.standard u k (strNums parts) ci.comps
          | .yaml, _, _, some parts => .conv true k.standard u k (strNums parts) ci.comps
          | .valueUnit, _, some outs, _ => .conv true k.standard u k outs ci.comps
          | .staticValue, _, some outs, _ => .conv false k.standard u k outs ci.comps
          | .create, _, some outs, _ => .conv false u k.standard k outs ci.comps
          | .other, .ctor, some outs, _ => .conv true u k.standard k outs ci.comps
          | _, _, _, _ => .bad)
       else .bad
     | _, _ => .bad)
  | _ => .bad

/-- C02 for the per-class entry points that take a unit: construction in a unit, value in a unit
(run-time and compile-time), compile-time creation, and the string forms in a unit all apply the
scalar conversion of that unit to each component, in slot order. `kof` looks up the kernel table of
the class's unit type. -/
def checkClassUnit (classes : List ClassInfo) (kof : Nat → Option UnitKernels) (e : Entry) : Bool :=
  match e.classUnitShape classes kof with
  | .noUnit => true
  | .conv rt f t k nums n =>
    nums.length == n &&
      outsAreConv (if rt then convExpr k f t else convStaticExpr k f t) e.fm nums 0
  | .bad => false

/-! ### The same formula in every format -/

namespace Expr
/-- The expression with every format tag replaced by binary64 and every format conversion removed:
what is left is the formula. Two traces with equal skeletons compute the same real function. -/
def skeleton : Expr → Expr
  | var i _ => var i .f64
  | lit _ s m e => lit .f64 s m e
  | pi _ m e => pi .f64 m e
  | un op _ a => un op .f64 (skeleton a)
  | bin op _ a b => bin op .f64 (skeleton a) (skeleton b)
  | powi _ n a => powi .f64 n (skeleton a)
  | cast _ a => skeleton a
  | uninit _ => uninit .f64
end Expr

def Out.skeleton : Out → Out
  | .num e => .num e.skeleton
  | .str parts => .str (parts.map fun p => match p with | .num e => .num e.skeleton | t => t)
  | o => o

def DTree.skeleton : DTree → DTree
  | .leaf outs => .leaf (outs.map Out.skeleton)
  | .node op a b y n => .node op a.skeleton b.skeleton (skeleton y) (skeleton n)
  | .unexplored => .unexplored

/-- The `float` and `long double` instantiations of an entry compute the same formula as the
`double` one (they differ only in format tags and format conversions). -/
def sameFormula (t : Entry × Entry × Entry) : Bool :=
  t.1.tree.skeleton.beq t.2.1.tree.skeleton && t.2.2.tree.skeleton.beq t.2.1.tree.skeleton

/-- No entry point reads a default-initialised (indeterminate) number. -/
def checkNoUninit (e : Entry) : Bool := !e.tree.readsUninit

/-! ### The positive fragment (few-ulps bounds) -/

/-- Is the literal `m·2^e` exactly representable in format `f` (its rounding is itself)? -/
def litExact (f : Fmt) (m : Nat) (e : Int) : Bool :=
  match Fl.roundE f false m e with
  | .fin false m' q' =>
    let d := min q' e
    m' * 2 ^ (q' - d).toNat == m * 2 ^ (e - d).toNat
  | _ => false

/-- If `e` is built from inputs, positive literals, `×`, `÷`, `+`, `√`, positive integer powers and
format conversions only, all computed with at least `pmin` bits of precision: the number `k` of
unit round-offs `2^-pmin` its computed value can be away from its exact value on positive inputs
(`Theory/RelErr.lean`: `posFrag_sound`). -/
def posFrag (pmin : Nat) : Expr → Option Nat
  | .var _ _ => some 0
  | .lit f s m e =>
    if !s && m != 0 then
      (if litExact f.fmt m e then some 0 else if pmin ≤ f.fmt.p then some 1 else none)
    else none
  | .pi f m _ => if m != 0 && decide (pmin ≤ f.fmt.p) then some 1 else none
  | .bin op f a b =>
    match posFrag pmin a, posFrag pmin b with
    | some ka, some kb =>
      if pmin ≤ f.fmt.p then
        (match op with
         | .mul | .div => some (ka + kb + 1)
         | .add => some (max ka kb + 1)
         | _ => none)
      else none
    | _, _ => none
  | .un .sqrt f a =>
    match posFrag pmin a with
    | some ka => if pmin ≤ f.fmt.p then some ((ka + 1) / 2 + 2) else none
    | none => none
  | .cast f a =>
    match posFrag pmin a with
    | some ka => if pmin ≤ f.fmt.p then some (ka + 1) else none
    | none => none
  | .powi f n a =>
    match posFrag pmin a with
    | some ka => if 0 < n ∧ pmin ≤ f.fmt.p then some (ka * n.toNat + 1) else none
    | none => none
  | _ => none

/-! ### No operation in a lower precision than the type -/

/-- The lowest precision (significand bits) at which any operation, conversion or input of the
expression is carried out. Literals do not count: a constant may be written in any precision (whether
it is accurate enough is C01's question). -/
def Expr.minP : Expr → Nat
  | .var _ f => f.fmt.p
  | .lit _ _ _ _ => 1000
  | .pi f _ _ => f.fmt.p
  | .un _ f a => min f.fmt.p (Expr.minP a)
  | .bin _ f a b => min f.fmt.p (min (Expr.minP a) (Expr.minP b))
  | .powi f _ a => min f.fmt.p (Expr.minP a)
  | .cast f a => min f.fmt.p (Expr.minP a)
  | .uninit _ => 1000

/-- Every expression of a decision tree: outputs and both sides of every comparison. -/
def DTree.exprs : DTree → List Expr
  | .leaf outs => outs.flatMap fun o => match o with
      | .num e => [e]
      | .str parts => parts.filterMap fun p => match p with | .num e => some e | _ => none
      | _ => []
  | .node _ a b y n => a :: b :: (DTree.exprs y ++ DTree.exprs n)
  | .unexplored => []

/-- The precision an entry is entitled to: that of its numeric type, or the lower of the two for an
entry that mixes two numeric types (converting members, model functions taking another type). -/
def Entry.needP (e : Entry) : Nat :=
  match e.ufm with
  | some u => min e.fm.fmt.p u.fmt.p
  | none => e.fm.fmt.p

/-- No operation of the entry is carried out in a lower precision than its numeric type(s): a stray
`float` temporary, a `static_cast<float>`, a `cbrtf` in `double` code would all show here, though the
formula over the reals is unchanged. -/
def checkNoNarrowing (e : Entry) : Bool :=
  e.tree.exprs.all fun ex => decide (e.needP ≤ ex.minP)

end PhQVerif
