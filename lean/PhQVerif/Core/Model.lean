/-
Core/Model.lean — the shape of what the translator emits about one traced entry point.
-/
import PhQVerif.Core.Expr

namespace PhQVerif

/-- Exponents of the seven base dimensions in the library's order T, L, M, I, Θ, N, J. -/
structure Dim where
  t : Int
  l : Int
  m : Int
  i : Int
  th : Int
  n : Int
  j : Int
deriving DecidableEq, Repr, Inhabited

namespace Dim
def zero : Dim := ⟨0, 0, 0, 0, 0, 0, 0⟩
def add (a b : Dim) : Dim := ⟨a.t + b.t, a.l + b.l, a.m + b.m, a.i + b.i, a.th + b.th, a.n + b.n, a.j + b.j⟩
def sub (a b : Dim) : Dim := ⟨a.t - b.t, a.l - b.l, a.m - b.m, a.i - b.i, a.th - b.th, a.n - b.n, a.j - b.j⟩
def smul (k : Int) (a : Dim) : Dim := ⟨k * a.t, k * a.l, k * a.m, k * a.i, k * a.th, k * a.n, k * a.j⟩
def allEven (a : Dim) : Bool :=
  a.t % 2 == 0 && a.l % 2 == 0 && a.m % 2 == 0 && a.i % 2 == 0 && a.th % 2 == 0 && a.n % 2 == 0 && a.j % 2 == 0
def half (a : Dim) : Dim := ⟨a.t / 2, a.l / 2, a.m / 2, a.i / 2, a.th / 2, a.n / 2, a.j / 2⟩
def ofList : List Int → Dim
  | [a, b, c, d, e, f, g] => ⟨a, b, c, d, e, f, g⟩
  | _ => zero
def toList (a : Dim) : List Int := [a.t, a.l, a.m, a.i, a.th, a.n, a.j]
end Dim

/-- Argument / result types of an entry point, as far as the checkers care. -/
inductive Ty where
  | num                      -- a bare number
  | q (cls : Nat)            -- a quantity class (index into the generated class table)
  | raw (n : Nat)            -- PlanarVector / Vector / SymmetricDyad / Dyad (2, 3, 6, 9 numbers)
  | arr (n : Nat)            -- std::array / std::vector of n numbers
  | enumv (en : Nat) (v : Nat)  -- an enumerator passed at run time or as a template argument
  | other                    -- bool, string, size_t, optional, model ...
deriving DecidableEq, Repr, Inhabited

inductive Kind where
  | ctor | method | static | free | mutator | mutableRef | castCtor | castAssign | hash | stream
  | stdmath | convertCopy | convertInplace | mapKernelTo | mapKernelFrom | staticKernelTo
  | staticKernelFrom | convertStatic
  | modelCtor | modelAccessor | modelVirtual | modelString | modelType | modelCompare | modelHash
  | modelStream
deriving DecidableEq, Repr, Inhabited

/-- The operator or member a traced entry point is, for checkers that dispatch on it. -/
inductive Opr where
  | add | sub | mul | div | addAssign | subAssign | mulAssign | divAssign
  | lt | gt | le | ge | eq | ne | assign | named
  | valueAccess            -- Value / SetValue / MutableValue: the stored SI value as a bare number
deriving DecidableEq, Repr, Inhabited

/-- Which named member an entry is (closed list; anything else is `other`). `comp k` is the typed
accessor of stored component `k` (`x`, `yz`, ... in declared order; the symmetric aliases `yx`, `zx`,
`zy` map to the stored slot). -/
inductive Mem where
  | other | zero | value | valueUnit | staticValue | mutableValue | setValue | create
  | print | json | xml | yaml | dimensions | unit
  | magnitude | magnitudeSquared | direction | angle | dot | cross | dyadic
  | trace | determinant | transpose | cofactors | adjugate | inverse | isSymmetric
  | comp (k : Nat) | setComp (k : Nat) | mutComp (k : Nat) | allComps | setAll | mutAll
deriving DecidableEq, Repr, Inhabited

/-- One traced entry point at one numeric format. -/
structure Entry where
  id : String
  kind : Kind
  opr : Opr
  mem : Mem
  cls : Nat                 -- class the entry belongs to (index into the class table; 0 = none)
  fm : Fm                   -- numeric format of the instantiation
  ufm : Option Fm           -- the other format, for mixed-format entries
  self : Bool               -- is the first argument the receiver?
  args : List Ty            -- receiver first when `self`
  argSizes : List Nat       -- inputs consumed by each argument, in order
  ret : Ty
  nIn : Nat
  tree : DTree              -- merged decision tree; each leaf lists the output slots in order
deriving Repr, Inhabited

/-- The enumerator arguments of an entry (unit type index, enumerator value), in order. -/
def Entry.enumArgs (e : Entry) : List (Nat × Nat) :=
  e.args.filterMap fun t => match t with | .enumv en v => some (en, v) | _ => none

/-- The conversion kernels of one unit type in one format, indexed by enumerator value: the traced
bodies of `Conversion<U, u>::ToStandard` / `FromStandard` as expressions in the single input
`var 0`. -/
structure UnitKernels where
  standard : Nat
  toStd : List Expr
  fromStd : List Expr
deriving Repr, Inhabited

/-- A row of the generated class table. -/
structure ClassInfo where
  name : String
  comps : Nat               -- stored numbers: 1, 2, 3, 6, 9
  dims : Option Dim         -- `Q::Dimensions()`; `none` for the raw tensor types
  unitEnum : Nat            -- index of its unit type in the unit table (0 = dimensionless / none)
  dimensional : Bool
  isDirection : Bool        -- Direction / PlanarDirection: stored value is kept normalised
deriving Repr, Inhabited

end PhQVerif
