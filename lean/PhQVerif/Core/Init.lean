/-
Core/Init.lean — C19: a model of [basic.start.dynamic] (C++17), the rule that orders the dynamic
initialisation of namespace-scope variables, and the classification of the library's tables from the
way they are declared (facts read from clang's AST on every run).
-/
namespace PhQVerif.Init

/-- How a namespace-scope variable (template) is declared. -/
inductive DeclKind where
  | primary        -- the primary variable template: every variable it yields is an implicit instantiation
  | explicitSpec   -- `template <> … Name<Args>{…}`: an explicit (full) specialisation
  | partialSpec    -- `template <typename T> … Name<X, T>{…}`: variables come from implicit instantiation
  | plain          -- an ordinary variable
deriving DecidableEq, Repr, Inhabited

/-- One declaration of a library table. -/
structure TableDecl where
  name : String
  arg : String            -- first template argument (the enumeration), "" for a primary template
  decl : DeclKind
  isInline : Bool
  isConstexpr : Bool
  file : String
  line : Nat
deriving DecidableEq, Repr, Inhabited

/-- [basic.start.dynamic]/1, and [basic.start.static]: constant initialisation precedes all dynamic
initialisation. -/
inductive InitClass where
  | constant | ordered | partiallyOrdered | unordered
deriving DecidableEq, Repr, Inhabited

/-- "Dynamic initialization of a non-local variable with static storage duration is unordered if the
variable is an implicitly or explicitly instantiated specialization, is partially-ordered if the
variable is an inline variable that is not an implicitly or explicitly instantiated specialization,
and otherwise is ordered." A `constexpr` variable is constant-initialised. -/
def classify (d : TableDecl) : InitClass :=
  if d.isConstexpr then .constant
  else match d.decl with
    | .primary | .partialSpec => .unordered
    | .explicitSpec | .plain => if d.isInline then .partiallyOrdered else .ordered

/-- The library facilities that rely on a namespace-scope table. -/
inductive Facility where
  | abbreviation        -- PhQ::Abbreviation(e), operator<< of an enumeration, Print() of a quantity
  | parse               -- PhQ::ParseEnumeration<E>(text)
  | consistentUnit      -- PhQ::ConsistentUnit<U>(system)
  | relatedUnitSystem   -- PhQ::RelatedUnitSystem(unit)
  | standardUnit        -- PhQ::Standard<U>, PhQ::RelatedDimensions<U>
  | convert             -- Convert / ConvertInPlace; constructing from, or reading a value in, a non-standard unit
deriving DecidableEq, Repr, Inhabited

def Facility.all : List Facility :=
  [.abbreviation, .parse, .consistentUnit, .relatedUnitSystem, .standardUnit, .convert]

/-- The variable templates a facility reads (Base.hpp:86-104, UnitSystem.hpp:220-235, Unit.hpp:125-275). -/
def Facility.tables : Facility → List String
  | .abbreviation => ["Abbreviations"]
  | .parse => ["Spellings"]
  | .consistentUnit => ["ConsistentUnits"]
  | .relatedUnitSystem => ["RelatedUnitSystems"]
  | .standardUnit => ["Standard", "RelatedDimensions"]
  | .convert => ["Standard", "MapOfConversionsFromStandard", "MapOfConversionsToStandard"]

/-- The declaration that provides table `name` for enumeration `arg`: an explicit or partial
specialisation for that argument if there is one, otherwise the primary template. -/
def provider (decls : List TableDecl) (name arg : String) : Option TableDecl :=
  match decls.find? (fun d => d.name == name && d.arg == arg && d.decl != .primary) with
  | some d => some d
  | none => decls.find? (fun d => d.name == name && d.decl == .primary)

/-- Is the table initialised before every user object defined after the library's headers, whatever
the compiler: constant-initialised, or partially-ordered (an inline variable defined in the header,
hence before the user's object in every translation unit that defines that object)? -/
def readyClass : InitClass → Bool
  | .constant | .partiallyOrdered => true
  | .ordered | .unordered => false

def facilityReady (decls : List TableDecl) (f : Facility) (arg : String) : Bool :=
  f.tables.all fun t =>
    match provider decls t arg with
    | some d => readyClass (classify d) && d.decl != .primary
    | none => false

/-- The enumerations that have a table of the given name. -/
def argsOf (decls : List TableDecl) (name : String) : List String :=
  (decls.filter fun d => d.name == name && d.decl != .primary).map (·.arg)

end PhQVerif.Init
