/-
Core/Fl.lean — an executable, bit-exact model of IEEE-754 binary arithmetic with
round-to-nearest-even, gradual underflow and overflow to infinity, for the three formats PhQ is
instantiated at: binary32 (`float`), binary64 (`double`) and the x87 80-bit extended format
(`long double` on x86-64: 64 significand bits, 15 exponent bits).

Everything is computed with `Nat`/`Int` arithmetic only, so the kernel can evaluate it (`decide`)
and the correspondence driver can run it. No Mathlib.
-/
namespace PhQVerif

/-- A binary floating-point format: `p` significand bits (including the leading one) and the
largest exponent `emax` of the leading bit. The smallest normal exponent is `1 - emax`. -/
structure Fmt where
  p : Nat
  emax : Nat
deriving DecidableEq, Repr

def F32 : Fmt := ⟨24, 127⟩
def F64 : Fmt := ⟨53, 1023⟩
def F80 : Fmt := ⟨64, 16383⟩

/-- Exponent of the unit in the last place of subnormal numbers: `emin - (p - 1)`. -/
def Fmt.qmin (f : Fmt) : Int := 1 - (f.emax : Int) - ((f.p : Int) - 1)

/-- A floating-point datum. `fin s m e` denotes `(-1)^s · m · 2^e`. Values produced by `round` are
in the canonical form of their format: `m < 2^p`, `e ≥ qmin`, and `m < 2^(p-1) → e = qmin`. -/
inductive Fl where
  | fin (s : Bool) (m : Nat) (e : Int)
  | inf (s : Bool)
  | nan
deriving DecidableEq, Repr, Inhabited

namespace Fl

/-- `⌊log₂ (n/d)⌋` for positive `n`, `d`. -/
def ilog2Q (n d : Nat) : Int :=
  let k : Int := (n.log2 : Int) - (d.log2 : Int)
  if 0 ≤ k then (if d * 2 ^ k.toNat ≤ n then k else k - 1)
  else (if d ≤ n * 2 ^ (-k).toNat then k else k - 1)

/-- `N / D` rounded to the nearest integer, ties to even (`D > 0`). -/
def rneDiv (N D : Nat) : Nat :=
  let q := N / D
  let r := N % D
  if 2 * r < D then q
  else if D < 2 * r then q + 1
  else if q % 2 = 0 then q else q + 1

/-- The quantum exponent used to round the positive rational `n/d` in format `f`. -/
def quantum (f : Fmt) (n d : Nat) : Int :=
  max (ilog2Q n d - ((f.p : Int) - 1)) f.qmin

/-- The integer significand of `n/d` at quantum `q`, rounded half-even. -/
def sigAt (q : Int) (n d : Nat) : Nat :=
  if 0 ≤ q then rneDiv n (d * 2 ^ q.toNat) else rneDiv (n * 2 ^ (-q).toNat) d

/-- Round the non-zero rational `(-1)^s · n/d` (`n, d > 0`) to format `f`. -/
def roundPos (f : Fmt) (s : Bool) (n d : Nat) : Fl :=
  let q := quantum f n d
  let m := sigAt q n d
  let m' := if m = 2 ^ f.p then 2 ^ (f.p - 1) else m
  let q' := if m = 2 ^ f.p then q + 1 else q
  if (f.emax : Int) < q' + ((f.p : Int) - 1) then inf s else fin s m' q'

/-- Zero of format `f` with sign `s`. -/
def zero (f : Fmt) (s : Bool) : Fl := fin s 0 f.qmin

/-- Round the rational `(-1)^s · n/d` (`d > 0`) to format `f`; an exact zero keeps the sign `s`. -/
def round (f : Fmt) (s : Bool) (n d : Nat) : Fl :=
  if n = 0 then zero f s else roundPos f s n d

/-- Round `(-1)^s · n · 2^e`. -/
def roundE (f : Fmt) (s : Bool) (n : Nat) (e : Int) : Fl :=
  if 0 ≤ e then round f s (n * 2 ^ e.toNat) 1 else round f s n (2 ^ (-e).toNat)

def isNaN : Fl → Bool
  | nan => true
  | _ => false

def isZero : Fl → Bool
  | fin _ m _ => m == 0
  | _ => false

def isFinite : Fl → Bool
  | fin _ _ _ => true
  | _ => false

def sign : Fl → Bool
  | fin s _ _ => s
  | inf s => s
  | nan => false

def neg : Fl → Fl
  | fin s m e => fin (!s) m e
  | inf s => inf (!s)
  | nan => nan

def abs : Fl → Fl
  | fin _ m e => fin false m e
  | inf _ => inf false
  | nan => nan

/-- Signed integer `±m · 2^(e - e0)` for `e0 ≤ e`. -/
def scaled (s : Bool) (m : Nat) (e e0 : Int) : Int :=
  let v : Int := (m * 2 ^ (e - e0).toNat : Nat)
  if s then -v else v

def add (f : Fmt) : Fl → Fl → Fl
  | nan, _ => nan
  | _, nan => nan
  | inf s, inf t => if s = t then inf s else nan
  | inf s, fin _ _ _ => inf s
  | fin _ _ _, inf t => inf t
  | fin s1 m1 e1, fin s2 m2 e2 =>
    let e0 := min e1 e2
    let c := scaled s1 m1 e1 e0 + scaled s2 m2 e2 e0
    if c = 0 then zero f (s1 && s2) else roundE f (decide (c < 0)) c.natAbs e0

def sub (f : Fmt) (a b : Fl) : Fl := add f a (neg b)

def mul (f : Fmt) : Fl → Fl → Fl
  | nan, _ => nan
  | _, nan => nan
  | inf s, inf t => inf (s != t)
  | inf s, fin t m _ => if m = 0 then nan else inf (s != t)
  | fin s m _, inf t => if m = 0 then nan else inf (s != t)
  | fin s1 m1 e1, fin s2 m2 e2 => roundE f (s1 != s2) (m1 * m2) (e1 + e2)

def div (f : Fmt) : Fl → Fl → Fl
  | nan, _ => nan
  | _, nan => nan
  | inf _, inf _ => nan
  | inf s, fin t _ _ => inf (s != t)
  | fin s _ _, inf t => zero f (s != t)
  | fin s1 m1 e1, fin s2 m2 e2 =>
    if m2 = 0 then (if m1 = 0 then nan else inf (s1 != s2))
    else
      let k := e1 - e2
      if 0 ≤ k then round f (s1 != s2) (m1 * 2 ^ k.toNat) m2
      else round f (s1 != s2) m1 (m2 * 2 ^ (-k).toNat)

/-- Correctly rounded square root. The radicand is scaled to an integer `M = m·2^(e-2t)` with at
least `2p+4` bits, its integer square root `r` taken, and, when `r² ≠ M`, the value `r + ½` (which
lies strictly between the same two candidates as `√M`, and is not a tie, because `r` has at least
`p + 2` bits) is rounded instead. -/
def sqrt (f : Fmt) : Fl → Fl
  | nan => nan
  | inf s => if s then nan else inf false
  | fin s m e =>
    if m = 0 then fin s 0 f.qmin
    else if s then nan
    else
      -- choose k ≥ 0 with (e - k) even and m·2^k ≥ 2^(2p+4)
      let need := 2 * f.p + 4
      let k0 := need - m.log2
      let k : Nat := if (e - (k0 : Int)) % 2 = 0 then k0 else k0 + 1
      let M := m * 2 ^ k
      let r := M.sqrt
      let h := (e - (k : Int)) / 2
      if r * r = M then roundE f false r h
      else roundE f false (2 * r + 1) (h - 1)

def cast (f : Fmt) : Fl → Fl
  | nan => nan
  | inf s => inf s
  | fin s m e => roundE f s m e

/-- `x^n` for a literal integer exponent, rounded once (the model of `std::pow(x, n)`). -/
def powi (f : Fmt) (x : Fl) (n : Int) : Fl :=
  match x with
  | nan => if n = 0 then roundE f false 1 0 else nan
  | inf s =>
    if n = 0 then roundE f false 1 0
    else if 0 < n then inf (s && n % 2 = 1) else zero f (s && n % 2 = 1)
  | fin s m e =>
    if n = 0 then roundE f false 1 0
    else
      let k := n.natAbs
      let sg := s && k % 2 = 1
      if 0 < n then roundE f sg (m ^ k) (e * k)
      else if m = 0 then inf sg
      else
        -- 1 / (m^k · 2^(e·k))
        let ek : Int := e * k
        if 0 ≤ ek then round f sg 1 (m ^ k * 2 ^ ek.toNat)
        else round f sg (2 ^ (-ek).toNat) (m ^ k)

def ofInt (f : Fmt) (i : Int) : Fl := roundE f (decide (i < 0)) i.natAbs 0

/-- IEEE comparison: `none` when unordered (a NaN is involved). -/
def cmp : Fl → Fl → Option Ordering
  | nan, _ => none
  | _, nan => none
  | inf s, inf t => some (if s = t then .eq else if s then .lt else .gt)
  | inf s, fin _ _ _ => some (if s then .lt else .gt)
  | fin _ _ _, inf t => some (if t then .gt else .lt)
  | fin s1 m1 e1, fin s2 m2 e2 =>
    let e0 := min e1 e2
    some (compare (scaled s1 m1 e1 e0) (scaled s2 m2 e2 e0))

def lt (a b : Fl) : Bool := cmp a b == some .lt
def gt (a b : Fl) : Bool := cmp a b == some .gt
def le (a b : Fl) : Bool := cmp a b == some .lt || cmp a b == some .eq
def ge (a b : Fl) : Bool := cmp a b == some .gt || cmp a b == some .eq
def feq (a b : Fl) : Bool := cmp a b == some .eq
def fne (a b : Fl) : Bool := !(feq a b)

/-- Strip trailing zero bits (executable helper for canonical text). -/
def oddPart (fuel : Nat) (m : Nat) (e : Int) : Nat × Int :=
  match fuel with
  | 0 => (m, e)
  | fuel + 1 => if m ≠ 0 ∧ m % 2 = 0 then oddPart fuel (m / 2) (e + 1) else (m, e)

/-- Canonical, format-independent text: `nan`, `inf`, `-inf`, or `[-]M E` with `M` odd (or `0 0`). -/
def toText : Fl → String
  | nan => "nan"
  | inf s => if s then "-inf" else "inf"
  | fin s m e =>
    if m = 0 then (if s then "-0 0" else "0 0")
    else
      let (m', e') := oddPart (m.log2 + 1) m e
      (if s then "-" else "") ++ toString m' ++ " " ++ toString e'

end Fl
end PhQVerif
