/-
Core/Angle.lean — the C11 checkers: the arc cosine is only ever applied to `±1` or to a value that
the path condition has clamped into `[-1, 1]`; symmetric in its arguments up to commutativity of the
floating-point `×`.
-/
import PhQVerif.Core.Check

namespace PhQVerif

def isLitOne (neg : Bool) : Expr → Bool
  | .lit _ s 1 0 => s == neg
  | _ => false

/-- Walk an angle kernel's decision tree. `lo`/`hi` collect the expressions `t` for which the path
has established `¬ (t < -1)` resp. `¬ (1 < t)`. Every leaf must be `acos` of `+1`, `-1`, or of a `t`
in both lists. -/
def angleTreeOk : DTree → List Expr → List Expr → Bool
  | .leaf [.num (.un .acos _ arg)], lo, hi =>
    isLitOne false arg || isLitOne true arg || (lo.contains arg && hi.contains arg)
  | .leaf _, _, _ => false
  | .unexplored, _, _ => false
  | .node .lt a b y n, lo, hi =>
    if isLitOne true b then
      -- `a < -1`: on the "no" branch `¬ (a < -1)` holds
      angleTreeOk y lo hi && angleTreeOk n (a :: lo) hi
    else if isLitOne false a then
      -- `1 < b`
      angleTreeOk y lo hi && angleTreeOk n lo (b :: hi)
    else false
  | .node _ _ _ _ _, _, _ => false

def checkAngle (e : Entry) : Bool := angleTreeOk e.tree [] []

/-- A leaf that returns `acos` of the literal `-1` (`neg`) or `+1`. -/
def isAcosLit (neg : Bool) : DTree → Bool
  | .leaf [.num (.un .acos _ arg)] => isLitOne neg arg
  | _ => false

/-- Every path of the kernel returns `acos` of the one expression `c`, or of the bound `c` has just
been found to lie beyond: below `-1` it returns `acos(-1)`, above `1` it returns `acos(1)`. Over the
reals, where `arccos` is constant beyond `±1`, such a kernel *is* `arccos c`. -/
def angleTreeExact (c : Expr) : DTree → Bool
  | .leaf [.num (.un .acos _ arg)] => arg == c
  | .leaf _ => false
  | .unexplored => false
  | .node .lt a b y n =>
    if isLitOne true b && a == c then isAcosLit true y && angleTreeExact c n
    else if isLitOne false a && b == c then isAcosLit false y && angleTreeExact c n
    else false
  | .node _ _ _ _ _ => false

/-- The expression an angle kernel clamps: the operand of its first comparison with `±1`. -/
def DTree.angleCos : DTree → Option Expr
  | .node .lt a b _ _ => if isLitOne true b then some a else if isLitOne false a then some b else none
  | .leaf [.num (.un .acos _ arg)] => some arg
  | _ => none

def checkAngleExact (e : Entry) : Bool :=
  match e.tree.angleCos with
  | some c => angleTreeExact c e.tree
  | none => false

def unCode : UnOp → Nat
  | .neg => 0 | .sqrt => 1 | .abs => 2 | .acos => 3 | .cbrt => 4 | .exp => 5 | .log => 6 | .log2 => 7
  | .log10 => 8

def binCode : BinOp → Nat
  | .add => 0 | .sub => 1 | .mul => 2 | .div => 3 | .pow => 4

/-- A serialisation used only to pick a canonical order of the operands of commutative operations. -/
def Expr.key : Expr → List Nat
  | .var i f => [0, i, f.bits]
  | .lit f s m e => [1, f.bits, if s then 1 else 0, m, e.toNat, (-e).toNat]
  | .pi f m e => [2, f.bits, m, e.toNat, (-e).toNat]
  | .un op f a => 3 :: unCode op :: f.bits :: key a
  | .bin op f a b => 4 :: binCode op :: f.bits :: (key a).length :: (key a ++ key b)
  | .powi f n a => 5 :: f.bits :: n.toNat :: (-n).toNat :: key a
  | .cast f a => 6 :: f.bits :: key a
  | .uninit f => [7, f.bits]

def keyLe : List Nat → List Nat → Bool
  | [], _ => true
  | _ :: _, [] => false
  | a :: u, b :: v => if a < b then true else if b < a then false else keyLe u v

/-- Put the operands of every floating-point multiplication in a canonical order. -/
def Expr.commNorm : Expr → Expr
  | .un op f a => .un op f (commNorm a)
  | .bin .mul f a b =>
    let a' := commNorm a
    let b' := commNorm b
    if keyLe a'.key b'.key then .bin .mul f a' b' else .bin .mul f b' a'
  | .bin op f a b => .bin op f (commNorm a) (commNorm b)
  | .powi f n a => .powi f n (commNorm a)
  | .cast f a => .cast f (commNorm a)
  | e => e

def Out.commNorm : Out → Out
  | .num e => .num e.commNorm
  | o => o

def DTree.commNorm : DTree → DTree
  | .leaf outs => .leaf (outs.map Out.commNorm)
  | .node op a b y n => .node op a.commNorm b.commNorm (commNorm y) (commNorm n)
  | .unexplored => .unexplored

def Out.renameVars (r : Nat → Nat) : Out → Out
  | .num e => .num (e.renameVars r)
  | o => o

def DTree.renameVars (r : Nat → Nat) : DTree → DTree
  | .leaf outs => .leaf (outs.map (Out.renameVars r))
  | .node op a b y n => .node op (a.renameVars r) (b.renameVars r) (renameVars r y) (renameVars r n)
  | .unexplored => .unexplored

/-- Symmetry: exchanging the two `n`-component arguments gives the same tree, up to the order of
the factors of each floating-point product (which is immaterial: `Fl.mul_comm`). -/
def checkAngleSymmetric (e : Entry) : Bool :=
  match e.argSizes with
  | [n, m] => n == m &&
    (e.tree.renameVars (fun i => if i < n then n + i else i - n)).commNorm.beq e.tree.commNorm
  | _ => false

end PhQVerif
