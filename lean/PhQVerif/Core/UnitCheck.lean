/-
Core/UnitCheck.lean — checkers for the enumeration tables and conversion constants against the
unit-symbol oracle (C01, C06, C07, C08).
-/
import PhQVerif.Core.Symbol
import PhQVerif.Core.Tables
import PhQVerif.Core.Check

namespace PhQVerif
open Symbol

def abbrOf (u : UnitType) (v : Nat) : Option (List Nat) := lookup v u.abbreviations

/-- The (unique) oracle magnitude of enumerator `v`'s abbreviation at the type's dimension set. -/
def magnitudeOf (u : UnitType) (v : Nat) : Option Meaning :=
  match abbrOf u v with
  | none => none
  | some a =>
    match readings u.dims a with
    | [] => none
    | m :: rest => if rest.all (sameMagnitude m) then some m else none

/-! ### C06 -/

/-- Every unit's abbreviation has a reading whose dimensions are the type's declared set. -/
def checkUnitDims (u : UnitType) : Bool :=
  u.values.all fun v => (magnitudeOf u v).isSome

/-- A dimensional quantity class declares exactly its unit type's set; a dimensionless one, zero. -/
def checkClassDims (units : List UnitType) (c : ClassInfo) : Bool :=
  match c.dims with
  | none => true
  | some d =>
    if c.dimensional then
      (match units[c.unitEnum - 1]? with
       | some u => c.unitEnum != 0 && u.dims == d
       | none => false)
    else d == Dim.zero

/-! ### C08 -/

def sameSet (a b : List Nat) : Bool := a.all b.contains && b.all a.contains && a.length == b.length

def pairwiseDistinct : List (List Nat) → Bool
  | [] => true
  | x :: r => !r.contains x && pairwiseDistinct r

/-- Totality and uniqueness of one enumeration's tables. `isUnit`: also the two dispatch tables in
all three formats. -/
def checkEnumTables (isUnit : Bool) (u : UnitType) : Bool :=
  u.declared.length == u.values.length &&
  sameSet (u.abbreviations.map (·.1)) u.values &&
  pairwiseDistinct (u.abbreviations.map (·.2)) &&
  (u.abbreviations.all fun a => lookup a.2 u.spellings == some a.1) &&
  (u.spellings.all fun s => u.values.contains s.2) &&
  u.spellingsSize == u.spellings.length &&
  (!isUnit ||
    (sameSet u.mapTo32 u.values && sameSet u.mapFrom32 u.values &&
     sameSet u.mapTo64 u.values && sameSet u.mapFrom64 u.values &&
     sameSet u.mapTo80 u.values && sameSet u.mapFrom80 u.values && u.values.contains u.standard))

/-- Every accepted spelling has a reading with the magnitude and dimensions of the enumerator it
maps to. -/
def checkSpellings (u : UnitType) : Bool :=
  u.spellings.all fun s =>
    match magnitudeOf u s.2 with
    | none => false
    | some m => (readings u.dims s.1).any (sameMagnitude m)

/-! ### C07 -/

/-- Unit type indices (1-based) of the base quantities, in dimension order T L M I Θ N J; `0` when
the library has no unit type for it (luminous intensity). -/
structure BaseTypes where
  time : Nat
  length : Nat
  mass : Nat
  current : Nat
  temperature : Nat
  amount : Nat

def consistentUnit (u : UnitType) (sys : Nat) : Option Nat := lookup sys u.consistent

def baseMagnitude (units : List UnitType) (t sys : Nat) : Option Meaning :=
  match units[t - 1]? with
  | none => none
  | some u => if t = 0 then none else
    match consistentUnit u sys with
    | none => none
    | some v => magnitudeOf u v

/-- `∏ base_s(j) ^ d_j` for the system `sys`. -/
def coherentMagnitude (units : List UnitType) (b : BaseTypes) (sys : Nat) (d : Dim) : Option Meaning :=
  match baseMagnitude units b.time sys, baseMagnitude units b.length sys, baseMagnitude units b.mass sys,
        baseMagnitude units b.current sys, baseMagnitude units b.temperature sys,
        baseMagnitude units b.amount sys with
  | some t, some l, some m, some i, some th, some n =>
    some (mulM (mulM (mulM (mulM (mulM (powM t d.t) (powM l d.l)) (powM m d.m)) (powM i d.i)) (powM th d.th))
      (powM n d.n))
  | _, _, _, _, _, _ => none

/-- Same SI magnitude, ignoring which of the dimensionless "dimensions" (angle, …) were used. -/
def sameFactor (a b : Meaning) : Bool := a.num * b.den == b.num * a.den && a.k == b.k

/-- C07 for one unit type: totality on the systems, coherence, standard system, reverse lookup. -/
def checkUnitSystem (units : List UnitType) (b : BaseTypes) (systems : List Nat) (stdSys : Nat)
    (u : UnitType) : Bool :=
  -- (e) total
  (systems.all fun s => (consistentUnit u s).isSome) &&
  u.consistent.length == systems.length &&
  -- (a) coherent: only for types whose dimension set has no luminous intensity
  (u.dims.j != 0 || systems.all fun s =>
    match consistentUnit u s, coherentMagnitude units b s u.dims with
    | some v, some want => (match magnitudeOf u v with | some m => sameFactor m want | none => false)
    | _, _ => false) &&
  -- (c) the standard system's consistent unit is the standard unit
  consistentUnit u stdSys == some u.standard &&
  -- (d) related(u) = s iff u is the consistent unit of s and of no other system
  (u.values.all fun v =>
    let owners := systems.filter fun s => consistentUnit u s == some v
    match lookup v u.related with
    | some s => owners == [s]
    | none => owners.length != 1)

/-! ### C01 -/

/-- Exact value `(num, den)` of a finite positive float. -/
def flPosRat : Fl → Option (Nat × Nat)
  | .fin false m e => if m = 0 then none else
      if 0 ≤ e then some (m * 2 ^ e.toNat, 1) else some (m, 2 ^ (-e).toNat)
  | _ => none

/-- Rational enclosure of π (20 decimals; `Real.pi_gt_d20`, `Real.pi_lt_d20`). -/
def piLo : Nat × Nat := (314159265358979323846, 100000000000000000000)
def piHi : Nat × Nat := (314159265358979323847, 100000000000000000000)

/-- Enclosure `[lo, hi]` of `num/den · π^k` as two rationals. -/
def enclose (m : Meaning) : (Nat × Nat) × (Nat × Nat) :=
  if 0 ≤ m.k then
    ((m.num * piLo.1 ^ m.k.toNat, m.den * piLo.2 ^ m.k.toNat),
     (m.num * piHi.1 ^ m.k.toNat, m.den * piHi.2 ^ m.k.toNat))
  else
    ((m.num * piHi.2 ^ (-m.k).toNat, m.den * piHi.1 ^ (-m.k).toNat),
     (m.num * piLo.2 ^ (-m.k).toNat, m.den * piLo.1 ^ (-m.k).toNat))

/-- `K` within relative `ek · 2^-p` of the enclosure: `lo·(1 − E) ≤ K ≤ hi·(1 + E)`, `E = ek/2^p`. -/
def within (K : Nat × Nat) (lo hi : Nat × Nat) (ek p : Nat) : Bool :=
  K.2 != 0 && lo.2 != 0 && hi.2 != 0 && decide (ek ≤ 2 ^ p) &&
  -- lo.1/lo.2 · (2^p − ek)/2^p ≤ K.1/K.2
  lo.1 * (2 ^ p - ek) * K.2 ≤ K.1 * lo.2 * 2 ^ p &&
  K.1 * hi.2 * 2 ^ p ≤ hi.1 * (2 ^ p + ek) * K.2

def invRat (r : Nat × Nat) : Nat × Nat := (r.2, r.1)

/-- The conversion factor a kernel applies: `x ↦ x·K` (`some (K, false)`), `x ↦ x/K`
(`some (K, true)`), or the identity (`none` with `isId`). -/
inductive KernelShape where
  | identity
  | scale (K : Expr) (divides : Bool)
  | other
deriving Repr

def kernelShape : Expr → KernelShape
  | .var 0 _ => .identity
  | .bin .mul _ (.var 0 _) K => if K.closed && !K.hasLibm then .scale K false else .other
  | .bin .div _ (.var 0 _) K => if K.closed && !K.hasLibm then .scale K true else .other
  -- the factor was computed in a wider format (`std::pow(float, int)` is `double`): the product is
  -- formed in that format and narrowed once
  | .cast _ (.bin .mul _ (.cast _ (.var 0 _)) K) => if K.closed && !K.hasLibm then .scale K false else .other
  | .cast _ (.bin .div _ (.cast _ (.var 0 _)) K) => if K.closed && !K.hasLibm then .scale K true else .other
  | _ => .other

/-- Oracle ratio `A_u / A_std`. -/
def ratioM (a s : Meaning) : Meaning := ⟨a.num * s.den, a.den * s.num, a.k - s.k, Dim.sub a.d s.d⟩

/-- C01 for one kernel: `toStd` must scale by `A_u/A_std`, `fromStd` by its reciprocal, to within
`ek · 2^-p`. -/
def checkKernel (fm : Fm) (ek : Nat) (want : Meaning) (toStandard : Bool) (ke : Expr) : Bool :=
  let (lo, hi) := enclose want
  let (lo', hi') := if toStandard then (lo, hi) else (invRat hi, invRat lo)
  match kernelShape ke with
  | .identity => within (1, 1) lo' hi' 0 fm.fmt.p
  | .scale K divides =>
    (match flPosRat (K.evalF Libm.none (fun _ => .nan)) with
     | some k => if divides then within k (invRat hi') (invRat lo') ek fm.fmt.p
                 else within k lo' hi' ek fm.fmt.p
     | none => false)
  | .other => false

/-- The zero offsets of the two affine temperature scales, in their own unit: 0 K = −273.15 °C,
0 K = −459.67 °F. Keyed by the abbreviation (`°C`, `°F`). -/
def affineOffset (abbr : List Nat) : Option (Nat × Nat) :=
  if abbr == [176, 67] then some (27315, 100)
  else if abbr == [176, 70] then some (45967, 100)
  else none

def closedPosRat (K : Expr) : Option (Nat × Nat) :=
  if K.closed && !K.hasLibm then flPosRat (K.evalF Libm.none (fun _ => .nan)) else none

def ratWithin (k : Option (Nat × Nat)) (want : Nat × Nat) (ek p : Nat) : Bool :=
  match k with
  | some k => within k want want ek p
  | none => false

/-- C01 for an affine kernel of scale `q` (kelvin per unit step) and zero offset `z` (in the unit):
`toStd x = q·(x + z)` written `x + z` (q = 1) or `(x + z) / k` (k = 1/q); `fromStd y = y/q − z`
written `y − z` or `k·y − z`. The constants must be within `ek · 2^-p` of `z` and `1/q`. -/
def checkAffineKernel (fm : Fm) (ek : Nat) (q : Meaning) (z : Nat × Nat) (toStandard : Bool) (ke : Expr) :
    Bool :=
  let invq : Nat × Nat := (q.den, q.num)
  let p := fm.fmt.p
  if toStandard then
    match ke with
    | .bin .add _ (.var 0 _) c => q.num == q.den && ratWithin (closedPosRat c) z ek p
    | .bin .div _ (.bin .add _ (.var 0 _) c) k =>
      ratWithin (closedPosRat c) z ek p && ratWithin (closedPosRat k) invq ek p
    | _ => false
  else
    match ke with
    | .bin .sub _ (.var 0 _) c => q.num == q.den && ratWithin (closedPosRat c) z ek p
    | .bin .sub _ (.bin .mul _ k (.var 0 _)) c =>
      ratWithin (closedPosRat c) z ek p && ratWithin (closedPosRat k) invq ek p
    | .bin .sub _ (.bin .mul _ (.var 0 _) k) c =>
      ratWithin (closedPosRat c) z ek p && ratWithin (closedPosRat k) invq ek p
    | _ => false

/-- C01 for one unit type in one format (all units whose kernels are pure scalings; `affine` lists the
enumerators of the temperature type handled separately). -/
def checkKernels (fm : Fm) (ek : Nat) (u : UnitType) (k : UnitKernels) : Bool :=
  k.standard == u.standard &&
  k.toStd.length == u.values.length && k.fromStd.length == u.values.length &&
  match magnitudeOf u u.standard with
  | none => false
  | some s =>
    let one (toStandard : Bool) (v : Nat) (ke : Expr) : Bool :=
      match magnitudeOf u v, abbrOf u v with
      | some a, some ab =>
        (match affineOffset ab with
         | some z => if u.name == "Unit::Temperature"
                     then checkAffineKernel fm ek (ratioM a s) z toStandard ke
                     else checkKernel fm ek (ratioM a s) toStandard ke
         | none => checkKernel fm ek (ratioM a s) toStandard ke)
      | _, _ => false
    allIdx k.toStd (one true) && allIdx k.fromStd (one false)

/-! ### C20: every unchecked table lookup hits -/

/-- For one unit type: every declared enumerator is a key of the abbreviation table
(`Abbreviation(e)`: `find(e)->second`, Base.hpp:90) and of both conversion dispatch tables in all
three numeric types (`find(unit)->second(...)`, Unit.hpp:132-138), and every unit system is a key of
the consistent-unit table (`ConsistentUnits<U>.at(system)`, UnitSystem.hpp:226). -/
def checkLookupsHit (systems : List Nat) (u : UnitType) : Bool :=
  u.values.all (fun v => (lookup v u.abbreviations).isSome) &&
  u.values.all (fun v => u.mapTo32.contains v && u.mapFrom32.contains v && u.mapTo64.contains v &&
    u.mapFrom64.contains v && u.mapTo80.contains v && u.mapFrom80.contains v) &&
  systems.all (fun s => (lookup s u.consistent).isSome) &&
  u.values.contains u.standard

/-- For the other enumerations (`UnitSystem`, `ConstitutiveModel::Type`): every enumerator has an
abbreviation. -/
def checkAbbreviationsHit (u : UnitType) : Bool :=
  u.values.all (fun v => (lookup v u.abbreviations).isSome)

end PhQVerif
