/-
Core/Serial.lean — C15, composite forms: the printed, JSON, XML and YAML forms of quantities, vectors
and tensors, as *templates* (literal text with numbered number slots), and the checker that compares
the string a traced entry builds with the template its class, form and unit call for.

The translator records a traced string as a list of `StrPart`s: literal text (code points) and
`num e` for each place where the code called `PhQ::Print(number)` with the traced expression `e`.
-/
import PhQVerif.Core.Tables

namespace PhQVerif.Serial

inductive Form where
  | print | json | xml | yaml
deriving DecidableEq, Repr, Inhabited

/-- A template: literal text or the `i`-th number. -/
inductive Piece where
  | t (s : String)
  | slot (i : Nat)
deriving DecidableEq, Repr, Inhabited

/-- Declared component names by number of stored components. -/
def compNames : Nat → List String
  | 2 => ["x", "y"]
  | 3 => ["x", "y", "z"]
  | 6 => ["xx", "xy", "xz", "yy", "yz", "zz"]
  | 9 => ["xx", "xy", "xz", "yx", "yy", "yz", "zx", "zy", "zz"]
  | _ => []

/-- Separator printed *before* component `i` of an `n`-component value in the `Print` form:
rows of a tensor are separated by `"; "`, entries by `", "`. -/
def printSep (n i : Nat) : String :=
  if i = 0 then "("
  else if (n = 6 ∧ (i = 3 ∨ i = 5)) ∨ (n = 9 ∧ (i = 3 ∨ i = 6)) then "; "
  else ", "

/-- The value part of each form for `n` stored numbers, in declared order. -/
def inner (form : Form) (n : Nat) : List Piece :=
  if n = 1 then [.slot 0]
  else
    let names := compNames n
    match form with
    | .print =>
      (names.zipIdx.flatMap fun (_, i) => [Piece.t (printSep n i), .slot i]) ++ [.t ")"]
    | .json =>
      (names.zipIdx.flatMap fun (nm, i) =>
        [Piece.t ((if i = 0 then "{\"" else ",\"") ++ nm ++ "\":"), .slot i]) ++ [.t "}"]
    | .xml =>
      names.zipIdx.flatMap fun (nm, i) => [Piece.t ("<" ++ nm ++ ">"), .slot i, .t ("</" ++ nm ++ ">")]
    | .yaml =>
      (names.zipIdx.flatMap fun (nm, i) =>
        [Piece.t ((if i = 0 then "{" else ",") ++ nm ++ ":"), .slot i]) ++ [.t "}"]

/-- The whole form: the value part alone for dimensionless types, value and unit abbreviation for
dimensional ones. -/
def template (form : Form) (n : Nat) (abbr : Option String) : List Piece :=
  match abbr with
  | none => inner form n
  | some a =>
    match form with
    | .print => inner form n ++ [.t (" " ++ a)]
    | .json => [.t "{\"value\":"] ++ inner form n ++ [.t (",\"unit\":\"" ++ a ++ "\"}")]
    | .xml => [.t "<value>"] ++ inner form n ++ [.t ("</value><unit>" ++ a ++ "</unit>")]
    | .yaml => [.t "{value:"] ++ inner form n ++ [.t (",unit:\"" ++ a ++ "\"}")]

def cps (s : String) : List Nat := s.toList.map Char.toNat

/-- Fill a template's slots with expressions. -/
def instantiate (vals : List Expr) : List Piece → Option (List StrPart)
  | [] => some []
  | .t s :: r => (instantiate vals r).map (StrPart.text (cps s) :: ·)
  | .slot i :: r =>
    match vals[i]? with
    | some e => (instantiate vals r).map (StrPart.num e :: ·)
    | none => none

/-- Merge adjacent literal pieces and drop empty ones: the canonical form of a traced string. -/
def norm : List StrPart → List StrPart
  | [] => []
  | .num e :: r => .num e :: norm r
  | .text a :: r =>
    match norm r with
    | .text b :: r' => .text (a ++ b) :: r'
    | r' => if a.isEmpty then r' else .text a :: r'

/-- The numbers a traced string prints, in order. -/
def nums : List StrPart → List Expr
  | [] => []
  | .num e :: r => e :: nums r
  | .text _ :: r => nums r

/-! ### A JSON validator (RFC 8259 grammar, no whitespace needed by the forms but allowed) -/

def isWs (c : Nat) : Bool := c == 32 || c == 9 || c == 10 || c == 13
def isDigit (c : Nat) : Bool := 48 ≤ c && c ≤ 57

def skipWs : List Nat → List Nat
  | c :: r => if isWs c then skipWs r else c :: r
  | [] => []

/-- Consume a JSON string body after the opening quote; returns the rest after the closing quote. -/
def jsonString : List Nat → Option (List Nat)
  | [] => none
  | 34 :: r => some r
  | 92 :: c :: r =>
    if c == 34 || c == 92 || c == 47 || c == 98 || c == 102 || c == 110 || c == 114 || c == 116 then jsonString r
    else none
  | c :: r => if c < 32 then none else jsonString r

def takeDigits : List Nat → List Nat × List Nat
  | c :: r => if isDigit c then let (d, r') := takeDigits r; (c :: d, r') else ([], c :: r)
  | [] => ([], [])

/-- Consume a JSON number. -/
def jsonNumber (s : List Nat) : Option (List Nat) :=
  let s := match s with | 45 :: r => r | r => r
  let (ip, r) := takeDigits s
  if ip.isEmpty then none
  else if ip.length > 1 && ip.head? == some 48 then none
  else
    let r := match r with
      | 46 :: r' => let (fp, r'') := takeDigits r'; if fp.isEmpty then [0] else r''
      | r' => r'
    if r == [0] then none
    else match r with
      | c :: r' =>
        if c == 101 || c == 69 then
          let r' := match r' with | 43 :: x => x | 45 :: x => x | x => x
          let (ep, r'') := takeDigits r'
          if ep.isEmpty then none else some r''
        else some r
      | [] => some []

def hasPrefix (p : List Nat) (s : List Nat) : Option (List Nat) :=
  if p.isPrefixOf s then some (s.drop p.length) else none

mutual
/-- Consume one JSON value (fuel bounds the nesting / length). -/
def jsonValue : Nat → List Nat → Option (List Nat)
  | 0, _ => none
  | fuel + 1, s =>
    match skipWs s with
    | 123 :: r =>
      (match skipWs r with
       | 125 :: r' => some r'
       | r' => jsonMembers fuel r')
    | 91 :: r =>
      (match skipWs r with
       | 93 :: r' => some r'
       | r' => jsonElements fuel r')
    | 34 :: r => jsonString r
    | 116 :: r => hasPrefix [114, 117, 101] r
    | 102 :: r => hasPrefix [97, 108, 115, 101] r
    | 110 :: r => hasPrefix [117, 108, 108] r
    | r => jsonNumber r
def jsonMembers : Nat → List Nat → Option (List Nat)
  | 0, _ => none
  | fuel + 1, s =>
    match skipWs s with
    | 34 :: r =>
      (match jsonString r with
       | none => none
       | some r1 =>
         match skipWs r1 with
         | 58 :: r2 =>
           (match jsonValue fuel r2 with
            | none => none
            | some r3 =>
              match skipWs r3 with
              | 44 :: r4 => jsonMembers fuel r4
              | 125 :: r4 => some r4
              | _ => none)
         | _ => none)
    | _ => none
def jsonElements : Nat → List Nat → Option (List Nat)
  | 0, _ => none
  | fuel + 1, s =>
    match jsonValue fuel s with
    | none => none
    | some r =>
      match skipWs r with
      | 44 :: r' => jsonElements fuel r'
      | 93 :: r' => some r'
      | _ => none
end

/-- Is the text a single valid JSON value? -/
def jsonValid (s : List Nat) : Bool :=
  match jsonValue (s.length + 2) s with
  | some r => (skipWs r).isEmpty
  | none => false

/-- The text of a traced string with every number replaced by the given number text. -/
def renderWith (numText : List Nat) : List StrPart → List Nat
  | [] => []
  | .text a :: r => a ++ renderWith numText r
  | .num _ :: r => numText ++ renderWith numText r

/-! ### The checker -/

def formOf : Mem → Option Form
  | .print => some .print
  | .json => some .json
  | .xml => some .xml
  | .yaml => some .yaml
  | _ => none

def strOfCps (l : List Nat) : String := String.ofList (l.map Char.ofNat)

/-- The abbreviation a serialisation entry must print: that of its unit argument, or of the class's
standard unit when it has none; `none` for a dimensionless class. `none` on the outside = table miss. -/
def abbrOf (classes : List ClassInfo) (units : List UnitType) (e : Entry) : Option (Option String) :=
  match (if e.cls = 0 then none else classes[e.cls - 1]?) with
  | none => none
  | some c =>
    if c.unitEnum = 0 then some none
    else
      match units[c.unitEnum - 1]? with
      | none => none
      | some u =>
        let v := match e.enumArgs with
          | (_, v) :: _ => v
          | [] => u.standard
        (lookup v u.abbreviations).map fun a => some (strOfCps a)

/-- The outputs of a straight-line entry as expressions. -/
def numOutsOf (e : Entry) : Option (List Expr) :=
  match e.tree with
  | .leaf outs => outs.mapM fun o => match o with | .num x => some x | _ => none
  | _ => none

def strOutOf (e : Entry) : Option (List StrPart) :=
  match e.tree with
  | .leaf [.str parts] => some parts
  | _ => none

/-- `row = (serialisation entry, the Value entry with the same unit argument)`: the string is the
template of its form, component count and abbreviation, filled with the outputs of `Value` in
declared order; the JSON form is valid JSON once every number is replaced by number text. -/
def valuesOf (e : Entry) (comps : Nat) : Option Entry → Option (List Expr)
  | some v =>
    if e.cls == v.cls && e.fm == v.fm && e.enumArgs == v.enumArgs && e.nIn == v.nIn &&
        (v.mem == .value || v.mem == .valueUnit) then numOutsOf v else none
  | none => if e.nIn == comps then some ((List.range comps).map fun i => Expr.var i e.fm) else none

def checkSerial (classes : List ClassInfo) (units : List UnitType) (row : Entry × Option Entry) : Bool :=
  let (e, v) := row
  match formOf e.mem, strOutOf e, abbrOf classes units e, (if e.cls = 0 then none else classes[e.cls - 1]?) with
  | some form, some parts, some abbr, some c =>
    match valuesOf e c.comps v with
    | none => false
    | some vals =>
    vals.length == c.comps &&
    (match instantiate vals (template form c.comps abbr) with
     | some want => norm parts == norm want
     | none => false) &&
    (form != .json ||
      (jsonValid (renderWith (cps "-1.25e+07") parts) && jsonValid (renderWith (cps "0") parts)))
  | _, _, _, _ => false

/-- `row = (operator<< entry, the Print() entry)`: streaming writes exactly what `Print()` returns. -/
def checkStream (row : Entry × Option Entry) : Bool :=
  match row with
  | (s, some p) =>
    s.kind == .stream && p.mem == .print && s.cls == p.cls && s.fm == p.fm && p.enumArgs.isEmpty &&
    (match strOutOf s, strOutOf p with
     | some a, some b => norm a == norm b && s.nIn == p.nIn
     | _, _ => false)
  | (_, none) => false

end PhQVerif.Serial
