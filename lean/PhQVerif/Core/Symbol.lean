/-
Core/Symbol.lean — the unit-symbol oracle: a tokenizer and grammar for unit symbols over code-point
lists, giving every symbol its set of readings `(magnitude, dimensions)` from the atom table.

  expr   := ['/'] term { ('·' | '*' | juxtaposition) term | '/' term }        (left associative)
  term   := atom [digits] [exponent] | '(' expr ')' [exponent] | '1'
  exponent := '^' int | '^' '(' int ')'

Juxtaposition (a space between two atoms) is a product; a trailing run of digits on an atom is an
exponent (`m2`, `s3`); a leading `/` is a reciprocal (`/K`).
-/
import PhQVerif.Core.Atoms

namespace PhQVerif.Symbol

inductive Tok where
  | dot | slash | lpar | rpar | caret
  | int (neg : Bool) (n : Nat)
  | word (cps : List Nat)
deriving DecidableEq, Repr, Inhabited

def isDigit (c : Nat) : Bool := 48 ≤ c && c ≤ 57
/-- operator characters: `·` (U+00B7) `*` `/` `(` `)` `^` -/
def isOp (c : Nat) : Bool := c == 183 || c == 42 || c == 47 || c == 40 || c == 41 || c == 94

def digitsVal (ds : List Nat) : Nat := ds.foldl (fun a c => 10 * a + (c - 48)) 0

/-- Split a word into its stem and trailing digits: `m2 ↦ (m, some 2)`. -/
def splitTrailingDigits (w : List Nat) : List Nat × Option Nat :=
  let ds := (w.reverse.takeWhile isDigit).reverse
  let stem := w.take (w.length - ds.length)
  if ds.isEmpty || stem.isEmpty then (w, none) else (stem, some (digitsVal ds))

/-- Tokenizer. `fuel` bounds the recursion (the input length suffices). -/
def tokenize : Nat → List Nat → List Tok → List Tok
  | 0, _, acc => acc.reverse
  | _, [], acc => acc.reverse
  | fuel + 1, c :: rest, acc =>
    if c == 32 then tokenize fuel rest acc
    else if c == 183 || c == 42 then tokenize fuel rest (.dot :: acc)
    else if c == 47 then tokenize fuel rest (.slash :: acc)
    else if c == 40 then tokenize fuel rest (.lpar :: acc)
    else if c == 41 then tokenize fuel rest (.rpar :: acc)
    else if c == 94 then tokenize fuel rest (.caret :: acc)
    else
      let afterOp := match acc with
        | [] => true
        | .word _ :: _ => false
        | .int _ _ :: _ => false
        | .rpar :: _ => false
        | _ => true
      let afterCaretOrPar := match acc with
        | .caret :: _ => true
        | .lpar :: _ => true
        | _ => false
      if c == 45 && afterCaretOrPar then
        let ds := rest.takeWhile isDigit
        tokenize fuel (rest.drop ds.length) (.int true (digitsVal ds) :: acc)
      else if isDigit c && afterOp then
        let ds := (c :: rest).takeWhile isDigit
        tokenize fuel ((c :: rest).drop ds.length) (.int false (digitsVal ds) :: acc)
      else
        let w := (c :: rest).takeWhile (fun x => !isOp x && x != 32)
        tokenize fuel ((c :: rest).drop w.length) (.word w :: acc)

def lookupAtom (w : List Nat) : Option (List Meaning) :=
  (atomTable.find? (fun p => p.1 == w)).map (·.2)

def mulM (a b : Meaning) : Meaning := ⟨a.num * b.num, a.den * b.den, a.k + b.k, Dim.add a.d b.d⟩
def powM (a : Meaning) (n : Int) : Meaning :=
  if 0 ≤ n then ⟨a.num ^ n.toNat, a.den ^ n.toNat, a.k * n, Dim.smul n a.d⟩
  else ⟨a.den ^ (-n).toNat, a.num ^ (-n).toNat, a.k * n, Dim.smul n a.d⟩
def one : Meaning := ⟨1, 1, 0, Dim.zero⟩

def mulS (a b : List Meaning) : List Meaning := a.flatMap fun x => b.map fun y => mulM x y
def powS (a : List Meaning) (n : Int) : List Meaning := a.map fun x => powM x n

/-- Optional exponent: `^ int` or `^ ( int )`. Returns the exponent and the remaining tokens. -/
def parseExp : List Tok → Int × List Tok
  | .caret :: .int neg n :: r => ((if neg then -(n : Int) else n), r)
  | .caret :: .lpar :: .int neg n :: .rpar :: r => ((if neg then -(n : Int) else n), r)
  | r => (1, r)

mutual
/-- term -/
def parseTerm : Nat → List Tok → Option (List Meaning × List Tok)
  | 0, _ => none
  | fuel + 1, .lpar :: r =>
    match parseExpr fuel r with
    | some (v, .rpar :: r') =>
      let (n, r'') := parseExp r'
      some (powS v n, r'')
    | _ => none
  | _ + 1, .int false 1 :: r => some ([one], r)
  | _ + 1, .word w :: r =>
    let (stem, dig) := match lookupAtom w with
      | some _ => (w, none)
      | none => splitTrailingDigits w
    match lookupAtom stem with
    | none => none
    | some ms =>
      let (n, r') := parseExp r
      some (powS ms ((dig.getD 1 : Nat) * n), r')
  | _ + 1, _ => none

/-- continuation of an expression after a first value -/
def parseRest : Nat → List Meaning → List Tok → Option (List Meaning × List Tok)
  | 0, _, _ => none
  | _ + 1, v, [] => some (v, [])
  | _ + 1, v, .rpar :: r => some (v, .rpar :: r)
  | fuel + 1, v, .dot :: r =>
    match parseTerm fuel r with
    | some (t, r') => parseRest fuel (mulS v t) r'
    | none => none
  | fuel + 1, v, .slash :: r =>
    match parseTerm fuel r with
    | some (t, r') => parseRest fuel (mulS v (powS t (-1))) r'
    | none => none
  | fuel + 1, v, r =>
    match parseTerm fuel r with
    | some (t, r') => parseRest fuel (mulS v t) r'
    | none => none

def parseExpr : Nat → List Tok → Option (List Meaning × List Tok)
  | 0, _ => none
  | fuel + 1, .slash :: r =>
    match parseTerm fuel r with
    | some (t, r') => parseRest fuel (powS t (-1)) r'
    | none => none
  | fuel + 1, r =>
    match parseTerm fuel r with
    | some (t, r') => parseRest fuel t r'
    | none => none
end

/-- All readings of a unit symbol (empty if it does not parse). -/
def expand (s : List Nat) : List Meaning :=
  let toks := tokenize (s.length + 1) s []
  match parseExpr (4 * toks.length + 4) toks with
  | some (v, []) => v
  | _ => []

/-- The readings with the given dimension set. -/
def readings (d : Dim) (s : List Nat) : List Meaning := (expand s).filter fun m => m.d == d

/-- Same magnitude (cross-multiplication; rationals are kept unnormalised). -/
def sameMagnitude (a b : Meaning) : Bool := a.num * b.den == b.num * a.den && a.k == b.k && a.d == b.d

end PhQVerif.Symbol
