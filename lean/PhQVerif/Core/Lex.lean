/-
Core/Lex.lean — the C14 checker: does a decision tree of component comparisons denote the
lexicographic order (in declared component order) for a given operator?

The checker walks every path of the tree, keeping for each component the set of outcomes
(`<`, `=`, `>`) still possible given the comparisons made so far, and requires every leaf to return
the value the operator has on *every* lexicographic result still possible there. It accepts any tree
shape (nested `if`s, `&&`/`||` chains, negations of another operator).
-/
import PhQVerif.Core.Model

namespace PhQVerif

/-- Outcomes of comparing component `i` of the left operand with component `i` of the right one
that are still possible. -/
structure Poss where
  lt : Bool
  eq : Bool
  gt : Bool
deriving DecidableEq, Repr, Inhabited

namespace Poss
def all : Poss := ⟨true, true, true⟩
def inter (a b : Poss) : Poss := ⟨a.lt && b.lt, a.eq && b.eq, a.gt && b.gt⟩
def isEmpty (a : Poss) : Bool := !a.lt && !a.eq && !a.gt
def has (a : Poss) : Ordering → Bool
  | .lt => a.lt
  | .eq => a.eq
  | .gt => a.gt
end Poss

/-- Outcomes of `compare a b` for which `a op b` is true. -/
def CmpOp.sat : CmpOp → Poss
  | .lt => ⟨true, false, false⟩
  | .gt => ⟨false, false, true⟩
  | .le => ⟨true, true, false⟩
  | .ge => ⟨false, true, true⟩
  | .eq => ⟨false, true, false⟩
  | .ne => ⟨true, false, true⟩

def Poss.compl (a : Poss) : Poss := ⟨!a.lt, !a.eq, !a.gt⟩

def CmpOp.swap : CmpOp → CmpOp
  | .lt => .gt
  | .gt => .lt
  | .le => .ge
  | .ge => .le
  | .eq => .eq
  | .ne => .ne

/-- Truth of `left op right` given the lexicographic comparison result. -/
def CmpOp.holdsOn : CmpOp → Ordering → Bool
  | .lt, .lt => true
  | .gt, .gt => true
  | .le, .lt => true
  | .le, .eq => true
  | .ge, .gt => true
  | .ge, .eq => true
  | .eq, .eq => true
  | .ne, .lt => true
  | .ne, .gt => true
  | _, _ => false

/-- The lexicographic results possible under the per-component constraints `cs`: `(lt?, eq?, gt?)`.
`stillEq` says whether all earlier components can be equal. -/
def lexPossible : List Poss → Bool → Poss
  | [], stillEq => ⟨false, stillEq, false⟩
  | c :: cs, stillEq =>
    let rest := lexPossible cs (stillEq && c.eq)
    ⟨(stillEq && c.lt) || rest.lt, rest.eq, (stillEq && c.gt) || rest.gt⟩

/-- Which component does a node compare, and with which orientation? `some (i, false)`: left
component `i` against right component `i`; `some (i, true)`: right against left. -/
def nodeComponent (n : Nat) : Expr → Expr → Option (Nat × Bool)
  | .var i _, .var j _ =>
    if i < n && j == n + i then some (i, false)
    else if j < n && i == n + j then some (j, true)
    else none
  | _, _ => none

def setAt (cs : List Poss) (i : Nat) (p : Poss) : List Poss :=
  cs.set i p

/-- Does the tree denote `op` on the lexicographic order of `n`-component operands? -/
def lexTreeOk (op : CmpOp) (n : Nat) : DTree → List Poss → Bool
  | .leaf [.bool b], cs =>
    let r := lexPossible cs true
    (!r.lt || op.holdsOn .lt == b) && (!r.eq || op.holdsOn .eq == b) && (!r.gt || op.holdsOn .gt == b)
  | .leaf _, _ => false
  | .unexplored, _ => false
  | .node o a b y nn, cs =>
    match nodeComponent n a b with
    | none => false
    | some (i, rev) =>
      let o' := if rev then o.swap else o
      let cur := cs.getD i Poss.all
      let cy := cur.inter o'.sat
      let cn := cur.inter o'.sat.compl
      (cy.isEmpty || lexTreeOk op n y (setAt cs i cy)) &&
      (cn.isEmpty || lexTreeOk op n nn (setAt cs i cn))

def Opr.cmpOp? : Opr → Option CmpOp
  | .lt => some .lt
  | .gt => some .gt
  | .le => some .le
  | .ge => some .ge
  | .eq => some .eq
  | .ne => some .ne
  | _ => none

/-- C14 for one entry: a comparison operator between two objects of `n` stored numbers each. -/
def checkCompare (e : Entry) : Bool :=
  match e.opr.cmpOp? with
  | none => true
  | some op =>
    if e.kind == .free || e.kind == .modelCompare then
      e.nIn % 2 == 0 && lexTreeOk op (e.nIn / 2) e.tree (List.replicate (e.nIn / 2) Poss.all)
    else true

/-- C14 (hash): the hash of an object feeds exactly its stored components, each once, in declared
order, to `std::hash<NumericType>` (`hashed` is the traced sequence of hashed values). -/
def checkHashed (row : Entry × List Expr) : Bool :=
  row.2.length == row.1.nIn &&
    (row.2.zipIdx).all fun (ex, i) => match ex with | .var j _ => j == i | _ => false

end PhQVerif
