/-
Core/Print.lean — a hand-written, executable model of `PhQ::Print` (Base.hpp) and of the number
parser behind `PhQ::ParseNumber`:

* `fixedDigits n x` / `sciDigits n x`: what `printf("%.nf")` / `printf("%.ne")` print for an exact
  dyadic value — the exact decimal expansion rounded half-even at the requested digit (the contract of
  a correctly rounding `printf`, e.g. glibc's);
* `print fm x`: the interval cascade of `PhQ::Print`, whose thresholds are the *double* literals
  `0.001 … 10000.0`, compared exactly with `|x|`;
* `parseDec fm s`: decimal text → exact rational → `Fl.round` (the contract of a correctly rounding
  `strtof/strtod/strtold`).
The model is tied to the code by the correspondence check (textio `print` / `num`).
-/
import PhQVerif.Core.Fl
import PhQVerif.Core.Expr

namespace PhQVerif.Print

/-- `max_digits10` of the three formats. -/
def maxDigits10 : Fm → Nat
  | .f32 => 9
  | .f64 => 17
  | .f80 => 21

/-- Round the non-negative rational `n/d` to the nearest integer, ties to even. -/
def rne (n d : Nat) : Nat := Fl.rneDiv n d

def padLeft (k : Nat) (s : String) : String := String.ofList (List.replicate (k - s.length) '0') ++ s

/-- `%.<prec>f` of the non-negative rational `n/d`. -/
def fixedPos (prec : Nat) (n d : Nat) : String :=
  let scaled := rne (n * 10 ^ prec) d
  let ip := scaled / 10 ^ prec
  let fp := scaled % 10 ^ prec
  if prec = 0 then toString ip else toString ip ++ "." ++ padLeft prec (toString fp)

/-- `⌊log₁₀ (n/d)⌋` for positive `n/d`, by search from an estimate (fuel-bounded). -/
def ilog10Q (n d : Nat) : Int :=
  -- estimate from bit lengths: log10(x) ≈ log2(x)·0.30103
  let l2 : Int := (n.log2 : Int) - (d.log2 : Int)
  let est : Int := (l2 * 30103) / 100000
  -- adjust: want 10^e ≤ n/d < 10^(e+1)
  let ge (e : Int) : Bool := if 0 ≤ e then d * 10 ^ e.toNat ≤ n else d ≤ n * 10 ^ (-e).toNat
  let rec fix (fuel : Nat) (e : Int) : Int :=
    match fuel with
    | 0 => e
    | fuel + 1 => if !ge e then fix fuel (e - 1) else if ge (e + 1) then fix fuel (e + 1) else e
  fix 8 est

/-- `%.<prec>e` of the positive rational `n/d`. -/
def sciPos (prec : Nat) (n d : Nat) : String :=
  let e0 := ilog10Q n d
  -- mantissa with prec fractional digits: x / 10^(e0 - prec)
  let sh := e0 - prec
  let m := if 0 ≤ sh then rne n (d * 10 ^ sh.toNat) else rne (n * 10 ^ (-sh).toNat) d
  let (m, e) := if m = 10 ^ (prec + 1) then (10 ^ prec, e0 + 1) else (m, e0)
  let ds := toString m
  let mant := if prec = 0 then ds else (ds.take 1).toString ++ "." ++ (ds.drop 1).toString
  let es := toString e.natAbs
  mant ++ "e" ++ (if e < 0 then "-" else "+") ++ (if es.length < 2 then "0" ++ es else es)

/-- Exact non-negative rational value of the magnitude of a finite float. -/
def magRat : Fl → Option (Nat × Nat)
  | .fin _ m e => if 0 ≤ e then some (m * 2 ^ e.toNat, 1) else some (m, 2 ^ (-e).toNat)
  | _ => none

/-- The thresholds of the cascade: the `double` nearest to each decimal literal, as exact rationals. -/
def thr (num den : Nat) : Nat × Nat :=
  match Fl.round F64 false num den with
  | .fin _ m e => if 0 ≤ e then (m * 2 ^ e.toNat, 1) else (m, 2 ^ (-e).toNat)
  | _ => (num, den)

/-- `a < b` on non-negative rationals. -/
def ltR (a b : Nat × Nat) : Bool := a.1 * b.2 < b.1 * a.2

/-- `PhQ::Print(x)` for a finite `x` of format `fm`. -/
def print (fm : Fm) (x : Fl) : Option String :=
  match magRat x with
  | none => none
  | some a =>
    let neg := match x with | .fin s _ _ => s | _ => false
    let md := maxDigits10 fm
    let sign := if neg then "-" else ""
    if a.1 = 0 then some "0"
    else
      let body :=
        if ltR a (thr 1 1) then
          if ltR a (thr 1 1000) then sciPos md a.1 a.2
          else if ltR a (thr 1 10) then
            (if ltR a (thr 1 100) then fixedPos (md + 3) a.1 a.2 else fixedPos (md + 2) a.1 a.2)
          else fixedPos (md + 1) a.1 a.2
        else if ltR a (thr 1000 1) then
          if ltR a (thr 10 1) then fixedPos md a.1 a.2
          else if ltR a (thr 100 1) then fixedPos (md - 1) a.1 a.2 else fixedPos (md - 2) a.1 a.2
        else if ltR a (thr 10000 1) then fixedPos (md - 3) a.1 a.2
        else sciPos md a.1 a.2
      some (sign ++ body)

/-- Number of significant decimal digits in a printed number (digits of the mantissa, leading zeros
of a fixed-notation fraction excluded). -/
def sigDigits (s : String) : Nat :=
  let mant := ((s.splitOn "e").headD "").toList.filter (fun c => c.isDigit)
  (mant.dropWhile (· == '0')).length

/-- Decimal text (optional sign, digits, optional fraction, optional exponent) → exact rational. -/
def parseDecRat (s : String) : Option (Bool × Nat × Nat) :=
  let cs := s.toList
  let (neg, cs) := match cs with | '-' :: r => (true, r) | '+' :: r => (false, r) | r => (false, r)
  let ip := cs.takeWhile Char.isDigit
  let r1 := cs.dropWhile Char.isDigit
  let (fp, r2) := match r1 with
    | '.' :: r => (r.takeWhile Char.isDigit, r.dropWhile Char.isDigit)
    | r => ([], r)
  if ip.isEmpty && fp.isEmpty then none
  else
    let digits := (ip ++ fp).foldl (fun a c => 10 * a + (c.toNat - 48)) 0
    let (ex, ok) : Int × Bool := match r2 with
      | [] => (0, true)
      | c :: r => if c == 'e' || c == 'E' then
          (match r with
           | '-' :: d => if !d.isEmpty && d.all Char.isDigit then (-(d.foldl (fun a c => 10 * a + (c.toNat - 48)) 0 : Nat), true) else (0, false)
           | '+' :: d => if !d.isEmpty && d.all Char.isDigit then ((d.foldl (fun a c => 10 * a + (c.toNat - 48)) 0 : Nat), true) else (0, false)
           | d => if !d.isEmpty && d.all Char.isDigit then ((d.foldl (fun a c => 10 * a + (c.toNat - 48)) 0 : Nat), true) else (0, false))
        else (0, false)
    if !ok then none
    else
      let e := ex - fp.length
      if 0 ≤ e then some (neg, digits * 10 ^ e.toNat, 1) else some (neg, digits, 10 ^ (-e).toNat)

/-- The model of a correctly rounding `strtod` on well-formed decimal text. -/
def parseDec (fm : Fm) (s : String) : Option Fl :=
  (parseDecRat s).map fun (neg, n, d) => Fl.round fm.fmt neg n d

end PhQVerif.Print
