/-
Core/Print.lean — a hand-written, executable model of `PhQ::Print` (Base.hpp) and of the number
parser behind `PhQ::ParseNumber`:

* `fixedDigits n x` / `sciDigits n x`: what `printf("%.nf")` / `printf("%.ne")` print for an exact
  dyadic value — the exact decimal expansion rounded half-even at the requested digit (the contract of
  a correctly rounding `printf`, e.g. glibc's);
* `print fm x`: the interval cascade of `PhQ::Print`, whose thresholds are the literals of the source,
  compared exactly with `|x|`;
* `parseDec fm s`: decimal text → exact rational → `Fl.round` (the contract of a correctly rounding
  `strtof/strtod/strtold`).
The model is tied to the code by the correspondence check (textio `print` / `num`).
-/
import PhQVerif.Core.Fl
import PhQVerif.Core.Expr

namespace PhQVerif.Print

/-- `max_digits10` of the three formats. -/
def maxDigits10 : Fm → Nat
  | .f32 => 9
  | .f64 => 17
  | .f80 => 21

/-- Round the non-negative rational `n/d` to the nearest integer, ties to even. -/
def rne (n d : Nat) : Nat := Fl.rneDiv n d

def padLeft (k : Nat) (s : String) : String := String.ofList (List.replicate (k - s.length) '0') ++ s

/-- `10^e ≤ n/d`, decided on integers. -/
def ge10 (n d : Nat) (e : Int) : Bool :=
  if 0 ≤ e then d * 10 ^ e.toNat ≤ n else d ≤ n * 10 ^ (-e).toNat

/-- Walk up from a power of ten known to be `≤ n/d` to the last one that is. -/
def searchUp (n d : Nat) : Nat → Int → Int
  | 0, e => e
  | fuel + 1, e => if ge10 n d (e + 1) then searchUp n d fuel (e + 1) else e

/-- `e` if `10^e ≤ n/d < 10^(e+1)`. -/
def pick10 (n d : Nat) (e : Int) : Option Int :=
  if ge10 n d e && !ge10 n d (e + 1) then some e else none

/-- `⌊log₁₀ (n/d)⌋` for positive `n/d`: an estimate from the bit lengths, checked; if the check fails
(it does not, on the inputs the driver sees) a plain search that is correct by construction. -/
def ilog10Q (n d : Nat) : Int :=
  let est : Int := (((n.log2 : Int) - (d.log2 : Int)) * 30103) / 100000
  match pick10 n d est with
  | some e => e
  | none =>
    match pick10 n d (est - 1) with
    | some e => e
    | none =>
      match pick10 n d (est + 1) with
      | some e => e
      | none => searchUp n d (n.log2 + d.log2 + 2) (-((d.log2 : Int) + 1))

/-- What `PhQ::Print` selects for a number, before it is laid out as text. -/
inductive Printed where
  | zero
  /-- `%.<prec>f`: the value is `scaled / 10^prec`. -/
  | fixed (neg : Bool) (scaled : Nat) (prec : Nat)
  /-- `%.<prec>e`: the value is `m · 10^(e - prec)`, `m` having `prec + 1` digits. -/
  | sci (neg : Bool) (m : Nat) (prec : Nat) (e : Int)
deriving DecidableEq, Repr, Inhabited

/-- The decimal number printed, as sign, numerator, denominator. -/
def Printed.value : Printed → Bool × Nat × Nat
  | .zero => (false, 0, 1)
  | .fixed neg scaled prec => (neg, scaled, 10 ^ prec)
  | .sci neg m prec e =>
    let k := e - prec
    if 0 ≤ k then (neg, m * 10 ^ k.toNat, 1) else (neg, m, 10 ^ (-k).toNat)

def fixedSel (neg : Bool) (prec : Nat) (n d : Nat) : Printed :=
  .fixed neg (rne (n * 10 ^ prec) d) prec

def sciSel (neg : Bool) (prec : Nat) (n d : Nat) : Printed :=
  let e0 := ilog10Q n d
  let sh := e0 - prec
  let m := if 0 ≤ sh then rne n (d * 10 ^ sh.toNat) else rne (n * 10 ^ (-sh).toNat) d
  if m = 10 ^ (prec + 1) then .sci neg (10 ^ prec) prec (e0 + 1) else .sci neg m prec e0

/-- Exact non-negative rational value of the magnitude of a finite float. -/
def magRat : Fl → Option (Nat × Nat)
  | .fin _ m e => if 0 ≤ e then some (m * 2 ^ e.toNat, 1) else some (m, 2 ^ (-e).toNat)
  | _ => none

/-- The smallest `long double` that is not less than `num/den`, as an exact rational. -/
def ceil80 (num den : Nat) : Nat × Nat :=
  match Fl.round F80 false num den with
  | .fin _ m e =>
    let below : Bool := if 0 ≤ e then m * 2 ^ e.toNat * den < num else m * den < num * 2 ^ (-e).toNat
    let m := if below then m + 1 else m
    if 0 ≤ e then (m * 2 ^ e.toNat, 1) else (m, 2 ^ (-e).toNat)
  | _ => (num, den)

/-- The thresholds of the cascade as the source writes them: the integers `1 … 10000` exactly, and
for `0.001`, `0.01`, `0.1` the smallest `long double` not less than the decimal (hex literals in
Base.hpp), so that `|x| < threshold` decides `|x| < decimal` exactly for all three types.
`Generated.printThresholds` (read from the source) is proved equal to these in Props/C15. -/
def thr (num den : Nat) : Nat × Nat :=
  if den = 1 then (num, 1) else ceil80 num den

/-- `a < b` on non-negative rationals. -/
def ltR (a b : Nat × Nat) : Bool := a.1 * b.2 < b.1 * a.2

/-- `M·2^E` as a quotient of naturals. -/
def ratOf (M : Nat) (E : Int) : Nat × Nat :=
  if 0 ≤ E then (M * 2 ^ E.toNat, 1) else (M, 2 ^ (-E).toNat)

/-- `a ≤ b` on non-negative rationals. -/
def leR (a b : Nat × Nat) : Bool := a.1 * b.2 ≤ b.1 * a.2

/-- The greatest number of format `f` strictly below the positive rational `num/den` (for `num/den`
in the normal range), as significand and exponent. -/
def floorBelow (f : Fmt) (num den : Nat) : Nat × Int :=
  match Fl.round f false num den with
  | .fin _ m e =>
    if leR (num, den) (ratOf m e) then
      (if m = 2 ^ (f.p - 1) then (2 ^ f.p - 1, e - 1) else (m - 1, e))
    else (m, e)
  | _ => (0, 0)

/-- The facts about the top of a fixed-notation band, for one format, one upper threshold `T` and the
band's precision: with `F = M·2^E` the greatest number of the format below `T`, `F` is a canonical
normal number, `T ≤ (M+1)·2^E` (so every number of the format below `T` is at most `F`), and
`F·10^prec + ½ < 10^(max_digits10+1)` (so the band's largest number still prints `max_digits10+1`
digits). Evaluated by the kernel for the 3 × 7 (format, band) pairs. -/
def bandTopOk (fm : Fm) (T : Nat × Nat) (prec : Nat) : Bool :=
  let f := fm.fmt
  let F := floorBelow f T.1 T.2
  let M := F.1
  let E := F.2
  decide (2 ^ (f.p - 1) ≤ M) && decide (M < 2 ^ f.p) && decide (f.qmin ≤ E) &&
  decide (E + ((f.p : Int) - 1) ≤ f.emax) &&
  leR T (ratOf (M + 1) E) &&
  (let r := ratOf M E
   decide (2 * r.1 * 10 ^ prec + r.2 < 2 * 10 ^ (maxDigits10 fm + 1) * r.2))

/-- The interval cascade of `PhQ::Print`: `some prec` = fixed notation with `prec` decimals,
`none` = scientific notation (with `max_digits10` decimals). -/
def bandPrec (md : Nat) (a : Nat × Nat) : Option Nat :=
  if ltR a (thr 1 1) then
    if ltR a (thr 1 1000) then none
    else if ltR a (thr 1 10) then
      (if ltR a (thr 1 100) then some (md + 3) else some (md + 2))
    else some (md + 1)
  else if ltR a (thr 1000 1) then
    if ltR a (thr 10 1) then some md
    else if ltR a (thr 100 1) then some (md - 1) else some (md - 2)
  else if ltR a (thr 10000 1) then some (md - 3)
  else none

/-- The upper threshold and the precision of each fixed-notation band. -/
def bandTops (md : Nat) : List ((Nat × Nat) × Nat) :=
  [(thr 1 100, md + 3), (thr 1 10, md + 2), (thr 1 1, md + 1), (thr 10 1, md), (thr 100 1, md - 1),
   (thr 1000 1, md - 2), (thr 10000 1, md - 3)]

/-- Which notation and digits a finite `x` gets. -/
def select (fm : Fm) (x : Fl) : Option Printed :=
  match magRat x with
  | none => none
  | some a =>
    let neg := x.sign
    let md := maxDigits10 fm
    if a.1 = 0 then some .zero
    else match bandPrec md a with
      | some prec => some (fixedSel neg prec a.1 a.2)
      | none => some (sciSel neg md a.1 a.2)

/-- Text layout of a selection (what `printf` writes). -/
def Printed.render : Printed → String
  | .zero => "0"
  | .fixed neg scaled prec =>
    let ip := scaled / 10 ^ prec
    let fp := scaled % 10 ^ prec
    (if neg then "-" else "") ++
      (if prec = 0 then toString ip else toString ip ++ "." ++ padLeft prec (toString fp))
  | .sci neg m prec e =>
    let ds := toString m
    let mant := if prec = 0 then ds else (ds.take 1).toString ++ "." ++ (ds.drop 1).toString
    let es := toString e.natAbs
    (if neg then "-" else "") ++ mant ++ "e" ++ (if e < 0 then "-" else "+") ++
      (if es.length < 2 then "0" ++ es else es)

/-- `PhQ::Print(x)` for a finite `x` of format `fm`. -/
def print (fm : Fm) (x : Fl) : Option String := (select fm x).map Printed.render

/-- Number of significant decimal digits of a selection. -/
def Printed.sigDigits : Printed → Nat
  | .zero => 1
  | .fixed _ scaled _ => (toString scaled).length
  | .sci _ m _ _ => (toString m).length

/-- Parsing back: the printed decimal number, correctly rounded into the format (the contract of
`strtof` / `strtod` / `strtold`). -/
def Printed.parseBack (fm : Fm) (pr : Printed) : Fl :=
  let (neg, n, d) := pr.value
  Fl.round fm.fmt neg n d

/-- Number of significant decimal digits in a printed number (digits of the mantissa, leading zeros
of a fixed-notation fraction excluded). -/
def sigDigits (s : String) : Nat :=
  let mant := ((s.splitOn "e").headD "").toList.filter (fun c => c.isDigit)
  (mant.dropWhile (· == '0')).length

/-- Decimal text (optional sign, digits, optional fraction, optional exponent) → exact rational. -/
def parseDecRat (s : String) : Option (Bool × Nat × Nat) :=
  let cs := s.toList
  let (neg, cs) := match cs with | '-' :: r => (true, r) | '+' :: r => (false, r) | r => (false, r)
  let ip := cs.takeWhile Char.isDigit
  let r1 := cs.dropWhile Char.isDigit
  let (fp, r2) := match r1 with
    | '.' :: r => (r.takeWhile Char.isDigit, r.dropWhile Char.isDigit)
    | r => ([], r)
  if ip.isEmpty && fp.isEmpty then none
  else
    let digits := (ip ++ fp).foldl (fun a c => 10 * a + (c.toNat - 48)) 0
    let (ex, ok) : Int × Bool := match r2 with
      | [] => (0, true)
      | c :: r => if c == 'e' || c == 'E' then
          (match r with
           | '-' :: d => if !d.isEmpty && d.all Char.isDigit then (-(d.foldl (fun a c => 10 * a + (c.toNat - 48)) 0 : Nat), true) else (0, false)
           | '+' :: d => if !d.isEmpty && d.all Char.isDigit then ((d.foldl (fun a c => 10 * a + (c.toNat - 48)) 0 : Nat), true) else (0, false)
           | d => if !d.isEmpty && d.all Char.isDigit then ((d.foldl (fun a c => 10 * a + (c.toNat - 48)) 0 : Nat), true) else (0, false))
        else (0, false)
    if !ok then none
    else
      let e := ex - fp.length
      if 0 ≤ e then some (neg, digits * 10 ^ e.toNat, 1) else some (neg, digits, 10 ^ (-e).toNat)

/-- The model of `PhQ::ParseNumber` on well-formed decimal text: the value correctly rounded (the
contract of `strtof/strtod/strtold`); nothing when `std::stof/stod/stold` throws `out_of_range`, i.e.
when the C function reports `ERANGE`: on overflow, and on an inexact subnormal (or zero) result. -/
def parseDec (fm : Fm) (s : String) : Option Fl :=
  match parseDecRat s with
  | none => none
  | some (neg, n, d) =>
    match Fl.round fm.fmt neg n d with
    | .fin sg m q =>
      let exact : Bool := if 0 ≤ q then m * 2 ^ q.toNat * d == n else m * d == n * 2 ^ (-q).toNat
      if m < 2 ^ (fm.fmt.p - 1) && n != 0 && !exact then none else some (.fin sg m q)
    | _ => none

end PhQVerif.Print
