/-
Core/Direction.lean — the C10 checker: every way of producing a direction normalises.
-/
import PhQVerif.Core.Check

namespace PhQVerif

/-- `(c₀·c₀ + c₁·c₁) + c₂·c₂` (left-nested, as the code sums), in format `f`. -/
def sumSquares (f : Fm) : List Expr → Option Expr
  | [] => none
  | c :: cs => some (cs.foldl (fun acc x => .bin .add f acc (.bin .mul f x x)) (.bin .mul f c c))

/-- The numerator `c` of `c / √S` when the output has that form for the given `S`. -/
def normalisedNumerator (S : Expr) : Expr → Option Expr
  | .bin .div _ c (.un .sqrt _ s) => if s == S then some c else none
  | _ => none

def outsNums : List Out → List Expr
  | [] => []
  | .num e :: r => e :: outsNums r
  | _ :: r => outsNums r

/-- Is the tree "normalise": if the squared length `S = Σ cᵢ²` is positive return `cᵢ / √S`,
otherwise return `+0` in every slot? (two or three components) -/
def dirTreeOk (fm : Fm) : DTree → Bool
  | .node .gt S (.lit _ false 0 _)
      (.leaf [.num (.bin .div _ a (.un .sqrt _ s1)), .num (.bin .div _ b (.un .sqrt _ s2))])
      (.leaf [.num z1, .num z2]) =>
    s1 == S && s2 == S && S == .bin .add fm (.bin .mul fm a a) (.bin .mul fm b b) &&
      isPosZero z1 && isPosZero z2
  | .node .gt S (.lit _ false 0 _)
      (.leaf [.num (.bin .div _ a (.un .sqrt _ s1)), .num (.bin .div _ b (.un .sqrt _ s2)),
              .num (.bin .div _ c (.un .sqrt _ s3))])
      (.leaf [.num z1, .num z2, .num z3]) =>
    s1 == S && s2 == S && s3 == S &&
      S == .bin .add fm (.bin .add fm (.bin .mul fm a a) (.bin .mul fm b b)) (.bin .mul fm c c) &&
      isPosZero z1 && isPosZero z2 && isPosZero z3
  | _ => false

/-- Is the tree a plain copy of stored components, or all `+0`? (copies of existing directions,
`Zero()`, the default constructor) -/
def copyOrZeroTree : DTree → Bool
  | .leaf outs => (outsNums outs).length == outs.length &&
      ((outsNums outs).all isPosZero || (outsNums outs).all fun e => match e with | .var _ _ => true | _ => false)
  | _ => false

/-- Does the entry produce (construct, return, or `Set`) a direction? -/
def Entry.producesDirection (classes : List ClassInfo) (e : Entry) : Bool :=
  match e.kind with
  | .ctor | .method | .static | .castCtor =>
    (match e.ret with | .q c => classIsDirection classes c | _ => false)
  | .mutator => classIsDirection classes e.cls && e.mem == .other && e.opr == .named
  | .castAssign => classIsDirection classes e.cls
  | _ => false

/-- C10: every construction path of a direction normalises (or copies an existing direction / is
zero). -/
def checkDirection (classes : List ClassInfo) (e : Entry) : Bool :=
  !e.producesDirection classes || dirTreeOk e.fm e.tree || copyOrZeroTree e.tree

/-- C10: `Magnitude()` of a vector quantity is `√(Σ cᵢ²)` of the stored components and has the scalar
type of the same dimension set. -/
def checkMagnitude (classes : List ClassInfo) (e : Entry) : Bool :=
  e.mem != .magnitude ||
  (match e.numOuts, e.argSizes with
   | some [.un .sqrt f s], [n] =>
     f == e.fm && sumSquares e.fm ((List.range n).map fun i => .var i e.fm) == some s &&
       (match e.ret with
        | .num => true
        | .q c => tyDim classes (.q c) == tyDim classes (.q e.cls) && classComps classes c == 1
        | _ => false)
   | _, _ => false)

/-- C10: a constructor of a vector quantity from a scalar quantity and a direction (in either
argument order) stores `scalar × directionᵢ` in slot `i`, one correctly rounded product each, for as
many components as the direction has. -/
def checkScaleDir (classes : List ClassInfo) (e : Entry) : Bool :=
  e.kind != .ctor ||
  (match e.args with
   | [.q a, .q b] =>
     let na := classComps classes a
     let nb := classComps classes b
     if classIsDirection classes b && !classIsDirection classes a && na == 1 then
       classComps classes e.cls == nb && e.argSizes == [1, nb] &&
       (match e.numOuts with
        | some outs => outs.length == nb && allIdx outs (fun i ex => isBinOf .mul e.fm 0 (1 + i) ex)
        | none => false)
     else if classIsDirection classes a && !classIsDirection classes b && nb == 1 then
       classComps classes e.cls == na && e.argSizes == [na, 1] &&
       (match e.numOuts with
        | some outs => outs.length == na && allIdx outs (fun i ex => isBinOf .mul e.fm i na ex)
        | none => false)
     else true
   | _ => true)

/-- Is the entry a (scalar, direction) constructor covered by `checkScaleDir`? -/
def Entry.isScaleDirCtor (classes : List ClassInfo) (e : Entry) : Bool :=
  e.kind == .ctor &&
  (match e.args with
   | [.q a, .q b] =>
     (classIsDirection classes b && !classIsDirection classes a && classComps classes a == 1) ||
     (classIsDirection classes a && !classIsDirection classes b && classComps classes b == 1)
   | _ => false)

end PhQVerif
