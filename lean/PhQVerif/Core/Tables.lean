/-
Core/Tables.lean — the library's enumeration tables as the translator dumps them, and lookups that
model `std::map::find`, `std::unordered_map::find` and `std::map::at` on association lists.
-/
import PhQVerif.Core.Model

namespace PhQVerif

/-- Everything the translator knows about one enumeration type (a unit type, `UnitSystem`, or
`ConstitutiveModel::Type`). `declared` comes from the `enum class` declaration (clang's AST);
everything else comes from iterating the library's real table objects. Strings are code-point
lists so that kernel-evaluated checkers can inspect them. -/
structure UnitType where
  name : String
  declared : List (List Nat)          -- enumerator names, in declaration order
  values : List Nat                   -- their numeric values, in the same order
  abbreviations : List (Nat × List Nat)
  spellings : List (List Nat × Nat)
  standard : Nat
  dims : Dim
  consistent : List (Nat × Nat)       -- unit system ↦ unit
  related : List (Nat × Nat)          -- unit ↦ unit system
  mapTo32 : List Nat
  mapFrom32 : List Nat
  mapTo64 : List Nat
  mapFrom64 : List Nat
  mapTo80 : List Nat
  mapFrom80 : List Nat
  spellingsSize : Nat
deriving Repr, Inhabited

/-- Compiler-reported layout facts of one instantiation `Q<T>` (sizeof, alignof, type traits). -/
structure LayoutRow where
  cls : Nat
  fm : Fm
  size : Nat
  align : Nat
  numSize : Nat
  triviallyCopyable : Bool
  standardLayout : Bool
  polymorphic : Bool
deriving Repr, Inhabited, DecidableEq

/-- `std::map<K,V>::find(k)`: `none` models `end()`. -/
def lookup {α β : Type} [DecidableEq α] (k : α) : List (α × β) → Option β
  | [] => none
  | (a, b) :: rest => if a = k then some b else lookup k rest

/-- Used by the generated aggregators: a Boolean check that holds on two lists holds on their
concatenation. -/
theorem all_append_of {α : Type} {p : α → Bool} {l₁ l₂ : List α}
    (h₁ : l₁.all p = true) (h₂ : l₂.all p = true) : (l₁ ++ l₂).all p = true := by
  rw [List.all_append, h₁, h₂]; rfl

end PhQVerif
