/-
Core/Expr.lean — the expression language the translator emits, and its floating-point semantics.

An `Expr` is the complete trace of one output component of one library entry point: every node is
one primitive floating-point operation, tagged with the format it was performed in.
-/
import PhQVerif.Core.Fl

namespace PhQVerif

/-- Format tags. -/
inductive Fm where
  | f32 | f64 | f80
deriving DecidableEq, Repr, Inhabited

def Fm.fmt : Fm → Fmt
  | .f32 => F32
  | .f64 => F64
  | .f80 => F80

def Fm.bits : Fm → Nat
  | .f32 => 32
  | .f64 => 64
  | .f80 => 80

inductive UnOp where
  | neg | sqrt | abs | acos | cbrt | exp | log | log2 | log10
deriving DecidableEq, Repr, Inhabited

inductive BinOp where
  | add | sub | mul | div | pow
deriving DecidableEq, Repr, Inhabited

/-- Traced expressions. `var i f` is the `i`-th input (a number of format `f`); `lit` carries the
exact dyadic value `(-1)^s · m · 2^e` of a source literal after conversion to format `f`; `pi` is
the library's own `Pi<T>` constant (its exact dyadic value, named so that theorems can relate it to
π); `powi` is `std::pow` with a literal integer exponent; `uninit` is a read of a
default-initialised number. -/
inductive Expr where
  | var (i : Nat) (f : Fm)
  | lit (f : Fm) (s : Bool) (m : Nat) (e : Int)
  | pi (f : Fm) (m : Nat) (e : Int)
  | un (op : UnOp) (f : Fm) (a : Expr)
  | bin (op : BinOp) (f : Fm) (a b : Expr)
  | powi (f : Fm) (n : Int) (a : Expr)
  | cast (f : Fm) (a : Expr)
  | uninit (f : Fm)
deriving DecidableEq, Repr, Inhabited

/-- The functions of `<cmath>` that are not correctly rounded basic operations; they are parameters
of the semantics (DESIGN.md §9: modelled, not verified). -/
structure Libm where
  un : UnOp → Fmt → Fl → Fl
  pow : Fmt → Fl → Fl → Fl

/-- A `Libm` that returns NaN everywhere: used where no libm node can occur. -/
def Libm.none : Libm := ⟨fun _ _ _ => .nan, fun _ _ _ => .nan⟩

namespace Expr

/-- Floating-point semantics: each node is computed exactly and rounded once in its own format. -/
def evalF (L : Libm) (env : Nat → Fl) : Expr → Fl
  | var i _ => env i
  | lit f s m e => Fl.roundE f.fmt s m e
  | pi f m e => Fl.roundE f.fmt false m e
  | un op f a =>
    let x := evalF L env a
    match op with
    | .neg => Fl.neg x
    | .abs => Fl.abs x
    | .sqrt => Fl.sqrt f.fmt x
    | o => L.un o f.fmt x
  | bin op f a b =>
    let x := evalF L env a
    let y := evalF L env b
    match op with
    | .add => Fl.add f.fmt x y
    | .sub => Fl.sub f.fmt x y
    | .mul => Fl.mul f.fmt x y
    | .div => Fl.div f.fmt x y
    | .pow => L.pow f.fmt x y
  | powi f n a => Fl.powi f.fmt (evalF L env a) n
  | cast f a => Fl.cast f.fmt (evalF L env a)
  | uninit _ => Fl.nan

/-- Number of nodes. -/
def size : Expr → Nat
  | un _ _ a => size a + 1
  | bin _ _ a b => size a + size b + 1
  | powi _ _ a => size a + 1
  | cast _ a => size a + 1
  | _ => 1

/-- Does the expression mention input `i`? -/
def usesVar (i : Nat) : Expr → Bool
  | var j _ => i == j
  | un _ _ a => usesVar i a
  | bin _ _ a b => usesVar i a || usesVar i b
  | powi _ _ a => usesVar i a
  | cast _ a => usesVar i a
  | _ => false

/-- Is the expression free of inputs (a compile-time constant)? -/
def closed : Expr → Bool
  | var _ _ => false
  | un _ _ a => closed a
  | bin _ _ a b => closed a && closed b
  | powi _ _ a => closed a
  | cast _ a => closed a
  | uninit _ => false
  | _ => true

/-- Does the expression read a default-initialised number? -/
def readsUninit : Expr → Bool
  | uninit _ => true
  | un _ _ a => readsUninit a
  | bin _ _ a b => readsUninit a || readsUninit b
  | powi _ _ a => readsUninit a
  | cast _ a => readsUninit a
  | _ => false

/-- Is the root a libm call? (The correspondence driver stops there and reports the argument.) -/
def isLibmOp : UnOp → Bool
  | .neg | .abs | .sqrt => false
  | _ => true

def hasLibm : Expr → Bool
  | un op _ a => isLibmOp op || hasLibm a
  | bin op _ a b => op == .pow || hasLibm a || hasLibm b
  | powi _ _ a => hasLibm a
  | cast _ a => hasLibm a
  | _ => false

end Expr

/-- Comparison operators recorded in path conditions. -/
inductive CmpOp where
  | lt | gt | le | ge | eq | ne
deriving DecidableEq, Repr, Inhabited

def CmpOp.evalF (op : CmpOp) (a b : Fl) : Bool :=
  match op with
  | .lt => Fl.lt a b
  | .gt => Fl.gt a b
  | .le => Fl.le a b
  | .ge => Fl.ge a b
  | .eq => Fl.feq a b
  | .ne => Fl.fne a b

/-- A piece of a traced string: literal text (as code points) or the printed form of a number. -/
inductive StrPart where
  | text (cps : List Nat)
  | num (e : Expr)
deriving DecidableEq, Repr, Inhabited

/-- One output slot of a traced entry point. -/
inductive Out where
  | num (e : Expr)
  | bool (b : Bool)
  | int (i : Int)          -- integers, enumerators, hashes (not traced through)
  | str (parts : List StrPart)
  | dims (d : List Int)
deriving DecidableEq, Repr, Inhabited

/-- Decision trees: the merged traces of a branching entry point. A leaf carries one `Out` per
output slot. `unexplored` marks a branch outcome that no driving input reached. -/
inductive DTree where
  | leaf (outs : List Out)
  | node (op : CmpOp) (a b : Expr) (yes no : DTree)
  | unexplored
deriving Repr, Inhabited

namespace DTree

def complete : DTree → Bool
  | leaf _ => true
  | node _ _ _ y n => complete y && complete n
  | unexplored => false

def evalF (L : Libm) (env : Nat → Fl) : DTree → Option (List Out)
  | leaf o => some o
  | node op a b y n =>
    if op.evalF (a.evalF L env) (b.evalF L env) then evalF L env y else evalF L env n
  | unexplored => none

def depth : DTree → Nat
  | node _ _ _ y n => max (depth y) (depth n) + 1
  | _ => 0

def leaves : DTree → List (List Out)
  | leaf o => [o]
  | node _ _ _ y n => leaves y ++ leaves n
  | unexplored => []

end DTree

end PhQVerif
