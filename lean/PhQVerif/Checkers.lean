/-
Checkers.lean — the fixed list of Boolean obligations that the generated `Obl_*` modules discharge
by kernel evaluation, instantiated at the generated tables. Hand-written: the generator can only
*discharge* these, never restate them.
-/
import PhQVerif.Core.Check
import PhQVerif.Core.Lex
import PhQVerif.Core.Angle
import PhQVerif.Core.Direction
import PhQVerif.Core.UnitCheck
import PhQVerif.Core.Serial
import PhQVerif.Generated.Tables
import PhQVerif.Generated.Kernels

namespace PhQVerif.Chk
open PhQVerif.Generated

/-- C03: every relation is dimensionally homogeneous (dimension inference succeeds). -/
def C03dim (e : Entry) : Bool := checkDim classes e
/-- C03: operator result dimensions are sums / differences of operand dimensions. -/
def C03op (e : Entry) : Bool := checkOpDims classes e

/-- C04: operators and compound assignments are the one operation on the stored components. -/
def C04arith (e : Entry) : Bool := checkArith e
/-- C04: `<cmath>` overloads on dimensionless scalars. -/
def C04std (e : Entry) : Bool := checkStdMath e
/-- C04: constructor / operator twins have identical traces. -/
def C04twin (t : Entry × Entry × Bool) : Bool := checkTwin t.1 t.2.1 t.2.2

/-- C04: a compound assignment and the pure operator of the same signature have identical traces. -/
def C04compound (t : Entry × Entry × Bool) : Bool :=
  match t.1.numOuts, t.2.1.numOuts with
  | some a, some b => a == b
  | _, _ => false

/-- C16: converting constructors / assignments cast each component in its slot. -/
def C16cast (e : Entry) : Bool := checkCast classes e
/-- C16: the converting constructor of a direction class is cast-then-normalise. -/
def C16dir (t : Entry × Entry) : Bool := checkDirCast t.1 t.2
/-- C17: Zero, value accessors and mutators. -/
def C17access (e : Entry) : Bool := checkAccess classes e
/-- C17: compiler-reported layout. -/
def C17layout (r : LayoutRow) : Bool := checkLayout classes r
/-- C17 / C20: no entry point reads an indeterminate number. The one documented exception: the
default constructors of the constitutive models leave their moduli default-initialised, exactly as
`Speed<> s;` does; reading them before assigning is the caller's error, not a library path. -/
def C20uninit (e : Entry) : Bool := (e.kind == .modelCtor && e.nIn == 0) || checkNoUninit e
/-- The same without the exception (quantity and unit entry points). -/
def C20uninitStrict (e : Entry) : Bool := checkNoUninit e

/-- C02: the conversion entry points of Unit.hpp agree with the composition of the kernels. -/
def C02unit (e : Entry) : Bool :=
  match e.enumArgs with
  | (t, _) :: _ => (match kernelsOf e.fm t with | some k => checkUnitEntry k e | none => false)
  | [] => false
/-- C02: per-class entry points that take a unit. -/
def C02class (e : Entry) : Bool := checkClassUnit classes (kernelsOf e.fm) e
/-- C02: scalar `Convert` over all ordered pairs of units of one type. -/
def C02pairs (fm : Fm) (tr : Nat × List (Nat × Nat × Expr × Expr)) : Bool :=
  match kernelsOf fm tr.1 with
  | some k => tr.2.all (checkConvertPair k fm)
  | none => false

/-- Same formula in float, double and long double. -/
def SameFormula (t : Entry × Entry × Entry) : Bool := sameFormula t

/-- C14: comparison operators denote the lexicographic order on the stored components. -/
def C14cmp (e : Entry) : Bool := checkCompare e
/-- C14: hashing feeds exactly the stored components, in order. -/
def C14hash (row : Entry × List Expr) : Bool := checkHashed row

/-- Comparisons between two compile-time constants that the translator folded out of a decision
tree: both sides are input-free and the recorded outcome is what the soft-float evaluates. -/
def ConstCmp (r : CmpOp × Expr × Expr × Bool) : Bool :=
  r.2.1.closed && r.2.2.1.closed && !r.2.1.hasLibm && !r.2.2.1.hasLibm &&
    r.1.evalF (r.2.1.evalF Libm.none (fun _ => .nan)) (r.2.2.1.evalF Libm.none (fun _ => .nan)) == r.2.2.2

/-- C11: every angle entry applies `acos` only to a clamped argument. -/
def C11clamp (e : Entry) : Bool := checkAngle e
def C11exact (e : Entry) : Bool := checkAngleExact e
/-- C11: `(e₁, e₂)` with the argument types of `e₂` those of `e₁` reversed: swapping the arguments of
`e₁` gives `e₂` up to the order of factors of floating-point products. -/
def C11sym (t : Entry × Entry) : Bool :=
  match t.1.argSizes with
  | [n, m] =>
    (t.1.tree.renameVars (fun i => if i < m then n + i else i - m)).commNorm.beq t.2.tree.commNorm
  | _ => false
/-- C11: a quantity-level angle constructor / member has exactly the kernel's tree. -/
def C11kernel (t : Entry × Entry) : Bool := t.1.tree.beq t.2.tree

/-- C10: every construction path of a direction normalises. -/
def C10dir (e : Entry) : Bool := checkDirection classes e
/-- C10: magnitudes. -/
def C10mag (e : Entry) : Bool := checkMagnitude classes e

/-- C06: every unit's symbol expands to the dimension set its type declares. -/
def C06unit (u : UnitType) : Bool := checkUnitDims u
/-- C06: every quantity class declares its unit type's dimension set. -/
def C06class (c : ClassInfo) : Bool := checkClassDims unitTypes c
/-- C07: coherence of the unit systems. -/
def C07 (u : UnitType) : Bool := checkUnitSystem unitTypes baseTypes unitSystemValues standardUnitSystem u
/-- C08: tables total and unambiguous (unit types / plain enumerations). -/
def C08unit (u : UnitType) : Bool := checkEnumTables true u
def C08plain (u : UnitType) : Bool := checkEnumTables false u
/-- C08: every spelling denotes the magnitude of the enumerator it maps to. -/
def C08spell (u : UnitType) : Bool := checkSpellings u
/-- C04 / C12 / C13 / C02: nothing is computed in a lower precision than the numeric type. -/
def NoNarrowing (e : Entry) : Bool := checkNoNarrowing e

/-- C10: scalar × direction constructors rebuild the vector component by component. -/
def C10scale (e : Entry) : Bool := checkScaleDir classes e

/-- C20: unchecked lookups hit. -/
def C20lookups (u : UnitType) : Bool := checkLookupsHit unitSystemValues u
def C20abbr (u : UnitType) : Bool := checkAbbreviationsHit u

/-- C15: a serialisation entry builds exactly the template of its form. -/
def C15serial (row : Entry × Option Entry) : Bool := Serial.checkSerial classes unitTypes row
/-- C15: `operator<<` writes what `Print()` returns. -/
def C15stream (row : Entry × Option Entry) : Bool := Serial.checkStream row

/-- C01: kernel constants within `4 · 2^-p` of the oracle's exact factor. -/
def C01 (fm : Fm) (uk : UnitType × UnitKernels) : Bool := checkKernels fm 4 uk.1 uk.2

end PhQVerif.Chk
