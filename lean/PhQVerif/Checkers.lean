/-
Checkers.lean — the fixed list of Boolean obligations that the generated `Obl_*` modules discharge
by kernel evaluation, instantiated at the generated tables. Hand-written: the generator can only
*discharge* these, never restate them.
-/
import PhQVerif.Core.Check
import PhQVerif.Generated.Tables

namespace PhQVerif.Chk
open PhQVerif.Generated

/-- C03: every relation is dimensionally homogeneous (dimension inference succeeds). -/
def C03dim (e : Entry) : Bool := checkDim classes e
/-- C03: operator result dimensions are sums / differences of operand dimensions. -/
def C03op (e : Entry) : Bool := checkOpDims classes e

end PhQVerif.Chk
