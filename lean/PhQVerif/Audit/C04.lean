import PhQVerif.Props.C04
open PhQVerif Generated
#print axioms PhQVerif.Props.C04.operator_exact
#print axioms PhQVerif.Props.C04.twins_identical
#print axioms PhQVerif.Props.C04.compound_fold
#print axioms PhQVerif.Props.C04.stdmath_exact
#print axioms PhQVerif.Props.C04.precision_preserved
#eval s!"COUNT C04.componentwise_operator_entries {(quantityEntries.filter (·.isComponentwiseOp)).length}"
#eval s!"COUNT C04.twin_pairs {Twins.rows.length}"
#eval s!"COUNT C04.compound_pairs {Compound.rows.length}"
#eval s!"COUNT C04.stdmath_entries {(quantityEntries.filter (·.kind == .stdmath)).length}"
