import PhQVerif.Props.C10
open PhQVerif Generated
#print axioms PhQVerif.Props.C10.every_path_normalises
#print axioms PhQVerif.Props.C10.normalised_is_unit
#print axioms PhQVerif.Props.C10.magnitudes
#print axioms PhQVerif.Props.C10.rebuild
#print axioms PhQVerif.Props.C10.scalar_times_direction_constructors
#print axioms PhQVerif.Props.C10.typed_component_accessors
#print axioms PhQVerif.Props.C10.normalised_components_few_ulps_partial
#print axioms PhQVerif.Props.C10.normalised_rounding_counts
#eval s!"COUNT C10.direction_producing_entries {(quantityEntries.filter (fun e => e.producesDirection classes)).length}"
#eval s!"COUNT C10.magnitude_entries {(quantityEntries.filter (fun e => e.mem == .magnitude)).length}"
#eval s!"COUNT C10.scalar_direction_constructors {(quantityEntries.filter (fun e => e.isScaleDirCtor classes)).length}"
#print axioms PhQVerif.Props.C10.unit_length_four_ulps
#eval s!"COUNT C10.direction_entries_normalising {(quantityEntries.filter (fun e => e.producesDirection classes && dirTreeOk e.fm e.tree)).length}"
#eval s!"COUNT C10.of_which_four_ulps_theorem_applies {((quantityEntries.filter (fun e => e.producesDirection classes && dirTreeOk e.fm e.tree)).filter PhQVerif.Props.C10.fiveRoundings).length}"
