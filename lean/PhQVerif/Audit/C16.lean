import PhQVerif.Props.C16
open PhQVerif Generated
#print axioms PhQVerif.Props.C16.cast_componentwise
#print axioms PhQVerif.Props.C16.direction_cast_then_normalise
#eval s!"COUNT C16.cast_entries {(quantityEntries.filter (fun e => e.kind == .castCtor || e.kind == .castAssign)).length}"
#eval s!"COUNT C16.direction_cast_ctor_rows {DirCast.rows.length}"
#print axioms PhQVerif.Props.C16.widen_narrow_core
#print axioms PhQVerif.Props.C16.widen_then_narrow_is_identity
