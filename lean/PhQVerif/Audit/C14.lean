import PhQVerif.Props.C14
open PhQVerif Generated
#print axioms PhQVerif.Props.C14.operators_are_lexicographic
#print axioms PhQVerif.Props.C14.order_laws
#print axioms PhQVerif.Props.C14.hash_feeds_components
#print axioms PhQVerif.Props.C14.equal_objects_hash_equally
#eval s!"COUNT C14.comparison_entries {((quantityEntries ++ modelEntries).filter (fun e => e.opr.cmpOp?.isSome && (e.kind == .free || e.kind == .modelCompare))).length}"
#eval s!"COUNT C14.hash_rows {HashRows.rows.length}"
