import PhQVerif.Props.C03
open PhQVerif Generated
#print axioms PhQVerif.Props.C03.homogeneous
#print axioms PhQVerif.Props.C03.operator_dims
#eval s!"COUNT C03.relations {(quantityEntries.filter (·.isRelation)).length}"
#eval s!"COUNT C03.entries {quantityEntries.length}"
#eval s!"COUNT C03.operator_entries {(quantityEntries.filter (fun e => e.isRelation && (e.opr == .mul || e.opr == .div || e.opr == .add || e.opr == .sub))).length}"
