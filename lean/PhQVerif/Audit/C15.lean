import PhQVerif.Props.C15
open PhQVerif Generated
#print axioms PhQVerif.Props.C15.printing_is_lossless
#print axioms PhQVerif.Props.C15.zero_prints_zero
#print axioms PhQVerif.Props.C15.notation_by_interval
#print axioms PhQVerif.Props.C15.thresholds
#print axioms PhQVerif.Props.C15.cascade_constants_match_source
#print axioms PhQVerif.Props.C15.sci_has_md_plus_one_digits
#print axioms PhQVerif.Props.C15.fixed_has_md_plus_one_digits
#print axioms PhQVerif.Props.C15.composite_forms
#print axioms PhQVerif.Props.C15.json_skeleton_valid
#print axioms PhQVerif.Props.C15.streaming_equals_printing
#eval s!"COUNT C15.serialisation_rows {Generated.Serial.rows.length}"
#eval s!"COUNT C15.stream_rows {Generated.Streams.rows.length}"
