import PhQVerif.Props.C11
open PhQVerif Generated
#print axioms PhQVerif.Props.C11.acos_argument_clamped
#print axioms PhQVerif.Props.C11.result_in_range
#print axioms PhQVerif.Props.C11.symmetric
#print axioms PhQVerif.Props.C11.quantity_level_is_kernel
#print axioms PhQVerif.Props.C11.value_is_arccos
#print axioms PhQVerif.Props.C11.kernels_compute_the_angle
#print axioms PhQVerif.Props.C11.direction_kernels_compute_the_angle
#print axioms PhQVerif.Props.C11.symmetric_over_reals
#print axioms PhQVerif.Props.C11.length_independent
#print axioms PhQVerif.Props.C11.range_over_reals
#print axioms PhQVerif.Props.C11.parallel_is_zero
#print axioms PhQVerif.Props.C11.antiparallel_is_pi
#print axioms PhQVerif.Props.C11.is_atan2
#print axioms PhQVerif.Props.C11.folded_constant_comparisons
#eval s!"COUNT C11.angle_entries {AngleEntries.rows.length}"
#eval s!"COUNT C11.symmetric_pairs {AngleSym.rows.length}"
#eval s!"COUNT C11.quantity_level_rows {AngleKernel.rows.length}"
