import PhQVerif.Props.C11
open PhQVerif Generated
#print axioms PhQVerif.Props.C11.acos_argument_clamped
#print axioms PhQVerif.Props.C11.result_in_range
#print axioms PhQVerif.Props.C11.symmetric
#print axioms PhQVerif.Props.C11.quantity_level_is_kernel
#eval s!"COUNT C11.angle_entries {AngleEntries.rows.length}"
#eval s!"COUNT C11.symmetric_pairs {AngleSym.rows.length}"
#eval s!"COUNT C11.quantity_level_rows {AngleKernel.rows.length}"
