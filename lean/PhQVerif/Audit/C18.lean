import PhQVerif.Props.C18
open PhQVerif Generated PhQVerif.Props.C18
#print axioms dynamic_pressure
#print axioms sound_speed_temperature
#print axioms reynolds_number
#print axioms prandtl_number
#print axioms gas_constant
#print axioms thermal_diffusivity
#print axioms period_of_frequency
#print axioms strain_of_displacement_gradient
#print axioms volumetric_thermal_strain
#print axioms von_mises
#print axioms traction
#print axioms isotropic_stress
#print axioms all_formats
#print axioms PhQVerif.Props.C18.few_ulps
#print axioms PhQVerif.Props.C18.rounding_counts
#print axioms PhQVerif.Props.C18.few_ulps_relative
#print axioms PhQVerif.Props.C18.rearrangements_invert_the_definitions
#eval s!"COUNT C18.slots_in_positive_fragment {(PhQVerif.Props.C18.definitions.map (fun e => ((e.numOuts.getD []).filterMap (posFrag e.fm.fmt.p)).length)).sum}"
#eval s!"COUNT C18.slots_total {(PhQVerif.Props.C18.definitions.map (fun e => (e.numOuts.getD []).length)).sum}"
#eval s!"COUNT C18.rearrangement_pairs {(InversePairs.rows.filter (fun p => PhQVerif.Props.C18.definitions.any (fun d => (p.id.splitOn d.id).length > 1))).length}"
