import PhQVerif.Props.C17
open PhQVerif Generated
#print axioms PhQVerif.Props.C17.layout
#print axioms PhQVerif.Props.C17.zero_is_pos_zero
#print axioms PhQVerif.Props.C17.accessors_expose_stored_value
#print axioms PhQVerif.Props.C17.no_uninitialised_read
#eval s!"COUNT C17.layout_rows {Layout.rows.length}"
#eval s!"COUNT C17.zero_entries {(quantityEntries.filter (fun e => e.mem == .zero)).length}"
#eval s!"COUNT C17.accessor_entries {(quantityEntries.filter (fun e => match e.mem with | .value | .allComps | .comp _ | .setValue | .mutableValue | .setAll | .mutAll | .setComp _ | .mutComp _ => true | _ => false)).length}"
