import PhQVerif.Props.C02
open PhQVerif Generated
#print axioms PhQVerif.Props.C02.free_functions_agree
#print axioms PhQVerif.Props.C02.scalar_convert_all_pairs
#print axioms PhQVerif.Props.C02.class_entry_points_agree
#print axioms PhQVerif.Props.C02.standard_unit_exact
#print axioms PhQVerif.Props.C02.conversions_keep_precision
#print axioms PhQVerif.Props.C02.scaling_kernel_constant
#print axioms PhQVerif.Props.C02.read_back_in_the_same_unit
#eval s!"COUNT C02.unit_entries {unitEntries.length}"
#eval s!"COUNT C02.class_unit_entries {(quantityEntries.filter (fun e => e.enumArgs != [])).length}"
#eval s!"COUNT C02.convert_pairs_f64 {(convertPairsByType64.map (fun t => t.2.length)).sum}"
#eval s!"COUNT C02.convert_pairs_f32 {(convertPairsByType32.map (fun t => t.2.length)).sum}"
#eval s!"COUNT C02.convert_pairs_f80 {(convertPairsByType80.map (fun t => t.2.length)).sum}"
