import PhQVerif.Props.C13
open PhQVerif Generated PhQVerif.Props.C13
#print axioms compressible_stress
#print axioms compressible_strain_rate_inverts_stress
#print axioms compressible_strain_ignored
#print axioms compressible_one_argument_constructor
#print axioms compressible_stress_linear
#print axioms compressible_strain_rate_linear
#print axioms incompressible_stress
#print axioms incompressible_strain_rate_inverts_stress
#print axioms incompressible_strain_ignored
#print axioms all_formats
#print axioms overloads_same_formula
#print axioms PhQVerif.Props.C13.overloads_keep_precision
#eval s!"COUNT C13.model_overload_rows {ModelOverloads.rows.length}"
