import PhQVerif.Props.C20
open PhQVerif Generated
#print axioms PhQVerif.Props.C20.every_lookup_hits
#print axioms PhQVerif.Props.C20.every_abbreviation_lookup_hits
#print axioms PhQVerif.Props.C20.no_uninitialised_read
#print axioms PhQVerif.Props.C20.no_explored_path_throws
#print axioms PhQVerif.Props.C20.parse_enumeration_total_and_valid
#eval s!"COUNT C20.traced_instantiations {tracedInstantiations}"
#eval s!"COUNT C20.entries {quantityEntries.length + unitEntries.length + modelEntries.length}"
#eval s!"COUNT C20.lookup_keys {(unitTypes.map (fun u => u.values.length * 7 + 4)).sum}"
