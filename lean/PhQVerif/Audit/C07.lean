import PhQVerif.Props.C07
open PhQVerif Generated
#print axioms PhQVerif.Props.C07.coherent
#print axioms PhQVerif.Props.C07.constants_match_magnitudes
#eval s!"COUNT C07.unit_types {unitTypes.length}"
#eval s!"COUNT C07.unit_systems {unitSystemValues.length}"
#eval s!"COUNT C07.consistent_units {(unitTypes.map (·.consistent.length)).sum}"
#eval s!"COUNT C07.units_for_reverse_lookup {(unitTypes.map (·.values.length)).sum}"
