import PhQVerif.Props.C06
open PhQVerif Generated
#print axioms PhQVerif.Props.C06.unit_symbols_have_declared_dimensions
#print axioms PhQVerif.Props.C06.quantity_dimensions
#print axioms PhQVerif.Props.C06.print_one_iff_dimensionless
#print axioms PhQVerif.Props.C06.order_and_hash
#eval s!"COUNT C06.unit_types {unitTypes.length}"
#eval s!"COUNT C06.units {(unitTypes.map (·.values.length)).sum}"
#eval s!"COUNT C06.quantity_classes {(classes.filter (·.dims.isSome)).length}"
