import PhQVerif.Props.C01
open PhQVerif Generated
#print axioms PhQVerif.Props.C01.kernels_match_their_symbols
#print axioms PhQVerif.Props.C01.scale_constant_real_bound
#print axioms PhQVerif.Props.C01.conversion_step_accuracy
#print axioms PhQVerif.Props.C01.conversion_step_accuracy_div
#print axioms PhQVerif.Props.C01.rational_scale_kernel_end_to_end
#eval s!"COUNT C01.units {(unitTypes.map (·.values.length)).sum}"
#eval s!"COUNT C01.kernel_checks {3 * 2 * (unitTypes.map (·.values.length)).sum}"
#eval s!"COUNT C01.atoms_in_oracle {atomTable.length}"
