import PhQVerif.Props.C08
open PhQVerif Generated
#print axioms PhQVerif.Props.C08.tables_total_and_unambiguous
#print axioms PhQVerif.Props.C08.dispatch_tables_total
#print axioms PhQVerif.Props.C08.spellings_denote
#print axioms PhQVerif.Props.C08.non_spellings_parse_to_nothing
#eval s!"COUNT C08.enumeration_types {(unitTypes ++ plainEnums).length}"
#eval s!"COUNT C08.enumerators {((unitTypes ++ plainEnums).map (·.values.length)).sum}"
#eval s!"COUNT C08.spellings {((unitTypes ++ plainEnums).map (·.spellings.length)).sum}"
