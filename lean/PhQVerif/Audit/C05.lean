import PhQVerif.Props.C05
open PhQVerif Generated
#print axioms PhQVerif.Props.C05.inverse_pairs
#eval s!"COUNT C05.inverse_pairs {InversePairs.rows.length}"
#eval s!"SAMPLE {InversePairs.p0.id}"
