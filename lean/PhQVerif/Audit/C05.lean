import PhQVerif.Props.C05
open PhQVerif Generated
#print axioms PhQVerif.Props.C05.inverse_pairs
#print axioms PhQVerif.Props.C05.operator_spellings_are_the_constructors
#eval s!"COUNT C05.inverse_pairs {InversePairs.rows.length}"
#eval s!"SAMPLE {InversePairs.p0.id}"
#print axioms PhQVerif.Props.C05.round_trip_few_ulps
#print axioms PhQVerif.Props.C05.rounding_counts
#eval s!"COUNT C05.composite_slots_in_positive_fragment {(InversePairs.rows.flatMap fun p => p.comp.filterMap (posFrag 53)).length}"
