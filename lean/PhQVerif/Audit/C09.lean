import PhQVerif.Props.C09
open PhQVerif Generated PhQVerif.Props.C09
#print axioms vector_dot
#print axioms vector_cross
#print axioms vector_dyadic
#print axioms vector_magnitude
#print axioms planar_cross
#print axioms dyad_determinant
#print axioms dyad_adjugate
#print axioms dyad_cofactors
#print axioms dyad_inverse
#print axioms dyad_is_symmetric
#print axioms symmetric_determinant
#print axioms symmetric_adjugate
#print axioms mul_dyad_dyad
#print axioms mul_symmetric_dyad
#print axioms mul_dyad_vector
#print axioms mul_symmetric_planar
#print axioms all_formats
#print axioms PhQVerif.Props.C09.symmetric_inverse
#print axioms PhQVerif.Props.C09.dyad_inverse_f32
#print axioms PhQVerif.Props.C09.dyad_inverse_f80
#print axioms PhQVerif.Props.C09.symmetric_inverse_f32
#print axioms PhQVerif.Props.C09.symmetric_inverse_f80
#eval s!"COUNT C09.format_triples {FmtTriples.rows.length}"
