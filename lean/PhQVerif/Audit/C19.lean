import PhQVerif.Props.C19
open PhQVerif Generated Init
#print axioms PhQVerif.Props.C19.enumeration_tables_ready
#print axioms PhQVerif.Props.C19.unit_tables_ready
#print axioms PhQVerif.Props.C19.all_facilities_but_conversion_ready
#print axioms PhQVerif.Props.C19.ordering_dichotomy
#eval s!"COUNT C19.table_declarations {tableDecls.length}"
#eval s!"COUNT C19.enumerations {PhQVerif.Props.C19.enumerations.length}"
#eval s!"COUNT C19.unordered_tables {(tableDecls.filter (fun d => d.decl != .primary && classify d == .unordered)).length}"
#eval s!"SAMPLE {(tableDecls.filter (fun d => d.decl != .primary && classify d == .unordered)).take 2 |>.map (fun d => (d.name, d.arg, d.file, d.line))}"
#eval s!"COUNT C19.unit_types_whose_conversion_is_not_guaranteed {(PhQVerif.Props.C19.unitTypes.filter (fun u => !facilityReady tableDecls .convert u)).length}"
#eval s!"COUNT C19.unready_other {((PhQVerif.Props.C19.enumerations.flatMap fun u => Facility.all.filter fun f => f != .convert && (f == .abbreviation || f == .parse || PhQVerif.Props.C19.unitTypes.contains u) && !facilityReady tableDecls f u)).length}"
