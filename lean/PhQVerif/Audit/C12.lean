import PhQVerif.Props.C12
open PhQVerif Generated PhQVerif.Props.C12
#print axioms young_identity
#print axioms poisson_identity
#print axioms rebuild_young_poisson
#print axioms rebuild_young_lame
#print axioms rebuild_young_pwave
#print axioms rebuild_lame_poisson
#print axioms rebuild_isentropic_pwave
#print axioms stress_is_hooke
#print axioms strain_inverts_stress
#print axioms strain_rate_ignored
#print axioms all_formats
#print axioms overloads_same_formula
#print axioms PhQVerif.Props.C12.overloads_keep_precision
#eval s!"COUNT C12.model_overload_rows {ModelOverloads.rows.length}"
#eval s!"COUNT C12.format_triples {FmtTriples.rows.length}"
