/-
Theory/Direction.lean — what the normalising tree computes, over the reals.
-/
import Mathlib.Tactic.Ring
import Mathlib.Tactic.FieldSimp
import Mathlib.Tactic.Positivity
import Mathlib.Tactic.Linarith
import Mathlib.Analysis.SpecialFunctions.Sqrt
import PhQVerif.Theory.Skeleton
import PhQVerif.Core.Direction

namespace PhQVerif

theorem isPosZero_evalR {ex : Expr} (h : isPosZero ex = true) (x : Nat → ℝ) : ex.evalR x = 0 := by
  cases ex with
  | lit f s m e => cases s <;> cases m <;> simp [isPosZero] at h; simp [Expr.evalR, dyadicR]
  | cast f a =>
    cases a with
    | lit g s m e => cases s <;> cases m <;> simp [isPosZero] at h; simp [Expr.evalR, dyadicR]
    | _ => simp [isPosZero] at h
  | _ => simp [isPosZero] at h

/-- What a normalising tree returns on real inputs: the components `c` of the vector being
normalised, the squared length `S = Σ cᵢ²`, and the result — `cᵢ / √S` if `S > 0`, all zeros
otherwise. -/
def NormalisesR (t : DTree) (x : Nat → ℝ) : Prop :=
  ∃ (c : List ℝ), (c.length = 2 ∨ c.length = 3) ∧
    let S := (c.map (· ^ 2)).sum
    (0 < S → t.valuesR x = some (c.map fun ci => some (ci / Real.sqrt S))) ∧
    (¬ 0 < S → t.valuesR x = some (c.map fun _ => some 0))

theorem dirTreeOk_sound {fm : Fm} {t : DTree} (h : dirTreeOk fm t = true) (x : Nat → ℝ) :
    NormalisesR t x := by
  unfold dirTreeOk at h
  split at h
  · rename_i t0 S lf le f1 a g1 s1 f2 b g2 s2 z1 z2
    simp only [Bool.and_eq_true, beq_iff_eq] at h
    obtain ⟨⟨⟨⟨h1, h2⟩, hS⟩, hz1⟩, hz2⟩ := h
    subst h1; subst h2
    refine ⟨[a.evalR x, b.evalR x], Or.inl rfl, ?_, ?_⟩
    · intro hpos
      have hS' : s2.evalR x = a.evalR x ^ 2 + b.evalR x ^ 2 := by
        rw [hS]; simp [Expr.evalR, BinOp.evalR]; ring
      simp only [List.map, List.sum_cons, List.sum_nil, add_zero] at hpos
      have hc : CmpOp.evalR .gt (s2.evalR x) ((Expr.lit lf false 0 le).evalR x) = true := by
        simp [CmpOp.evalR, Expr.evalR, dyadicR, hS', hpos]
      unfold DTree.valuesR
      simp only [DTree.leafR]
      rw [if_pos hc]
      simp [Out.evalR, Expr.evalR, BinOp.evalR, UnOp.evalR, hS']
    · intro hneg
      have hS' : s2.evalR x = a.evalR x ^ 2 + b.evalR x ^ 2 := by
        rw [hS]; simp [Expr.evalR, BinOp.evalR]; ring
      simp only [List.map, List.sum_cons, List.sum_nil, add_zero] at hneg
      have hc : CmpOp.evalR .gt (s2.evalR x) ((Expr.lit lf false 0 le).evalR x) = false := by
        simp [CmpOp.evalR, Expr.evalR, dyadicR, hS']; linarith
      simp [DTree.valuesR, DTree.leafR, hc, Out.evalR, isPosZero_evalR hz1, isPosZero_evalR hz2]
  · rename_i t0 S lf le f1 a g1 s1 f2 b g2 s2 f3 c g3 s3 z1 z2 z3
    simp only [Bool.and_eq_true, beq_iff_eq] at h
    obtain ⟨⟨⟨⟨⟨⟨h1, h2⟩, h3⟩, hS⟩, hz1⟩, hz2⟩, hz3⟩ := h
    subst h1; subst h2; subst h3
    refine ⟨[a.evalR x, b.evalR x, c.evalR x], Or.inr rfl, ?_, ?_⟩
    · intro hpos
      have hS' : s3.evalR x = a.evalR x ^ 2 + b.evalR x ^ 2 + c.evalR x ^ 2 := by
        rw [hS]; simp [Expr.evalR, BinOp.evalR]; ring
      simp only [List.map, List.sum_cons, List.sum_nil, add_zero] at hpos
      have hc : CmpOp.evalR .gt (s3.evalR x) ((Expr.lit lf false 0 le).evalR x) = true := by
        simp [CmpOp.evalR, Expr.evalR, dyadicR, hS']; linarith
      unfold DTree.valuesR
      simp only [DTree.leafR]
      rw [if_pos hc]
      simp [Out.evalR, Expr.evalR, BinOp.evalR, UnOp.evalR, hS', add_assoc]
    · intro hneg
      have hS' : s3.evalR x = a.evalR x ^ 2 + b.evalR x ^ 2 + c.evalR x ^ 2 := by
        rw [hS]; simp [Expr.evalR, BinOp.evalR]; ring
      simp only [List.map, List.sum_cons, List.sum_nil, add_zero] at hneg
      have hc : CmpOp.evalR .gt (s3.evalR x) ((Expr.lit lf false 0 le).evalR x) = false := by
        simp [CmpOp.evalR, Expr.evalR, dyadicR, hS']; linarith
      simp [DTree.valuesR, DTree.leafR, hc, Out.evalR, isPosZero_evalR hz1, isPosZero_evalR hz2,
        isPosZero_evalR hz3]
  · exact absurd h (by simp)

/-- A normalised non-zero vector has length one, and each component has the sign of the input
component (it is the input component divided by a positive number). -/
theorem unit_length (c : List ℝ) (hlen : c.length = 2 ∨ c.length = 3)
    (hpos : 0 < (c.map (· ^ 2)).sum) :
    ((c.map fun ci => ci / Real.sqrt (c.map (· ^ 2)).sum).map (· ^ 2)).sum = 1 ∧
    0 < Real.sqrt (c.map (· ^ 2)).sum := by
  have hs : 0 < Real.sqrt (c.map (· ^ 2)).sum := Real.sqrt_pos.mpr hpos
  refine ⟨?_, hs⟩
  rcases hlen with h | h
  · match c, h with
    | [a, b], _ =>
      simp only [List.map, List.sum_cons, List.sum_nil, add_zero] at hpos hs ⊢
      rw [div_pow, div_pow, Real.sq_sqrt hpos.le]
      field_simp
  · match c, h with
    | [a, b, d], _ =>
      simp only [List.map, List.sum_cons, List.sum_nil, add_zero] at hpos hs ⊢
      rw [div_pow, div_pow, div_pow, Real.sq_sqrt hpos.le]
      field_simp

/-- Magnitude times direction rebuilds the vector (over the reals), for a non-zero vector. -/
theorem magnitude_times_direction (c : List ℝ) (hpos : 0 < (c.map (· ^ 2)).sum) :
    (c.map fun ci => Real.sqrt (c.map (· ^ 2)).sum * (ci / Real.sqrt (c.map (· ^ 2)).sum)) = c := by
  have hs : Real.sqrt (c.map (· ^ 2)).sum ≠ 0 := (Real.sqrt_pos.mpr hpos).ne'
  have : ∀ ci : ℝ, Real.sqrt (c.map (· ^ 2)).sum * (ci / Real.sqrt (c.map (· ^ 2)).sum) = ci := by
    intro ci; field_simp
  simp [this]

end PhQVerif
