/-
Theory/Angle.lean — soundness of the C11 checkers.
-/
import PhQVerif.Theory.FlBasic
import PhQVerif.Theory.Access
import PhQVerif.Theory.Arith
import PhQVerif.Core.Angle

namespace PhQVerif

/-- The value handed to `acos` is `+1`, `-1`, or a value `x` for which the code has established
`¬ (x < -1)` and `¬ (1 < x)` (IEEE comparisons against the literals `-1`, `1` of some format):
it lies in `[-1, 1]` unless it is NaN. -/
def ClampedArg (L : Libm) (env : Nat → Fl) (arg : Expr) : Prop :=
  isLitOne false arg = true ∨ isLitOne true arg = true ∨
  ((∃ m1 : Expr, isLitOne true m1 = true ∧ Fl.lt (arg.evalF L env) (m1.evalF L env) = false) ∧
   (∃ p1 : Expr, isLitOne false p1 = true ∧ Fl.lt (p1.evalF L env) (arg.evalF L env) = false))

theorem mem_of_contains {l : List Expr} {a : Expr} (h : l.contains a = true) : a ∈ l := by
  simpa using h

/-- **Soundness of `angleTreeOk`.** On every input the kernel returns `acos` of a clamped argument. -/
theorem angleTreeOk_sound (L : Libm) (env : Nat → Fl) :
    ∀ (t : DTree) (lo hi : List Expr), angleTreeOk t lo hi = true →
      (∀ a ∈ lo, ∃ m1 : Expr, isLitOne true m1 = true ∧ Fl.lt (a.evalF L env) (m1.evalF L env) = false) →
      (∀ b ∈ hi, ∃ p1 : Expr, isLitOne false p1 = true ∧ Fl.lt (p1.evalF L env) (b.evalF L env) = false) →
      ∃ f arg, t.evalF L env = some [.num (.un .acos f arg)] ∧ ClampedArg L env arg := by
  intro t
  induction t with
  | unexplored => intro lo hi h; simp [angleTreeOk] at h
  | leaf outs =>
    intro lo hi h hlo hhi
    match outs, h with
    | [.num (.un .acos f arg)], h =>
      simp only [angleTreeOk, Bool.or_eq_true, Bool.and_eq_true] at h
      refine ⟨f, arg, rfl, ?_⟩
      rcases h with (h | h) | h
      · exact Or.inl h
      · exact Or.inr (Or.inl h)
      · exact Or.inr (Or.inr ⟨hlo _ (mem_of_contains h.1), hhi _ (mem_of_contains h.2)⟩)
  | node op a b y n ihy ihn =>
    intro lo hi h hlo hhi
    cases op with
    | lt =>
      simp only [angleTreeOk] at h
      by_cases hb : isLitOne true b = true
      · simp only [hb, if_true, Bool.and_eq_true] at h
        simp only [DTree.evalF, CmpOp.evalF]
        by_cases hc : Fl.lt (a.evalF L env) (b.evalF L env) = true
        · simp only [hc, if_true]
          exact ihy lo hi h.1 hlo hhi
        · simp only [hc, Bool.false_eq_true, if_false]
          refine ihn (a :: lo) hi h.2 ?_ hhi
          intro x hx
          rcases List.mem_cons.mp hx with rfl | hx
          · exact ⟨b, hb, by simpa using hc⟩
          · exact hlo x hx
      · simp only [hb, Bool.false_eq_true, if_false] at h
        by_cases ha : isLitOne false a = true
        · simp only [ha, if_true, Bool.and_eq_true] at h
          simp only [DTree.evalF, CmpOp.evalF]
          by_cases hc : Fl.lt (a.evalF L env) (b.evalF L env) = true
          · simp only [hc, if_true]
            exact ihy lo hi h.1 hlo hhi
          · simp only [hc, Bool.false_eq_true, if_false]
            refine ihn lo (b :: hi) h.2 hlo ?_
            intro x hx
            rcases List.mem_cons.mp hx with rfl | hx
            · exact ⟨a, ha, by simpa using hc⟩
            · exact hhi x hx
        · simp [ha] at h
    | gt => simp [angleTreeOk] at h
    | le => simp [angleTreeOk] at h
    | ge => simp [angleTreeOk] at h
    | eq => simp [angleTreeOk] at h
    | ne => simp [angleTreeOk] at h

/-- Reordering the factors of products does not change the floating-point value. -/
theorem evalF_commNorm (L : Libm) (env : Nat → Fl) (e : Expr) : e.commNorm.evalF L env = e.evalF L env := by
  induction e with
  | var i f => rfl
  | lit f s m e => rfl
  | pi f m e => rfl
  | uninit f => rfl
  | un op f a ih => simp only [Expr.commNorm, Expr.evalF, ih]
  | powi f n a ih => simp only [Expr.commNorm, Expr.evalF, ih]
  | cast f a ih => simp only [Expr.commNorm, Expr.evalF, ih]
  | bin op f a b iha ihb =>
    cases op <;> simp only [Expr.commNorm, Expr.evalF, iha, ihb]
    split
    · simp only [Expr.evalF, iha, ihb]
    · simp only [Expr.evalF, iha, ihb]
      exact Fl.mul_comm _ _ _

theorem Out.evalF_commNorm (L : Libm) (env : Nat → Fl) (o : Out) : o.commNorm.evalF L env = o.evalF L env := by
  cases o <;> simp [Out.commNorm, Out.evalF, PhQVerif.evalF_commNorm]

theorem DTree.valuesF_commNorm (L : Libm) (env : Nat → Fl) (t : DTree) :
    t.commNorm.valuesF L env = t.valuesF L env := by
  induction t with
  | leaf outs =>
    simp only [DTree.commNorm, DTree.valuesF, DTree.evalF, Option.map_some, List.map_map]
    congr 1
    apply List.map_congr_left
    intro o _
    exact Out.evalF_commNorm L env o
  | unexplored => rfl
  | node op a b y n ihy ihn =>
    simp only [DTree.commNorm, DTree.valuesF, DTree.evalF, PhQVerif.evalF_commNorm] at *
    split
    · exact ihy
    · exact ihn

theorem Out.evalF_renameVars (L : Libm) (env : Nat → Fl) (r : Nat → Nat) (o : Out) :
    (o.renameVars r).evalF L env = o.evalF L (fun i => env (r i)) := by
  cases o <;> simp [Out.renameVars, Out.evalF, PhQVerif.evalF_renameVars]

theorem DTree.valuesF_renameVars (L : Libm) (env : Nat → Fl) (r : Nat → Nat) (t : DTree) :
    (t.renameVars r).valuesF L env = t.valuesF L (fun i => env (r i)) := by
  induction t with
  | leaf outs =>
    simp only [DTree.renameVars, DTree.valuesF, DTree.evalF, Option.map_some, List.map_map]
    congr 1
    apply List.map_congr_left
    intro o _
    exact Out.evalF_renameVars L env r o
  | unexplored => rfl
  | node op a b y n ihy ihn =>
    simp only [DTree.renameVars, DTree.valuesF, DTree.evalF, PhQVerif.evalF_renameVars] at *
    split
    · exact ihy
    · exact ihn

/-- **Symmetry.** If the argument-swapped tree of `e₁` equals the tree of `e₂` up to the order of
factors, then `e₁` on `(b, a)` returns bit for bit what `e₂` returns on `(a, b)`. -/
theorem swapped_trees_agree (L : Libm) (env : Nat → Fl) {t1 t2 : DTree} {r : Nat → Nat}
    (h : (t1.renameVars r).commNorm.beq t2.commNorm = true) :
    t1.valuesF L (fun i => env (r i)) = t2.valuesF L env := by
  rw [← DTree.valuesF_renameVars, ← DTree.valuesF_commNorm L env (t1.renameVars r), DTree.beq_eq h,
    DTree.valuesF_commNorm]

end PhQVerif
