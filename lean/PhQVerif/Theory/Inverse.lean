/-
Theory/Inverse.lean — what it means for two relations to undo each other, and the tactic that the
generated per-pair obligations use.
-/
import Mathlib.Tactic.Ring
import Mathlib.Tactic.FieldSimp
import Mathlib.Tactic.Positivity
import Mathlib.Tactic.Linarith
import Mathlib.Analysis.SpecialFunctions.Sqrt
import PhQVerif.Theory.EvalR

namespace PhQVerif

/-- The real-number evaluation of `e` at `x` involves no division by zero and no square root of a
negative number. -/
def Expr.DefinedR (x : Nat → ℝ) : Expr → Prop
  | .un .sqrt _ a => DefinedR x a ∧ 0 ≤ a.evalR x
  | .un _ _ a => DefinedR x a
  | .bin .div _ a b => DefinedR x a ∧ DefinedR x b ∧ b.evalR x ≠ 0
  | .bin _ _ a b => DefinedR x a ∧ DefinedR x b
  | .powi _ _ a => DefinedR x a
  | .cast _ a => DefinedR x a
  | _ => True

/-- One inverse pair `g ∘ f`: the composite expressions (one per component of the recovered
quantity, in the inputs of `f`) and, for each, the input it must reproduce. -/
structure InversePair where
  id : String
  comp : List Expr
  target : List Nat
deriving Repr, Inhabited

/-- Composing the two relations returns the original quantity, for all positive inputs at which the
composition is defined (no division by zero: e.g. `γ = 1` for the relations that divide by `γ − 1`). -/
def InverseOn (p : InversePair) : Prop :=
  ∀ x : Nat → ℝ, (∀ i, 0 < x i) → (∀ e ∈ p.comp, e.DefinedR x) →
    p.comp.map (fun e => e.evalR x) = p.target.map (fun i => x i)

theorem forall_nil' {α : Type} {P : α → Prop} : ∀ p ∈ ([] : List α), P p := by simp
theorem forall_cons' {α : Type} {P : α → Prop} {a : α} {l : List α} (h : P a) (t : ∀ p ∈ l, P p) :
    ∀ p ∈ a :: l, P p := by
  intro p hp
  rcases List.mem_cons.mp hp with rfl | h'
  · exact h
  · exact t p h'
theorem forall_append' {α : Type} {P : α → Prop} {l₁ l₂ : List α} (h₁ : ∀ p ∈ l₁, P p)
    (h₂ : ∀ p ∈ l₂, P p) : ∀ p ∈ l₁ ++ l₂, P p := by
  intro p hp
  rcases List.mem_append.mp hp with h | h
  · exact h₁ p h
  · exact h₂ p h

/-- Discharge `InverseOn` for a concrete pair: unfold to arithmetic, clear denominators, cancel
square roots of squares and squares of square roots (all inputs are positive), normalise. -/
macro "inverse_pair" : tactic =>
  `(tactic| (
    intro x hx hdef
    have h0 := hx 0; have h1 := hx 1; have h2 := hx 2; have h3 := hx 3; have h4 := hx 4
    have h5 := hx 5; have h6 := hx 6; have h7 := hx 7; have h8 := hx 8; have h9 := hx 9
    have n0 := (hx 0).ne'; have n1 := (hx 1).ne'; have n2 := (hx 2).ne'; have n3 := (hx 3).ne'
    simp only [List.mem_cons, List.not_mem_nil, or_false, forall_eq_or_imp, forall_eq, Expr.DefinedR,
      Expr.evalR, BinOp.evalR, UnOp.evalR, dyadicR, true_and, and_true] at hdef
    simp only [List.map, Expr.evalR, BinOp.evalR, UnOp.evalR, dyadicR, List.cons.injEq, and_true]
    try norm_num at hdef
    try norm_num
    try simp only [and_assoc] at hdef
    first
      | (obtain ⟨d1, d2, d3, d4, d5, d6⟩ := hdef)
      | (obtain ⟨d1, d2, d3, d4, d5⟩ := hdef)
      | (obtain ⟨d1, d2, d3, d4⟩ := hdef)
      | (obtain ⟨d1, d2, d3⟩ := hdef)
      | (obtain ⟨d1, d2⟩ := hdef)
      | skip
    all_goals (try simp (disch := positivity) only [Real.mul_self_sqrt, Real.sq_sqrt, Real.sqrt_sq,
      Real.sqrt_mul_self, mul_pow])
    all_goals (try (first
      | done
      | ((repeat' constructor) <;> first
          | done
          | (field_simp; done)
          | (field_simp; ring1)
          | ring1
          | (rw [div_eq_iff (by assumption)]; field_simp; done)
          | (rw [div_eq_iff (by assumption)]; field_simp; ring1)
          | (rw [Real.sqrt_eq_iff_mul_self_eq (by positivity) (by positivity)]; field_simp; done)
          | (rw [Real.sqrt_eq_iff_mul_self_eq (by positivity) (by positivity)]; field_simp; ring1)
          | (field_simp; rw [Real.sq_sqrt (by positivity)]; done)
          | (field_simp; rw [Real.sq_sqrt (by positivity)]; ring1)
          | (rw [Real.sq_sqrt (by positivity)]; field_simp; done)
          | (rw [Real.sq_sqrt (by positivity)]; field_simp; ring1)
          | (simp (disch := positivity) only [Real.sq_sqrt, Real.sqrt_sq]; field_simp; done)
          | (simp (disch := positivity) only [Real.sq_sqrt, Real.sqrt_sq]; field_simp; ring1))))))

end PhQVerif
