/-
Theory/Tensor.lean — embeddings of the four value shapes into Mathlib's vectors and matrices, and
helpers to read an entry's real outputs as such.
-/
import Mathlib.LinearAlgebra.Matrix.Adjugate
import Mathlib.LinearAlgebra.Matrix.Determinant.Basic
import Mathlib.LinearAlgebra.CrossProduct
import Mathlib.LinearAlgebra.Matrix.Notation
import Mathlib.Tactic.Ring
import Mathlib.Tactic.FieldSimp
import PhQVerif.Theory.Skeleton

namespace PhQVerif
open Matrix

/-- Inputs `o, o+1, o+2` as a vector. -/
def V3 (x : Nat → ℝ) (o : Nat) : Fin 3 → ℝ := ![x o, x (o + 1), x (o + 2)]
/-- Inputs `o, o+1` as a planar vector embedded in three dimensions. -/
def V2 (x : Nat → ℝ) (o : Nat) : Fin 3 → ℝ := ![x o, x (o + 1), 0]
/-- Inputs `o … o+8` as a dyad, row-major `xx xy xz yx yy yz zx zy zz`. -/
def D9 (x : Nat → ℝ) (o : Nat) : Matrix (Fin 3) (Fin 3) ℝ :=
  !![x o, x (o + 1), x (o + 2); x (o + 3), x (o + 4), x (o + 5); x (o + 6), x (o + 7), x (o + 8)]
/-- Inputs `o … o+5` as a symmetric dyad, stored `xx xy xz yy yz zz`. -/
def S6 (x : Nat → ℝ) (o : Nat) : Matrix (Fin 3) (Fin 3) ℝ :=
  !![x o, x (o + 1), x (o + 2); x (o + 1), x (o + 3), x (o + 4); x (o + 2), x (o + 4), x (o + 5)]

/-- Real values of the numeric outputs of a straight-line entry. -/
noncomputable def Entry.outsR (e : Entry) (x : Nat → ℝ) : List ℝ :=
  (e.numOuts.getD []).map (fun ex => ex.evalR x)

def vecOfList : List ℝ → Fin 3 → ℝ
  | [a, b, c] => ![a, b, c]
  | [a, b] => ![a, b, 0]
  | _ => 0

def matOfList : List ℝ → Matrix (Fin 3) (Fin 3) ℝ
  | [a, b, c, d, e, f, g, h, i] => !![a, b, c; d, e, f; g, h, i]
  | [a, b, c, d, e, f] => !![a, b, c; b, d, e; c, e, f]
  | _ => 0

end PhQVerif
