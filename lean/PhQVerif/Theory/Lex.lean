/-
Theory/Lex.lean — soundness of the C14 checker: a tree accepted by `lexTreeOk op n` returns, on
every pair of `n`-component operands over any linear order, the value of `op` on their
lexicographic comparison in declared component order.
-/
import Mathlib.Order.Defs.LinearOrder
import Mathlib.Order.Compare
import Mathlib.Tactic.Cases
import PhQVerif.Core.Lex

namespace PhQVerif

variable {α : Type} [LinearOrder α]

/-- First non-`eq` outcome, else `eq`: the lexicographic combination. -/
def lexList : List Ordering → Ordering
  | [] => .eq
  | .eq :: r => lexList r
  | o :: _ => o

/-- Outcome of comparing component `i` of the left operand (input `i`) with component `i` of the
right operand (input `n + i`). -/
def cmpAt (env : Nat → α) (n i : Nat) : Ordering := compare (env i) (env (n + i))

/-- The lexicographic comparison of the two `n`-component operands stored in `env`. -/
def lexCmp (env : Nat → α) (n : Nat) : Ordering := lexList ((List.range n).map (cmpAt env n))

/-- Evaluate a comparison tree over a linear order. Only trees whose nodes compare input variables
have a value. -/
def DTree.evalOrd (env : Nat → α) : DTree → Option (List Out)
  | .leaf o => some o
  | .unexplored => none
  | .node op (.var i _) (.var j _) y n =>
    if op.holdsOn (compare (env i) (env j)) then evalOrd env y else evalOrd env n
  | .node _ _ _ _ _ => none

theorem holdsOn_eq_sat (op : CmpOp) (r : Ordering) : op.holdsOn r = op.sat.has r := by
  cases op <;> cases r <;> rfl

theorem holdsOn_swap (op : CmpOp) (r : Ordering) : op.holdsOn r.swap = op.swap.holdsOn r := by
  cases op <;> cases r <;> rfl

theorem compl_has (p : Poss) (r : Ordering) : p.compl.has r = !p.has r := by
  cases r <;> rfl

theorem inter_has (p q : Poss) (r : Ordering) : (p.inter q).has r = (p.has r && q.has r) := by
  cases r <;> rfl

theorem not_isEmpty_of_has {p : Poss} {r : Ordering} (h : p.has r = true) : p.isEmpty = false := by
  cases r <;> simp [Poss.has] at h <;> simp [Poss.isEmpty, h]

/-- Leaf lemma: if every component's actual outcome is among those still possible, the actual
lexicographic result is among `lexPossible`. -/
theorem lexPossible_has : ∀ (cs : List Poss) (os : List Ordering), cs.length = os.length →
    (∀ i, i < os.length → (cs.getD i Poss.all).has (os.getD i .eq) = true) →
    (lexPossible cs true).has (lexList os) = true := by
  intro cs
  induction cs with
  | nil =>
    intro os hl _
    cases os with
    | nil => rfl
    | cons _ _ => simp at hl
  | cons c cs ih =>
    intro os hl h
    cases os with
    | nil => simp at hl
    | cons o os =>
      have h0 := h 0 (by simp)
      simp only [List.getD_cons_zero] at h0
      have hrest : ∀ i, i < os.length → (cs.getD i Poss.all).has (os.getD i .eq) = true := by
        intro i hi
        have := h (i + 1) (by simp; omega)
        simpa using this
      have hl' : cs.length = os.length := by simpa using hl
      cases o with
      | lt =>
        simp only [Poss.has] at h0
        simp [lexPossible, lexList, Poss.has, h0]
      | gt =>
        simp only [Poss.has] at h0
        simp [lexPossible, lexList, Poss.has, h0]
      | eq =>
        simp only [Poss.has] at h0
        have := ih os hl' hrest
        simp only [lexPossible, lexList, h0, Bool.and_self, Bool.true_and]
        cases hr : lexList os <;> simp only [hr, Poss.has] at this ⊢ <;> simp [this]

/-- The constraints hold of the actual operands. -/
def SatPoss (env : Nat → α) (n : Nat) (cs : List Poss) : Prop :=
  ∀ i, i < n → (cs.getD i Poss.all).has (cmpAt env n i) = true

theorem satPoss_set {env : Nat → α} {n : Nat} {cs : List Poss} (h : SatPoss env n cs) (i : Nat) (p : Poss)
    (hp : p.has (cmpAt env n i) = true) : SatPoss env n (cs.set i p) := by
  intro j hj
  by_cases hij : j = i
  · subst hij
    by_cases hlen : j < cs.length
    · simpa [List.getD_eq_getElem?_getD, List.getElem?_set, hlen] using hp
    · have : cs.set j p = cs := by
        apply List.set_eq_of_length_le; omega
      rw [this]; exact h j hj
  · have : (cs.set i p).getD j Poss.all = cs.getD j Poss.all := by
      simp [List.getD_eq_getElem?_getD, List.getElem?_set, Ne.symm hij]
    rw [this]; exact h j hj

/-- **Soundness of the lexicographic checker.** -/
theorem lexTreeOk_sound (op : CmpOp) (n : Nat) (env : Nat → α) :
    ∀ (t : DTree) (cs : List Poss), cs.length = n → SatPoss env n cs → lexTreeOk op n t cs = true →
      t.evalOrd env = some [.bool (op.holdsOn (lexCmp env n))] := by
  intro t
  induction t with
  | unexplored => intro cs _ _ h; simp [lexTreeOk] at h
  | leaf outs =>
    intro cs hlen hsat h
    match outs, h with
    | [.bool b], h =>
      simp only [lexTreeOk, Bool.and_eq_true, Bool.or_eq_true, Bool.not_eq_true', beq_iff_eq] at h
      have hp := lexPossible_has cs ((List.range n).map (cmpAt env n)) (by simp [hlen]) (by
        intro i hi
        have hi' : i < n := by simpa using hi
        have := hsat i hi'
        simpa [List.getD_eq_getElem?_getD, hi'] using this)
      simp only [DTree.evalOrd, Option.some.injEq, List.cons.injEq, and_true, Out.bool.injEq]
      unfold lexCmp
      obtain ⟨⟨h1, h2⟩, h3⟩ := h
      cases hr : lexList ((List.range n).map (cmpAt env n)) <;> simp only [hr, Poss.has] at hp
      · rcases h1 with h1 | h1
        · simp [h1] at hp
        · exact h1.symm
      · rcases h2 with h2 | h2
        · simp [h2] at hp
        · exact h2.symm
      · rcases h3 with h3 | h3
        · simp [h3] at hp
        · exact h3.symm
  | node o a b y nn ihy ihn =>
    intro cs hlen hsat h
    simp only [lexTreeOk] at h
    cases hc : nodeComponent n a b with
    | none => simp [hc] at h
    | some ir =>
      obtain ⟨i, rev⟩ := ir
      simp only [hc, Bool.and_eq_true, Bool.or_eq_true] at h
      -- shape of the node
      cases a with
      | var ia fa =>
        cases b with
        | var ib fb =>
          simp only [nodeComponent] at hc
          -- the actual outcome and the truth of the node
          have key : ∃ truth : Bool, truth = (if rev then o.swap else o).holdsOn (cmpAt env n i) ∧
              o.holdsOn (compare (env ia) (env ib)) = truth ∧ i < n := by
            split at hc
            · rename_i h1
              simp only [Option.some.injEq, Prod.mk.injEq] at hc
              obtain ⟨hi, hr⟩ := hc
              subst hi; subst hr
              simp only [Bool.and_eq_true, decide_eq_true_eq, beq_iff_eq] at h1
              obtain ⟨hlt, hj⟩ := h1
              subst hj
              exact ⟨_, rfl, by simp [cmpAt], hlt⟩
            · split at hc
              · rename_i _ h2
                simp only [Option.some.injEq, Prod.mk.injEq] at hc
                obtain ⟨hi, hr⟩ := hc
                subst hi; subst hr
                simp only [Bool.and_eq_true, decide_eq_true_eq, beq_iff_eq] at h2
                obtain ⟨hlt, hj⟩ := h2
                subst hj
                refine ⟨_, rfl, ?_, hlt⟩
                simp only [cmpAt, if_true]
                rw [← holdsOn_swap]
                congr 1
                rcases lt_trichotomy (env (n + ib)) (env ib) with hh | hh | hh
                · rw [compare_lt_iff_lt.mpr hh, compare_gt_iff_gt.mpr hh]; rfl
                · rw [hh]; simp
                · rw [compare_gt_iff_gt.mpr hh, compare_lt_iff_lt.mpr hh]; rfl
              · simp at hc
          obtain ⟨truth, htruth, hnode, hin⟩ := key
          have hcur := hsat i hin
          simp only [DTree.evalOrd, hnode]
          cases truth with
          | true =>
            simp only [if_true]
            have hy : ((cs.getD i Poss.all).inter (if rev then o.swap else o).sat).has (cmpAt env n i) = true := by
              rw [inter_has, hcur, ← holdsOn_eq_sat, ← htruth]; rfl
            rcases h.1 with he | hok
            · rw [not_isEmpty_of_has hy] at he; exact absurd he (by simp)
            · exact ihy _ (by simp [setAt, hlen]) (satPoss_set hsat i _ hy) hok
          | false =>
            simp only [Bool.false_eq_true, if_false]
            have hy : ((cs.getD i Poss.all).inter (if rev then o.swap else o).sat.compl).has (cmpAt env n i) = true := by
              rw [inter_has, hcur, compl_has, ← holdsOn_eq_sat, ← htruth]; rfl
            rcases h.2 with he | hok
            · rw [not_isEmpty_of_has hy] at he; exact absurd he (by simp)
            · exact ihn _ (by simp [setAt, hlen]) (satPoss_set hsat i _ hy) hok
        | _ => simp [nodeComponent] at hc
      | _ => simp [nodeComponent] at hc

end PhQVerif

namespace PhQVerif
variable {α : Type} [LinearOrder α]

/-- Lexicographic comparison of two component lists. -/
def lexOrd : List α → List α → Ordering
  | a :: u, b :: v => match compare a b with
    | .eq => lexOrd u v
    | o => o
  | _, _ => .eq

theorem lexOrd_refl (u : List α) : lexOrd u u = .eq := by
  induction u with
  | nil => rfl
  | cons a u ih => simp [lexOrd, ih]

/-- The equivalence of the order is equality of all components. -/
theorem lexOrd_eq_iff : ∀ (u v : List α), u.length = v.length → (lexOrd u v = .eq ↔ u = v) := by
  intro u
  induction u with
  | nil => intro v h; cases v <;> simp_all [lexOrd]
  | cons a u ih =>
    intro v h
    cases v with
    | nil => simp at h
    | cons b v =>
      have hl : u.length = v.length := by simpa using h
      simp only [lexOrd, List.cons.injEq]
      rcases lt_trichotomy a b with hab | hab | hab
      · simp [compare_lt_iff_lt.mpr hab, hab.ne]
      · subst hab; simp [ih v hl]
      · simp [compare_gt_iff_gt.mpr hab, hab.ne']

/-- Antisymmetry: swapping the operands swaps the outcome (so `a > b ↔ b < a`). -/
theorem lexOrd_swap : ∀ (u v : List α), lexOrd v u = (lexOrd u v).swap := by
  intro u
  induction u with
  | nil => intro v; cases v <;> rfl
  | cons a u ih =>
    intro v
    cases v with
    | nil => rfl
    | cons b v =>
      simp only [lexOrd]
      rcases lt_trichotomy a b with hab | hab | hab
      · simp [compare_lt_iff_lt.mpr hab, compare_gt_iff_gt.mpr hab]
      · subst hab; simp [ih v]
      · simp [compare_gt_iff_gt.mpr hab, compare_lt_iff_lt.mpr hab]

/-- Transitivity of the strict order. -/
theorem lexOrd_trans : ∀ (u v w : List α), u.length = v.length → v.length = w.length →
    lexOrd u v = .lt → lexOrd v w = .lt → lexOrd u w = .lt := by
  intro u
  induction u with
  | nil => intro v w _ _ h; cases v <;> simp [lexOrd] at h
  | cons a u ih =>
    intro v w h1 h2 huv hvw
    cases v with
    | nil => simp at h1
    | cons b v =>
      cases w with
      | nil => simp at h2
      | cons c w =>
        simp only [lexOrd] at huv hvw ⊢
        rcases lt_trichotomy a b with hab | hab | hab
        · rcases lt_trichotomy b c with hbc | hbc | hbc
          · simp [compare_lt_iff_lt.mpr (lt_trans hab hbc)]
          · subst hbc; simp [compare_lt_iff_lt.mpr hab]
          · simp [compare_gt_iff_gt.mpr hbc] at hvw
        · subst hab
          rcases lt_trichotomy a c with hbc | hbc | hbc
          · simp [compare_lt_iff_lt.mpr hbc]
          · subst hbc
            simp only [compare_eq_iff_eq.mpr rfl] at huv hvw ⊢
            exact ih v w (by simpa using h1) (by simpa using h2) huv hvw
          · simp [compare_gt_iff_gt.mpr hbc] at hvw
        · simp [compare_gt_iff_gt.mpr hab] at huv

/-- The comparison the checker's soundness theorem speaks of is `lexOrd` of the two operands'
component lists. -/
theorem lexCmp_eq_lexOrd (env : Nat → α) (n : Nat) :
    lexCmp env n = lexOrd ((List.range n).map env) ((List.range n).map (fun i => env (n + i))) := by
  unfold lexCmp
  generalize List.range n = l
  induction l with
  | nil => rfl
  | cons i l ih =>
    simp only [List.map_cons, lexList, lexOrd, cmpAt]
    cases h : compare (env i) (env (n + i)) <;> simp [lexList, ih, cmpAt]

end PhQVerif
