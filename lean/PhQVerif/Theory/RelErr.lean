/-
Theory/RelErr.lean — "to a few ulps": a relative error bound for the *positive fragment* of traced
expressions (positive inputs and literals; `×`, `÷`, `+`, `√`, integer powers, format conversions),
by the classical argument: every operation is exact on its computed operands up to one rounding, and
on positive numbers none of these operations amplifies relative error.

`Within U k x' x` says `x'` is `x` up to `k` roundings of unit round-off at most `U`:
`x·ρ^-k ≤ x' ≤ x·ρ^k` with `ρ = 1/(1-U)`. (Using `ρ` on both sides makes the predicate closed under
quotients: `1+U ≤ ρ` and `1/(1-U) = ρ`.) For `k·U` small, `ρ^k - 1 ≈ k·U`.
-/
import Mathlib.Analysis.SpecialFunctions.Sqrt
import Mathlib.Analysis.SpecialFunctions.Pow.Real
import PhQVerif.Theory.Round
import PhQVerif.Theory.EvalR
import PhQVerif.Core.Check

namespace PhQVerif
open Fl

/-- `x'` is within `k` roundings (unit round-off `U`) of the positive real `x`. -/
def Within (U : ℝ) (k : Nat) (x' x : ℝ) : Prop :=
  0 < x ∧ x * ((1 - U) ^ k) ≤ x' ∧ x' * ((1 - U) ^ k) ≤ x

namespace Within

variable {U : ℝ}

theorem pos' (hU0 : 0 ≤ U) (hU1 : U < 1) {k : Nat} {x' x : ℝ} (h : Within U k x' x) : 0 < x' := by
  obtain ⟨hx, h1, _⟩ := h
  have : 0 < (1 - U) ^ k := pow_pos (by linarith) k
  exact lt_of_lt_of_le (by positivity) h1

theorem refl {x : ℝ} (hx : 0 < x) : Within U 0 x x := ⟨hx, by simp, by simp⟩

theorem mono (hU0 : 0 ≤ U) (hU1 : U < 1) {k k' : Nat} (hk : k ≤ k') {x' x : ℝ} (h : Within U k x' x) :
    Within U k' x' x := by
  have hx' := h.pos' hU0 hU1
  obtain ⟨hx, h1, h2⟩ := h
  have hle : (1 - U) ^ k' ≤ (1 - U) ^ k := pow_le_pow_of_le_one (by linarith) (by linarith) hk
  refine ⟨hx, ?_, ?_⟩
  · calc x * (1 - U) ^ k' ≤ x * (1 - U) ^ k := mul_le_mul_of_nonneg_left hle hx.le
      _ ≤ x' := h1
  · calc x' * (1 - U) ^ k' ≤ x' * (1 - U) ^ k := mul_le_mul_of_nonneg_left hle hx'.le
      _ ≤ x := h2

theorem mul (hU0 : 0 ≤ U) (hU1 : U < 1) {ka kb : Nat} {a' a b' b : ℝ} (ha : Within U ka a' a)
    (hb : Within U kb b' b) : Within U (ka + kb) (a' * b') (a * b) := by
  have ha' := ha.pos' hU0 hU1
  have hb' := hb.pos' hU0 hU1
  obtain ⟨pa, a1, a2⟩ := ha
  obtain ⟨pb, b1, b2⟩ := hb
  have hq : 0 < (1 - U) := by linarith
  have qa : 0 < (1 - U) ^ ka := pow_pos hq _
  have qb : 0 < (1 - U) ^ kb := pow_pos hq _
  refine ⟨mul_pos pa pb, ?_, ?_⟩
  · rw [pow_add]
    calc a * b * ((1 - U) ^ ka * (1 - U) ^ kb) = (a * (1 - U) ^ ka) * (b * (1 - U) ^ kb) := by ring
      _ ≤ a' * b' := mul_le_mul a1 b1 (by positivity) ha'.le
  · rw [pow_add]
    calc a' * b' * ((1 - U) ^ ka * (1 - U) ^ kb) = (a' * (1 - U) ^ ka) * (b' * (1 - U) ^ kb) := by ring
      _ ≤ a * b := mul_le_mul a2 b2 (by positivity) pa.le

theorem div (hU0 : 0 ≤ U) (hU1 : U < 1) {ka kb : Nat} {a' a b' b : ℝ} (ha : Within U ka a' a)
    (hb : Within U kb b' b) : Within U (ka + kb) (a' / b') (a / b) := by
  have ha' := ha.pos' hU0 hU1
  have hb' := hb.pos' hU0 hU1
  obtain ⟨pa, a1, a2⟩ := ha
  obtain ⟨pb, b1, b2⟩ := hb
  have hq : 0 < (1 - U) := by linarith
  have qa : 0 < (1 - U) ^ ka := pow_pos hq _
  have qb : 0 < (1 - U) ^ kb := pow_pos hq _
  refine ⟨div_pos pa pb, ?_, ?_⟩
  · rw [pow_add, div_mul_eq_mul_div, div_le_div_iff₀ pb hb']
    -- a q^ka q^kb b' ≤ a' b   from a q^ka ≤ a' and b' q^kb ≤ b
    calc a * ((1 - U) ^ ka * (1 - U) ^ kb) * b' = (a * (1 - U) ^ ka) * (b' * (1 - U) ^ kb) := by ring
      _ ≤ a' * b := mul_le_mul a1 b2 (by positivity) ha'.le
  · rw [pow_add, div_mul_eq_mul_div, div_le_div_iff₀ hb' pb]
    calc a' * ((1 - U) ^ ka * (1 - U) ^ kb) * b = (a' * (1 - U) ^ ka) * (b * (1 - U) ^ kb) := by ring
      _ ≤ a * b' := mul_le_mul a2 b1 (by positivity) pa.le

theorem add (hU0 : 0 ≤ U) (hU1 : U < 1) {ka kb : Nat} {a' a b' b : ℝ} (ha : Within U ka a' a)
    (hb : Within U kb b' b) : Within U (max ka kb) (a' + b') (a + b) := by
  have ha := ha.mono hU0 hU1 (le_max_left ka kb)
  have hb := hb.mono hU0 hU1 (le_max_right ka kb)
  obtain ⟨pa, a1, a2⟩ := ha
  obtain ⟨pb, b1, b2⟩ := hb
  exact ⟨add_pos pa pb, by rw [add_mul]; exact add_le_add a1 b1, by rw [add_mul]; exact add_le_add a2 b2⟩

/-- One more rounding: `|r - y| ≤ U·y`. -/
theorem round (hU0 : 0 ≤ U) (hU1 : U < 1) {k : Nat} {y x r : ℝ} (h : Within U k y x)
    (hr : |r - y| ≤ U * y) : Within U (k + 1) r x := by
  have hy := h.pos' hU0 hU1
  obtain ⟨px, h1, h2⟩ := h
  have hq : 0 < (1 - U) := by linarith
  have qk : 0 < (1 - U) ^ k := pow_pos hq _
  obtain ⟨lo, hi⟩ := abs_le.mp hr
  have rlo : y * (1 - U) ≤ r := by linarith
  have rhi : r ≤ y * (1 + U) := by linarith
  refine ⟨px, ?_, ?_⟩
  · rw [pow_succ]
    calc x * ((1 - U) ^ k * (1 - U)) = (x * (1 - U) ^ k) * (1 - U) := by ring
      _ ≤ y * (1 - U) := mul_le_mul_of_nonneg_right h1 hq.le
      _ ≤ r := rlo
  · rw [pow_succ]
    have h1U : (1 + U) * (1 - U) ≤ 1 := by nlinarith
    calc r * ((1 - U) ^ k * (1 - U)) ≤ (y * (1 + U)) * ((1 - U) ^ k * (1 - U)) :=
          mul_le_mul_of_nonneg_right rhi (by positivity)
      _ = (y * (1 - U) ^ k) * ((1 + U) * (1 - U)) := by ring
      _ ≤ (y * (1 - U) ^ k) * 1 := mul_le_mul_of_nonneg_left h1U (by positivity)
      _ ≤ x := by rw [mul_one]; exact h2

/-- A rounding with a smaller unit round-off is a fortiori one with `U`. -/
theorem round_le (hU0 : 0 ≤ U) (hU1 : U < 1) {k : Nat} {y x r u : ℝ} (h : Within U k y x) (hu : u ≤ U)
    (hr : |r - y| ≤ u * y) : Within U (k + 1) r x :=
  h.round hU0 hU1 (le_trans hr (mul_le_mul_of_nonneg_right hu (h.pos' hU0 hU1).le))

theorem sqrt (hU0 : 0 ≤ U) (hU1 : U < 1) {k : Nat} {a' a : ℝ} (h : Within U (2 * k) a' a) :
    Within U k (Real.sqrt a') (Real.sqrt a) := by
  have ha' := h.pos' hU0 hU1
  obtain ⟨pa, h1, h2⟩ := h
  have hq : 0 < (1 - U) := by linarith
  have qk : 0 < (1 - U) ^ k := pow_pos hq _
  have e : (1 - U) ^ (2 * k) = ((1 - U) ^ k) ^ 2 := by rw [← pow_mul, mul_comm]
  refine ⟨Real.sqrt_pos.mpr pa, ?_, ?_⟩
  · have : Real.sqrt a * (1 - U) ^ k = Real.sqrt (a * ((1 - U) ^ k) ^ 2) := by
      rw [Real.sqrt_mul pa.le, Real.sqrt_sq qk.le]
    rw [this]
    apply Real.sqrt_le_sqrt
    rw [← e]; exact h1
  · have : Real.sqrt a' * (1 - U) ^ k = Real.sqrt (a' * ((1 - U) ^ k) ^ 2) := by
      rw [Real.sqrt_mul ha'.le, Real.sqrt_sq qk.le]
    rw [this]
    apply Real.sqrt_le_sqrt
    rw [← e]; exact h2

theorem pow (hU0 : 0 ≤ U) (hU1 : U < 1) {k : Nat} {a' a : ℝ} (h : Within U k a' a) (n : Nat) (hn : 0 < n) :
    Within U (k * n) (a' ^ n) (a ^ n) := by
  induction n with
  | zero => omega
  | succ j ih =>
    rcases Nat.eq_zero_or_pos j with rfl | hj
    · simpa using h
    · have := (ih hj).mul hU0 hU1 h
      rw [pow_succ, pow_succ, Nat.mul_succ]
      exact this

/-- What `Within` means as a relative error: `|x' - x| ≤ ((1-U)^-k - 1)·x`. -/
theorem rel_error (hU0 : 0 ≤ U) (hU1 : U < 1) {k : Nat} {x' x : ℝ} (h : Within U k x' x) :
    |x' - x| ≤ (((1 - U) ^ k)⁻¹ - 1) * x := by
  obtain ⟨px, h1, h2⟩ := h
  have hq : 0 < (1 - U) := by linarith
  have qk : 0 < (1 - U) ^ k := pow_pos hq _
  have qk1 : (1 - U) ^ k ≤ 1 := pow_le_one₀ hq.le (by linarith)
  have hi : x' ≤ x * ((1 - U) ^ k)⁻¹ := by
    rw [← div_eq_mul_inv, le_div_iff₀ qk]; exact h2
  have inv1 : 1 ≤ ((1 - U) ^ k)⁻¹ := by
    rw [one_le_inv₀ qk]; exact qk1
  rw [abs_le]
  constructor
  · -- x' ≥ x q^k ≥ x (2 - q^-k)  since q^k + q^-k ≥ 2
    have : (2 : ℝ) ≤ (1 - U) ^ k + ((1 - U) ^ k)⁻¹ := by
      have := two_mul_le_add_sq ((1 - U) ^ k) 1
      have hh : (1 - U) ^ k * ((1 - U) ^ k)⁻¹ = 1 := mul_inv_cancel₀ (ne_of_gt qk)
      nlinarith [sq_nonneg ((1 - U) ^ k - 1), inv1]
    nlinarith
  · nlinarith

end Within
/-! ## The floating-point operations on positive operands -/

namespace Fl

theorem pos_fin (x : Fl) (h : 0 < toReal x) : ∃ m e, x = fin false m e ∧ 0 < m := by
  cases x with
  | nan => simp [toReal] at h
  | inf s => simp [toReal] at h
  | fin s m e =>
    have h2 : (0 : ℝ) < (2 : ℝ) ^ e := by positivity
    rw [toReal_fin] at h
    cases s with
    | true =>
      exfalso
      have : sgn true * (m : ℝ) * (2 : ℝ) ^ e ≤ 0 := by
        simp only [sgn, if_true]
        have : (0 : ℝ) ≤ (m : ℝ) * (2 : ℝ) ^ e := by positivity
        nlinarith
      linarith
    | false =>
      refine ⟨m, e, rfl, ?_⟩
      rcases Nat.eq_zero_or_pos m with h0 | h0
      · rw [h0] at h; simp [sgn] at h
      · exact h0

theorem u_pos (f : Fmt) : 0 < f.u := by unfold Fmt.u; positivity

theorem minNormal_pos (f : Fmt) : 0 < f.minNormal := by unfold Fmt.minNormal; positivity

theorem u_le_of_le {f : Fmt} {pmin : Nat} (h : pmin ≤ f.p) : f.u ≤ (2 : ℝ) ^ (-(pmin : Int)) := by
  unfold Fmt.u
  exact (zpow_le_zpow_iff_right₀ (by norm_num : (1 : ℝ) < 2)).mpr (by omega)

theorem mul_pos_rel (f : Fmt) (hp : 1 ≤ f.p) (a b : Fl) (ha : 0 < toReal a) (hb : 0 < toReal b)
    (hnorm : f.minNormal ≤ toReal a * toReal b) (hfin : (mul f a b).isFinite = true) :
    |toReal (mul f a b) - toReal a * toReal b| ≤ f.u * (toReal a * toReal b) := by
  obtain ⟨m1, e1, rfl, h1⟩ := pos_fin a ha
  obtain ⟨m2, e2, rfl, h2⟩ := pos_fin b hb
  have hpos : 0 < toReal (fin false m1 e1) * toReal (fin false m2 e2) := mul_pos ha hb
  have := mul_rel f hp false false m1 m2 e1 e2 h1 h2 (by rw [abs_of_pos hpos]; exact hnorm) rfl hfin
  rwa [abs_of_pos hpos] at this

theorem div_pos_rel (f : Fmt) (hp : 1 ≤ f.p) (a b : Fl) (ha : 0 < toReal a) (hb : 0 < toReal b)
    (hnorm : f.minNormal ≤ toReal a / toReal b) (hfin : (div f a b).isFinite = true) :
    |toReal (div f a b) - toReal a / toReal b| ≤ f.u * (toReal a / toReal b) := by
  obtain ⟨m1, e1, rfl, h1⟩ := pos_fin a ha
  obtain ⟨m2, e2, rfl, h2⟩ := pos_fin b hb
  have hpos : 0 < toReal (fin false m1 e1) / toReal (fin false m2 e2) := div_pos ha hb
  have := div_rel f hp false false m1 m2 e1 e2 h1 h2 (by rw [abs_of_pos hpos]; exact hnorm) rfl hfin
  rwa [abs_of_pos hpos] at this

theorem add_pos_rel (f : Fmt) (hp : 1 ≤ f.p) (a b : Fl) (ha : 0 < toReal a) (hb : 0 < toReal b)
    (hnorm : f.minNormal ≤ toReal a + toReal b) (hfin : (add f a b).isFinite = true) :
    |toReal (add f a b) - (toReal a + toReal b)| ≤ f.u * (toReal a + toReal b) := by
  obtain ⟨m1, e1, rfl, _⟩ := pos_fin a ha
  obtain ⟨m2, e2, rfl, _⟩ := pos_fin b hb
  have hpos : 0 < toReal (fin false m1 e1) + toReal (fin false m2 e2) := add_pos ha hb
  have := add_rel f hp false false m1 m2 e1 e2 (by rw [abs_of_pos hpos]; exact hnorm) rfl hfin
  rwa [abs_of_pos hpos] at this

theorem cast_pos_rel (f : Fmt) (hp : 1 ≤ f.p) (a : Fl) (ha : 0 < toReal a)
    (hnorm : f.minNormal ≤ toReal a) (hfin : (cast f a).isFinite = true) :
    |toReal (cast f a) - toReal a| ≤ f.u * toReal a := by
  obtain ⟨m1, e1, rfl, h1⟩ := pos_fin a ha
  have := cast_rel f hp false m1 e1 h1 (by rw [abs_of_pos ha]; exact hnorm) rfl hfin
  rwa [abs_of_pos ha] at this

/-- Rounding a positive dyadic `n·2^e`. -/
theorem roundE_pos_rel (f : Fmt) (hp : 1 ≤ f.p) (n : Nat) (e : Int) (hn : 0 < n)
    (hnorm : f.minNormal ≤ (n : ℝ) * (2 : ℝ) ^ e) (hfin : (roundE f false n e).isFinite = true) :
    |toReal (roundE f false n e) - (n : ℝ) * (2 : ℝ) ^ e| ≤ f.u * ((n : ℝ) * (2 : ℝ) ^ e) := by
  have := roundE_rel' f hp false n e hn hnorm rfl hfin
  simpa [sgn] using this

/-- **Square root.** For a positive operand whose root is comfortably in the normal range, the computed
square root is within two roundings of the exact one. (It is in fact correctly rounded — that is what
the bit-exact correspondence with the hardware shows — but the weaker statement is all the error
analysis needs, and it follows directly from the definition: the integer square root `r` of the scaled
radicand has at least `p+3` bits, so replacing `√M` by `r` or `r + ½` costs less than an eighth of a
unit round-off, and the result is then rounded once.) -/
theorem sqrt_pos_within (f : Fmt) (hp : 1 ≤ f.p) (a : Fl) (ha : 0 < toReal a) (U : ℝ) (hU : f.u ≤ U)
    (hU1 : U < 1) (hnorm : 2 * f.minNormal ≤ Real.sqrt (toReal a))
    (hfin : (sqrt f a).isFinite = true) :
    Within U 2 (toReal (sqrt f a)) (Real.sqrt (toReal a)) := by
  have hU0 : 0 ≤ U := le_trans (u_pos f).le hU
  obtain ⟨m, e, rfl, hm⟩ := pos_fin a ha
  have hm0 : m ≠ 0 := by omega
  have two0 : (2 : ℝ) ≠ 0 := by norm_num
  unfold sqrt at hfin ⊢
  simp only [hm0, if_false, Bool.false_eq_true] at hfin ⊢
  set need := 2 * f.p + 4 with hneed
  set k0 := need - m.log2 with hk0
  set k : Nat := if (e - (k0 : Int)) % 2 = 0 then k0 else k0 + 1 with hk
  set M := m * 2 ^ k with hM
  set r := M.sqrt with hr
  set h := (e - (k : Int)) / 2 with hh
  have heven : (e - (k : Int)) = 2 * h := by
    have : (e - (k : Int)) % 2 = 0 := by
      rw [hk]; split <;> rename_i hc
      · exact hc
      · push_cast; omega
    omega
  -- M ≥ 2^need, so r ≥ 2^(p+2)
  have hk0le : k0 ≤ k := by rw [hk]; split <;> omega
  have hMbig : 2 ^ need ≤ M := by
    have h1 : 2 ^ m.log2 ≤ m := Nat.log2_self_le hm0
    calc 2 ^ need ≤ 2 ^ (m.log2 + k) := Nat.pow_le_pow_right (by norm_num) (by omega)
      _ = 2 ^ m.log2 * 2 ^ k := by rw [pow_add]
      _ ≤ m * 2 ^ k := Nat.mul_le_mul_right _ h1
  have hrbig : 2 ^ (f.p + 2) ≤ r := by
    rw [hr, Nat.le_sqrt]
    calc 2 ^ (f.p + 2) * 2 ^ (f.p + 2) = 2 ^ need := by rw [← pow_add]; congr 1; omega
      _ ≤ M := hMbig
  have hrpos : 0 < r := lt_of_lt_of_le (by positivity) hrbig
  have hrR : (2 : ℝ) ^ (f.p + 2) ≤ (r : ℝ) := by exact_mod_cast hrbig
  have h2h : (0 : ℝ) < (2 : ℝ) ^ h := by positivity
  -- the exact root
  have hx : toReal (fin false m e) = (M : ℝ) * ((2 : ℝ) ^ h) ^ 2 := by
    rw [toReal_fin, hM]
    simp only [sgn, Bool.false_eq_true, if_false, one_mul]
    push_cast
    rw [← zpow_natCast (2 : ℝ) k, ← zpow_natCast ((2 : ℝ) ^ h) 2, ← zpow_mul, mul_assoc,
      ← zpow_add₀ two0]
    congr 2
    push_cast; omega
  have hroot : Real.sqrt (toReal (fin false m e)) = Real.sqrt M * (2 : ℝ) ^ h := by
    rw [hx, Real.sqrt_mul (by positivity), Real.sqrt_sq h2h.le]
  have hMr1 : (r : ℝ) ≤ Real.sqrt M := by
    have h0 : r * r ≤ M := Nat.sqrt_le M
    have h1 : ((r * r : Nat) : ℝ) ≤ (M : ℝ) := by exact_mod_cast h0
    have h2 : ((r : ℝ)) ^ 2 ≤ (M : ℝ) := by push_cast at h1; nlinarith
    calc (r : ℝ) = Real.sqrt (((r : ℝ)) ^ 2) := (Real.sqrt_sq (by positivity)).symm
      _ ≤ Real.sqrt M := Real.sqrt_le_sqrt h2
  have hMr2 : Real.sqrt M < (r : ℝ) + 1 := by
    rw [Real.sqrt_lt' (by positivity)]
    have : M < (r + 1) * (r + 1) := Nat.lt_succ_sqrt M
    have : ((M : Nat) : ℝ) < (((r + 1) * (r + 1) : Nat) : ℝ) := by exact_mod_cast this
    push_cast at this; nlinarith
  have hu8 : f.u = ((2 : ℝ) ^ f.p)⁻¹ := by unfold Fmt.u; rw [zpow_neg, zpow_natCast]
  have hr8 : (1 : ℝ) ≤ (r : ℝ) * f.u / 4 := by
    rw [hu8]
    have : (2 : ℝ) ^ (f.p + 2) = (2 : ℝ) ^ f.p * 4 := by rw [pow_add]; norm_num
    rw [this] at hrR
    have hp2 : (0 : ℝ) < (2 : ℝ) ^ f.p := by positivity
    rw [le_div_iff₀ (by norm_num), ← div_eq_mul_inv, le_div_iff₀ hp2]
    linarith
  have hsq2 : (2 : ℝ) ≤ Real.sqrt M := by
    have : (4 : ℝ) ≤ (r : ℝ) := by
      have : (2 : ℝ) ^ 2 ≤ (2 : ℝ) ^ (f.p + 2) := pow_le_pow_right₀ (by norm_num) (by omega)
      norm_num at this; linarith
    linarith
  split at hfin
  · -- perfect square: one exact rounding
    rename_i hsq
    have hval : (r : ℝ) * (2 : ℝ) ^ h = Real.sqrt (toReal (fin false m e)) := by
      rw [hroot]; congr 1
      have : ((r * r : Nat) : ℝ) = (M : ℝ) := by exact_mod_cast hsq
      push_cast at this
      rw [← this, Real.sqrt_mul_self (by positivity)]
    have hn : f.minNormal ≤ (r : ℝ) * (2 : ℝ) ^ h := by rw [hval]; linarith [minNormal_pos f]
    have := roundE_pos_rel f hp r h hrpos hn hfin
    rw [hval] at this
    have hw : Within U 0 (Real.sqrt (toReal (fin false m e))) (Real.sqrt (toReal (fin false m e))) :=
      Within.refl (Real.sqrt_pos.mpr ha)
    simp only [hsq, if_true]
    exact (hw.round_le hU0 hU1 hU this).mono hU0 hU1 (by norm_num)
  · rename_i hsq
    simp only [hsq, if_false]
    -- y = (r + 1/2)·2^h
    have hy : ((2 * r + 1 : Nat) : ℝ) * (2 : ℝ) ^ (h - 1) = ((r : ℝ) + 1 / 2) * (2 : ℝ) ^ h := by
      rw [zpow_sub₀ two0]; push_cast; field_simp
    have hsx := Real.sqrt_pos.mpr ha
    have hylo : Real.sqrt (toReal (fin false m e)) / 2 ≤ ((r : ℝ) + 1 / 2) * (2 : ℝ) ^ h := by
      rw [hroot]; nlinarith
    have hn : f.minNormal ≤ ((2 * r + 1 : Nat) : ℝ) * (2 : ℝ) ^ (h - 1) := by rw [hy]; linarith
    have hround := roundE_pos_rel f hp (2 * r + 1) (h - 1) (by omega) hn hfin
    rw [hy] at hround
    -- y is within one "rounding" of the root
    have hwy : Within U 1 (((r : ℝ) + 1 / 2) * (2 : ℝ) ^ h) (Real.sqrt (toReal (fin false m e))) := by
      have hu0 := u_pos f
      have hUlt : f.u / 4 ≤ U := by linarith
      refine ⟨hsx, ?_, ?_⟩
      · rw [hroot, pow_one]
        -- √M (1-U) ≤ r + 1/2 : since √M < r+1 and √M·U ≥ ... ≥ 1/2·... use √M ≥ r and r·u/4 ≥ 1
        have : Real.sqrt M * (1 - U) ≤ (r : ℝ) + 1 / 2 := by nlinarith
        calc Real.sqrt M * (2 : ℝ) ^ h * (1 - U) = (Real.sqrt M * (1 - U)) * (2 : ℝ) ^ h := by ring
          _ ≤ ((r : ℝ) + 1 / 2) * (2 : ℝ) ^ h := mul_le_mul_of_nonneg_right this h2h.le
      · rw [hroot, pow_one]
        have : ((r : ℝ) + 1 / 2) * (1 - U) ≤ Real.sqrt M := by nlinarith
        calc ((r : ℝ) + 1 / 2) * (2 : ℝ) ^ h * (1 - U) = (((r : ℝ) + 1 / 2) * (1 - U)) * (2 : ℝ) ^ h := by ring
          _ ≤ Real.sqrt M * (2 : ℝ) ^ h := mul_le_mul_of_nonneg_right this h2h.le
    exact hwy.round_le hU0 hU1 hU hround

end Fl

/-! ## Soundness of the positive-fragment checker -/

/-- No intermediate result underflows or overflows: every operation's exact result on its computed
operands is in the normal range of the format it is computed in, and every computed value is finite. -/
def InRange (L : Libm) (env : Nat → Fl) : Expr → Prop
  | .var _ _ => True
  | .lit f _ m e => f.fmt.minNormal ≤ (m : ℝ) * (2 : ℝ) ^ e ∧ (Fl.roundE f.fmt false m e).isFinite = true
  | .pi f m e => f.fmt.minNormal ≤ (m : ℝ) * (2 : ℝ) ^ e ∧ (Fl.roundE f.fmt false m e).isFinite = true
  | .bin op f a b =>
    InRange L env a ∧ InRange L env b ∧
      f.fmt.minNormal ≤ op.evalR (toReal (a.evalF L env)) (toReal (b.evalF L env)) ∧
      ((Expr.bin op f a b).evalF L env).isFinite = true
  | .un .sqrt f a =>
    InRange L env a ∧ 2 * f.fmt.minNormal ≤ Real.sqrt (toReal (a.evalF L env)) ∧
      ((Expr.un .sqrt f a).evalF L env).isFinite = true
  | .cast f a =>
    InRange L env a ∧ f.fmt.minNormal ≤ toReal (a.evalF L env) ∧ ((Expr.cast f a).evalF L env).isFinite = true
  | .powi f n a =>
    InRange L env a ∧ f.fmt.minNormal ≤ (toReal (a.evalF L env)) ^ n ∧
      ((Expr.powi f n a).evalF L env).isFinite = true
  | _ => True

theorem fm_p_pos (f : Fm) : 1 ≤ f.fmt.p := by cases f <;> decide

theorem litExact_sound (f : Fmt) (m : Nat) (e : Int) (h : litExact f m e = true) :
    toReal (Fl.roundE f false m e) = (m : ℝ) * (2 : ℝ) ^ e := by
  unfold litExact at h
  split at h
  · rename_i m' q' heq
    rw [heq, toReal_fin]
    simp only [sgn, Bool.false_eq_true, if_false, one_mul]
    simp only [beq_iff_eq] at h
    set d := min q' e with hd
    have h1 : 0 ≤ q' - d := by have := min_le_left q' e; omega
    have h2 : 0 ≤ e - d := by have := min_le_right q' e; omega
    have hR : ((m' * 2 ^ (q' - d).toNat : Nat) : ℝ) = ((m * 2 ^ (e - d).toNat : Nat) : ℝ) := by rw [h]
    rw [Nat.cast_mul, Nat.cast_mul, two_zpow_toNat h1, two_zpow_toNat h2] at hR
    have two0 : (2 : ℝ) ≠ 0 := by norm_num
    have e1 : (2 : ℝ) ^ q' = (2 : ℝ) ^ (q' - d) * (2 : ℝ) ^ d := by rw [← zpow_add₀ two0]; congr 1; ring
    have e2 : (2 : ℝ) ^ e = (2 : ℝ) ^ (e - d) * (2 : ℝ) ^ d := by rw [← zpow_add₀ two0]; congr 1; ring
    rw [e1, e2, ← mul_assoc, ← mul_assoc, hR]
  · cases h

/-- **Few ulps, for the positive fragment.** If the checker accepts `e` with count `k` at precision
`pmin`, then for all positive inputs (given exactly) for which no intermediate result under- or
overflows, the computed value is within `k` roundings of unit round-off `2^-pmin` of the exact
real value of the formula: `|computed - exact| ≤ ((1 - 2^-pmin)^-k - 1)·exact ≈ k·2^-pmin·exact`. -/
theorem posFrag_sound (pmin : Nat) (hpmin : 1 ≤ pmin) (e : Expr) (k : Nat)
    (h : posFrag pmin e = some k) (L : Libm) (env : Nat → Fl) (x : Nat → ℝ)
    (henv : ∀ i, 0 < x i ∧ toReal (env i) = x i) (hr : InRange L env e) :
    Within ((2 : ℝ) ^ (-(pmin : Int))) k (toReal (e.evalF L env)) (e.evalR x) := by
  set U : ℝ := (2 : ℝ) ^ (-(pmin : Int)) with hUdef
  have hU0 : 0 ≤ U := by positivity
  have hU1 : U < 1 := by
    rw [hUdef]
    have : (2 : ℝ) ^ (-(pmin : Int)) < (2 : ℝ) ^ (0 : Int) :=
      (zpow_lt_zpow_iff_right₀ (by norm_num : (1 : ℝ) < 2)).mpr (by omega)
    simpa using this
  induction e generalizing k with
  | var i f =>
    simp only [posFrag, Option.some.injEq] at h; subst h
    simp only [Expr.evalF, Expr.evalR]
    rw [(henv i).2]
    exact Within.refl (henv i).1
  | lit f s m e' =>
    simp only [posFrag] at h
    split at h
    · rename_i hc
      simp only [Bool.and_eq_true, Bool.not_eq_true', bne_iff_ne, ne_eq] at hc
      obtain ⟨hs, hm⟩ := hc
      subst hs
      have hpos : (0 : ℝ) < (m : ℝ) * (2 : ℝ) ^ e' := by
        have : 0 < m := Nat.pos_of_ne_zero hm
        positivity
      simp only [Expr.evalF, Expr.evalR, dyadicR, Bool.false_eq_true, if_false, one_mul]
      split at h
      · rename_i hex
        cases h
        rw [litExact_sound f.fmt m e' hex]
        exact Within.refl hpos
      · split at h
        · rename_i hp
          cases h
          obtain ⟨hn, hf⟩ := hr
          have := roundE_pos_rel f.fmt (fm_p_pos f) m e' (Nat.pos_of_ne_zero hm) hn hf
          exact (Within.refl hpos).round_le hU0 hU1 (u_le_of_le hp) this
        · cases h
    · cases h
  | pi f m e' =>
    simp only [posFrag] at h
    split at h
    · rename_i hc
      simp only [Bool.and_eq_true, bne_iff_ne, ne_eq, decide_eq_true_eq] at hc
      obtain ⟨hm, hp⟩ := hc
      cases h
      simp only [Expr.evalF, Expr.evalR, dyadicR, Bool.false_eq_true, if_false, one_mul]
      obtain ⟨hn, hf⟩ := hr
      have hpos : (0 : ℝ) < (m : ℝ) * (2 : ℝ) ^ e' := by
        have : 0 < m := Nat.pos_of_ne_zero hm
        positivity
      have := roundE_pos_rel f.fmt (fm_p_pos f) m e' (Nat.pos_of_ne_zero hm) hn hf
      exact (Within.refl hpos).round_le hU0 hU1 (u_le_of_le hp) this
    · cases h
  | bin op f a b iha ihb =>
    simp only [posFrag] at h
    cases hka : posFrag pmin a with
    | none => simp [hka] at h
    | some ka =>
    cases hkb : posFrag pmin b with
    | none => simp [hka, hkb] at h
    | some kb =>
    simp only [hka, hkb] at h
    split at h
    · rename_i hp
      obtain ⟨ra, rb, hn, hf⟩ := hr
      have wa := iha ka hka ra
      have wb := ihb kb hkb rb
      have pa := wa.pos' hU0 hU1
      have pb := wb.pos' hU0 hU1
      cases op with
      | mul =>
        simp only [Option.some.injEq] at h; subst h
        simp only [Expr.evalF, Expr.evalR, BinOp.evalR] at hn hf ⊢
        have := mul_pos_rel f.fmt (fm_p_pos f) _ _ pa pb hn hf
        exact (wa.mul hU0 hU1 wb).round_le hU0 hU1 (u_le_of_le hp) this
      | div =>
        simp only [Option.some.injEq] at h; subst h
        simp only [Expr.evalF, Expr.evalR, BinOp.evalR] at hn hf ⊢
        have := div_pos_rel f.fmt (fm_p_pos f) _ _ pa pb hn hf
        exact (wa.div hU0 hU1 wb).round_le hU0 hU1 (u_le_of_le hp) this
      | add =>
        simp only [Option.some.injEq] at h; subst h
        simp only [Expr.evalF, Expr.evalR, BinOp.evalR] at hn hf ⊢
        have := add_pos_rel f.fmt (fm_p_pos f) _ _ pa pb hn hf
        exact (wa.add hU0 hU1 wb).round_le hU0 hU1 (u_le_of_le hp) this
      | sub => cases h
      | pow => cases h
    · cases h
  | un op f a iha =>
    cases op with
    | sqrt =>
      simp only [posFrag] at h
      cases hka : posFrag pmin a with
      | none => simp [hka] at h
      | some ka =>
      simp only [hka] at h
      split at h
      · rename_i hp
        simp only [Option.some.injEq] at h; subst h
        obtain ⟨ra, hn, hf⟩ := hr
        have wa := iha ka hka ra
        have pa := wa.pos' hU0 hU1
        simp only [Expr.evalF, Expr.evalR, UnOp.evalR] at hn hf ⊢
        -- the computed root is within 2 of the root of the computed operand ...
        have w1 := sqrt_pos_within f.fmt (fm_p_pos f) _ pa U (u_le_of_le hp) hU1 hn hf
        -- ... which is within (ka+1)/2 of the exact root
        have w2 : Within U ((ka + 1) / 2) (Real.sqrt (toReal (a.evalF L env))) (Real.sqrt (a.evalR x)) :=
          Within.sqrt hU0 hU1 (wa.mono hU0 hU1 (by omega))
        -- compose: Within is transitive with addition of counts
        obtain ⟨px, a1, a2⟩ := w2
        obtain ⟨_, b1, b2⟩ := w1
        have hq : 0 < (1 - U) := by linarith
        refine ⟨px, ?_, ?_⟩
        · rw [pow_add]
          calc Real.sqrt (a.evalR x) * ((1 - U) ^ ((ka + 1) / 2) * (1 - U) ^ 2)
              = (Real.sqrt (a.evalR x) * (1 - U) ^ ((ka + 1) / 2)) * (1 - U) ^ 2 := by ring
            _ ≤ Real.sqrt (toReal (a.evalF L env)) * (1 - U) ^ 2 :=
                mul_le_mul_of_nonneg_right a1 (by positivity)
            _ ≤ _ := b1
        · rw [pow_add]
          calc toReal (Fl.sqrt f.fmt (a.evalF L env)) * ((1 - U) ^ ((ka + 1) / 2) * (1 - U) ^ 2)
              = (toReal (Fl.sqrt f.fmt (a.evalF L env)) * (1 - U) ^ 2) * (1 - U) ^ ((ka + 1) / 2) := by ring
            _ ≤ Real.sqrt (toReal (a.evalF L env)) * (1 - U) ^ ((ka + 1) / 2) :=
                mul_le_mul_of_nonneg_right b2 (by positivity)
            _ ≤ _ := a2
      · cases h
    | neg => simp [posFrag] at h
    | abs => simp [posFrag] at h
    | acos => simp [posFrag] at h
    | cbrt => simp [posFrag] at h
    | exp => simp [posFrag] at h
    | log => simp [posFrag] at h
    | log2 => simp [posFrag] at h
    | log10 => simp [posFrag] at h
  | cast f a iha =>
    simp only [posFrag] at h
    cases hka : posFrag pmin a with
    | none => simp [hka] at h
    | some ka =>
    simp only [hka] at h
    split at h
    · rename_i hp
      simp only [Option.some.injEq] at h; subst h
      obtain ⟨ra, hn, hf⟩ := hr
      have wa := iha ka hka ra
      have pa := wa.pos' hU0 hU1
      simp only [Expr.evalF, Expr.evalR] at hn hf ⊢
      have := cast_pos_rel f.fmt (fm_p_pos f) _ pa hn hf
      exact wa.round_le hU0 hU1 (u_le_of_le hp) this
    · cases h
  | powi f n a iha =>
    simp only [posFrag] at h
    cases hka : posFrag pmin a with
    | none => simp [hka] at h
    | some ka =>
    simp only [hka] at h
    split at h
    · rename_i hc
      obtain ⟨hn0, hp⟩ := hc
      simp only [Option.some.injEq] at h; subst h
      obtain ⟨ra, hn, hf⟩ := hr
      have wa := iha ka hka ra
      have pa := wa.pos' hU0 hU1
      obtain ⟨m, e', hme, hm⟩ := pos_fin _ pa
      simp only [Expr.evalF, Expr.evalR] at hn hf ⊢
      rw [hme] at hn hf wa ⊢
      -- the exact power of the computed operand
      have hnn : n = ((n.toNat : Nat) : Int) := by omega
      have hk : n.natAbs = n.toNat := by omega
      have hne : n ≠ 0 := by omega
      have hval : ((m ^ n.toNat : Nat) : ℝ) * (2 : ℝ) ^ (e' * (n.toNat : Int)) =
          (toReal (fin false m e')) ^ n.toNat := by
        rw [toReal_fin]
        simp only [sgn, Bool.false_eq_true, if_false, one_mul]
        rw [mul_pow, ← zpow_natCast ((2 : ℝ) ^ e') n.toNat, ← zpow_mul]
        push_cast; rfl
      have hpow : Fl.powi f.fmt (fin false m e') n = Fl.roundE f.fmt false (m ^ n.toNat) (e' * (n.toNat : Int)) := by
        unfold Fl.powi
        simp only [hne, if_false, hn0, if_true, hk, Bool.false_and]
      rw [hpow] at hf ⊢
      have hzn : (toReal (fin false m e')) ^ n = (toReal (fin false m e')) ^ n.toNat := by
        conv_lhs => rw [hnn]
        exact zpow_natCast _ _
      rw [hzn] at hn
      have hpp : 0 < m ^ n.toNat := Nat.pos_of_ne_zero (by positivity)
      have hround := roundE_pos_rel f.fmt (fm_p_pos f) (m ^ n.toNat) (e' * (n.toNat : Int)) hpp
        (by rw [hval]; exact hn) hf
      rw [hval] at hround
      have wp := wa.pow hU0 hU1 n.toNat (by omega)
      have hxn : (a.evalR x) ^ n = (a.evalR x) ^ n.toNat := by
        conv_lhs => rw [hnn]
        exact zpow_natCast _ _
      rw [hxn]
      exact wp.round_le hU0 hU1 (u_le_of_le hp) hround
    · cases h
  | uninit f => simp [posFrag] at h

end PhQVerif
