/-
Theory/ReadBack.lean — a value converted to the standard unit and back.

The two kernels of a unit are `x ↦ x·K₁` or `x ↦ x/K₁` (to the standard unit) and `y ↦ y·K₂` or
`y ↦ y/K₂` (back), with constants that C01 shows to be within `4·2^-p` of the factor `A` of the unit's
symbol resp. of its reciprocal. Composed, they return `x` to within twelve roundings: five for each
constant (`within_of_rel`) and one for each floating-point operation.
-/
import PhQVerif.Theory.RelErr

namespace PhQVerif
open Fl

/-- A constant within relative `4U` of `A` is within five roundings of `A` (for `U ≤ 1/16`). -/
theorem within_of_rel {U K A : ℝ} (hU0 : 0 ≤ U) (hU : U ≤ 1 / 16) (hA : 0 < A)
    (h : |K - A| ≤ 4 * U * A) : Within U 5 K A := by
  obtain ⟨lo, hi⟩ := abs_le.mp h
  have hq : 0 ≤ 1 - U := by linarith
  have h5 : (1 - U) ^ 5 ≤ 1 - 4 * U := by
    have e : (1 - U) ^ 5 = 1 - 5 * U + 10 * U ^ 2 - 10 * U ^ 3 + 5 * U ^ 4 - U ^ 5 := by ring
    rw [e]
    have hU2 : U ^ 2 ≤ U / 16 := by nlinarith
    have hU3 : 0 ≤ U ^ 3 := by positivity
    have hU4 : U ^ 4 ≤ U ^ 3 := by
      have : U ^ 4 = U ^ 3 * U := by ring
      rw [this]; nlinarith
    have hU5 : 0 ≤ U ^ 5 := by positivity
    nlinarith
  have h5' : (1 + 4 * U) * (1 - U) ^ 5 ≤ 1 := by
    have : (1 + 4 * U) * (1 - U) ^ 5 ≤ (1 + 4 * U) * (1 - 4 * U) :=
      mul_le_mul_of_nonneg_left h5 (by linarith)
    nlinarith
  have hp5 : 0 ≤ (1 - U) ^ 5 := pow_nonneg hq 5
  refine ⟨hA, ?_, ?_⟩
  · calc A * (1 - U) ^ 5 ≤ A * (1 - 4 * U) := mul_le_mul_of_nonneg_left h5 hA.le
      _ ≤ K := by nlinarith
  · have hK : K ≤ A * (1 + 4 * U) := by nlinarith
    calc K * (1 - U) ^ 5 ≤ (A * (1 + 4 * U)) * (1 - U) ^ 5 := mul_le_mul_of_nonneg_right hK hp5
      _ = A * ((1 + 4 * U) * (1 - U) ^ 5) := by ring
      _ ≤ A * 1 := mul_le_mul_of_nonneg_left h5' hA.le
      _ = A := mul_one A

/-- One multiplicative step on a positive value: `fl(y · K)` with `y` within `ky` roundings of `Y` and
`K` within `kK` of `C`. -/
theorem step_mul (f : Fmt) (hp : 1 ≤ f.p) {U : ℝ} (hU0 : 0 ≤ U) (hU1 : U < 1) (hu : f.u ≤ U) (y K : Fl)
    {Y C : ℝ} {ky kK : Nat} (hy : Within U ky (toReal y) Y) (hK : Within U kK (toReal K) C)
    (hnorm : f.minNormal ≤ toReal y * toReal K) (hfin : (mul f y K).isFinite = true) :
    Within U (ky + kK + 1) (toReal (mul f y K)) (Y * C) :=
  (hy.mul hU0 hU1 hK).round_le hU0 hU1 hu
    (mul_pos_rel f hp y K (hy.pos' hU0 hU1) (hK.pos' hU0 hU1) hnorm hfin)

/-- One dividing step. -/
theorem step_div (f : Fmt) (hp : 1 ≤ f.p) {U : ℝ} (hU0 : 0 ≤ U) (hU1 : U < 1) (hu : f.u ≤ U) (y K : Fl)
    {Y C : ℝ} {ky kK : Nat} (hy : Within U ky (toReal y) Y) (hK : Within U kK (toReal K) C)
    (hnorm : f.minNormal ≤ toReal y / toReal K) (hfin : (div f y K).isFinite = true) :
    Within U (ky + kK + 1) (toReal (div f y K)) (Y / C) :=
  (hy.div hU0 hU1 hK).round_le hU0 hU1 hu
    (div_pos_rel f hp y K (hy.pos' hU0 hU1) (hK.pos' hU0 hU1) hnorm hfin)

/-- A step of either kind. -/
def stepF (f : Fmt) (divides : Bool) (y K : Fl) : Fl := if divides then div f y K else mul f y K

/-- The exact factor a step applies. -/
noncomputable def stepR (divides : Bool) (C : ℝ) : ℝ := if divides then 1 / C else C

/-- **To the standard unit and back.** `x` positive; the first kernel multiplies or divides by `K₁`, the
second by `K₂`; the constants are within `k₁`, `k₂` roundings of `C₁`, `C₂`, and the exact factors
cancel (`stepR d₁ C₁ · stepR d₂ C₂ = 1`: the second kernel's factor is the reciprocal of the first's).
With no under- or overflow in either step, the value read back is within `k₁ + k₂ + 2` roundings of the
original `x`. -/
theorem read_back (f : Fmt) (hp : 1 ≤ f.p) {U : ℝ} (hU0 : 0 ≤ U) (hU1 : U < 1) (hu : f.u ≤ U)
    (x K1 K2 : Fl) (d1 d2 : Bool) {C1 C2 : ℝ} {k1 k2 : Nat} (hx : 0 < toReal x)
    (hK1 : Within U k1 (toReal K1) C1) (hK2 : Within U k2 (toReal K2) C2)
    (hcancel : stepR d1 C1 * stepR d2 C2 = 1)
    (hn1 : f.minNormal ≤ (if d1 then toReal x / toReal K1 else toReal x * toReal K1))
    (hf1 : (stepF f d1 x K1).isFinite = true)
    (hn2 : f.minNormal ≤ (if d2 then toReal (stepF f d1 x K1) / toReal K2
                            else toReal (stepF f d1 x K1) * toReal K2))
    (hf2 : (stepF f d2 (stepF f d1 x K1) K2).isFinite = true) :
    Within U (k1 + k2 + 2) (toReal (stepF f d2 (stepF f d1 x K1) K2)) (toReal x) := by
  have hx0 : Within U 0 (toReal x) (toReal x) := Within.refl hx
  have s1 : Within U (k1 + 1) (toReal (stepF f d1 x K1)) (toReal x * stepR d1 C1) := by
    cases d1
    · simp only [stepF, stepR, Bool.false_eq_true, if_false] at hn1 hf1 ⊢
      have := step_mul f hp hU0 hU1 hu x K1 hx0 hK1 hn1 hf1
      simpa using this
    · simp only [stepF, stepR, if_true] at hn1 hf1 ⊢
      have := step_div f hp hU0 hU1 hu x K1 hx0 hK1 hn1 hf1
      rw [zero_add] at this
      rwa [mul_one_div]
  have s2 : Within U (k1 + 1 + k2 + 1) (toReal (stepF f d2 (stepF f d1 x K1) K2))
      (toReal x * stepR d1 C1 * stepR d2 C2) := by
    cases d2
    · have hn2' : f.minNormal ≤ toReal (stepF f d1 x K1) * toReal K2 := by simpa using hn2
      have hf2' : (mul f (stepF f d1 x K1) K2).isFinite = true := by simpa [stepF] using hf2
      have := step_mul f hp hU0 hU1 hu _ K2 s1 hK2 hn2' hf2'
      have e1 : stepF f false (stepF f d1 x K1) K2 = mul f (stepF f d1 x K1) K2 := by simp [stepF]
      have e2 : stepR false C2 = C2 := by simp [stepR]
      rw [e1, e2]
      exact this
    · have hn2' : f.minNormal ≤ toReal (stepF f d1 x K1) / toReal K2 := by simpa using hn2
      have hf2' : (div f (stepF f d1 x K1) K2).isFinite = true := by simpa [stepF] using hf2
      have := step_div f hp hU0 hU1 hu _ K2 s1 hK2 hn2' hf2'
      have e1 : stepF f true (stepF f d1 x K1) K2 = div f (stepF f d1 x K1) K2 := by simp [stepF]
      have e2 : stepR true C2 = 1 / C2 := by simp [stepR]
      rw [e1, e2, mul_one_div]
      exact this
  rw [mul_assoc, hcancel, mul_one] at s2
  have e : k1 + 1 + k2 + 1 = k1 + k2 + 2 := by omega
  rwa [e] at s2

end PhQVerif
