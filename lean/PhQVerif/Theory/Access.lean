/-
Theory/Access.lean — soundness of the small syntactic recognisers used by C16 / C17 / C02, and of
substitution on expressions and decision trees.
-/
import PhQVerif.Core.Check

namespace PhQVerif

theorem isVar_sound {j : Nat} {ex : Expr} (h : isVar j ex = true) (L : Libm) (env : Nat → Fl) :
    ex.evalF L env = env j := by
  cases ex <;> simp only [isVar, beq_iff_eq] at h <;> try (exact absurd h (by simp))
  subst h; rfl

theorem isCastOfVar_sound {fm u : Fm} {j : Nat} {ex : Expr} (h : isCastOfVar fm u j ex = true)
    (L : Libm) (env : Nat → Fl) : ex.evalF L env = Fl.cast fm.fmt (env j) := by
  cases ex with
  | cast f a =>
    cases a with
    | var i g =>
      simp only [isCastOfVar, Bool.and_eq_true, beq_iff_eq] at h
      obtain ⟨⟨hf, _⟩, hi⟩ := h
      subst hf; subst hi; rfl
    | _ => simp [isCastOfVar] at h
  | _ => simp [isCastOfVar] at h

theorem Fl.roundE_zero (f : Fmt) (s : Bool) (e : Int) : Fl.roundE f s 0 e = Fl.zero f s := by
  unfold Fl.roundE Fl.round
  split <;> simp

theorem Fl.cast_zero (f g : Fmt) (s : Bool) : Fl.cast f (Fl.zero g s) = Fl.zero f s := by
  simp [Fl.cast, Fl.zero, Fl.roundE_zero]

/-- `isPosZero` recognises exactly the literal `+0` (possibly converted between formats): it
evaluates to the positive zero of the node's format. -/
theorem isPosZero_sound {ex : Expr} (h : isPosZero ex = true) (L : Libm) (env : Nat → Fl) :
    ∃ f : Fmt, ex.evalF L env = Fl.zero f false := by
  cases ex with
  | lit f s m e =>
    cases s <;> cases m <;> simp [isPosZero] at h
    exact ⟨f.fmt, by simp [Expr.evalF, Fl.roundE_zero]⟩
  | cast f a =>
    cases a with
    | lit g s m e =>
      cases s <;> cases m <;> simp [isPosZero] at h
      exact ⟨f.fmt, by simp [Expr.evalF, Fl.roundE_zero, Fl.cast_zero]⟩
    | _ => simp [isPosZero] at h
  | _ => simp [isPosZero] at h

theorem evalF_subst (L : Libm) (env : Nat → Fl) (σ : Nat → Expr) (e : Expr) :
    (e.subst σ).evalF L env = e.evalF L (fun i => (σ i).evalF L env) := by
  induction e with
  | var i f => rfl
  | lit f s m e => rfl
  | pi f m e => rfl
  | uninit f => rfl
  | un op f a ih => simp only [Expr.subst, Expr.evalF, ih]
  | bin op f a b iha ihb => simp only [Expr.subst, Expr.evalF, iha, ihb]
  | powi f n a ih => simp only [Expr.subst, Expr.evalF, ih]
  | cast f a ih => simp only [Expr.subst, Expr.evalF, ih]

/-- Evaluate an output slot to a value (numbers to floats; other slots unchanged). -/
def Out.evalF (L : Libm) (env : Nat → Fl) : Out → Out ⊕ Fl
  | .num e => .inr (e.evalF L env)
  | o => .inl o

theorem Out.evalF_subst (L : Libm) (env : Nat → Fl) (σ : Nat → Expr) (o : Out) :
    (o.subst σ).evalF L env = o.evalF L (fun i => (σ i).evalF L env) := by
  cases o <;> simp [Out.subst, Out.evalF, PhQVerif.evalF_subst]

/-- The values a decision tree returns: the leaf reached, with its numeric slots evaluated. -/
def DTree.valuesF (L : Libm) (env : Nat → Fl) (t : DTree) : Option (List (Out ⊕ Fl)) :=
  (t.evalF L env).map (List.map (Out.evalF L env))

theorem DTree.valuesF_subst (L : Libm) (env : Nat → Fl) (σ : Nat → Expr) (t : DTree) :
    (t.subst σ).valuesF L env = t.valuesF L (fun i => (σ i).evalF L env) := by
  induction t with
  | leaf outs =>
    simp only [DTree.subst, DTree.valuesF, DTree.evalF, Option.map_some, List.map_map]
    congr 1
    apply List.map_congr_left
    intro o _
    exact Out.evalF_subst L env σ o
  | unexplored => rfl
  | node op a b y n ihy ihn =>
    simp only [DTree.subst, DTree.valuesF, DTree.evalF, PhQVerif.evalF_subst] at *
    split
    · exact ihy
    · exact ihn

theorem DTree.beq_eq : ∀ {a b : DTree}, DTree.beq a b = true → a = b := by
  intro a
  induction a with
  | leaf o =>
    intro b h
    cases b <;> simp only [DTree.beq, beq_iff_eq] at h <;> try (exact absurd h (by simp))
    subst h; rfl
  | unexplored =>
    intro b h
    cases b <;> simp [DTree.beq] at h
    rfl
  | node op x y t1 t2 ih1 ih2 =>
    intro b h
    cases b with
    | node op' x' y' t1' t2' =>
      simp only [DTree.beq, Bool.and_eq_true, beq_iff_eq] at h
      obtain ⟨⟨⟨⟨h1, h2⟩, h3⟩, h4⟩, h5⟩ := h
      subst h1; subst h2; subst h3
      rw [ih1 h4, ih2 h5]
    | _ => simp [DTree.beq] at h

end PhQVerif
