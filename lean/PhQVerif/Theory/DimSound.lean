/-
Theory/DimSound.lean — soundness of dimension inference: an expression that `inferDim` assigns the
dimension `d` is homogeneous of degree `d` under every positive rescaling of the seven base units.
-/
import Mathlib.Tactic.Ring
import Mathlib.Tactic.FieldSimp
import Mathlib.Tactic.Positivity
import PhQVerif.Theory.EvalR
import PhQVerif.Core.Check

namespace PhQVerif

/-- A rescaling of the seven base units: one positive factor per base dimension. -/
structure Rescale where
  t : ℝ
  l : ℝ
  m : ℝ
  i : ℝ
  th : ℝ
  n : ℝ
  j : ℝ
  ht : 0 < t
  hl : 0 < l
  hm : 0 < m
  hi : 0 < i
  hth : 0 < th
  hn : 0 < n
  hj : 0 < j

/-- The factor by which a quantity of dimension `d` changes: `∏ λ_k ^ d_k`. -/
noncomputable def Rescale.scale (r : Rescale) (d : Dim) : ℝ :=
  r.t ^ d.t * r.l ^ d.l * r.m ^ d.m * r.i ^ d.i * r.th ^ d.th * r.n ^ d.n * r.j ^ d.j

namespace Rescale
variable (r : Rescale)

theorem scale_pos (d : Dim) : 0 < r.scale d := by
  unfold scale
  have := r.ht; have := r.hl; have := r.hm; have := r.hi; have := r.hth; have := r.hn; have := r.hj
  positivity

theorem scale_ne_zero (d : Dim) : r.scale d ≠ 0 := (r.scale_pos d).ne'

@[simp] theorem scale_zero : r.scale Dim.zero = 1 := by
  simp [scale, Dim.zero]

theorem scale_add (a b : Dim) : r.scale (Dim.add a b) = r.scale a * r.scale b := by
  unfold scale Dim.add
  simp only
  rw [zpow_add₀ r.ht.ne', zpow_add₀ r.hl.ne', zpow_add₀ r.hm.ne', zpow_add₀ r.hi.ne',
    zpow_add₀ r.hth.ne', zpow_add₀ r.hn.ne', zpow_add₀ r.hj.ne']
  ring

theorem scale_sub (a b : Dim) : r.scale (Dim.sub a b) = r.scale a / r.scale b := by
  unfold scale Dim.sub
  simp only
  rw [zpow_sub₀ r.ht.ne', zpow_sub₀ r.hl.ne', zpow_sub₀ r.hm.ne', zpow_sub₀ r.hi.ne',
    zpow_sub₀ r.hth.ne', zpow_sub₀ r.hn.ne', zpow_sub₀ r.hj.ne']
  have := r.ht.ne'; have := r.hl.ne'; have := r.hm.ne'; have := r.hi.ne'
  have := r.hth.ne'; have := r.hn.ne'; have := r.hj.ne'
  field_simp

theorem scale_smul (k : Int) (a : Dim) : r.scale (Dim.smul k a) = r.scale a ^ k := by
  unfold scale Dim.smul
  simp only [mul_zpow]
  rw [← zpow_mul, ← zpow_mul, ← zpow_mul, ← zpow_mul, ← zpow_mul, ← zpow_mul, ← zpow_mul]
  simp only [mul_comm]

private theorem even_half (x : Int) (h : (x % 2 == 0) = true) : x = x / 2 + x / 2 := by
  have : x % 2 = 0 := by simpa using h
  omega

theorem scale_half (a : Dim) (h : a.allEven = true) :
    r.scale a = r.scale a.half * r.scale a.half := by
  simp only [Dim.allEven, Bool.and_eq_true] at h
  obtain ⟨⟨⟨⟨⟨⟨h1, h2⟩, h3⟩, h4⟩, h5⟩, h6⟩, h7⟩ := h
  rw [← scale_add]
  congr 1
  cases a
  simp only [Dim.half, Dim.add, Dim.mk.injEq]
  exact ⟨even_half _ h1, even_half _ h2, even_half _ h3, even_half _ h4, even_half _ h5,
    even_half _ h6, even_half _ h7⟩

end Rescale

/-- The rescaled environment: input `i`, of dimension `denv i`, is multiplied by its factor. -/
noncomputable def Rescale.env (r : Rescale) (denv : Nat → Dim) (x : Nat → ℝ) : Nat → ℝ :=
  fun i => r.scale (denv i) * x i

/-- What `inferDim` promises about an expression. -/
def DimTy.Holds (r : Rescale) (denv : Nat → Dim) (e : Expr) : DimTy → Prop
  | .any => ∀ x : Nat → ℝ, e.evalR x = 0
  | .fixed d => ∀ x : Nat → ℝ, e.evalR (r.env denv x) = r.scale d * e.evalR x

theorem unify_holds {r : Rescale} {denv : Nat → Dim} {a b : Expr} {x y z : DimTy}
    (hu : DimTy.unify x y = some z) (ha : x.Holds r denv a) (hb : y.Holds r denv b) :
    (∀ v, z = .fixed v → (∀ w : Nat → ℝ, a.evalR (r.env denv w) = r.scale v * a.evalR w) ∧
      (∀ w : Nat → ℝ, b.evalR (r.env denv w) = r.scale v * b.evalR w)) ∧
    (z = .any → (∀ w : Nat → ℝ, a.evalR w = 0) ∧ (∀ w : Nat → ℝ, b.evalR w = 0)) := by
  cases x <;> cases y <;> simp only [DimTy.unify, Option.some.injEq] at hu
  · subst hu
    exact ⟨fun v hv => (by cases hv), fun _ => ⟨ha, hb⟩⟩
  · subst hu
    refine ⟨fun v hv => ?_, fun h => (by cases h)⟩
    cases hv
    exact ⟨fun w => by rw [ha, ha]; ring, hb⟩
  · subst hu
    refine ⟨fun v hv => ?_, fun h => (by cases h)⟩
    cases hv
    exact ⟨ha, fun w => by rw [hb, hb]; ring⟩
  · split at hu
    · rename_i heq
      cases hu
      subst heq
      refine ⟨fun v hv => ?_, fun h => (by cases h)⟩
      cases hv
      exact ⟨ha, hb⟩
    · cases hu

/-- **Soundness of dimension inference.** -/
theorem inferDim_sound (r : Rescale) (denv : Nat → Dim) :
    ∀ (e : Expr) (t : DimTy), inferDim denv e = some t → t.Holds r denv e := by
  intro e
  induction e with
  | var i f =>
    intro t h
    simp only [inferDim, Option.some.injEq] at h
    subst h
    intro x
    simp [Expr.evalR, Rescale.env]
  | lit f s m e =>
    intro t h
    simp only [inferDim] at h
    split at h
    · rename_i hm
      cases h
      intro x
      simp [Expr.evalR, dyadicR, hm]
    · cases h
      intro x
      simp [Expr.evalR]
  | pi f m e =>
    intro t h
    simp only [inferDim, Option.some.injEq] at h
    subst h
    intro x
    simp [Expr.evalR]
  | uninit f =>
    intro t h
    simp [inferDim] at h
  | cast f a ih =>
    intro t h
    simp only [inferDim] at h
    have := ih t h
    cases t
    · intro x; simpa [Expr.evalR] using this x
    · intro x; simpa [Expr.evalR] using this x
  | powi f n a ih =>
    intro t h
    simp only [inferDim] at h
    split at h
    · cases h
    · rename_i ha
      split at h
      · rename_i hn
        cases h
        have := ih _ ha
        intro x
        simp only [Expr.evalR, this x]
        exact zero_zpow n (by omega)
      · cases h
    · rename_i d ha
      cases h
      have := ih _ ha
      intro x
      simp only [Expr.evalR, this x, mul_zpow, Rescale.scale_smul]
  | un op f a ih =>
    intro t h
    simp only [inferDim] at h
    split at h
    · cases h
    · rename_i d ha; cases h
      have := ih _ ha
      cases t
      · intro x; simp [Expr.evalR, UnOp.evalR, this x]
      · intro x; simp only [Expr.evalR, UnOp.evalR, this x]; ring
    · rename_i d ha; cases h
      have := ih _ ha
      cases t
      · intro x; simp [Expr.evalR, UnOp.evalR, this x]
      · intro x
        simp only [Expr.evalR, UnOp.evalR, this x, abs_mul, abs_of_pos (r.scale_pos _)]
    · rename_i ha; cases h
      have := ih _ ha
      intro x; simp [Expr.evalR, UnOp.evalR, this x]
    · rename_i d ha
      split at h
      · rename_i hev
        cases h
        have := ih _ ha
        intro x
        simp only [Expr.evalR, UnOp.evalR, this x]
        rw [r.scale_half d hev, mul_assoc, Real.sqrt_mul (r.scale_pos _).le,
          Real.sqrt_mul (r.scale_pos _).le, ← mul_assoc, Real.mul_self_sqrt (r.scale_pos _).le]
      · cases h
    · cases h
    · rename_i d ha
      split at h
      · rename_i hz
        cases h
        have := ih _ ha
        subst hz
        intro x
        simp only [Expr.evalR, this x, Rescale.scale_zero, one_mul]
      · cases h
  | bin op f a b iha ihb =>
    intro t h
    simp only [inferDim] at h
    split at h
    · cases h
    · cases h
    · rename_i x y ha hb
      obtain ⟨h1, h2⟩ := unify_holds h (iha _ ha) (ihb _ hb)
      cases t
      · obtain ⟨p, q⟩ := h2 rfl
        intro w; simp [Expr.evalR, BinOp.evalR, p w, q w]
      · obtain ⟨p, q⟩ := h1 _ rfl
        intro w; simp only [Expr.evalR, BinOp.evalR, p w, q w]; ring
    · rename_i x y ha hb
      obtain ⟨h1, h2⟩ := unify_holds h (iha _ ha) (ihb _ hb)
      cases t
      · obtain ⟨p, q⟩ := h2 rfl
        intro w; simp [Expr.evalR, BinOp.evalR, p w, q w]
      · obtain ⟨p, q⟩ := h1 _ rfl
        intro w; simp only [Expr.evalR, BinOp.evalR, p w, q w]; ring
    · rename_i y ha hb; cases h
      have := iha _ ha
      intro w; simp [Expr.evalR, BinOp.evalR, this w]
    · rename_i x ha hb; cases h
      have := ihb _ hb
      intro w; simp [Expr.evalR, BinOp.evalR, this w]
    · rename_i x y ha hb; cases h
      have p := iha _ ha; have q := ihb _ hb
      intro w; simp only [Expr.evalR, BinOp.evalR, p w, q w, Rescale.scale_add]; ring
    · cases h
    · rename_i y ha hb; cases h
      have := iha _ ha
      intro w; simp [Expr.evalR, BinOp.evalR, this w]
    · rename_i x y ha hb; cases h
      have p := iha _ ha; have q := ihb _ hb
      intro w
      simp only [Expr.evalR, BinOp.evalR, p w, q w, Rescale.scale_sub]
      have := r.scale_ne_zero y
      by_cases hz : Expr.evalR w b = 0
      · simp [hz]
      · field_simp
    · rename_i x y ha hb
      split at h
      · rename_i hz
        cases h
        obtain ⟨hx, hy⟩ := hz
        subst hx; subst hy
        have p := iha _ ha; have q := ihb _ hb
        intro w
        simp only [Expr.evalR, BinOp.evalR, p w, q w, Rescale.scale_zero, one_mul]
      · cases h
    · cases h

end PhQVerif
