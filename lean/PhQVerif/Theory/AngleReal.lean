/-
Theory/AngleReal.lean — the angle between two vectors over the reals, and what an angle kernel whose
tree passes `angleTreeExact` computes there.

`angleR a b = arccos (a·b / (|a| |b|))` on `Fin 3 → ℝ` (planar vectors are embedded by `V2`). Proved
here, for all vectors: symmetry, independence of the (positive) lengths, the range `[0, π]`, `0` for
parallel and `π` for antiparallel arguments, and the two equations
`cos θ · |a||b| = a·b`, `sin θ · |a||b| = |a × b|` that characterise `atan2(|a × b|, a·b)`.
-/
import PhQVerif.Theory.Tensor
import PhQVerif.Core.Angle
import Mathlib.Analysis.SpecialFunctions.Trigonometric.Inverse
import Mathlib.Analysis.SpecialFunctions.Sqrt
import Mathlib.Tactic.Linarith
import Mathlib.Tactic.Positivity
import Mathlib.LinearAlgebra.Matrix.DotProduct

namespace PhQVerif
open Matrix

/-- Cosine of the angle between `a` and `b`. -/
noncomputable def cosineR (a b : Fin 3 → ℝ) : ℝ :=
  (a ⬝ᵥ b) / (Real.sqrt (a ⬝ᵥ a) * Real.sqrt (b ⬝ᵥ b))

/-- The angle between `a` and `b`. -/
noncomputable def angleR (a b : Fin 3 → ℝ) : ℝ := Real.arccos (cosineR a b)

theorem dot_self_nonneg (a : Fin 3 → ℝ) : 0 ≤ a ⬝ᵥ a := by
  simp only [dotProduct, Fin.sum_univ_three]
  nlinarith [mul_self_nonneg (a 0), mul_self_nonneg (a 1), mul_self_nonneg (a 2)]

theorem dot_self_pos {a : Fin 3 → ℝ} (ha : a ≠ 0) : 0 < a ⬝ᵥ a := by
  rcases lt_or_eq_of_le (dot_self_nonneg a) with h | h
  · exact h
  · exact absurd (dotProduct_self_eq_zero.mp h.symm) ha

theorem cosineR_comm (a b : Fin 3 → ℝ) : cosineR a b = cosineR b a := by
  unfold cosineR
  rw [dotProduct_comm a b, mul_comm]

theorem angleR_comm (a b : Fin 3 → ℝ) : angleR a b = angleR b a := by
  unfold angleR; rw [cosineR_comm]

theorem cosineR_smul_left {s : ℝ} (hs : 0 < s) (a b : Fin 3 → ℝ) : cosineR (s • a) b = cosineR a b := by
  unfold cosineR
  rw [smul_dotProduct, smul_dotProduct, dotProduct_smul, smul_eq_mul, smul_eq_mul, smul_eq_mul,
    ← mul_assoc, Real.sqrt_mul (mul_self_nonneg s), Real.sqrt_mul_self hs.le, mul_assoc,
    mul_div_mul_left _ _ hs.ne']

theorem cosineR_smul_right {s : ℝ} (hs : 0 < s) (a b : Fin 3 → ℝ) : cosineR a (s • b) = cosineR a b := by
  rw [cosineR_comm, cosineR_smul_left hs, cosineR_comm]

/-- **Independence of the lengths.** -/
theorem angleR_smul_smul {s t : ℝ} (hs : 0 < s) (ht : 0 < t) (a b : Fin 3 → ℝ) :
    angleR (s • a) (t • b) = angleR a b := by
  unfold angleR; rw [cosineR_smul_left hs, cosineR_smul_right ht]

theorem angleR_mem (a b : Fin 3 → ℝ) : 0 ≤ angleR a b ∧ angleR a b ≤ Real.pi :=
  ⟨Real.arccos_nonneg _, Real.arccos_le_pi _⟩

/-- Lagrange's identity. -/
theorem lagrange (a b : Fin 3 → ℝ) :
    (a ⨯₃ b) ⬝ᵥ (a ⨯₃ b) = (a ⬝ᵥ a) * (b ⬝ᵥ b) - (a ⬝ᵥ b) ^ 2 := by
  simp only [cross_apply, dotProduct, Fin.sum_univ_three, Matrix.cons_val_zero, Matrix.cons_val_one,
    Matrix.cons_val_two, Matrix.head_cons, Matrix.tail_cons]
  ring

/-- Cauchy–Schwarz. -/
theorem dot_sq_le (a b : Fin 3 → ℝ) : (a ⬝ᵥ b) ^ 2 ≤ (a ⬝ᵥ a) * (b ⬝ᵥ b) := by
  have := dot_self_nonneg (a ⨯₃ b)
  rw [lagrange] at this
  linarith

theorem norms_pos {a b : Fin 3 → ℝ} (ha : a ≠ 0) (hb : b ≠ 0) :
    0 < Real.sqrt (a ⬝ᵥ a) * Real.sqrt (b ⬝ᵥ b) :=
  mul_pos (Real.sqrt_pos.mpr (dot_self_pos ha)) (Real.sqrt_pos.mpr (dot_self_pos hb))

theorem cosineR_sq_le_one (a b : Fin 3 → ℝ) : cosineR a b ^ 2 ≤ 1 := by
  unfold cosineR
  rw [div_pow, mul_pow, Real.sq_sqrt (dot_self_nonneg a), Real.sq_sqrt (dot_self_nonneg b)]
  exact div_le_one_of_le₀ (dot_sq_le a b) (mul_nonneg (dot_self_nonneg a) (dot_self_nonneg b))

theorem cosineR_mem (a b : Fin 3 → ℝ) : -1 ≤ cosineR a b ∧ cosineR a b ≤ 1 := by
  have h := cosineR_sq_le_one a b
  constructor <;> nlinarith

/-- `cos θ · |a||b| = a·b`. -/
theorem cos_angleR {a b : Fin 3 → ℝ} (ha : a ≠ 0) (hb : b ≠ 0) :
    Real.cos (angleR a b) * (Real.sqrt (a ⬝ᵥ a) * Real.sqrt (b ⬝ᵥ b)) = a ⬝ᵥ b := by
  unfold angleR
  rw [Real.cos_arccos (cosineR_mem a b).1 (cosineR_mem a b).2]
  unfold cosineR
  exact div_mul_cancel₀ _ (norms_pos ha hb).ne'

/-- `sin θ · |a||b| = |a × b|`. Together with `cos_angleR` and `angleR_mem` this says that `angleR a b`
is `atan2(|a × b|, a·b)`. -/
theorem sin_angleR {a b : Fin 3 → ℝ} (ha : a ≠ 0) (hb : b ≠ 0) :
    Real.sin (angleR a b) * (Real.sqrt (a ⬝ᵥ a) * Real.sqrt (b ⬝ᵥ b)) =
      Real.sqrt ((a ⨯₃ b) ⬝ᵥ (a ⨯₃ b)) := by
  have hp := norms_pos ha hb
  unfold angleR
  rw [Real.sin_arccos, ← Real.sqrt_mul_self hp.le, ← Real.sqrt_mul (by
    have := cosineR_sq_le_one a b; linarith)]
  congr 1
  rw [lagrange]
  have hsq : (Real.sqrt (a ⬝ᵥ a) * Real.sqrt (b ⬝ᵥ b)) * (Real.sqrt (a ⬝ᵥ a) * Real.sqrt (b ⬝ᵥ b)) =
      (a ⬝ᵥ a) * (b ⬝ᵥ b) := by
    rw [mul_mul_mul_comm, Real.mul_self_sqrt (dot_self_nonneg a), Real.mul_self_sqrt (dot_self_nonneg b)]
  rw [hsq]
  unfold cosineR
  rw [div_pow, mul_pow, Real.sq_sqrt (dot_self_nonneg a), Real.sq_sqrt (dot_self_nonneg b)]
  have hne : (a ⬝ᵥ a) * (b ⬝ᵥ b) ≠ 0 := (mul_pos (dot_self_pos ha) (dot_self_pos hb)).ne'
  rw [sub_mul, one_mul, div_mul_cancel₀ _ hne]

/-- Parallel arguments: the angle is `0`. -/
theorem angleR_parallel {a : Fin 3 → ℝ} (ha : a ≠ 0) {t : ℝ} (ht : 0 < t) : angleR a (t • a) = 0 := by
  have h : angleR a (t • a) = angleR a a := by
    have := angleR_smul_smul one_pos ht a a
    simpa using this
  rw [h]
  unfold angleR cosineR
  rw [Real.arccos_eq_zero, ← Real.sqrt_mul (dot_self_nonneg a), Real.sqrt_mul_self (dot_self_nonneg a),
    div_self (dot_self_pos ha).ne']

/-- Antiparallel arguments: the angle is `π`. -/
theorem angleR_antiparallel {a : Fin 3 → ℝ} (ha : a ≠ 0) {t : ℝ} (ht : t < 0) :
    angleR a (t • a) = Real.pi := by
  have h : angleR a (t • a) = angleR a (-a) := by
    have := angleR_smul_smul one_pos (neg_pos.mpr ht) a (-a)
    simpa using this
  rw [h]
  unfold angleR cosineR
  rw [Real.arccos_eq_pi, dotProduct_neg, neg_dotProduct, dotProduct_neg, neg_neg,
    ← Real.sqrt_mul (dot_self_nonneg a), Real.sqrt_mul_self (dot_self_nonneg a), neg_div,
    div_self (dot_self_pos ha).ne']

/-! ### What a kernel that passes `angleTreeExact` computes -/

theorem isLitOne_evalR {neg : Bool} {e : Expr} (h : isLitOne neg e = true) (x : Nat → ℝ) :
    e.evalR x = if neg then -1 else 1 := by
  cases e <;> simp only [isLitOne, Bool.false_eq_true] at h
  rename_i f s m ex
  match m, ex, h with
  | 1, 0, h =>
    simp only [beq_iff_eq] at h
    subst h
    cases s <;> simp [Expr.evalR, dyadicR]

theorem isAcosLit_values {neg : Bool} {t : DTree} (h : isAcosLit neg t = true) (x : Nat → ℝ) :
    t.valuesR x = some [some (Real.arccos (if neg then -1 else 1))] := by
  match t, h with
  | .leaf [.num (.un .acos f arg)], h =>
    simp only [isAcosLit] at h
    simp [DTree.valuesR, DTree.leafR, Out.evalR, Expr.evalR, UnOp.evalR, isLitOne_evalR h x]

/-- **Soundness of `angleTreeExact`.** Over the reals the kernel returns `arccos c` on every input. -/
theorem angleTreeExact_sound (c : Expr) (x : Nat → ℝ) :
    ∀ t : DTree, angleTreeExact c t = true → t.valuesR x = some [some (Real.arccos (c.evalR x))] := by
  intro t
  induction t with
  | unexplored => intro h; simp [angleTreeExact] at h
  | leaf outs =>
    intro h
    match outs, h with
    | [.num (.un .acos f arg)], h =>
      simp only [angleTreeExact, beq_iff_eq] at h
      subst h
      simp [DTree.valuesR, DTree.leafR, Out.evalR, Expr.evalR, UnOp.evalR]
  | node op a b y n ihy ihn =>
    intro h
    cases op <;> simp only [angleTreeExact, Bool.false_eq_true] at h
    by_cases h1 : (isLitOne true b && a == c) = true
    · simp only [h1, if_true, Bool.and_eq_true] at h
      simp only [Bool.and_eq_true, beq_iff_eq] at h1
      obtain ⟨hb, rfl⟩ := h1
      have hbv := isLitOne_evalR hb x
      simp only [if_true] at hbv
      by_cases hc : a.evalR x < -1
      · have : (DTree.node .lt a b y n).valuesR x = y.valuesR x := by
          simp [DTree.valuesR, DTree.leafR, CmpOp.evalR, hbv, hc]
        rw [this, isAcosLit_values h.1 x]
        simp only [if_true]
        rw [Real.arccos_neg_one, (Real.arccos_eq_pi.mpr hc.le)]
      · have : (DTree.node .lt a b y n).valuesR x = n.valuesR x := by
          simp [DTree.valuesR, DTree.leafR, CmpOp.evalR, hbv, hc]
        rw [this]
        exact ihn h.2
    · simp only [h1, Bool.false_eq_true, if_false] at h
      by_cases h2 : (isLitOne false a && b == c) = true
      · simp only [h2, if_true, Bool.and_eq_true] at h
        simp only [Bool.and_eq_true, beq_iff_eq] at h2
        obtain ⟨ha, rfl⟩ := h2
        have hav := isLitOne_evalR ha x
        simp only [Bool.false_eq_true, if_false] at hav
        by_cases hc : 1 < b.evalR x
        · have : (DTree.node .lt a b y n).valuesR x = y.valuesR x := by
            simp [DTree.valuesR, DTree.leafR, CmpOp.evalR, hav, hc]
          rw [this, isAcosLit_values h.1 x]
          simp only [Bool.false_eq_true, if_false]
          rw [Real.arccos_one, (Real.arccos_eq_zero.mpr hc.le)]
        · have : (DTree.node .lt a b y n).valuesR x = n.valuesR x := by
            simp [DTree.valuesR, DTree.leafR, CmpOp.evalR, hav, hc]
          rw [this]
          exact ihn h.2
      · simp [h2] at h

/-- The real value of the expression an angle kernel clamps. -/
noncomputable def Entry.cosR (e : Entry) (x : Nat → ℝ) : ℝ :=
  match e.tree.angleCos with
  | some c => c.evalR x
  | none => 0

theorem checkAngleExact_sound {e : Entry} (h : checkAngleExact e = true) (x : Nat → ℝ) :
    e.tree.valuesR x = some [some (Real.arccos (e.cosR x))] := by
  unfold checkAngleExact at h
  unfold Entry.cosR
  cases hc : e.tree.angleCos with
  | none => simp [hc] at h
  | some c =>
    simp only [hc] at h ⊢
    exact angleTreeExact_sound c x e.tree h

end PhQVerif
