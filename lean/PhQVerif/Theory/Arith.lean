/-
Theory/Arith.lean — soundness of the C04 checkers: what `isBinOf`, `checkTwin` accept really is the
single correctly rounded operation on the stored values / really is the same computation.
-/
import PhQVerif.Theory.FlBasic
import PhQVerif.Core.Check

namespace PhQVerif

/-- The four basic operations of the soft-float model. -/
def Fl.binop (op : BinOp) (f : Fmt) (a b : Fl) : Fl :=
  match op with
  | .add => Fl.add f a b
  | .sub => Fl.sub f a b
  | .mul => Fl.mul f a b
  | .div => Fl.div f a b
  | .pow => .nan

/-- The value an operand expression denotes: the stored number, converted to the operation's format
if it was stored in another one. -/
def IsStoredOrCast (fm : Fm) (v x : Fl) : Prop := x = v ∨ x = Fl.cast fm.fmt v

theorem isOperand_sound {fm : Fm} {j : Nat} {x : Expr} (h : isOperand fm j x = true) (L : Libm)
    (env : Nat → Fl) : IsStoredOrCast fm (env j) (x.evalF L env) := by
  cases x with
  | var i f =>
    simp only [isOperand, beq_iff_eq] at h
    subst h
    exact Or.inl rfl
  | cast f a =>
    cases a with
    | var i g =>
      simp only [isOperand, Bool.and_eq_true, beq_iff_eq] at h
      obtain ⟨hf, hi⟩ := h
      subst hf; subst hi
      exact Or.inr rfl
    | _ => simp [isOperand] at h
  | _ => simp [isOperand] at h

/-- **Soundness of `isBinOf`.** The expression evaluates, for all inputs, to the one correctly
rounded operation `op` on the two stored operands in the written order. -/
theorem isBinOf_sound {op : BinOp} {fm : Fm} {a b : Nat} {ex : Expr} (hop : op ≠ .pow)
    (h : isBinOf op fm a b ex = true) (L : Libm) (env : Nat → Fl) :
    ∃ u v, IsStoredOrCast fm (env a) u ∧ IsStoredOrCast fm (env b) v ∧
      ex.evalF L env = Fl.binop op fm.fmt u v := by
  cases ex with
  | bin o f x y =>
    simp only [isBinOf, Bool.and_eq_true, Bool.or_eq_true, beq_iff_eq] at h
    obtain ⟨⟨ho, hf⟩, hxy⟩ := h
    subst ho; subst hf
    rcases hxy with ⟨hx, hy⟩ | ⟨⟨hc, hx⟩, hy⟩
    · refine ⟨x.evalF L env, y.evalF L env, isOperand_sound hx L env, isOperand_sound hy L env, ?_⟩
      cases o <;> first | rfl | exact absurd rfl hop
    · refine ⟨y.evalF L env, x.evalF L env, isOperand_sound hy L env, isOperand_sound hx L env, ?_⟩
      rcases hc with hc | hc <;> subst hc
      · show Fl.add f.fmt _ _ = Fl.add f.fmt _ _
        exact Fl.add_comm _ _ _
      · show Fl.mul f.fmt _ _ = Fl.mul f.fmt _ _
        exact Fl.mul_comm _ _ _
  | _ => simp [isBinOf] at h

theorem evalF_renameVars (L : Libm) (env : Nat → Fl) (r : Nat → Nat) (e : Expr) :
    (e.renameVars r).evalF L env = e.evalF L (fun i => env (r i)) := by
  induction e with
  | var i f => rfl
  | lit f s m e => rfl
  | pi f m e => rfl
  | uninit f => rfl
  | un op f a ih => simp only [Expr.renameVars, Expr.evalF, ih]
  | bin op f a b iha ihb => simp only [Expr.renameVars, Expr.evalF, iha, ihb]
  | powi f n a ih => simp only [Expr.renameVars, Expr.evalF, ih]
  | cast f a ih => simp only [Expr.renameVars, Expr.evalF, ih]

/-- The input renaming a swapped operand order induces: the operator `B ∘ A` sees `B`'s `n`
components first, the constructor `C(A, B)` sees `A`'s `m` components first. -/
def swapRenaming (n m : Nat) : Nat → Nat := fun j => if j < n then m + j else j - n

/-- **Soundness of `checkTwin`.** Both entries are straight-line and every output component of one
evaluates, in floating point, to exactly the same datum as the other's (after the renaming of
inputs the argument order implies), for all inputs. -/
theorem checkTwin_sound {c o : Entry} {sw : Bool} (h : checkTwin c o sw = true) :
    ∃ a b, c.numOuts = some a ∧ o.numOuts = some b ∧ a.length = b.length ∧
      ∀ (L : Libm) (env : Nat → Fl),
        a.map (fun ex => ex.evalF L env) =
          b.map (fun ex => ex.evalF L (if sw then
            (fun j => env (match o.argSizes with | [n, m] => swapRenaming n m j | _ => j)) else env)) := by
  simp only [checkTwin, Bool.and_eq_true] at h
  obtain ⟨_, h⟩ := h
  cases ha : c.numOuts with
  | none => simp [ha] at h
  | some a =>
    cases hb : o.numOuts with
    | none => simp [ha, hb] at h
    | some b =>
      cases hs : o.argSizes with
      | nil => simp [ha, hb, hs] at h
      | cons n rest =>
        cases rest with
        | nil => simp [ha, hb, hs] at h
        | cons m rest2 =>
          cases rest2 with
          | cons _ _ => simp [ha, hb, hs] at h
          | nil =>
            simp only [ha, hb, hs] at h
            refine ⟨a, b, rfl, rfl, ?_, ?_⟩
            · cases sw
              · simp only [Bool.false_eq_true, if_false, beq_iff_eq] at h; rw [h]
              · simp only [if_true, beq_iff_eq] at h; rw [h]; simp
            · intro L env
              cases sw
              · simp only [Bool.false_eq_true, if_false, beq_iff_eq] at h
                subst h; rfl
              · simp only [if_true, beq_iff_eq] at h
                subst h
                simp only [List.map_map, if_true]
                apply List.map_congr_left
                intro ex _
                simp only [Function.comp, evalF_renameVars]
                rfl

end PhQVerif
