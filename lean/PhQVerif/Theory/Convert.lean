/-
Theory/Convert.lean — semantics of the conversion checkers (C02): what `convExpr` /
`convStaticExpr` / `outsAreConv` accept is, for all inputs, the composition of the unit kernels as
functions on floating-point data.
-/
import PhQVerif.Theory.Access

namespace PhQVerif

/-- A traced kernel (an expression in the single input `var 0`) as a function on floats. -/
def kernelF (L : Libm) (ex : Expr) (x : Fl) : Fl := ex.evalF L (fun _ => x)

/-- `Convert(x, from, to)` on floats: the two kernels composed, each skipped for the standard unit. -/
def convF (L : Libm) (k : UnitKernels) (frm to : Nat) (x : Fl) : Option Fl :=
  match (if frm == k.standard then some x else (k.toStd[frm]?).map (fun ke => kernelF L ke x)) with
  | none => none
  | some a => if to == k.standard then some a else (k.fromStd[to]?).map (fun ke => kernelF L ke a)

/-- `ConvertStatically<from, to>(x)` on floats. -/
def convStaticF (L : Libm) (k : UnitKernels) (frm to : Nat) (x : Fl) : Option Fl :=
  match (k.toStd[frm]?).map (fun ke => kernelF L ke x) with
  | none => none
  | some a => (k.fromStd[to]?).map (fun ke => kernelF L ke a)

theorem kernel_subst (L : Libm) (env : Nat → Fl) (ke x : Expr) :
    (ke.subst fun _ => x).evalF L env = kernelF L ke (x.evalF L env) := by
  rw [evalF_subst]; rfl

theorem convExpr_sound {k : UnitKernels} {frm to : Nat} {x ex : Expr}
    (h : convExpr k frm to x = some ex) (L : Libm) (env : Nat → Fl) :
    convF L k frm to (x.evalF L env) = some (ex.evalF L env) := by
  unfold convExpr at h
  unfold convF
  by_cases h1 : (frm == k.standard) = true
  · simp only [h1, if_true] at h ⊢
    by_cases h2 : (to == k.standard) = true
    · simp only [h2, if_true, Option.some.injEq] at h ⊢
      rw [h]
    · simp only [h2, Bool.false_eq_true, if_false] at h ⊢
      cases hk : k.fromStd[to]? with
      | none => simp [hk] at h
      | some ke =>
        simp only [hk, Option.map_some, Option.some.injEq] at h ⊢
        rw [← h, kernel_subst]
  · simp only [h1, Bool.false_eq_true, if_false] at h ⊢
    cases hk1 : k.toStd[frm]? with
    | none => simp [hk1] at h
    | some k1 =>
      simp only [hk1, Option.map_some] at h ⊢
      by_cases h2 : (to == k.standard) = true
      · simp only [h2, if_true, Option.some.injEq] at h ⊢
        rw [← h, kernel_subst]
      · simp only [h2, Bool.false_eq_true, if_false] at h ⊢
        cases hk : k.fromStd[to]? with
        | none => simp [hk] at h
        | some ke =>
          simp only [hk, Option.map_some, Option.some.injEq] at h ⊢
          rw [← h, kernel_subst, kernel_subst]

theorem convStaticExpr_sound {k : UnitKernels} {frm to : Nat} {x ex : Expr}
    (h : convStaticExpr k frm to x = some ex) (L : Libm) (env : Nat → Fl) :
    convStaticF L k frm to (x.evalF L env) = some (ex.evalF L env) := by
  unfold convStaticExpr at h
  unfold convStaticF
  cases hk1 : k.toStd[frm]? with
  | none => simp [hk1] at h
  | some k1 =>
    simp only [hk1, Option.map_some] at h ⊢
    cases hk : k.fromStd[to]? with
    | none => simp [hk] at h
    | some ke =>
      simp only [hk, Option.map_some, Option.some.injEq] at h ⊢
      rw [← h, kernel_subst, kernel_subst]

/-- Every output is the conversion of the input component in the same slot. -/
theorem outsAreConv_sound {conv : Expr → Option Expr} {convF' : Fl → Option Fl} {fm : Fm}
    {outs : List Expr} {off : Nat} (L : Libm)
    (hconv : ∀ x ex, conv x = some ex → ∀ env : Nat → Fl, convF' (x.evalF L env) = some (ex.evalF L env))
    (h : outsAreConv conv fm outs off = true) :
    ∀ i ex, outs[i]? = some ex → ∀ env : Nat → Fl, convF' (env (off + i)) = some (ex.evalF L env) := by
  intro i ex hi env
  simp only [outsAreConv, allIdx, List.all_eq_true] at h
  have hmem : (ex, i) ∈ outs.zipIdx := by
    rw [List.mem_zipIdx_iff_getElem?]; simpa using hi
  have := h _ hmem
  simp only [beq_iff_eq] at this
  exact hconv _ _ this env

/-- Output `i` evaluates to `g` of input `i`, for every slot and all inputs. -/
def SlotwiseF (L : Libm) (outs : List Expr) (g : Fl → Option Fl) : Prop :=
  ∀ i ex, outs[i]? = some ex → ∀ env : Nat → Fl, g (env i) = some (ex.evalF L env)

/-- Output `i` is input `i`, bit for bit. -/
def Unchanged (L : Libm) (outs : List Expr) : Prop :=
  ∀ i ex, outs[i]? = some ex → ∀ env : Nat → Fl, ex.evalF L env = env i

theorem slotwise_of_outsAreConv {conv : Expr → Option Expr} {g : Fl → Option Fl} {fm : Fm}
    {outs : List Expr} (L : Libm)
    (hconv : ∀ x ex, conv x = some ex → ∀ env : Nat → Fl, g (x.evalF L env) = some (ex.evalF L env))
    (h : outsAreConv conv fm outs 0 = true) : SlotwiseF L outs g := by
  intro i ex hi env
  have := outsAreConv_sound (convF' := g) L hconv h i ex hi env
  simpa using this

theorem unchanged_of_allIdx {outs : List Expr} (L : Libm)
    (h : allIdx outs (fun i ex => isVar i ex) = true) : Unchanged L outs := by
  intro i ex hi env
  simp only [allIdx, List.all_eq_true] at h
  have hmem : (ex, i) ∈ outs.zipIdx := by
    rw [List.mem_zipIdx_iff_getElem?]; simpa using hi
  exact isVar_sound (h _ hmem) L env

/-- What C02 says about one entry point of Unit.hpp, given the kernel table of its unit type. -/
def UnitEntrySpec (L : Libm) (k : UnitKernels) (e : Entry) : Prop :=
  match e.unitShape with
  | .copy f t outs n =>
    outs.length = 2 * n ∧ SlotwiseF L (outs.take n) (convF L k f t) ∧ Unchanged L (outs.drop n)
  | .inplace f t outs n => outs.length = n ∧ SlotwiseF L outs (convF L k f t)
  | .static f t outs n =>
    outs.length = 2 * n ∧ SlotwiseF L (outs.take n) (convStaticF L k f t) ∧ Unchanged L (outs.drop n)
  | .kernelTo u o => k.toStd[u]? = some o
  | .kernelFrom u o => k.fromStd[u]? = some o
  | .bad => False

theorem checkUnitEntry_sound (L : Libm) {k : UnitKernels} {e : Entry}
    (h : checkUnitEntry k e = true) : UnitEntrySpec L k e := by
  unfold checkUnitEntry at h
  unfold UnitEntrySpec
  cases hs : e.unitShape with
  | copy f t outs n =>
    simp only [hs, Bool.and_eq_true, beq_iff_eq] at h ⊢
    exact ⟨h.1.1, slotwise_of_outsAreConv L (fun x ex hx env => convExpr_sound hx L env) h.1.2,
      unchanged_of_allIdx L h.2⟩
  | inplace f t outs n =>
    simp only [hs, Bool.and_eq_true, beq_iff_eq] at h ⊢
    exact ⟨h.1, slotwise_of_outsAreConv L (fun x ex hx env => convExpr_sound hx L env) h.2⟩
  | static f t outs n =>
    simp only [hs, Bool.and_eq_true, beq_iff_eq] at h ⊢
    exact ⟨h.1.1, slotwise_of_outsAreConv L (fun x ex hx env => convStaticExpr_sound hx L env) h.1.2,
      unchanged_of_allIdx L h.2⟩
  | kernelTo u o => simpa [hs] using h
  | kernelFrom u o => simpa [hs] using h
  | bad => simp [hs] at h

/-- What C02 says about a per-class entry point that takes a unit. -/
def ClassUnitSpec (L : Libm) (classes : List ClassInfo) (kof : Nat → Option UnitKernels) (e : Entry) :
    Prop :=
  match e.classUnitShape classes kof with
  | .noUnit => True
  | .conv rt f t k nums n =>
    nums.length = n ∧ SlotwiseF L nums (if rt then convF L k f t else convStaticF L k f t)
  | .bad => False

theorem checkClassUnit_sound (L : Libm) {classes : List ClassInfo} {kof : Nat → Option UnitKernels}
    {e : Entry} (h : checkClassUnit classes kof e = true) : ClassUnitSpec L classes kof e := by
  unfold checkClassUnit at h
  unfold ClassUnitSpec
  cases hs : e.classUnitShape classes kof with
  | noUnit => trivial
  | bad => simp [hs] at h
  | conv rt f t k nums n =>
    simp only [hs, Bool.and_eq_true, beq_iff_eq] at h ⊢
    refine ⟨h.1, ?_⟩
    cases rt
    · exact slotwise_of_outsAreConv L (fun x ex hx env => convStaticExpr_sound (by simpa using hx) L env)
        (by simpa using h.2)
    · exact slotwise_of_outsAreConv L (fun x ex hx env => convExpr_sound (by simpa using hx) L env)
        (by simpa using h.2)

end PhQVerif
