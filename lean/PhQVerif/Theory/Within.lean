/-
Theory/Within.lean — what the C01 checker's rational inequalities mean over the reals: the kernel
constant lies within relative `ek · 2^-p` of the enclosure of `num/den · π^k`, and that enclosure
contains the real number.
-/
import Mathlib.Analysis.Real.Pi.Bounds
import Mathlib.Tactic.Positivity
import Mathlib.Tactic.Linarith
import Mathlib.Tactic.FieldSimp
import Mathlib.Tactic.NormNum
import PhQVerif.Core.UnitCheck

namespace PhQVerif

/-- The real value of a `(numerator, denominator)` pair. -/
noncomputable def ratR (r : Nat × Nat) : ℝ := (r.1 : ℝ) / (r.2 : ℝ)

/-- The real magnitude a reading denotes: `num/den · π^k`. -/
noncomputable def Meaning.toReal (m : Meaning) : ℝ := (m.num : ℝ) / (m.den : ℝ) * Real.pi ^ m.k

theorem piLo_lt : ratR piLo < Real.pi := by
  have := Real.pi_gt_d20
  unfold ratR piLo
  norm_num at this ⊢
  linarith

theorem lt_piHi : Real.pi < ratR piHi := by
  have := Real.pi_lt_d20
  unfold ratR piHi
  norm_num at this ⊢
  linarith

/-- **Soundness of `within`.** -/
theorem within_sound {K lo hi : Nat × Nat} {ek p : Nat} (h : within K lo hi ek p = true) :
    ratR lo * (1 - (ek : ℝ) / 2 ^ p) ≤ ratR K ∧ ratR K ≤ ratR hi * (1 + (ek : ℝ) / 2 ^ p) := by
  simp only [within, Bool.and_eq_true, bne_iff_ne, ne_eq, decide_eq_true_eq] at h
  obtain ⟨⟨⟨⟨⟨hK, hlo⟩, hhi⟩, hek⟩, h1⟩, h2⟩ := h
  have hK' : (0 : ℝ) < K.2 := by exact_mod_cast Nat.pos_of_ne_zero hK
  have hlo' : (0 : ℝ) < lo.2 := by exact_mod_cast Nat.pos_of_ne_zero hlo
  have hhi' : (0 : ℝ) < hi.2 := by exact_mod_cast Nat.pos_of_ne_zero hhi
  have hp : (0 : ℝ) < 2 ^ p := by positivity
  unfold ratR
  constructor
  · have h1' : (lo.1 : ℝ) * ((2 : ℝ) ^ p - ek) * K.2 ≤ K.1 * lo.2 * 2 ^ p := by
      have := (Nat.cast_le (α := ℝ)).mpr h1
      push_cast [Nat.cast_sub hek] at this
      exact this
    rw [div_mul_eq_mul_div, div_le_div_iff₀ hlo' hK']
    have : (lo.1 : ℝ) * (1 - (ek : ℝ) / 2 ^ p) * K.2 * 2 ^ p = lo.1 * ((2 : ℝ) ^ p - ek) * K.2 := by
      field_simp
    nlinarith [this, h1', hp]
  · have h2' : (K.1 : ℝ) * hi.2 * 2 ^ p ≤ hi.1 * ((2 : ℝ) ^ p + ek) * K.2 := by
      have := (Nat.cast_le (α := ℝ)).mpr h2
      push_cast at this
      exact this
    rw [div_mul_eq_mul_div, div_le_div_iff₀ hK' hhi']
    have : (hi.1 : ℝ) * (1 + (ek : ℝ) / 2 ^ p) * K.2 * 2 ^ p = hi.1 * ((2 : ℝ) ^ p + ek) * K.2 := by
      field_simp
    nlinarith [this, h2', hp]

end PhQVerif

namespace PhQVerif

theorem ratR_mul_pow (a b : Nat) (r : Nat × Nat) (n : Nat) (hb : b ≠ 0) (hr : r.2 ≠ 0) :
    ratR (a * r.1 ^ n, b * r.2 ^ n) = (a : ℝ) / b * ratR r ^ n := by
  unfold ratR
  have hb' : (b : ℝ) ≠ 0 := by exact_mod_cast hb
  have hr' : (r.2 : ℝ) ≠ 0 := by exact_mod_cast hr
  push_cast
  rw [div_pow]
  field_simp

/-- **The enclosure contains the real magnitude.** -/
theorem enclose_sound (m : Meaning) (hd : m.den ≠ 0) :
    ratR (enclose m).1 ≤ m.toReal ∧ m.toReal ≤ ratR (enclose m).2 := by
  have hq : (0 : ℝ) ≤ (m.num : ℝ) / m.den := by positivity
  have hlo0 : 0 < ratR piLo := by unfold ratR piLo; norm_num
  have hlo := piLo_lt
  have hhi := lt_piHi
  have hpi : 0 < Real.pi := Real.pi_pos
  unfold enclose Meaning.toReal
  by_cases hk : 0 ≤ m.k
  · simp only [hk, if_true]
    obtain ⟨n, hn⟩ := Int.eq_ofNat_of_zero_le hk
    rw [hn]
    simp only [Int.toNat_natCast, zpow_natCast]
    rw [ratR_mul_pow _ _ _ _ hd (by decide), ratR_mul_pow _ _ _ _ hd (by decide)]
    constructor
    · exact mul_le_mul_of_nonneg_left (pow_le_pow_left₀ hlo0.le hlo.le n) hq
    · exact mul_le_mul_of_nonneg_left (pow_le_pow_left₀ hpi.le hhi.le n) hq
  · simp only [hk, if_false]
    have hneg : m.k < 0 := by omega
    obtain ⟨n, hn⟩ : ∃ n : Nat, m.k = -(n : Int) := ⟨(-m.k).toNat, by omega⟩
    rw [hn]
    simp only [neg_neg, Int.toNat_natCast, zpow_neg, zpow_natCast]
    have e1 : ratR (m.num * piHi.2 ^ n, m.den * piHi.1 ^ n) = (m.num : ℝ) / m.den * (ratR piHi ^ n)⁻¹ := by
      unfold ratR
      have hd' : (m.den : ℝ) ≠ 0 := by exact_mod_cast hd
      have : (piHi.1 : ℝ) ≠ 0 := by unfold piHi; norm_num
      have : (piHi.2 : ℝ) ≠ 0 := by unfold piHi; norm_num
      push_cast
      rw [div_pow]
      field_simp
    have e2 : ratR (m.num * piLo.2 ^ n, m.den * piLo.1 ^ n) = (m.num : ℝ) / m.den * (ratR piLo ^ n)⁻¹ := by
      unfold ratR
      have hd' : (m.den : ℝ) ≠ 0 := by exact_mod_cast hd
      have : (piLo.1 : ℝ) ≠ 0 := by unfold piLo; norm_num
      have : (piLo.2 : ℝ) ≠ 0 := by unfold piLo; norm_num
      push_cast
      rw [div_pow]
      field_simp
    rw [e1, e2]
    constructor
    · apply mul_le_mul_of_nonneg_left _ hq
      exact inv_anti₀ (by positivity) (pow_le_pow_left₀ hpi.le hhi.le n)
    · apply mul_le_mul_of_nonneg_left _ hq
      exact inv_anti₀ (by positivity) (pow_le_pow_left₀ hlo0.le hlo.le n)

end PhQVerif
