/-
Theory/Homog.lean — homogeneity of decision trees and entries, from `inferDim_sound`.
-/
import PhQVerif.Theory.DimSound

namespace PhQVerif

open Classical in
/-- Real-number meaning of a recorded comparison. -/
noncomputable def CmpOp.evalR (op : CmpOp) (a b : ℝ) : Bool :=
  match op with
  | .lt => decide (a < b)
  | .gt => decide (a > b)
  | .le => decide (a ≤ b)
  | .ge => decide (a ≥ b)
  | .eq => decide (a = b)
  | .ne => decide (a ≠ b)

theorem CmpOp.evalR_scale (op : CmpOp) {s : ℝ} (hs : 0 < s) (a b : ℝ) :
    op.evalR (s * a) (s * b) = op.evalR a b := by
  cases op <;> simp only [CmpOp.evalR, decide_eq_decide, gt_iff_lt, ge_iff_le, ne_eq]
  · exact mul_lt_mul_iff_right₀ hs
  · exact mul_lt_mul_iff_right₀ hs
  · exact mul_le_mul_iff_right₀ hs
  · exact mul_le_mul_iff_right₀ hs
  · exact mul_right_inj' hs.ne'
  · exact not_congr (mul_right_inj' hs.ne')

namespace DTree

/-- The leaf a decision tree reaches on real inputs. -/
noncomputable def leafR (env : Nat → ℝ) : DTree → Option (List Out)
  | leaf o => some o
  | node op a b y n => if op.evalR (a.evalR env) (b.evalR env) then leafR env y else leafR env n
  | unexplored => none

end DTree

/-- Two terms whose dimensions unify scale by a common positive factor. -/
theorem unify_common_scale {r : Rescale} {denv : Nat → Dim} {a b : Expr} {x y : DimTy}
    (hu : (DimTy.unify x y).isSome = true) (ha : x.Holds r denv a) (hb : y.Holds r denv b) :
    ∃ s : ℝ, 0 < s ∧ ∀ w : Nat → ℝ,
      a.evalR (r.env denv w) = s * a.evalR w ∧ b.evalR (r.env denv w) = s * b.evalR w := by
  obtain ⟨z, hz⟩ := Option.isSome_iff_exists.mp hu
  obtain ⟨h1, h2⟩ := unify_holds hz ha hb
  cases z with
  | any =>
    obtain ⟨p, q⟩ := h2 rfl
    exact ⟨1, one_pos, fun w => by simp [p, q]⟩
  | fixed v =>
    obtain ⟨p, q⟩ := h1 v rfl
    exact ⟨r.scale v, r.scale_pos v, fun w => ⟨p w, q w⟩⟩

/-- **Homogeneity of decision trees.** If `treeDimOk` accepts a tree at dimension `d`, then
rescaling the inputs does not change the branch taken, and every numeric output of the leaf
reached is multiplied by `scale d`. -/
theorem treeDimOk_sound (r : Rescale) (denv : Nat → Dim) (d : Dim) :
    ∀ t : DTree, treeDimOk denv d t = true → ∀ x : Nat → ℝ,
      t.leafR (r.env denv x) = t.leafR x ∧
      ∀ outs, t.leafR x = some outs → ∀ ex, Out.num ex ∈ outs →
        ex.evalR (r.env denv x) = r.scale d * ex.evalR x := by
  intro t
  induction t with
  | unexplored => intro h; simp [treeDimOk] at h
  | leaf outs =>
    intro h x
    refine ⟨rfl, ?_⟩
    intro o ho ex hex
    simp only [DTree.leafR, Option.some.injEq] at ho
    subst ho
    simp only [treeDimOk, List.all_eq_true] at h
    have := h _ hex
    simp only at this
    cases hi : inferDim denv ex with
    | none => simp [hi, DimTy.agrees] at this
    | some ty =>
      have hs := inferDim_sound r denv ex ty hi
      cases ty with
      | any => simp [hs (r.env denv x), hs x]
      | fixed v =>
        simp only [hi, DimTy.agrees, beq_iff_eq] at this
        subst this
        exact hs x
  | node op a b y n ihy ihn =>
    intro h x
    simp only [treeDimOk, Bool.and_eq_true] at h
    obtain ⟨⟨hc, hy⟩, hn⟩ := h
    have hcond : op.evalR (a.evalR (r.env denv x)) (b.evalR (r.env denv x)) =
        op.evalR (a.evalR x) (b.evalR x) := by
      cases hia : inferDim denv a with
      | none => simp [hia] at hc
      | some ta =>
        cases hib : inferDim denv b with
        | none => simp [hia, hib] at hc
        | some tb =>
          simp only [hia, hib] at hc
          obtain ⟨s, hs, hw⟩ := unify_common_scale hc (inferDim_sound r denv a ta hia)
            (inferDim_sound r denv b tb hib)
          rw [(hw x).1, (hw x).2]
          exact CmpOp.evalR_scale op hs _ _
    simp only [DTree.leafR, hcond]
    split
    · exact ihy hy x
    · exact ihn hn x

end PhQVerif
