/-
Theory/Init.lean — C19: what [basic.start.dynamic] guarantees, for every initialisation order a
conforming implementation may choose.

A program's dynamically initialised variables are run in some order `s` (single-threaded start-up).
The standard constrains `s` only through the "sequenced before" rules; `Valid` says `s` respects them.
-/
import Mathlib.Data.List.Basic
import Mathlib.Data.List.Pairwise
import Mathlib.Data.List.Nodup
import PhQVerif.Core.Init

namespace PhQVerif.Init

/-- The variables of a program that need dynamic initialisation. -/
structure Prog where
  cls : Nat → InitClass
  /-- `defBefore v w`: `v` is defined before `w` in every translation unit in which `w` is defined. -/
  defBefore : Nat → Nat → Bool
  /-- `tuBefore v w`: `v` is defined before `w` within a single translation unit. -/
  tuBefore : Nat → Nat → Bool

/-- [basic.start.dynamic]/2: when the initialisation of `v` is sequenced before that of `w`. -/
def Prog.seqBefore (P : Prog) (v w : Nat) : Bool :=
  (P.cls v == .partiallyOrdered && P.cls w != .unordered && P.defBefore v w) ||
  (P.cls v == .ordered && P.cls w == .ordered && P.tuBefore v w)

/-- An initialisation order the implementation may choose: no variable runs after one it is sequenced
before. -/
def Prog.Valid (P : Prog) (s : List Nat) : Prop :=
  s.Nodup ∧ s.Pairwise (fun a b => P.seqBefore b a = false)

/-- `a` is initialised before `b` in the order `s`. -/
def Before (s : List Nat) (a b : Nat) : Prop := ∃ l1 l2 l3, s = l1 ++ a :: l2 ++ b :: l3

theorem before_or_before {s : List Nat} {a b : Nat} (ha : a ∈ s) (hb : b ∈ s) (hne : a ≠ b) :
    Before s a b ∨ Before s b a := by
  induction s with
  | nil => cases ha
  | cons x r ih =>
    rcases List.mem_cons.mp ha with rfl | ha'
    · rcases List.mem_cons.mp hb with h | hb'
      · exact absurd h.symm hne
      · obtain ⟨l2, l3, rfl⟩ := List.append_of_mem hb'
        exact Or.inl ⟨[], l2, l3, by simp⟩
    · rcases List.mem_cons.mp hb with rfl | hb'
      · obtain ⟨l2, l3, rfl⟩ := List.append_of_mem ha'
        exact Or.inr ⟨[], l2, l3, by simp⟩
      · rcases ih ha' hb' with ⟨l1, l2, l3, rfl⟩ | ⟨l1, l2, l3, rfl⟩
        · exact Or.inl ⟨x :: l1, l2, l3, by simp⟩
        · exact Or.inr ⟨x :: l1, l2, l3, by simp⟩

theorem pairwise_of_before {R : Nat → Nat → Prop} {s : List Nat} {a b : Nat} (h : s.Pairwise R)
    (hb : Before s a b) : R a b := by
  obtain ⟨l1, l2, l3, rfl⟩ := hb
  exact (List.pairwise_append.mp h).2.2 a (by simp) b (by simp)

/-- **Guarantee.** If `v` is sequenced before `w`, then in every order a conforming implementation
may choose, `v` is initialised before `w`. -/
theorem initialised_before (P : Prog) (s : List Nat) (hs : P.Valid s) (v w : Nat) (hv : v ∈ s) (hw : w ∈ s)
    (hseq : P.seqBefore v w = true) (hne : v ≠ w) : Before s v w := by
  rcases before_or_before hv hw hne with h | h
  · exact h
  · have := pairwise_of_before hs.2 h
    rw [hseq] at this; cases this

/-- A partially-ordered table defined in a header, and a user's ordered (or partially-ordered)
object defined after the `#include` in every translation unit that defines it: the table is
initialised first, whatever the implementation does. -/
theorem header_table_before_user_object (P : Prog) (s : List Nat) (hs : P.Valid s) (table user : Nat)
    (ht : table ∈ s) (hu : user ∈ s) (hne : table ≠ user)
    (hcls : P.cls table = .partiallyOrdered) (hucls : P.cls user ≠ .unordered)
    (hdef : P.defBefore table user = true) : Before s table user := by
  apply initialised_before P s hs table user ht hu _ hne
  unfold Prog.seqBefore
  have : (P.cls user != InitClass.unordered) = true := by simpa using hucls
  simp [hcls, this, hdef]

/-- **No guarantee for unordered variables.** If `v` has unordered initialisation (an implicitly
instantiated specialisation), then from any allowed order one obtains another allowed order in
which `v` is initialised *last* — in particular after any user object `w` that uses it. -/
theorem unordered_may_come_last (P : Prog) (s : List Nat) (hs : P.Valid s) (v w : Nat) (hv : v ∈ s)
    (hw : w ∈ s) (hne : w ≠ v) (hcls : P.cls v = .unordered) :
    ∃ s', P.Valid s' ∧ s'.Perm s ∧ Before s' w v := by
  refine ⟨s.erase v ++ [v], ⟨?_, ?_⟩, ?_, ?_⟩
  · rw [List.nodup_append]
    refine ⟨hs.1.erase v, List.nodup_singleton v, ?_⟩
    intro a ha b hb
    rw [List.mem_singleton] at hb
    subst hb
    intro hab; subst hab
    exact (List.Nodup.mem_erase_iff hs.1).mp ha |>.1 rfl
  · rw [List.pairwise_append]
    refine ⟨hs.2.sublist (List.erase_sublist), List.pairwise_singleton _ _, ?_⟩
    intro a _ b hb
    rw [List.mem_singleton] at hb
    subst hb
    -- nothing is sequenced after an unordered variable, and it is sequenced before nothing
    unfold Prog.seqBefore
    simp [hcls]
  · exact (List.perm_append_comm.trans (List.perm_cons_erase hv).symm)
  · have hw' : w ∈ s.erase v := (List.mem_erase_of_ne hne).mpr hw
    obtain ⟨l1, l2, h⟩ := List.append_of_mem hw'
    exact ⟨l1, l2, [], by rw [h]⟩

end PhQVerif.Init
