/-
Theory/Skeleton.lean — traces with the same skeleton compute the same real function.
-/
import PhQVerif.Theory.Homog
import PhQVerif.Theory.Access

namespace PhQVerif

theorem evalR_skeleton (env : Nat → ℝ) (e : Expr) : e.skeleton.evalR env = e.evalR env := by
  induction e with
  | var i f => rfl
  | lit f s m e => rfl
  | pi f m e => rfl
  | uninit f => rfl
  | un op f a ih => simp only [Expr.skeleton, Expr.evalR, ih]
  | bin op f a b iha ihb => simp only [Expr.skeleton, Expr.evalR, iha, ihb]
  | powi f n a ih => simp only [Expr.skeleton, Expr.evalR, ih]
  | cast f a ih => simp only [Expr.skeleton, Expr.evalR, ih]

/-- Real value of an output slot (numbers only). -/
noncomputable def Out.evalR (env : Nat → ℝ) : Out → Option ℝ
  | .num e => some (e.evalR env)
  | _ => none

theorem Out.evalR_skeleton (env : Nat → ℝ) (o : Out) : o.skeleton.evalR env = o.evalR env := by
  cases o <;> simp [Out.skeleton, Out.evalR, PhQVerif.evalR_skeleton]

/-- The real values a decision tree returns (the numeric slots of the leaf reached). -/
noncomputable def DTree.valuesR (env : Nat → ℝ) (t : DTree) : Option (List (Option ℝ)) :=
  (t.leafR env).map (List.map (Out.evalR env))

theorem DTree.valuesR_skeleton (env : Nat → ℝ) (t : DTree) :
    t.skeleton.valuesR env = t.valuesR env := by
  induction t with
  | leaf outs =>
    simp only [DTree.skeleton, DTree.valuesR, DTree.leafR, Option.map_some, List.map_map]
    congr 1
    apply List.map_congr_left
    intro o _
    exact Out.evalR_skeleton env o
  | unexplored => rfl
  | node op a b y n ihy ihn =>
    simp only [DTree.skeleton, DTree.valuesR, DTree.leafR, PhQVerif.evalR_skeleton] at *
    split
    · exact ihy
    · exact ihn

/-- **Same formula in every format.** If `sameFormula` accepts the three instantiations of an entry,
the `float` and `long double` instantiations return, over the reals, exactly what the `double` one
returns, on every input and along every branch. -/
theorem sameFormula_sound {t : Entry × Entry × Entry} (h : sameFormula t = true) (env : Nat → ℝ) :
    t.1.tree.valuesR env = t.2.1.tree.valuesR env ∧ t.2.2.tree.valuesR env = t.2.1.tree.valuesR env := by
  simp only [sameFormula, Bool.and_eq_true] at h
  constructor
  · rw [← DTree.valuesR_skeleton env t.1.tree, DTree.beq_eq h.1, DTree.valuesR_skeleton]
  · rw [← DTree.valuesR_skeleton env t.2.2.tree, DTree.beq_eq h.2, DTree.valuesR_skeleton]

end PhQVerif
