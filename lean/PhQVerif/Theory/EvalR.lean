/-
Theory/EvalR.lean — the real-number semantics of traced expressions (all rounding ignored), the
reference against which dimensional homogeneity, tensor algebra and textbook formulas are stated.
-/
import Mathlib.Analysis.SpecialFunctions.Pow.Real
import Mathlib.Analysis.SpecialFunctions.Trigonometric.Inverse
import Mathlib.Analysis.SpecialFunctions.Log.Base
import Mathlib.Analysis.SpecialFunctions.Sqrt
import PhQVerif.Core.Expr

namespace PhQVerif

/-- Exact value of a dyadic literal. -/
noncomputable def dyadicR (s : Bool) (m : Nat) (e : Int) : ℝ :=
  (if s then -1 else 1) * (m : ℝ) * (2 : ℝ) ^ e

noncomputable def UnOp.evalR : UnOp → ℝ → ℝ
  | .neg, x => -x
  | .sqrt, x => Real.sqrt x
  | .abs, x => |x|
  | .acos, x => Real.arccos x
  | .cbrt, x => if 0 ≤ x then x ^ ((1 : ℝ) / 3) else -((-x) ^ ((1 : ℝ) / 3))
  | .exp, x => Real.exp x
  | .log, x => Real.log x
  | .log2, x => Real.logb 2 x
  | .log10, x => Real.logb 10 x

noncomputable def BinOp.evalR : BinOp → ℝ → ℝ → ℝ
  | .add, x, y => x + y
  | .sub, x, y => x - y
  | .mul, x, y => x * y
  | .div, x, y => x / y
  | .pow, x, y => x ^ y

namespace Expr

/-- Real semantics. `pi` denotes the library's own constant (a dyadic rational), not `Real.pi`. -/
noncomputable def evalR (env : Nat → ℝ) : Expr → ℝ
  | var i _ => env i
  | lit _ s m e => dyadicR s m e
  | pi _ m e => dyadicR false m e
  | un op _ a => op.evalR (evalR env a)
  | bin op _ a b => op.evalR (evalR env a) (evalR env b)
  | powi _ n a => (evalR env a) ^ n
  | cast _ a => evalR env a
  | uninit _ => 0

end Expr
end PhQVerif
