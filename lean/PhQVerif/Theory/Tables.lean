/-
Theory/Tables.lean — small facts about association-list lookups and the table checkers.
-/
import PhQVerif.Core.UnitCheck

namespace PhQVerif

theorem lookup_some_mem {α β : Type} [DecidableEq α] {k : α} {v : β} {l : List (α × β)}
    (h : lookup k l = some v) : (k, v) ∈ l := by
  induction l with
  | nil => simp [lookup] at h
  | cons p l ih =>
    obtain ⟨a, b⟩ := p
    simp only [lookup] at h
    split at h
    · rename_i hab
      simp only [Option.some.injEq] at h
      subst hab; subst h
      exact List.mem_cons_self ..
    · exact List.mem_cons_of_mem _ (ih h)

/-- `parse s = lookup s spellings` returns nothing for a string that is not an accepted spelling. -/
theorem lookup_none_of_not_key {α β : Type} [DecidableEq α] {k : α} {l : List (α × β)}
    (h : ∀ p ∈ l, p.1 ≠ k) : lookup k l = none := by
  induction l with
  | nil => rfl
  | cons p l ih =>
    obtain ⟨a, b⟩ := p
    have hne : a ≠ k := h (a, b) (List.mem_cons_self ..)
    simp only [lookup, hne, if_false]
    exact ih (fun q hq => h q (List.mem_cons_of_mem _ hq))

theorem sameSet_mem {a b : List Nat} (h : sameSet a b = true) : ∀ x, x ∈ a ↔ x ∈ b := by
  simp only [sameSet, Bool.and_eq_true, List.all_eq_true, List.contains_iff_mem, beq_iff_eq] at h
  exact fun x => ⟨fun hx => h.1.1 x hx, fun hx => h.1.2 x hx⟩

/-- Every reading returned by `readings d` has dimension set `d`. -/
theorem readings_dims {d : Dim} {s : List Nat} {m : Meaning} (h : m ∈ Symbol.readings d s) : m.d = d := by
  simp only [Symbol.readings, List.mem_filter, beq_iff_eq] at h
  exact h.2

theorem magnitudeOf_spec {u : UnitType} {v : Nat} {m : Meaning} (h : magnitudeOf u v = some m) :
    ∃ a, abbrOf u v = some a ∧ m ∈ Symbol.readings u.dims a ∧ m.d = u.dims := by
  unfold magnitudeOf at h
  cases ha : abbrOf u v with
  | none => simp [ha] at h
  | some a =>
    simp only [ha] at h
    cases hr : Symbol.readings u.dims a with
    | nil => simp [hr] at h
    | cons m' rest =>
      simp only [hr] at h
      split at h
      · simp only [Option.some.injEq] at h
        subst h
        have hm : m' ∈ Symbol.readings u.dims a := by rw [hr]; exact List.mem_cons_self ..
        exact ⟨a, rfl, hm, readings_dims hm⟩
      · simp at h

end PhQVerif
