/-
Theory/Round.lean — what `Fl.round` (Core/Fl.lean) guarantees: it is IEEE-754 round-to-nearest.

* `ilog2Q_spec`   — `2^k ≤ n/d < 2^(k+1)` for `k = ilog2Q n d`;
* `rneDiv_spec`   — `rneDiv N D` is within ½ of `N/D` (and exact when `D ∣ N`);
* `roundPos_error` — the rounded value is within half a quantum of the exact value;
* `round_rel`     — in the normal range the relative error is at most `2^-p`;
* `round_exact`   — representable values round to themselves.
-/
import Mathlib.Tactic.Ring
import Mathlib.Tactic.LinearCombination
import Mathlib.Tactic.FieldSimp
import Mathlib.Tactic.Positivity
import Mathlib.Tactic.Linarith
import Mathlib.Tactic.NormNum
import Mathlib.Tactic.Zify
import Mathlib.Tactic.Push
import Mathlib.Algebra.Order.Field.Power
import Mathlib.Data.Real.Basic
import PhQVerif.Core.Fl

namespace PhQVerif.Fl

/-- The real number a floating-point datum denotes (`0` for infinities and NaN). -/
noncomputable def toReal : Fl → ℝ
  | fin s m e => (if s then -1 else 1) * (m : ℝ) * (2 : ℝ) ^ e
  | _ => 0

theorem two_zpow_toNat {k : Int} (hk : 0 ≤ k) : ((2 ^ k.toNat : Nat) : ℝ) = (2 : ℝ) ^ k := by
  obtain ⟨n, rfl⟩ := Int.eq_ofNat_of_zero_le hk
  simp

theorem log2_bounds (n : Nat) (hn : 0 < n) : (2 : ℝ) ^ (n.log2 : Int) ≤ n ∧ (n : ℝ) < 2 ^ ((n.log2 : Int) + 1) := by
  constructor
  · have := Nat.log2_self_le (Nat.pos_iff_ne_zero.mp hn)
    rw [zpow_natCast]
    exact_mod_cast this
  · have := @Nat.lt_log2_self n
    have h : ((n.log2 : Int) + 1) = ((n.log2 + 1 : Nat) : Int) := by push_cast; ring
    rw [h, zpow_natCast]
    exact_mod_cast this

/-- `ilog2Q n d = ⌊log₂ (n/d)⌋`. -/
theorem ilog2Q_spec (n d : Nat) (hn : 0 < n) (hd : 0 < d) :
    (2 : ℝ) ^ (ilog2Q n d) ≤ (n : ℝ) / d ∧ (n : ℝ) / d < (2 : ℝ) ^ (ilog2Q n d + 1) := by
  have hd' : (0 : ℝ) < d := by exact_mod_cast hd
  have hn' : (0 : ℝ) < n := by exact_mod_cast hn
  obtain ⟨hn1, hn2⟩ := log2_bounds n hn
  obtain ⟨hd1, hd2⟩ := log2_bounds d hd
  unfold ilog2Q
  simp only
  set a : Int := (n.log2 : Int) with ha
  set b : Int := (d.log2 : Int) with hb
  have h2 : (0 : ℝ) < 2 := by norm_num
  -- n/d < 2^(a-b+1) and 2^(a-b-1) < n/d
  have hupper : (n : ℝ) / d < (2 : ℝ) ^ (a - b + 1) := by
    rw [div_lt_iff₀ hd']
    calc (n : ℝ) < 2 ^ (a + 1) := hn2
      _ = 2 ^ (a - b + 1) * 2 ^ b := by rw [← zpow_add₀ (by norm_num : (2 : ℝ) ≠ 0)]; congr 1; ring
      _ ≤ 2 ^ (a - b + 1) * d := by
        apply mul_le_mul_of_nonneg_left hd1 (by positivity)
  have hlower : (2 : ℝ) ^ (a - b - 1) < (n : ℝ) / d := by
    rw [lt_div_iff₀ hd']
    calc (2 : ℝ) ^ (a - b - 1) * d < 2 ^ (a - b - 1) * 2 ^ (b + 1) := by
          apply mul_lt_mul_of_pos_left hd2 (by positivity)
      _ = 2 ^ a := by rw [← zpow_add₀ (by norm_num : (2 : ℝ) ≠ 0)]; congr 1; ring
      _ ≤ n := hn1
  by_cases hk : 0 ≤ a - b
  · simp only [hk, if_true]
    by_cases hc : d * 2 ^ (a - b).toNat ≤ n
    · simp only [hc, if_true]
      refine ⟨?_, hupper⟩
      rw [le_div_iff₀ hd']
      have : ((d * 2 ^ (a - b).toNat : Nat) : ℝ) ≤ n := by exact_mod_cast hc
      rw [Nat.cast_mul, two_zpow_toNat hk] at this
      linarith [this]
    · simp only [hc, if_false]
      constructor
      · exact hlower.le
      · rw [div_lt_iff₀ hd']
        have : (n : ℝ) < ((d * 2 ^ (a - b).toNat : Nat) : ℝ) := by exact_mod_cast Nat.lt_of_not_le hc
        rw [Nat.cast_mul, two_zpow_toNat hk] at this
        have e : a - b - 1 + 1 = a - b := by ring
        rw [e]; linarith [this]
  · simp only [hk, if_false]
    have hk' : 0 ≤ -(a - b) := by omega
    have hz : (2 : ℝ) ^ (a - b) * (2 : ℝ) ^ (-(a - b)) = 1 := by
      rw [← zpow_add₀ (by norm_num : (2 : ℝ) ≠ 0)]; simp
    have hpos : (0 : ℝ) < 2 ^ (-(a - b)) := by positivity
    by_cases hc : d ≤ n * 2 ^ (-(a - b)).toNat
    · simp only [hc, if_true]
      refine ⟨?_, hupper⟩
      rw [le_div_iff₀ hd']
      have : (d : ℝ) ≤ ((n * 2 ^ (-(a - b)).toNat : Nat) : ℝ) := by exact_mod_cast hc
      rw [Nat.cast_mul, two_zpow_toNat hk'] at this
      -- 2^(a-b) * d ≤ n
      have : (2 : ℝ) ^ (a - b) * d ≤ 2 ^ (a - b) * (n * 2 ^ (-(a - b))) :=
        mul_le_mul_of_nonneg_left this (by positivity)
      calc (2 : ℝ) ^ (a - b) * d ≤ 2 ^ (a - b) * (n * 2 ^ (-(a - b))) := this
        _ = n * (2 ^ (a - b) * 2 ^ (-(a - b))) := by ring
        _ = n := by rw [hz]; ring
    · simp only [hc, if_false]
      constructor
      · exact hlower.le
      · rw [div_lt_iff₀ hd']
        have : ((n * 2 ^ (-(a - b)).toNat : Nat) : ℝ) < d := by exact_mod_cast Nat.lt_of_not_le hc
        rw [Nat.cast_mul, two_zpow_toNat hk'] at this
        have e : a - b - 1 + 1 = a - b := by ring
        rw [e]
        have : (2 : ℝ) ^ (a - b) * (n * 2 ^ (-(a - b))) < 2 ^ (a - b) * d :=
          mul_lt_mul_of_pos_left this (by positivity)
        calc (n : ℝ) = n * (2 ^ (a - b) * 2 ^ (-(a - b))) := by rw [hz]; ring
          _ = 2 ^ (a - b) * (n * 2 ^ (-(a - b))) := by ring
          _ < 2 ^ (a - b) * d := this

/-- `rneDiv N D` is within one half of `N / D`. -/
theorem rneDiv_spec (N D : Nat) (hD : 0 < D) :
    |((rneDiv N D : Nat) : ℝ) - (N : ℝ) / D| ≤ 1 / 2 := by
  have hD' : (0 : ℝ) < D := by exact_mod_cast hD
  have hdm : (N : ℝ) = D * (N / D : Nat) + (N % D : Nat) := by exact_mod_cast (Nat.div_add_mod N D).symm
  have hr : ((N % D : Nat) : ℝ) < D := by exact_mod_cast Nat.mod_lt N hD
  have hr0 : (0 : ℝ) ≤ ((N % D : Nat) : ℝ) := by positivity
  have hq : (N : ℝ) / D = (N / D : Nat) + ((N % D : Nat) : ℝ) / D := by
    rw [hdm]; field_simp
  unfold rneDiv
  simp only
  split_ifs with h1 h2 h3
  · -- 2r < D : round down
    have : (2 : ℝ) * ((N % D : Nat) : ℝ) < D := by exact_mod_cast h1
    rw [hq, abs_le]
    constructor
    · have : ((N % D : Nat) : ℝ) / D ≤ 1 / 2 := by rw [div_le_div_iff₀ hD' (by norm_num)]; linarith
      linarith
    · have : 0 ≤ ((N % D : Nat) : ℝ) / D := by positivity
      linarith
  · -- D < 2r : round up
    have : (D : ℝ) < 2 * ((N % D : Nat) : ℝ) := by exact_mod_cast h2
    rw [hq, abs_le]
    push_cast
    constructor
    · have : ((N % D : Nat) : ℝ) / D < 1 := by rw [div_lt_one hD']; exact hr
      linarith
    · have : 1 / 2 ≤ ((N % D : Nat) : ℝ) / D := by rw [div_le_div_iff₀ (by norm_num) hD']; linarith
      linarith
  · -- tie, even: keep
    have : (2 : ℝ) * ((N % D : Nat) : ℝ) = D := by
      have : 2 * (N % D) = D := by omega
      exact_mod_cast this
    rw [hq, abs_le]
    have : ((N % D : Nat) : ℝ) / D = 1 / 2 := by rw [div_eq_div_iff hD'.ne' (by norm_num)]; linarith
    constructor <;> linarith
  · -- tie, odd: up
    have : (2 : ℝ) * ((N % D : Nat) : ℝ) = D := by
      have : 2 * (N % D) = D := by omega
      exact_mod_cast this
    rw [hq, abs_le]
    push_cast
    have : ((N % D : Nat) : ℝ) / D = 1 / 2 := by rw [div_eq_div_iff hD'.ne' (by norm_num)]; linarith
    constructor <;> linarith

/-- When `D` divides `N` the quotient is exact. -/
theorem rneDiv_exact (N D : Nat) (hD : 0 < D) (h : D ∣ N) : rneDiv N D = N / D := by
  unfold rneDiv
  have : N % D = 0 := Nat.mod_eq_zero_of_dvd h
  simp [this, hD]

/-- The rounded significand is within one half of the exact scaled value. -/
theorem sigAt_spec (q : Int) (n d : Nat) (hd : 0 < d) :
    |((sigAt q n d : Nat) : ℝ) - (n : ℝ) / d / (2 : ℝ) ^ q| ≤ 1 / 2 := by
  have hd' : (0 : ℝ) < d := by exact_mod_cast hd
  unfold sigAt
  by_cases hq : 0 ≤ q
  · simp only [hq, if_true]
    have hD : 0 < d * 2 ^ q.toNat := Nat.mul_pos hd (by positivity)
    have := rneDiv_spec n (d * 2 ^ q.toNat) hD
    rw [Nat.cast_mul, two_zpow_toNat hq] at this
    rwa [div_div]
  · simp only [hq, if_false]
    have hq' : 0 ≤ -q := by omega
    have := rneDiv_spec (n * 2 ^ (-q).toNat) d hd
    rw [Nat.cast_mul, two_zpow_toNat hq'] at this
    have e : (n : ℝ) / d / (2 : ℝ) ^ q = (n : ℝ) * 2 ^ (-q) / d := by
      rw [zpow_neg]; field_simp
    rwa [e]

/-- The sign factor. -/
noncomputable def sgn (s : Bool) : ℝ := if s then -1 else 1

theorem toReal_fin (s : Bool) (m : Nat) (e : Int) : toReal (fin s m e) = sgn s * m * (2 : ℝ) ^ e := rfl

/-- If rounding a positive rational does not overflow, the result is `± m · 2^q` with `q` the
quantum and `m` the rounded significand: within half a quantum of the exact value. -/
theorem roundPos_fin (f : Fmt) (hp : 1 ≤ f.p) (s : Bool) (n d : Nat) (hd : 0 < d) {s' : Bool} {m' : Nat}
    {q' : Int} (h : roundPos f s n d = fin s' m' q') :
    s' = s ∧ (m' : ℝ) * (2 : ℝ) ^ q' = (sigAt (quantum f n d) n d : ℝ) * (2 : ℝ) ^ (quantum f n d) ∧
    |(m' : ℝ) * (2 : ℝ) ^ q' - (n : ℝ) / d| ≤ (2 : ℝ) ^ (quantum f n d) / 2 := by
  unfold roundPos at h
  simp only at h
  set q := quantum f n d with hq
  set m := sigAt q n d with hm
  have key : s' = s ∧ (m' : ℝ) * (2 : ℝ) ^ q' = (m : ℝ) * (2 : ℝ) ^ q := by
    by_cases hc : m = 2 ^ f.p
    · simp only [hc, if_true] at h
      split at h
      · cases h
      · simp only [fin.injEq] at h
        obtain ⟨hs, hm', hq'⟩ := h
        subst hm'; subst hq'
        refine ⟨hs.symm, ?_⟩
        rw [hc, zpow_add₀ (by norm_num : (2 : ℝ) ≠ 0)]
        push_cast
        have : (2 : ℝ) ^ f.p = 2 ^ (f.p - 1) * 2 := by
          rw [← pow_succ]; congr 1; omega
        rw [this]; ring
    · simp only [hc, if_false] at h
      split at h
      · cases h
      · simp only [fin.injEq] at h
        obtain ⟨hs, hm', hq'⟩ := h
        subst hm'; subst hq'
        exact ⟨hs.symm, rfl⟩
  obtain ⟨hs, hv⟩ := key
  · 
    refine ⟨hs, hv, ?_⟩
    rw [hv]
    have hs2 := sigAt_spec q n d hd
    have h2q : (0 : ℝ) < 2 ^ q := by positivity
    have : (m : ℝ) * 2 ^ q - (n : ℝ) / d = ((m : ℝ) - (n : ℝ) / d / 2 ^ q) * 2 ^ q := by
      field_simp
    rw [this, abs_mul, abs_of_pos h2q]
    calc |(m : ℝ) - (n : ℝ) / d / 2 ^ q| * 2 ^ q ≤ 1 / 2 * 2 ^ q :=
          mul_le_mul_of_nonneg_right hs2 h2q.le
      _ = 2 ^ q / 2 := by ring

/-- **Relative error of rounding.** For a positive rational `x = n/d` in the normal range of the
format (`2^emin ≤ x`) that does not overflow, the rounded value is within relative `2^-p` of `x`. -/
theorem roundPos_rel (f : Fmt) (hp : 1 ≤ f.p) (s : Bool) (n d : Nat) (hn : 0 < n) (hd : 0 < d)
    (hnorm : (2 : ℝ) ^ (1 - (f.emax : Int)) ≤ (n : ℝ) / d) {s' : Bool} {m' : Nat} {q' : Int}
    (h : roundPos f s n d = fin s' m' q') :
    |(m' : ℝ) * (2 : ℝ) ^ q' - (n : ℝ) / d| ≤ (2 : ℝ) ^ (-(f.p : Int)) * ((n : ℝ) / d) := by
  obtain ⟨_, _, herr⟩ := roundPos_fin f hp s n d hd h
  obtain ⟨hlo, hhi⟩ := ilog2Q_spec n d hn hd
  -- in the normal range the quantum is e0 - (p - 1)
  have he0 : 1 - (f.emax : Int) ≤ ilog2Q n d := by
    by_contra hcon
    have hlt : ilog2Q n d + 1 ≤ 1 - (f.emax : Int) := by omega
    have : (2 : ℝ) ^ (ilog2Q n d + 1) ≤ 2 ^ (1 - (f.emax : Int)) :=
      zpow_le_zpow_right₀ (by norm_num) hlt
    linarith
  have hq : quantum f n d = ilog2Q n d - ((f.p : Int) - 1) := by
    unfold quantum Fmt.qmin
    apply max_eq_left
    omega
  rw [hq] at herr
  calc |(m' : ℝ) * 2 ^ q' - (n : ℝ) / d| ≤ (2 : ℝ) ^ (ilog2Q n d - ((f.p : Int) - 1)) / 2 := herr
    _ = (2 : ℝ) ^ (-(f.p : Int)) * 2 ^ (ilog2Q n d) := by
        rw [show ilog2Q n d - ((f.p : Int) - 1) = -(f.p : Int) + ilog2Q n d + 1 by ring,
          zpow_add₀ (by norm_num : (2 : ℝ) ≠ 0), zpow_add₀ (by norm_num : (2 : ℝ) ≠ 0)]
        simp
    _ ≤ (2 : ℝ) ^ (-(f.p : Int)) * ((n : ℝ) / d) := by
        apply mul_le_mul_of_nonneg_left hlo (by positivity)

/-- The unit round-off `2^-p` of a format. -/
noncomputable def _root_.PhQVerif.Fmt.u (f : Fmt) : ℝ := (2 : ℝ) ^ (-(f.p : Int))

/-- The smallest positive normal number `2^emin`. -/
noncomputable def _root_.PhQVerif.Fmt.minNormal (f : Fmt) : ℝ := (2 : ℝ) ^ (1 - (f.emax : Int))

/-- `roundE` of a positive integer times a power of two, in the normal range and without overflow, has
relative error at most `u`. -/
theorem roundE_rel (f : Fmt) (hp : 1 ≤ f.p) (s : Bool) (n : Nat) (e : Int) (hn : 0 < n)
    (hnorm : f.minNormal ≤ (n : ℝ) * (2 : ℝ) ^ e) {s' : Bool} {m' : Nat} {q' : Int}
    (h : roundE f s n e = fin s' m' q') :
    s' = s ∧ |(m' : ℝ) * (2 : ℝ) ^ q' - (n : ℝ) * (2 : ℝ) ^ e| ≤ f.u * ((n : ℝ) * (2 : ℝ) ^ e) := by
  unfold roundE at h
  by_cases he : 0 ≤ e
  · simp only [he, if_true, round] at h
    have hn' : n * 2 ^ e.toNat ≠ 0 := by positivity
    simp only [hn', if_false] at h
    have hx : ((n * 2 ^ e.toNat : Nat) : ℝ) / (1 : Nat) = (n : ℝ) * (2 : ℝ) ^ e := by
      rw [Nat.cast_mul, two_zpow_toNat he]; simp
    have h1 := roundPos_fin f hp s (n * 2 ^ e.toNat) 1 Nat.one_pos h
    have h2 := roundPos_rel f hp s (n * 2 ^ e.toNat) 1 (by positivity) Nat.one_pos
      (by rw [hx]; exact hnorm) h
    rw [hx] at h2
    exact ⟨h1.1, h2⟩
  · simp only [he, if_false, round] at h
    have hn' : n ≠ 0 := by omega
    simp only [hn', if_false] at h
    have he' : 0 ≤ -e := by omega
    have hx : (n : ℝ) / ((2 ^ (-e).toNat : Nat) : ℝ) = (n : ℝ) * (2 : ℝ) ^ e := by
      rw [two_zpow_toNat he', zpow_neg]; field_simp
    have h1 := roundPos_fin f hp s n (2 ^ (-e).toNat) (by positivity) h
    have h2 := roundPos_rel f hp s n (2 ^ (-e).toNat) hn (by positivity)
      (by rw [hx]; exact hnorm) h
    rw [hx] at h2
    exact ⟨h1.1, h2⟩

theorem sgn_mul (a b : Bool) : sgn (a != b) = sgn a * sgn b := by
  cases a <;> cases b <;> simp [sgn]

theorem abs_sgn (s : Bool) : |sgn s| = 1 := by cases s <;> simp [sgn]

/-- **Multiplication is correctly rounded.** If neither operand is zero, the exact product is in the
normal range and the result is finite, then `fl(a·b) = a·b·(1+δ)` with `|δ| ≤ u`. -/
theorem mul_rel (f : Fmt) (hp : 1 ≤ f.p) (s1 s2 : Bool) (m1 m2 : Nat) (e1 e2 : Int)
    (h1 : 0 < m1) (h2 : 0 < m2)
    (hnorm : f.minNormal ≤ |toReal (fin s1 m1 e1) * toReal (fin s2 m2 e2)|)
    {r : Fl} (hr : mul f (fin s1 m1 e1) (fin s2 m2 e2) = r) (hfin : r.isFinite = true) :
    |toReal r - toReal (fin s1 m1 e1) * toReal (fin s2 m2 e2)| ≤
      f.u * |toReal (fin s1 m1 e1) * toReal (fin s2 m2 e2)| := by
  have hprod : toReal (fin s1 m1 e1) * toReal (fin s2 m2 e2) =
      sgn (s1 != s2) * (((m1 * m2 : Nat) : ℝ) * (2 : ℝ) ^ (e1 + e2)) := by
    rw [toReal_fin, toReal_fin, sgn_mul, zpow_add₀ (by norm_num : (2 : ℝ) ≠ 0)]; push_cast; ring
  have hpos : (0 : ℝ) < ((m1 * m2 : Nat) : ℝ) * (2 : ℝ) ^ (e1 + e2) := by
    have : 0 < m1 * m2 := Nat.mul_pos h1 h2
    positivity
  have habs : |toReal (fin s1 m1 e1) * toReal (fin s2 m2 e2)| =
      ((m1 * m2 : Nat) : ℝ) * (2 : ℝ) ^ (e1 + e2) := by
    rw [hprod, abs_mul, abs_sgn, one_mul, abs_of_pos hpos]
  simp only [mul] at hr
  cases r with
  | nan => simp [isFinite] at hfin
  | inf t => simp [isFinite] at hfin
  | fin s' m' q' =>
    rw [habs] at hnorm ⊢
    obtain ⟨hs, herr⟩ := roundE_rel f hp (s1 != s2) (m1 * m2) (e1 + e2) (Nat.mul_pos h1 h2) hnorm hr
    rw [toReal_fin, hprod, hs]
    have : sgn (s1 != s2) * (m' : ℝ) * (2 : ℝ) ^ q' - sgn (s1 != s2) * (((m1 * m2 : Nat) : ℝ) * (2 : ℝ) ^ (e1 + e2))
        = sgn (s1 != s2) * ((m' : ℝ) * (2 : ℝ) ^ q' - ((m1 * m2 : Nat) : ℝ) * (2 : ℝ) ^ (e1 + e2)) := by ring
    rw [this, abs_mul, abs_sgn, one_mul]
    exact herr

/-- `round` of a positive rational in the normal range, with a finite result, has relative error ≤ u. -/
theorem round_rel (f : Fmt) (hp : 1 ≤ f.p) (s : Bool) (n d : Nat) (hn : 0 < n) (hd : 0 < d)
    (hnorm : f.minNormal ≤ (n : ℝ) / d) {r : Fl} (hr : round f s n d = r)
    (hfin : r.isFinite = true) :
    |toReal r - sgn s * ((n : ℝ) / d)| ≤ f.u * ((n : ℝ) / d) := by
  cases r with
  | nan => simp [isFinite] at hfin
  | inf t => simp [isFinite] at hfin
  | fin s' m' q' =>
    have hn' : n ≠ 0 := by omega
    simp only [round, hn', if_false] at hr
    have h1 := roundPos_fin f hp s n d hd hr
    have h2 := roundPos_rel f hp s n d hn hd hnorm hr
    rw [toReal_fin, h1.1]
    have : sgn s * (m' : ℝ) * (2 : ℝ) ^ q' - sgn s * ((n : ℝ) / d)
        = sgn s * ((m' : ℝ) * (2 : ℝ) ^ q' - (n : ℝ) / d) := by ring
    rw [this, abs_mul, abs_sgn, one_mul]
    exact h2

/-- The same for `roundE`. -/
theorem roundE_rel' (f : Fmt) (hp : 1 ≤ f.p) (s : Bool) (n : Nat) (e : Int) (hn : 0 < n)
    (hnorm : f.minNormal ≤ (n : ℝ) * (2 : ℝ) ^ e) {r : Fl} (hr : roundE f s n e = r)
    (hfin : r.isFinite = true) :
    |toReal r - sgn s * ((n : ℝ) * (2 : ℝ) ^ e)| ≤ f.u * ((n : ℝ) * (2 : ℝ) ^ e) := by
  cases r with
  | nan => simp [isFinite] at hfin
  | inf t => simp [isFinite] at hfin
  | fin s' m' q' =>
    obtain ⟨hs, herr⟩ := roundE_rel f hp s n e hn hnorm hr
    rw [toReal_fin, hs]
    have : sgn s * (m' : ℝ) * (2 : ℝ) ^ q' - sgn s * ((n : ℝ) * (2 : ℝ) ^ e)
        = sgn s * ((m' : ℝ) * (2 : ℝ) ^ q' - (n : ℝ) * (2 : ℝ) ^ e) := by ring
    rw [this, abs_mul, abs_sgn, one_mul]
    exact herr

/-- **Conversion between formats is correctly rounded.** -/
theorem cast_rel (f : Fmt) (hp : 1 ≤ f.p) (s : Bool) (m : Nat) (e : Int) (hm : 0 < m)
    (hnorm : f.minNormal ≤ |toReal (fin s m e)|) {r : Fl} (hr : cast f (fin s m e) = r)
    (hfin : r.isFinite = true) :
    |toReal r - toReal (fin s m e)| ≤ f.u * |toReal (fin s m e)| := by
  have hpos : (0 : ℝ) < (m : ℝ) * (2 : ℝ) ^ e := by positivity
  have habs : |toReal (fin s m e)| = (m : ℝ) * (2 : ℝ) ^ e := by
    rw [toReal_fin, mul_assoc, abs_mul, abs_sgn, one_mul, abs_of_pos hpos]
  rw [habs] at hnorm ⊢
  have := roundE_rel' f hp s m e hm hnorm (by simpa [cast] using hr) hfin
  rw [toReal_fin, mul_assoc]
  exact this

/-- **Division is correctly rounded.** -/
theorem div_rel (f : Fmt) (hp : 1 ≤ f.p) (s1 s2 : Bool) (m1 m2 : Nat) (e1 e2 : Int)
    (h1 : 0 < m1) (h2 : 0 < m2)
    (hnorm : f.minNormal ≤ |toReal (fin s1 m1 e1) / toReal (fin s2 m2 e2)|)
    {r : Fl} (hr : div f (fin s1 m1 e1) (fin s2 m2 e2) = r) (hfin : r.isFinite = true) :
    |toReal r - toReal (fin s1 m1 e1) / toReal (fin s2 m2 e2)| ≤
      f.u * |toReal (fin s1 m1 e1) / toReal (fin s2 m2 e2)| := by
  have hs2 : sgn s2 ≠ 0 := by cases s2 <;> simp [sgn]
  have hm2 : (m2 : ℝ) ≠ 0 := by positivity
  have h2ne : m2 ≠ 0 := by omega
  simp only [div, h2ne, if_false] at hr
  by_cases hk : 0 ≤ e1 - e2
  · simp only [hk, if_true] at hr
    have hq : toReal (fin s1 m1 e1) / toReal (fin s2 m2 e2) =
        sgn (s1 != s2) * (((m1 * 2 ^ (e1 - e2).toNat : Nat) : ℝ) / m2) := by
      rw [toReal_fin, toReal_fin, sgn_mul, Nat.cast_mul, two_zpow_toNat hk,
        zpow_sub₀ (by norm_num : (2 : ℝ) ≠ 0)]
      have : sgn s2 * sgn s2 = 1 := by cases s2 <;> simp [sgn]
      field_simp
      linear_combination (-(sgn s1)) * this
    have hpos : (0 : ℝ) < ((m1 * 2 ^ (e1 - e2).toNat : Nat) : ℝ) / m2 := by positivity
    have habs : |toReal (fin s1 m1 e1) / toReal (fin s2 m2 e2)| =
        ((m1 * 2 ^ (e1 - e2).toNat : Nat) : ℝ) / m2 := by
      rw [hq, abs_mul, abs_sgn, one_mul, abs_of_pos hpos]
    rw [habs] at hnorm ⊢
    rw [hq]
    exact round_rel f hp _ _ _ (by positivity) h2 hnorm hr hfin
  · simp only [hk, if_false] at hr
    have hk' : 0 ≤ -(e1 - e2) := by omega
    have hq : toReal (fin s1 m1 e1) / toReal (fin s2 m2 e2) =
        sgn (s1 != s2) * ((m1 : ℝ) / ((m2 * 2 ^ (-(e1 - e2)).toNat : Nat) : ℝ)) := by
      rw [toReal_fin, toReal_fin, sgn_mul, Nat.cast_mul, two_zpow_toNat hk', zpow_neg,
        zpow_sub₀ (by norm_num : (2 : ℝ) ≠ 0)]
      have : sgn s2 * sgn s2 = 1 := by cases s2 <;> simp [sgn]
      field_simp
      linear_combination (-(sgn s1)) * this
    have hpos : (0 : ℝ) < (m1 : ℝ) / ((m2 * 2 ^ (-(e1 - e2)).toNat : Nat) : ℝ) := by positivity
    have habs : |toReal (fin s1 m1 e1) / toReal (fin s2 m2 e2)| =
        (m1 : ℝ) / ((m2 * 2 ^ (-(e1 - e2)).toNat : Nat) : ℝ) := by
      rw [hq, abs_mul, abs_sgn, one_mul, abs_of_pos hpos]
    rw [habs] at hnorm ⊢
    rw [hq]
    exact round_rel f hp _ _ _ h1 (by positivity) hnorm hr hfin

theorem scaled_real (s : Bool) (m : Nat) (e e0 : Int) (h : e0 ≤ e) :
    ((scaled s m e e0 : Int) : ℝ) * (2 : ℝ) ^ e0 = sgn s * m * (2 : ℝ) ^ e := by
  have hk : 0 ≤ e - e0 := by omega
  have h2 : ((2 : ℝ) ^ (e - e0).toNat) * (2 : ℝ) ^ e0 = (2 : ℝ) ^ e := by
    rw [← zpow_natCast, Int.toNat_of_nonneg hk, ← zpow_add₀ (by norm_num : (2 : ℝ) ≠ 0)]; congr 1; ring
  unfold scaled
  cases s <;> simp only [sgn, if_true, if_false, Bool.false_eq_true] <;> push_cast <;>
    [rw [mul_assoc, h2]; rw [neg_mul, mul_assoc, h2]] <;> ring

/-- **Addition is correctly rounded** (when the exact sum is non-zero, in the normal range, and the
result is finite). -/
theorem add_rel (f : Fmt) (hp : 1 ≤ f.p) (s1 s2 : Bool) (m1 m2 : Nat) (e1 e2 : Int)
    (hnorm : f.minNormal ≤ |toReal (fin s1 m1 e1) + toReal (fin s2 m2 e2)|)
    {r : Fl} (hr : add f (fin s1 m1 e1) (fin s2 m2 e2) = r) (hfin : r.isFinite = true) :
    |toReal r - (toReal (fin s1 m1 e1) + toReal (fin s2 m2 e2))| ≤
      f.u * |toReal (fin s1 m1 e1) + toReal (fin s2 m2 e2)| := by
  simp only [add] at hr
  set e0 := min e1 e2 with he0
  set c := scaled s1 m1 e1 e0 + scaled s2 m2 e2 e0 with hc
  have hsum : toReal (fin s1 m1 e1) + toReal (fin s2 m2 e2) = (c : ℝ) * (2 : ℝ) ^ e0 := by
    rw [toReal_fin, toReal_fin, hc, Int.cast_add, add_mul, scaled_real _ _ _ _ (min_le_left _ _),
      scaled_real _ _ _ _ (min_le_right _ _)]
  have hmn : (0 : ℝ) < f.minNormal := by unfold Fmt.minNormal; positivity
  have hc0 : c ≠ 0 := by
    intro h0
    rw [hsum, h0] at hnorm
    simp at hnorm
    linarith
  simp only [hc0, if_false] at hr
  have h2pos : (0 : ℝ) < (2 : ℝ) ^ e0 := by positivity
  have hnat : ((c.natAbs : Nat) : ℝ) = |(c : ℝ)| := by
    rw [Nat.cast_natAbs, Int.cast_abs]
  have hsg : (c : ℝ) = sgn (decide (c < 0)) * (c.natAbs : ℝ) := by
    rw [hnat]
    by_cases hneg : c < 0
    · have : (c : ℝ) < 0 := by exact_mod_cast hneg
      simp [hneg, sgn, abs_of_neg this]
    · have : (0 : ℝ) ≤ (c : ℝ) := by exact_mod_cast (not_lt.mp hneg)
      simp [hneg, sgn, abs_of_nonneg this]
  have habs : |toReal (fin s1 m1 e1) + toReal (fin s2 m2 e2)| = (c.natAbs : ℝ) * (2 : ℝ) ^ e0 := by
    rw [hsum, abs_mul, abs_of_pos h2pos, hnat]
  rw [habs] at hnorm ⊢
  have := roundE_rel' f hp (decide (c < 0)) c.natAbs e0 (Int.natAbs_pos.mpr hc0) hnorm hr hfin
  rw [hsum]
  conv_lhs => rw [hsg]
  rw [mul_assoc]
  exact this

/-! ## Exactness: representable values round to themselves -/

theorem ilog2Q_unique (n d : Nat) (hn : 0 < n) (hd : 0 < d) (k : Int)
    (h1 : (2 : ℝ) ^ k ≤ (n : ℝ) / d) (h2 : (n : ℝ) / d < (2 : ℝ) ^ (k + 1)) : ilog2Q n d = k := by
  obtain ⟨a, b⟩ := ilog2Q_spec n d hn hd
  have two : (1 : ℝ) < 2 := by norm_num
  have c1 : ilog2Q n d < k + 1 := (zpow_lt_zpow_iff_right₀ two).mp (lt_of_le_of_lt a h2)
  have c2 : k < ilog2Q n d + 1 := (zpow_lt_zpow_iff_right₀ two).mp (lt_of_le_of_lt h1 b)
  omega

/-- Canonical (IEEE) representation in format `f`: normal numbers have a `p`-bit significand, subnormal
numbers and zero sit at the smallest quantum, and the exponent does not exceed `emax`. -/
def Canonical (f : Fmt) : Fl → Prop
  | fin _ m q => m < 2 ^ f.p ∧ f.qmin ≤ q ∧ (q = f.qmin ∨ 2 ^ (f.p - 1) ≤ m) ∧
      q + ((f.p : Int) - 1) ≤ f.emax
  | _ => True

/-- If `n/d = m·2^q` with `(m, q)` canonical and `m > 0`, rounding returns exactly `(m, q)`. -/
theorem roundPos_canonical (f : Fmt) (hp : 1 ≤ f.p) (s : Bool) (n d : Nat) (hn : 0 < n) (hd : 0 < d)
    (m : Nat) (q : Int) (hm : 0 < m) (hc : Canonical f (fin s m q))
    (hx : (n : ℝ) / d = (m : ℝ) * (2 : ℝ) ^ q) : roundPos f s n d = fin s m q := by
  obtain ⟨hlt, hqmin, hnorm, hmax⟩ := hc
  have two : (1 : ℝ) < 2 := by norm_num
  have h2q : (0 : ℝ) < (2 : ℝ) ^ q := by positivity
  have hltR : (m : ℝ) < (2 : ℝ) ^ (f.p : Int) := by rw [zpow_natCast]; exact_mod_cast hlt
  -- the quantum is q
  have hquant : quantum f n d = q := by
    unfold quantum
    rcases hnorm with hsub | hnrm
    · -- q = qmin: ilog2 - (p-1) ≤ qmin
      have hup : (n : ℝ) / d < (2 : ℝ) ^ ((f.p : Int) + q) := by
        rw [hx, zpow_add₀ (by norm_num : (2 : ℝ) ≠ 0)]
        exact mul_lt_mul_of_pos_right hltR h2q
      have hk : ilog2Q n d < (f.p : Int) + q :=
        (zpow_lt_zpow_iff_right₀ two).mp (lt_of_le_of_lt (ilog2Q_spec n d hn hd).1 hup)
      rw [hsub] at hk ⊢
      exact max_eq_right (by omega)
    · have hnrmR : (2 : ℝ) ^ ((f.p : Int) - 1) ≤ (m : ℝ) := by
        have : ((f.p : Int) - 1) = ((f.p - 1 : Nat) : Int) := by omega
        rw [this, zpow_natCast]; exact_mod_cast hnrm
      have hk : ilog2Q n d = (f.p : Int) - 1 + q := by
        apply ilog2Q_unique n d hn hd
        · rw [hx, zpow_add₀ (by norm_num : (2 : ℝ) ≠ 0)]
          exact mul_le_mul_of_nonneg_right hnrmR h2q.le
        · rw [hx, show (f.p : Int) - 1 + q + 1 = (f.p : Int) + q by ring,
            zpow_add₀ (by norm_num : (2 : ℝ) ≠ 0)]
          exact mul_lt_mul_of_pos_right hltR h2q
      rw [hk]
      have : (f.p : Int) - 1 + q - ((f.p : Int) - 1) = q := by ring
      rw [this]
      exact max_eq_left hqmin
  -- the significand is m
  have hsig : sigAt q n d = m := by
    have h := sigAt_spec q n d hd
    rw [hx, mul_div_assoc, div_self (ne_of_gt h2q), mul_one] at h
    have h' : |((sigAt q n d : Int) : ℝ) - ((m : Int) : ℝ)| ≤ 1 / 2 := by push_cast; exact h
    rw [← Int.cast_sub, ← Int.cast_abs] at h'
    have : |(sigAt q n d : Int) - (m : Int)| < 1 := by
      have : ((|(sigAt q n d : Int) - (m : Int)| : Int) : ℝ) < ((1 : Int) : ℝ) := by
        push_cast; push_cast at h'; linarith
      exact_mod_cast this
    have := abs_lt.mp this
    omega
  unfold roundPos
  simp only [hquant, hsig]
  have hne : m ≠ 2 ^ f.p := by omega
  simp only [hne, if_false]
  have : ¬ ((f.emax : Int) < q + ((f.p : Int) - 1)) := by omega
  simp only [this, if_false]

/-- Every finite result of `roundPos` is canonical. -/
theorem roundPos_is_canonical (f : Fmt) (hp : 1 ≤ f.p) (s : Bool) (n d : Nat) (hn : 0 < n) (hd : 0 < d) :
    Canonical f (roundPos f s n d) := by
  have two : (1 : ℝ) < 2 := by norm_num
  unfold roundPos
  simp only
  set q := quantum f n d with hq
  set m := sigAt q n d with hm
  have hqmin : f.qmin ≤ q := by rw [hq]; unfold quantum; exact le_max_right _ _
  have hqlog : ilog2Q n d - ((f.p : Int) - 1) ≤ q := by rw [hq]; unfold quantum; exact le_max_left _ _
  have h2q : (0 : ℝ) < (2 : ℝ) ^ q := by positivity
  obtain ⟨lo, hi⟩ := ilog2Q_spec n d hn hd
  have hsp := sigAt_spec q n d hd
  -- x / 2^q < 2^p, so m ≤ 2^p
  have hy : (n : ℝ) / d / (2 : ℝ) ^ q < (2 : ℝ) ^ (f.p : Int) := by
    rw [div_lt_iff₀ h2q, ← zpow_add₀ (by norm_num : (2 : ℝ) ≠ 0)]
    refine lt_of_lt_of_le hi ?_
    exact (zpow_le_zpow_iff_right₀ two).mpr (by omega)
  have hmle : m ≤ 2 ^ f.p := by
    have h1 : (m : ℝ) < (2 : ℝ) ^ (f.p : Int) + 1 := by
      have := (abs_le.mp hsp).2; linarith
    rw [zpow_natCast] at h1
    have : (m : ℝ) < ((2 ^ f.p + 1 : Nat) : ℝ) := by push_cast; exact h1
    have := Nat.cast_lt.mp this
    omega
  -- when q is above qmin, x / 2^q ≥ 2^(p-1), so m ≥ 2^(p-1)
  have hmge : q ≠ f.qmin → 2 ^ (f.p - 1) ≤ m := by
    intro hne
    have hqeq : q = ilog2Q n d - ((f.p : Int) - 1) := by
      rw [hq]; unfold quantum
      rcases max_cases (ilog2Q n d - ((f.p : Int) - 1)) f.qmin with ⟨h, _⟩ | ⟨h, _⟩
      · exact h
      · exact absurd (hq.trans h) hne
    have hy2 : (2 : ℝ) ^ ((f.p : Int) - 1) ≤ (n : ℝ) / d / (2 : ℝ) ^ q := by
      rw [le_div_iff₀ h2q, ← zpow_add₀ (by norm_num : (2 : ℝ) ≠ 0)]
      have : (f.p : Int) - 1 + q = ilog2Q n d := by rw [hqeq]; ring
      rw [this]; exact lo
    have h1 : (2 : ℝ) ^ ((f.p : Int) - 1) - 1 < (m : ℝ) := by
      have := (abs_le.mp hsp).1; linarith
    have e : ((f.p : Int) - 1) = ((f.p - 1 : Nat) : Int) := by omega
    rw [e, zpow_natCast] at h1
    have : ((2 ^ (f.p - 1) : Nat) : ℝ) < ((m + 1 : Nat) : ℝ) := by push_cast; linarith
    have := Nat.cast_lt.mp this
    omega
  by_cases hc : m = 2 ^ f.p
  · simp only [hc, if_true]
    split
    · trivial
    · rename_i hov
      refine ⟨Nat.pow_lt_pow_right (by norm_num) (by omega), by omega, Or.inr le_rfl, by omega⟩
  · simp only [hc, if_false]
    split
    · trivial
    · rename_i hov
      refine ⟨by omega, hqmin, ?_, by omega⟩
      by_cases hqq : q = f.qmin
      · exact Or.inl hqq
      · exact Or.inr (hmge hqq)

/-- A positive value `M·2^E` that fits the format (`M < 2^p`, `E ≥ qmin`, below the overflow threshold)
is rounded without error. -/
theorem roundPos_exact (f : Fmt) (hp : 1 ≤ f.p) (hem : 1 ≤ f.emax) (s : Bool) (n d : Nat) (hn : 0 < n)
    (hd : 0 < d) (M : Nat) (E : Int) (hx : (n : ℝ) / d = (M : ℝ) * (2 : ℝ) ^ E) (hM : M < 2 ^ f.p)
    (hE : f.qmin ≤ E) (hov : (n : ℝ) / d < (2 : ℝ) ^ ((f.emax : Int) + 1)) :
    ∃ m' q', roundPos f s n d = fin s m' q' ∧ (m' : ℝ) * (2 : ℝ) ^ q' = (n : ℝ) / d := by
  have two : (1 : ℝ) < 2 := by norm_num
  have two0 : (2 : ℝ) ≠ 0 := by norm_num
  obtain ⟨lo, hi⟩ := ilog2Q_spec n d hn hd
  have h2E : (0 : ℝ) < (2 : ℝ) ^ E := by positivity
  have hMR : (M : ℝ) < (2 : ℝ) ^ (f.p : Int) := by rw [zpow_natCast]; exact_mod_cast hM
  set q := quantum f n d with hq
  have h2q : (0 : ℝ) < (2 : ℝ) ^ q := by positivity
  have hk1 : ilog2Q n d < (f.p : Int) + E := by
    apply (zpow_lt_zpow_iff_right₀ two).mp
    refine lt_of_le_of_lt lo ?_
    rw [hx, zpow_add₀ two0]
    exact mul_lt_mul_of_pos_right hMR h2E
  have hk2 : ilog2Q n d < (f.emax : Int) + 1 :=
    (zpow_lt_zpow_iff_right₀ two).mp (lt_of_le_of_lt lo hov)
  have hqE : q ≤ E := by
    rw [hq]; unfold quantum; exact max_le (by omega) hE
  have hqmax : q + ((f.p : Int) - 1) ≤ f.emax := by
    rw [hq]; unfold quantum
    rcases max_cases (ilog2Q n d - ((f.p : Int) - 1)) f.qmin with ⟨h, _⟩ | ⟨h, _⟩
    · rw [h]; omega
    · rw [h]; unfold Fmt.qmin; omega
  have hqlog : ilog2Q n d - ((f.p : Int) - 1) ≤ q := by rw [hq]; unfold quantum; exact le_max_left _ _
  -- x / 2^q is the integer K
  have hEq : 0 ≤ E - q := by omega
  set K : Nat := M * 2 ^ (E - q).toNat with hK
  have hKx : (n : ℝ) / d / (2 : ℝ) ^ q = (K : ℝ) := by
    rw [hK, Nat.cast_mul, two_zpow_toNat hEq, hx, zpow_sub₀ two0]; field_simp
  have hsig : sigAt q n d = K := by
    have h := sigAt_spec q n d hd
    rw [hKx] at h
    have h' : |((sigAt q n d : Int) : ℝ) - ((K : Int) : ℝ)| ≤ 1 / 2 := by push_cast; exact h
    rw [← Int.cast_sub, ← Int.cast_abs] at h'
    have : |(sigAt q n d : Int) - (K : Int)| < 1 := by
      have : ((|(sigAt q n d : Int) - (K : Int)| : Int) : ℝ) < ((1 : Int) : ℝ) := by
        push_cast; push_cast at h'; linarith
      exact_mod_cast this
    have := abs_lt.mp this
    omega
  have hKlt : K < 2 ^ f.p := by
    have hy : (n : ℝ) / d / (2 : ℝ) ^ q < (2 : ℝ) ^ (f.p : Int) := by
      rw [div_lt_iff₀ h2q, ← zpow_add₀ two0]
      refine lt_of_lt_of_le hi ?_
      exact (zpow_le_zpow_iff_right₀ two).mpr (by omega)
    rw [hKx, zpow_natCast] at hy
    exact_mod_cast hy
  refine ⟨K, q, ?_, ?_⟩
  · unfold roundPos
    simp only [← hq, hsig]
    have hne : K ≠ 2 ^ f.p := by omega
    simp only [hne, if_false]
    have : ¬ ((f.emax : Int) < q + ((f.p : Int) - 1)) := by omega
    simp only [this, if_false]
  · rw [← hKx]; field_simp

/-- An integer within `1/2 + 1/4` of... : if `|r - y| ≤ 1/2` and `|y - m| < 1/2` for naturals `r`, `m`,
then `r = m`. -/
theorem nat_eq_of_close (r m : Nat) (y : ℝ) (h1 : |(r : ℝ) - y| ≤ 1 / 2) (h2 : |y - (m : ℝ)| < 1 / 2) :
    r = m := by
  have h1' := abs_le.mp h1
  have h2' := abs_lt.mp h2
  have a : (r : ℝ) < (m : ℝ) + 1 := by linarith [h1'.2, h2'.2]
  have b : (m : ℝ) < (r : ℝ) + 1 := by linarith [h1'.1, h2'.1]
  have a' : r < m + 1 := by exact_mod_cast a
  have b' : m < r + 1 := by exact_mod_cast b
  omega

/-- **Rounding recovers a nearby normal number.** If `(m, q)` is a canonical *normal* number and the
positive rational `y = n/d` is within a quarter of its quantum, then `y` rounds to `(m, q)`. (A quarter,
not a half, because below a power of two the spacing halves.) -/
theorem roundPos_near (f : Fmt) (hp : 1 ≤ f.p) (s : Bool) (n d : Nat) (hn : 0 < n) (hd : 0 < d)
    (m : Nat) (q : Int) (hc : Canonical f (fin s m q)) (hnorm : 2 ^ (f.p - 1) ≤ m)
    (hy : |(n : ℝ) / d - (m : ℝ) * (2 : ℝ) ^ q| < (2 : ℝ) ^ q / 4) :
    roundPos f s n d = fin s m q := by
  obtain ⟨hlt, hqmin, _, hmax⟩ := hc
  have two : (1 : ℝ) < 2 := by norm_num
  have two0 : (2 : ℝ) ≠ 0 := by norm_num
  have h2q : (0 : ℝ) < (2 : ℝ) ^ q := by positivity
  set y : ℝ := (n : ℝ) / d with hydef
  obtain ⟨ylo, yhi⟩ := abs_lt.mp hy
  have hltR : (m : ℝ) + 1 ≤ (2 : ℝ) ^ (f.p : Int) := by
    rw [zpow_natCast]; exact_mod_cast hlt
  have hnormR : (2 : ℝ) ^ ((f.p : Int) - 1) ≤ (m : ℝ) := by
    have : ((f.p : Int) - 1) = ((f.p - 1 : Nat) : Int) := by omega
    rw [this, zpow_natCast]; exact_mod_cast hnorm
  have hsplit : (2 : ℝ) ^ ((f.p : Int) - 1 + q) = (2 : ℝ) ^ ((f.p : Int) - 1) * (2 : ℝ) ^ q := zpow_add₀ two0 _ _
  have hsplit2 : (2 : ℝ) ^ ((f.p : Int) + q) = (2 : ℝ) ^ (f.p : Int) * (2 : ℝ) ^ q := zpow_add₀ two0 _ _
  -- y / 2^q is within 1/4 of m
  have hyq : |y / (2 : ℝ) ^ q - (m : ℝ)| < 1 / 4 := by
    have : y / (2 : ℝ) ^ q - (m : ℝ) = (y - (m : ℝ) * (2 : ℝ) ^ q) / (2 : ℝ) ^ q := by field_simp
    rw [this, abs_div, abs_of_pos h2q, div_lt_iff₀ h2q]
    calc |y - (m : ℝ) * (2 : ℝ) ^ q| < (2 : ℝ) ^ q / 4 := hy
      _ = 1 / 4 * (2 : ℝ) ^ q := by ring
  have yupper : y < (2 : ℝ) ^ ((f.p : Int) + q) := by
    rw [hsplit2]; nlinarith
  -- finishing step shared by the cases where the quantum is `q`
  have finish_q : quantum f n d = q → roundPos f s n d = fin s m q := by
    intro hquant
    have hsig : sigAt q n d = m :=
      nat_eq_of_close _ _ _ (sigAt_spec q n d hd) (lt_trans hyq (by norm_num))
    unfold roundPos
    simp only [hquant, hsig]
    have hne : m ≠ 2 ^ f.p := by omega
    have : ¬ ((f.emax : Int) < q + ((f.p : Int) - 1)) := by omega
    simp only [hne, this, if_false]
  by_cases hA : (2 : ℝ) ^ ((f.p : Int) - 1 + q) ≤ y
  · -- same binade
    have hk : ilog2Q n d = (f.p : Int) - 1 + q := by
      apply ilog2Q_unique n d hn hd _ hA
      rw [show (f.p : Int) - 1 + q + 1 = (f.p : Int) + q by ring]; exact yupper
    apply finish_q
    unfold quantum
    rw [hk, show (f.p : Int) - 1 + q - ((f.p : Int) - 1) = q by ring]
    exact max_eq_left hqmin
  · -- y fell just below the power of two `2^(p-1+q)`: then m = 2^(p-1)
    have hA' : y < (2 : ℝ) ^ ((f.p : Int) - 1 + q) := not_le.mp hA
    have hm : m = 2 ^ (f.p - 1) := by
      by_contra hne
      have : 2 ^ (f.p - 1) + 1 ≤ m := by omega
      have hR : (2 : ℝ) ^ ((f.p : Int) - 1) + 1 ≤ (m : ℝ) := by
        have e : ((f.p : Int) - 1) = ((f.p - 1 : Nat) : Int) := by omega
        rw [e, zpow_natCast]; exact_mod_cast this
      rw [hsplit] at hA'
      nlinarith
    have hmR : (m : ℝ) = (2 : ℝ) ^ ((f.p : Int) - 1) := by
      have e : ((f.p : Int) - 1) = ((f.p - 1 : Nat) : Int) := by omega
      rw [hm, e, zpow_natCast]; push_cast; rfl
    have hquarter : (1 : ℝ) / 2 ≤ (2 : ℝ) ^ ((f.p : Int) - 1) := by
      have : (2 : ℝ) ^ (-1 : Int) ≤ (2 : ℝ) ^ ((f.p : Int) - 1) := (zpow_le_zpow_iff_right₀ two).mpr (by omega)
      simpa using this
    have hlow : (2 : ℝ) ^ ((f.p : Int) - 2 + q) ≤ y := by
      have e : (2 : ℝ) ^ ((f.p : Int) - 2 + q) = (2 : ℝ) ^ ((f.p : Int) - 1) / 2 * (2 : ℝ) ^ q := by
        rw [show (f.p : Int) - 2 + q = ((f.p : Int) - 1) + (-1) + q by ring, zpow_add₀ two0, zpow_add₀ two0,
          zpow_neg_one]
        ring
      rw [e]
      have : y > ((2 : ℝ) ^ ((f.p : Int) - 1) - 1 / 4) * (2 : ℝ) ^ q := by rw [← hmR]; nlinarith
      nlinarith
    have hk : ilog2Q n d = (f.p : Int) - 2 + q := by
      apply ilog2Q_unique n d hn hd _ hlow
      rw [show (f.p : Int) - 2 + q + 1 = (f.p : Int) - 1 + q by ring]; exact hA'
    by_cases hqq : q = f.qmin
    · apply finish_q
      unfold quantum
      rw [hk, hqq]
      exact max_eq_right (by omega)
    · have hquant : quantum f n d = q - 1 := by
        unfold quantum
        rw [hk, show (f.p : Int) - 2 + q - ((f.p : Int) - 1) = q - 1 by ring]
        exact max_eq_left (by omega)
      have h2q1 : (2 : ℝ) ^ (q - 1) = (2 : ℝ) ^ q / 2 := by
        rw [zpow_sub₀ two0]; simp
      have hsig : sigAt (q - 1) n d = 2 * m := by
        apply nat_eq_of_close _ _ _ (sigAt_spec (q - 1) n d hd)
        have : y / (2 : ℝ) ^ (q - 1) - ((2 * m : Nat) : ℝ) = 2 * (y / (2 : ℝ) ^ q - (m : ℝ)) := by
          rw [h2q1]; push_cast; field_simp
        rw [← hydef, this, abs_mul, abs_of_pos (by norm_num : (0 : ℝ) < 2)]
        linarith
      have h2m : 2 * m = 2 ^ f.p := by
        rw [hm, ← pow_succ']; congr 1; omega
      unfold roundPos
      simp only [hquant, hsig, h2m, if_true]
      have : ¬ ((f.emax : Int) < q - 1 + 1 + ((f.p : Int) - 1)) := by omega
      simp only [this, if_false]
      rw [hm]
      congr 1; ring

/-- **Spacing.** Between a normal canonical number `M·2^E` and `(M+1)·2^E` there is no other number of
the format: a canonical `m·2^q` above the first is at least the second. -/
theorem canonical_gap (f : Fmt) (hp : 1 ≤ f.p) (s t : Bool) (m M : Nat) (q E : Int)
    (ha : Canonical f (fin s m q)) (hb : Canonical f (fin t M E)) (hbn : 2 ^ (f.p - 1) ≤ M)
    (hgt : (M : ℝ) * (2 : ℝ) ^ E < (m : ℝ) * (2 : ℝ) ^ q) :
    ((M : ℝ) + 1) * (2 : ℝ) ^ E ≤ (m : ℝ) * (2 : ℝ) ^ q := by
  have two0 : (2 : ℝ) ≠ 0 := by norm_num
  have h2E : (0 : ℝ) < (2 : ℝ) ^ E := by positivity
  have h2q : (0 : ℝ) < (2 : ℝ) ^ q := by positivity
  obtain ⟨hm, _, _, _⟩ := ha
  by_cases hqE : E ≤ q
  · -- m·2^q is a multiple of 2^E
    have hk : 0 ≤ q - E := by omega
    have e : (2 : ℝ) ^ q = ((2 ^ (q - E).toNat : Nat) : ℝ) * (2 : ℝ) ^ E := by
      rw [two_zpow_toNat hk, ← zpow_add₀ two0]; congr 1; ring
    rw [e, ← mul_assoc] at hgt ⊢
    have h1 : (M : ℝ) < (m : ℝ) * ((2 ^ (q - E).toNat : Nat) : ℝ) := lt_of_mul_lt_mul_right hgt h2E.le
    have h2 : M < m * 2 ^ (q - E).toNat := by exact_mod_cast h1
    have h3 : ((M + 1 : Nat) : ℝ) ≤ ((m * 2 ^ (q - E).toNat : Nat) : ℝ) := by exact_mod_cast h2
    rw [Nat.cast_add, Nat.cast_one, Nat.cast_mul] at h3
    exact mul_le_mul_of_nonneg_right h3 h2E.le
  · -- q < E: then m·2^q < 2^p·2^q ≤ 2^(p-1)·2^E ≤ M·2^E, contradiction
    exfalso
    have hq1 : q + 1 ≤ E := by omega
    have hmR : (m : ℝ) < (2 : ℝ) ^ (f.p : Int) := by rw [zpow_natCast]; exact_mod_cast hm
    have hMR : (2 : ℝ) ^ ((f.p : Int) - 1) ≤ (M : ℝ) := by
      have e : ((f.p : Int) - 1) = ((f.p - 1 : Nat) : Int) := by omega
      rw [e, zpow_natCast]; exact_mod_cast hbn
    have two : (1 : ℝ) < 2 := by norm_num
    have h1 : (m : ℝ) * (2 : ℝ) ^ q < (2 : ℝ) ^ ((f.p : Int) + q) := by
      rw [zpow_add₀ two0]; exact mul_lt_mul_of_pos_right hmR h2q
    have h2 : (2 : ℝ) ^ ((f.p : Int) + q) ≤ (2 : ℝ) ^ ((f.p : Int) - 1 + E) :=
      (zpow_le_zpow_iff_right₀ two).mpr (by omega)
    have h3 : (2 : ℝ) ^ ((f.p : Int) - 1 + E) ≤ (M : ℝ) * (2 : ℝ) ^ E := by
      rw [zpow_add₀ two0]; exact mul_le_mul_of_nonneg_right hMR h2E.le
    linarith

/-- The real value of `roundE`'s argument as a quotient. -/
theorem roundE_eq_roundPos (f : Fmt) (s : Bool) (n : Nat) (e : Int) (hn : 0 < n) :
    ∃ N D : Nat, 0 < N ∧ 0 < D ∧ roundE f s n e = roundPos f s N D ∧
      (N : ℝ) / D = (n : ℝ) * (2 : ℝ) ^ e := by
  unfold roundE round
  by_cases he : 0 ≤ e
  · refine ⟨n * 2 ^ e.toNat, 1, by positivity, Nat.one_pos, ?_, ?_⟩
    · have : n * 2 ^ e.toNat ≠ 0 := by positivity
      simp [he, this]
    · rw [Nat.cast_mul, two_zpow_toNat he]; simp
  · have he' : 0 ≤ -e := by omega
    refine ⟨n, 2 ^ (-e).toNat, hn, by positivity, ?_, ?_⟩
    · have : n ≠ 0 := by omega
      simp [he, this]
    · rw [two_zpow_toNat he', zpow_neg]; field_simp

/-- **Canonical values are fixed points of rounding**: converting a value to the format it is already
in changes nothing. -/
theorem cast_canonical (f : Fmt) (hp : 1 ≤ f.p) (x : Fl) (hc : Canonical f x) : cast f x = x := by
  cases x with
  | nan => rfl
  | inf s => rfl
  | fin s m q =>
    by_cases hm : m = 0
    · subst hm
      obtain ⟨_, _, hq, _⟩ := hc
      have : q = f.qmin := by
        rcases hq with h | h
        · exact h
        · have : 0 < 2 ^ (f.p - 1) := by positivity
          omega
      simp [cast, roundE, round, zero, this]
    · have hm' : 0 < m := by omega
      obtain ⟨N, D, hN, hD, hr, hv⟩ := roundE_eq_roundPos f s m q hm'
      simp only [cast]
      rw [hr]
      exact roundPos_canonical f hp s N D hN hD m q hm' hc hv

/-- One format is contained in another. -/
def _root_.PhQVerif.Fmt.le (f g : Fmt) : Prop := f.p ≤ g.p ∧ f.emax ≤ g.emax

/-- **Widening then narrowing is the identity**: a value of the narrower format `f` survives a round
trip through any wider format `g`. -/
theorem cast_cast_of_le (f g : Fmt) (hp : 1 ≤ f.p) (hem : 1 ≤ f.emax) (hfg : f.le g) (x : Fl)
    (hc : Canonical f x) : cast f (cast g x) = x := by
  obtain ⟨hpp, hee⟩ := hfg
  cases x with
  | nan => rfl
  | inf s => rfl
  | fin s m q =>
    by_cases hm : m = 0
    · subst hm
      obtain ⟨_, _, hq, _⟩ := hc
      have : q = f.qmin := by
        rcases hq with h | h
        · exact h
        · have : 0 < 2 ^ (f.p - 1) := by positivity
          omega
      simp [cast, roundE, round, zero, this]
    · have hm' : 0 < m := by omega
      have two : (1 : ℝ) < 2 := by norm_num
      obtain ⟨hlt, hqmin, hnorm, hmax⟩ := hc
      obtain ⟨N, D, hN, hD, hr, hv⟩ := roundE_eq_roundPos g s m q hm'
      have h2q : (0 : ℝ) < (2 : ℝ) ^ q := by positivity
      have hov : (N : ℝ) / D < (2 : ℝ) ^ ((g.emax : Int) + 1) := by
        rw [hv]
        have hltR : (m : ℝ) < (2 : ℝ) ^ (f.p : Int) := by rw [zpow_natCast]; exact_mod_cast hlt
        calc (m : ℝ) * (2 : ℝ) ^ q < (2 : ℝ) ^ (f.p : Int) * (2 : ℝ) ^ q :=
              mul_lt_mul_of_pos_right hltR h2q
          _ = (2 : ℝ) ^ ((f.p : Int) + q) := by rw [zpow_add₀ (by norm_num : (2 : ℝ) ≠ 0)]
          _ ≤ (2 : ℝ) ^ ((g.emax : Int) + 1) := (zpow_le_zpow_iff_right₀ two).mpr (by omega)
      obtain ⟨m', q', hr', hv'⟩ := roundPos_exact g (by omega) (by omega) s N D hN hD m q hv
        (lt_of_lt_of_le hlt (Nat.pow_le_pow_right (by norm_num) hpp))
        (by unfold Fmt.qmin at *; omega) hov
      have hm2 : 0 < m' := by
        rcases Nat.eq_zero_or_pos m' with h0 | h0
        · exfalso
          have hpos : (0 : ℝ) < (m : ℝ) * (2 : ℝ) ^ q := by positivity
          rw [h0, hv] at hv'
          simp only [Nat.cast_zero, zero_mul] at hv'
          rw [← hv'] at hpos
          exact lt_irrefl _ hpos
        · exact h0
      have e1 : cast g (fin s m q) = fin s m' q' := by simp only [cast]; rw [hr, hr']
      rw [e1]
      obtain ⟨N2, D2, hN2, hD2, hr2, hv2⟩ := roundE_eq_roundPos f s m' q' hm2
      simp only [cast]
      rw [hr2]
      exact roundPos_canonical f hp s N2 D2 hN2 hD2 m q hm' ⟨hlt, hqmin, hnorm, hmax⟩
        (by rw [hv2, hv', hv])

theorem F32_le_F64 : F32.le F64 := by unfold Fmt.le; decide
theorem F32_le_F80 : F32.le F80 := by unfold Fmt.le; decide
theorem F64_le_F80 : F64.le F80 := by unfold Fmt.le; decide

/-! ## End-to-end accuracy of a conversion kernel `x ↦ x·K` -/

/-- **One conversion step.** If the code's constant `K` is within relative `c` of the factor `A` the
unit's symbol implies, then the computed `fl(x·K)` is within relative `u·(1+c) + c` of the exact
`x·A` — for every finite non-zero `x` whose product is in the normal range and does not overflow. With
`c = 4u` (what the table theorem of C01 establishes for every unit) that is `5u + 4u²`: a few units in
the last place. -/
theorem mul_const_accuracy (f : Fmt) (hp : 1 ≤ f.p) (s1 s2 : Bool) (m1 m2 : Nat) (e1 e2 : Int)
    (h1 : 0 < m1) (h2 : 0 < m2) (A c : ℝ) (hA : 0 < A) (hc : 0 ≤ c)
    (hK : |toReal (fin s2 m2 e2) - A| ≤ c * A)
    (hnorm : f.minNormal ≤ |toReal (fin s1 m1 e1) * toReal (fin s2 m2 e2)|)
    {r : Fl} (hr : mul f (fin s1 m1 e1) (fin s2 m2 e2) = r) (hfin : r.isFinite = true) :
    |toReal r - toReal (fin s1 m1 e1) * A| ≤ (f.u * (1 + c) + c) * (|toReal (fin s1 m1 e1)| * A) := by
  set x := toReal (fin s1 m1 e1) with hx
  set K := toReal (fin s2 m2 e2) with hKd
  have hu : 0 ≤ f.u := by unfold Fmt.u; positivity
  have hmul := mul_rel f hp s1 s2 m1 m2 e1 e2 h1 h2 hnorm hr hfin
  have hxK : |x * K - x * A| ≤ c * (|x| * A) := by
    rw [← mul_sub, abs_mul]
    calc |x| * |K - A| ≤ |x| * (c * A) := mul_le_mul_of_nonneg_left hK (abs_nonneg _)
      _ = c * (|x| * A) := by ring
  have hKabs : |K| ≤ (1 + c) * A := by
    have := abs_sub_abs_le_abs_sub K A
    rw [abs_of_pos hA] at this
    linarith
  have hxKabs : |x * K| ≤ (1 + c) * (|x| * A) := by
    rw [abs_mul]
    calc |x| * |K| ≤ |x| * ((1 + c) * A) := mul_le_mul_of_nonneg_left hKabs (abs_nonneg _)
      _ = (1 + c) * (|x| * A) := by ring
  calc |toReal r - x * A| = |(toReal r - x * K) + (x * K - x * A)| := by ring_nf
    _ ≤ |toReal r - x * K| + |x * K - x * A| := abs_add_le _ _
    _ ≤ f.u * |x * K| + c * (|x| * A) := add_le_add hmul hxK
    _ ≤ f.u * ((1 + c) * (|x| * A)) + c * (|x| * A) := by
        have := mul_le_mul_of_nonneg_left hxKabs hu
        linarith
    _ = (f.u * (1 + c) + c) * (|x| * A) := by ring

/-- The same for a kernel `x ↦ x / K` (`c < 1`): within relative `u·(1+c') + c'` of `x / A`, where
`c' = c / (1 - c)`. -/
theorem div_const_accuracy (f : Fmt) (hp : 1 ≤ f.p) (s1 s2 : Bool) (m1 m2 : Nat) (e1 e2 : Int)
    (h1 : 0 < m1) (h2 : 0 < m2) (A c : ℝ) (hA : 0 < A) (hc : 0 ≤ c) (hc1 : c < 1)
    (hK : |toReal (fin s2 m2 e2) - A| ≤ c * A)
    (hnorm : f.minNormal ≤ |toReal (fin s1 m1 e1) / toReal (fin s2 m2 e2)|)
    {r : Fl} (hr : div f (fin s1 m1 e1) (fin s2 m2 e2) = r) (hfin : r.isFinite = true) :
    |toReal r - toReal (fin s1 m1 e1) / A| ≤
      (f.u * (1 + c / (1 - c)) + c / (1 - c)) * (|toReal (fin s1 m1 e1)| / A) := by
  set x := toReal (fin s1 m1 e1) with hx
  set K := toReal (fin s2 m2 e2) with hKd
  have hu : 0 ≤ f.u := by unfold Fmt.u; positivity
  have h1c : 0 < 1 - c := by linarith
  have hdiv := div_rel f hp s1 s2 m1 m2 e1 e2 h1 h2 hnorm hr hfin
  -- K ≥ (1 - c)·A > 0
  have hKlo : (1 - c) * A ≤ K := by
    have := (abs_le.mp hK).1; linarith
  have hKpos : 0 < K := lt_of_lt_of_le (by positivity) hKlo
  have hinv : |1 / K - 1 / A| ≤ c / (1 - c) * (1 / A) := by
    have e : 1 / K - 1 / A = (A - K) / (K * A) := by field_simp
    rw [e, abs_div, abs_of_pos (by positivity : 0 < K * A), abs_sub_comm]
    rw [div_le_iff₀ (by positivity)]
    calc |K - A| ≤ c * A := hK
      _ = c / (1 - c) * (1 / A) * ((1 - c) * A * A) := by field_simp
      _ ≤ c / (1 - c) * (1 / A) * (K * A) := by
          apply mul_le_mul_of_nonneg_left _ (by positivity)
          exact mul_le_mul_of_nonneg_right hKlo hA.le
  have hxK : |x / K - x / A| ≤ c / (1 - c) * (|x| / A) := by
    have e : x / K - x / A = x * (1 / K - 1 / A) := by ring
    rw [e, abs_mul]
    calc |x| * |1 / K - 1 / A| ≤ |x| * (c / (1 - c) * (1 / A)) := mul_le_mul_of_nonneg_left hinv (abs_nonneg _)
      _ = c / (1 - c) * (|x| / A) := by ring
  have hxKabs : |x / K| ≤ (1 + c / (1 - c)) * (|x| / A) := by
    have h0 : |x / A| = |x| / A := by rw [abs_div, abs_of_pos hA]
    have := abs_sub_abs_le_abs_sub (x / K) (x / A)
    rw [h0] at this
    linarith
  calc |toReal r - x / A| = |(toReal r - x / K) + (x / K - x / A)| := by ring_nf
    _ ≤ |toReal r - x / K| + |x / K - x / A| := abs_add_le _ _
    _ ≤ f.u * |x / K| + c / (1 - c) * (|x| / A) := add_le_add hdiv hxK
    _ ≤ f.u * ((1 + c / (1 - c)) * (|x| / A)) + c / (1 - c) * (|x| / A) := by
        have := mul_le_mul_of_nonneg_left hxKabs hu
        linarith
    _ = (f.u * (1 + c / (1 - c)) + c / (1 - c)) * (|x| / A) := by ring

end PhQVerif.Fl
