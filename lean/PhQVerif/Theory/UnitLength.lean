/-
Theory/UnitLength.lean — the floating-point length of a normalised vector.

* `Within.norm2/3`: if every computed component is within `k` roundings of its exact value, so is the
  Euclidean norm of the computed vector of the exact one.
* `four_ulps`: within 5 roundings of `1` is within `8·U` of `1` — four units in the last place of `1`
  (`ulp(1) = 2U`).
* Sign symmetry of the floating-point operations the normalisation uses: `x·x` does not depend on the
  sign of `x`, and `|a / b| = |a| / |b|` exactly, so a vector and the vector of its absolute values
  normalise to the same absolute components.
-/
import PhQVerif.Theory.RelErr
import PhQVerif.Theory.Direction

namespace PhQVerif

namespace Within
variable {U : ℝ}

theorem norm2 (hU0 : 0 ≤ U) (hU1 : U < 1) {k : Nat} {d0 r0 d1 r1 : ℝ}
    (h0 : Within U k d0 r0) (h1 : Within U k d1 r1) :
    Within U k (Real.sqrt (d0 ^ 2 + d1 ^ 2)) (Real.sqrt (r0 ^ 2 + r1 ^ 2)) := by
  have s0 := h0.mul hU0 hU1 h0
  have s1 := h1.mul hU0 hU1 h1
  have s := s0.add hU0 hU1 s1
  rw [max_self, ← two_mul] at s
  have := s.sqrt hU0 hU1
  simpa [pow_two] using this

theorem norm3 (hU0 : 0 ≤ U) (hU1 : U < 1) {k : Nat} {d0 r0 d1 r1 d2 r2 : ℝ}
    (h0 : Within U k d0 r0) (h1 : Within U k d1 r1) (h2 : Within U k d2 r2) :
    Within U k (Real.sqrt (d0 ^ 2 + d1 ^ 2 + d2 ^ 2)) (Real.sqrt (r0 ^ 2 + r1 ^ 2 + r2 ^ 2)) := by
  have s0 := h0.mul hU0 hU1 h0
  have s1 := h1.mul hU0 hU1 h1
  have s2 := h2.mul hU0 hU1 h2
  have s := (s0.add hU0 hU1 s1).add hU0 hU1 s2
  rw [max_self, max_self, ← two_mul] at s
  have := s.sqrt hU0 hU1
  simpa [pow_two] using this

/-- Within five roundings of one is within four units in the last place of one (`8U`, `ulp(1) = 2U`). -/
theorem four_ulps (hU0 : 0 ≤ U) (hU : U ≤ 3 / 40) {n : ℝ} (h : Within U 5 n 1) : |n - 1| ≤ 8 * U := by
  obtain ⟨_, h1, h2⟩ := h
  have hq : 0 < 1 - U := by linarith
  have hb : 1 - 5 * U ≤ (1 - U) ^ 5 := by
    have := one_add_mul_le_pow (a := -U) (by linarith) 5
    simpa [sub_eq_add_neg] using this
  have hpos : 0 < (1 - U) ^ 5 := pow_pos hq 5
  rw [one_mul] at h1
  have hn : 0 < n := lt_of_lt_of_le hpos h1
  rw [abs_le]
  constructor
  · linarith
  · -- n (1 - 5U) ≤ n (1-U)^5 ≤ 1  and  1 ≤ (1 + 8U)(1 - 5U)
    have h3 : n * (1 - 5 * U) ≤ 1 := le_trans (mul_le_mul_of_nonneg_left hb hn.le) h2
    have h4 : (1 : ℝ) ≤ (1 + 8 * U) * (1 - 5 * U) := by nlinarith
    have h5 : 0 < 1 - 5 * U := by linarith
    have : n * (1 - 5 * U) ≤ (1 + 8 * U) * (1 - 5 * U) := le_trans h3 h4
    have := le_of_mul_le_mul_right this h5
    linarith

end Within

namespace Fl

theorem mul_self_abs (f : Fmt) (x : Fl) : mul f x x = mul f (abs x) (abs x) := by
  cases x <;> simp [mul, abs]

theorem abs_round (f : Fmt) (s : Bool) (n d : Nat) : abs (round f s n d) = round f false n d := by
  unfold round
  by_cases hn : n = 0
  · simp [hn, zero, abs]
  · simp only [hn, if_false]
    unfold roundPos
    simp only []
    split_ifs <;> rfl

theorem sign_round (f : Fmt) (s : Bool) (n d : Nat) : (round f s n d).sign = s := by
  unfold round
  by_cases hn : n = 0
  · simp [hn, zero, sign]
  · simp only [hn, if_false]
    unfold roundPos
    simp only []
    split_ifs <;> rfl

theorem abs_zero (f : Fmt) (s : Bool) : abs (zero f s) = zero f false := by simp [zero, abs]

/-- `|a / b| = |a| / |b|`, exactly. -/
theorem abs_div (f : Fmt) (x y : Fl) : abs (div f x y) = div f (abs x) (abs y) := by
  cases x with
  | nan => cases y <;> rfl
  | inf s => cases y <;> simp [div, abs]
  | fin s1 m1 e1 =>
    cases y with
    | nan => rfl
    | inf t => simp [div, abs, zero]
    | fin s2 m2 e2 =>
      by_cases hm : m2 = 0
      · by_cases hm1 : m1 = 0 <;> simp [div, hm, hm1, abs]
      · by_cases hk : 0 ≤ e1 - e2
        · have e : div f (fin s1 m1 e1) (fin s2 m2 e2) =
              round f (s1 != s2) (m1 * 2 ^ (e1 - e2).toNat) m2 := by simp only [div, if_neg hm, if_pos hk]
          rw [e, abs_round]
          simp only [abs, div, if_neg hm, if_pos hk, bne_self_eq_false]
        · have e : div f (fin s1 m1 e1) (fin s2 m2 e2) =
              round f (s1 != s2) m1 (m2 * 2 ^ (-(e1 - e2)).toNat) := by simp only [div, if_neg hm, if_neg hk]
          rw [e, abs_round]
          simp only [abs, div, if_neg hm, if_neg hk, bne_self_eq_false]

theorem toReal_abs (x : Fl) : toReal (abs x) = |toReal x| := by
  cases x with
  | nan => simp [abs, toReal]
  | inf s => simp [abs, toReal]
  | fin s m e =>
    simp only [abs, toReal]
    have h2 : (0 : ℝ) < (2 : ℝ) ^ e := by positivity
    cases s <;> simp [abs_mul, abs_of_pos h2]

/-- A positive value is its own absolute value. -/
theorem abs_of_toReal_pos {x : Fl} (h : 0 < toReal x) : abs x = x := by
  obtain ⟨m, e, rfl, _⟩ := pos_fin x h
  rfl

theorem sign_div (f : Fmt) {x y : Fl} (hx : x.isFinite = true) (hy : 0 < toReal y) :
    (div f x y).sign = x.sign := by
  obtain ⟨m2, e2, rfl, hm2⟩ := pos_fin y hy
  have hm : m2 ≠ 0 := Nat.pos_iff_ne_zero.mp hm2
  cases x with
  | nan => simp [isFinite] at hx
  | inf s => simp [isFinite] at hx
  | fin s m e =>
    by_cases hk : 0 ≤ e - e2
    · have e' : div f (fin s m e) (fin false m2 e2) = round f (s != false) (m * 2 ^ (e - e2).toNat) m2 := by
        simp only [div, if_neg hm, if_pos hk]
      rw [e', sign_round]; simp [sign]
    · have e' : div f (fin s m e) (fin false m2 e2) = round f (s != false) m (m2 * 2 ^ (-(e - e2)).toNat) := by
        simp only [div, if_neg hm, if_neg hk]
      rw [e', sign_round]; simp [sign]

end Fl

/-- An expression whose value does not depend on the signs of the inputs: sums and square roots of
products of an input with itself (and literals). -/
def Expr.isEven : Expr → Bool
  | .bin .mul _ (.var i _) (.var j _) => i == j
  | .bin .add _ a b => isEven a && isEven b
  | .un .sqrt _ a => isEven a
  | .lit _ _ _ _ => true
  | _ => false

theorem Expr.isEven_sound (L : Libm) (env : Nat → Fl) :
    ∀ e : Expr, e.isEven = true → e.evalF L env = e.evalF L (fun i => Fl.abs (env i)) := by
  intro e
  induction e with
  | var i f => intro h; simp [Expr.isEven] at h
  | lit f s m e => intro _; rfl
  | pi f m e => intro h; simp [Expr.isEven] at h
  | uninit f => intro h; simp [Expr.isEven] at h
  | powi f n a _ => intro h; simp [Expr.isEven] at h
  | cast f a _ => intro h; simp [Expr.isEven] at h
  | un op f a ih =>
    intro h
    cases op <;> simp only [Expr.isEven, Bool.false_eq_true] at h
    simp only [Expr.evalF, ih h]
  | bin op f a b iha ihb =>
    intro h
    cases op with
    | add =>
      simp only [Expr.isEven, Bool.and_eq_true] at h
      simp only [Expr.evalF, iha h.1, ihb h.2]
    | mul =>
      cases a <;> cases b <;> simp only [Expr.isEven, Bool.false_eq_true] at h
      rename_i i fi j fj
      simp only [beq_iff_eq] at h
      subst h
      simp only [Expr.evalF]
      exact Fl.mul_self_abs _ _
    | sub => simp [Expr.isEven] at h
    | div => simp [Expr.isEven] at h
    | pow => simp [Expr.isEven] at h

/-- A component `xᵢ / D` with `D` even: its absolute value is the same component computed from the
absolute values of the inputs, and (for a positive `D`) it has the sign of `xᵢ`. -/
theorem odd_component (L : Libm) (env : Nat → Fl) (g fi : Fm) (i : Nat) (D : Expr) (hD : D.isEven = true)
    (hpos : 0 < Fl.toReal (D.evalF L (fun j => Fl.abs (env j)))) :
    Fl.abs ((Expr.bin .div g (.var i fi) D).evalF L env) =
      (Expr.bin .div g (.var i fi) D).evalF L (fun j => Fl.abs (env j)) ∧
    ((env i).isFinite = true → ((Expr.bin .div g (.var i fi) D).evalF L env).sign = (env i).sign) := by
  have hD' := Expr.isEven_sound L env D hD
  constructor
  · simp only [Expr.evalF]
    rw [Fl.abs_div, hD', Fl.abs_of_toReal_pos hpos]
  · intro hfin
    simp only [Expr.evalF]
    rw [hD']
    exact Fl.sign_div _ hfin hpos

/-- The unit round-off of a precision, as used by `posFrag_sound`. -/
noncomputable def uOf (p : Nat) : ℝ := (2 : ℝ) ^ (-(p : Int))

theorem uOf_bounds {p : Nat} (hp : 4 ≤ p) : 0 ≤ uOf p ∧ uOf p < 1 ∧ uOf p ≤ 3 / 40 := by
  unfold uOf
  have h4 : (2 : ℝ) ^ (-(p : Int)) ≤ (2 : ℝ) ^ (-(4 : Int)) :=
    (zpow_le_zpow_iff_right₀ (by norm_num : (1 : ℝ) < 2)).mpr (by omega)
  have e4 : (2 : ℝ) ^ (-(4 : Int)) = 1 / 16 := by norm_num
  rw [e4] at h4
  refine ⟨by positivity, by linarith, by linarith⟩

/-- One normalised component `xᵢ / √S`, for inputs of any sign: its square is the square of the same
component computed from the absolute values of the inputs, that one is within `k ≤ 5` roundings of the
exact `|xᵢ| / √S`, and its sign is the sign of `xᵢ`. -/
theorem component_any_sign (p : Nat) (hp : 1 ≤ p) (L : Libm) (env : Nat → Fl)
    (hfin : ∀ i, (env i).isFinite = true ∧ Fl.toReal (env i) ≠ 0)
    (g fi h : Fm) (i : Nat) (S : Expr) (hS : S.isEven = true) (k : Nat)
    (hk : posFrag p (.bin .div g (.var i fi) (.un .sqrt h S)) = some k) (hk5 : k ≤ 5)
    (hr : InRange L (fun j => Fl.abs (env j)) (.bin .div g (.var i fi) (.un .sqrt h S))) :
    let ex := Expr.bin .div g (.var i fi) (.un .sqrt h S)
    let x : Nat → ℝ := fun j => |Fl.toReal (env j)|
    Within (uOf p) 5 (Fl.toReal (ex.evalF L (fun j => Fl.abs (env j)))) (ex.evalR x) ∧
    (Fl.toReal (ex.evalF L env)) ^ 2 = (Fl.toReal (ex.evalF L (fun j => Fl.abs (env j)))) ^ 2 ∧
    (ex.evalF L env).sign = (env i).sign := by
  intro ex x
  obtain ⟨hU0, hU1, _⟩ : 0 ≤ uOf p ∧ uOf p < 1 ∧ True := by
    unfold uOf
    have : (2 : ℝ) ^ (-(p : Int)) < (2 : ℝ) ^ (0 : Int) :=
      (zpow_lt_zpow_iff_right₀ (by norm_num : (1 : ℝ) < 2)).mpr (by omega)
    exact ⟨by positivity, by simpa using this, trivial⟩
  have henv : ∀ j, 0 < x j ∧ Fl.toReal (Fl.abs (env j)) = x j := by
    intro j
    exact ⟨abs_pos.mpr (hfin j).2, Fl.toReal_abs _⟩
  have hw := posFrag_sound p hp ex k hk L (fun j => Fl.abs (env j)) x henv hr
  have hw5 : Within (uOf p) 5 _ _ := hw.mono hU0 hU1 hk5
  -- the divisor is positive
  have hDpos : 0 < Fl.toReal ((Expr.un .sqrt h S).evalF L (fun j => Fl.abs (env j))) := by
    have hq := hr.2.2.1
    simp only [BinOp.evalR, Expr.evalF] at hq
    have hmn := Fl.minNormal_pos g.fmt
    have hnum : 0 < Fl.toReal (Fl.abs (env i)) := by rw [(henv i).2]; exact (henv i).1
    have hquot : 0 < Fl.toReal (Fl.abs (env i)) /
        Fl.toReal (Fl.sqrt h.fmt (S.evalF L fun j => Fl.abs (env j))) := lt_of_lt_of_le hmn hq
    by_contra hneg
    have hneg := not_lt.mp hneg
    have := div_nonpos_of_nonneg_of_nonpos hnum.le hneg
    simp only [Expr.evalF] at this
    linarith
  have hodd := odd_component L env g fi i (.un .sqrt h S) (by simpa [Expr.isEven] using hS) hDpos
  refine ⟨hw5, ?_, hodd.2 (hfin i).1⟩
  rw [← hodd.1, Fl.toReal_abs, sq_abs]

/-- **Three components, any signs.** -/
theorem unit_length3 (p : Nat) (hp : 4 ≤ p) (L : Libm) (env : Nat → Fl)
    (hfin : ∀ i, (env i).isFinite = true ∧ Fl.toReal (env i) ≠ 0)
    (fm g0 g1 g2 f0 f1 f2 h0 h1 h2 : Fm) (i0 i1 i2 : Nat) (k0 k1 k2 : Nat)
    (hk0 : k0 ≤ 5) (hk1 : k1 ≤ 5) (hk2 : k2 ≤ 5) :
    let a : Expr := .var i0 f0
    let b : Expr := .var i1 f1
    let c : Expr := .var i2 f2
    let S : Expr := .bin .add fm (.bin .add fm (.bin .mul fm a a) (.bin .mul fm b b)) (.bin .mul fm c c)
    let e0 : Expr := .bin .div g0 a (.un .sqrt h0 S)
    let e1 : Expr := .bin .div g1 b (.un .sqrt h1 S)
    let e2 : Expr := .bin .div g2 c (.un .sqrt h2 S)
    posFrag p e0 = some k0 → posFrag p e1 = some k1 → posFrag p e2 = some k2 →
    InRange L (fun j => Fl.abs (env j)) e0 → InRange L (fun j => Fl.abs (env j)) e1 →
    InRange L (fun j => Fl.abs (env j)) e2 →
    |Real.sqrt ((Fl.toReal (e0.evalF L env)) ^ 2 + (Fl.toReal (e1.evalF L env)) ^ 2 +
        (Fl.toReal (e2.evalF L env)) ^ 2) - 1| ≤ 8 * uOf p ∧
    (e0.evalF L env).sign = (env i0).sign ∧ (e1.evalF L env).sign = (env i1).sign ∧
    (e2.evalF L env).sign = (env i2).sign := by
  intro a b c S e0 e1 e2 p0 p1 p2 r0 r1 r2
  obtain ⟨hU0, hU1, hU⟩ := uOf_bounds hp
  have hS : S.isEven = true := by simp [S, a, b, c, Expr.isEven]
  obtain ⟨w0, q0, s0⟩ := component_any_sign p (by omega) L env hfin g0 f0 h0 i0 S hS k0 p0 hk0 r0
  obtain ⟨w1, q1, s1⟩ := component_any_sign p (by omega) L env hfin g1 f1 h1 i1 S hS k1 p1 hk1 r1
  obtain ⟨w2, q2, s2⟩ := component_any_sign p (by omega) L env hfin g2 f2 h2 i2 S hS k2 p2 hk2 r2
  refine ⟨?_, s0, s1, s2⟩
  have hn := Within.norm3 hU0 hU1 w0 w1 w2
  have hx : ∀ j, 0 < |Fl.toReal (env j)| := fun j => abs_pos.mpr (hfin j).2
  have hone : Real.sqrt ((e0.evalR fun j => |Fl.toReal (env j)|) ^ 2 +
      (e1.evalR fun j => |Fl.toReal (env j)|) ^ 2 + (e2.evalR fun j => |Fl.toReal (env j)|) ^ 2) = 1 := by
    simp only [e0, e1, e2, S, a, b, c, Expr.evalR, BinOp.evalR, UnOp.evalR]
    have hpos : 0 < |Fl.toReal (env i0)| * |Fl.toReal (env i0)| + |Fl.toReal (env i1)| * |Fl.toReal (env i1)| +
        |Fl.toReal (env i2)| * |Fl.toReal (env i2)| := by
      have := hx i0; have := hx i1; have := hx i2; positivity
    rw [div_pow, div_pow, div_pow, Real.sq_sqrt hpos.le, ← add_div, ← add_div]
    rw [show |Fl.toReal (env i0)| ^ 2 + |Fl.toReal (env i1)| ^ 2 + |Fl.toReal (env i2)| ^ 2 =
      |Fl.toReal (env i0)| * |Fl.toReal (env i0)| + |Fl.toReal (env i1)| * |Fl.toReal (env i1)| +
        |Fl.toReal (env i2)| * |Fl.toReal (env i2)| by ring]
    rw [div_self hpos.ne', Real.sqrt_one]
  rw [hone] at hn
  rw [q0, q1, q2]
  exact hn.four_ulps hU0 hU

/-- **Two components, any signs.** -/
theorem unit_length2 (p : Nat) (hp : 4 ≤ p) (L : Libm) (env : Nat → Fl)
    (hfin : ∀ i, (env i).isFinite = true ∧ Fl.toReal (env i) ≠ 0)
    (fm g0 g1 f0 f1 h0 h1 : Fm) (i0 i1 : Nat) (k0 k1 : Nat) (hk0 : k0 ≤ 5) (hk1 : k1 ≤ 5) :
    let a : Expr := .var i0 f0
    let b : Expr := .var i1 f1
    let S : Expr := .bin .add fm (.bin .mul fm a a) (.bin .mul fm b b)
    let e0 : Expr := .bin .div g0 a (.un .sqrt h0 S)
    let e1 : Expr := .bin .div g1 b (.un .sqrt h1 S)
    posFrag p e0 = some k0 → posFrag p e1 = some k1 →
    InRange L (fun j => Fl.abs (env j)) e0 → InRange L (fun j => Fl.abs (env j)) e1 →
    |Real.sqrt ((Fl.toReal (e0.evalF L env)) ^ 2 + (Fl.toReal (e1.evalF L env)) ^ 2) - 1| ≤ 8 * uOf p ∧
    (e0.evalF L env).sign = (env i0).sign ∧ (e1.evalF L env).sign = (env i1).sign := by
  intro a b S e0 e1 p0 p1 r0 r1
  obtain ⟨hU0, hU1, hU⟩ := uOf_bounds hp
  have hS : S.isEven = true := by simp [S, a, b, Expr.isEven]
  obtain ⟨w0, q0, s0⟩ := component_any_sign p (by omega) L env hfin g0 f0 h0 i0 S hS k0 p0 hk0 r0
  obtain ⟨w1, q1, s1⟩ := component_any_sign p (by omega) L env hfin g1 f1 h1 i1 S hS k1 p1 hk1 r1
  refine ⟨?_, s0, s1⟩
  have hn := Within.norm2 hU0 hU1 w0 w1
  have hx : ∀ j, 0 < |Fl.toReal (env j)| := fun j => abs_pos.mpr (hfin j).2
  have hone : Real.sqrt ((e0.evalR fun j => |Fl.toReal (env j)|) ^ 2 +
      (e1.evalR fun j => |Fl.toReal (env j)|) ^ 2) = 1 := by
    simp only [e0, e1, S, a, b, Expr.evalR, BinOp.evalR, UnOp.evalR]
    have hpos : 0 < |Fl.toReal (env i0)| * |Fl.toReal (env i0)| + |Fl.toReal (env i1)| * |Fl.toReal (env i1)| := by
      have := hx i0; have := hx i1; positivity
    rw [div_pow, div_pow, Real.sq_sqrt hpos.le, ← add_div]
    rw [show |Fl.toReal (env i0)| ^ 2 + |Fl.toReal (env i1)| ^ 2 =
      |Fl.toReal (env i0)| * |Fl.toReal (env i0)| + |Fl.toReal (env i1)| * |Fl.toReal (env i1)| by ring]
    rw [div_self hpos.ne', Real.sqrt_one]
  rw [hone] at hn
  rw [q0, q1]
  exact hn.four_ulps hU0 hU

end PhQVerif
