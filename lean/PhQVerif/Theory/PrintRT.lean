/-
Theory/PrintRT.lean — C15: what `PhQ::Print` selects, parsed back, is the number itself.

The proof is the classical one: the printed decimal has `max_digits10 + 1` significant digits, so it
is within `½·10^-max_digits10` (relatively) of `x`; `10^max_digits10 ≥ 2^(p+1)` makes that less than a
quarter of `x`'s quantum; and a correctly rounding parser returns the representable number within a
quarter quantum (`Fl.roundPos_near`).
-/
import PhQVerif.Theory.Round
import PhQVerif.Core.Print

namespace PhQVerif.Print
open PhQVerif.Fl

theorem ten_zpow_toNat {k : Int} (hk : 0 ≤ k) : ((10 ^ k.toNat : Nat) : ℝ) = (10 : ℝ) ^ k := by
  obtain ⟨n, rfl⟩ := Int.eq_ofNat_of_zero_le hk
  simp

/-- `ge10` decides `10^e ≤ n/d`. -/
theorem ge10_iff (n d : Nat) (hd : 0 < d) (e : Int) :
    ge10 n d e = true ↔ (10 : ℝ) ^ e ≤ (n : ℝ) / d := by
  have hd' : (0 : ℝ) < d := by exact_mod_cast hd
  unfold ge10
  by_cases he : 0 ≤ e
  · simp only [he, if_true, decide_eq_true_eq]
    rw [le_div_iff₀ hd', ← ten_zpow_toNat he]
    constructor
    · intro h; have : ((d * 10 ^ e.toNat : Nat) : ℝ) ≤ (n : ℝ) := by exact_mod_cast h
      rw [Nat.cast_mul] at this; linarith
    · intro h; have : ((10 ^ e.toNat * d : Nat) : ℝ) ≤ (n : ℝ) := by rw [Nat.cast_mul]; exact h
      have := Nat.cast_le.mp this; linarith
  · simp only [he, if_false, decide_eq_true_eq]
    have he' : 0 ≤ -e := by omega
    have h10 : (0 : ℝ) < (10 : ℝ) ^ (-e) := by positivity
    rw [le_div_iff₀ hd', show e = -(-e) by ring, zpow_neg, inv_mul_le_iff₀ h10, ← ten_zpow_toNat he']
    simp only [neg_neg]
    constructor
    · intro h; have : ((d : Nat) : ℝ) ≤ ((n * 10 ^ (-e).toNat : Nat) : ℝ) := by exact_mod_cast h
      rw [Nat.cast_mul] at this; linarith
    · intro h; have : ((d : Nat) : ℝ) ≤ ((10 ^ (-e).toNat * n : Nat) : ℝ) := by rw [Nat.cast_mul]; exact h
      have := Nat.cast_le.mp this; linarith

theorem searchUp_spec (n d : Nat) (fuel : Nat) (e : Int) (h1 : ge10 n d e = true)
    (h2 : ge10 n d (e + fuel) = false) :
    ge10 n d (searchUp n d fuel e) = true ∧ ge10 n d (searchUp n d fuel e + 1) = false := by
  induction fuel generalizing e with
  | zero => simp at h2; rw [h1] at h2; cases h2
  | succ k ih =>
    unfold searchUp
    by_cases h : ge10 n d (e + 1) = true
    · simp only [h, if_true]
      apply ih _ h
      rw [← h2]; congr 1; push_cast; ring
    · simp only [h, if_false]
      exact ⟨h1, by simpa using h⟩

theorem two_pow_le_ten_pow (k : Nat) : 2 ^ k ≤ 10 ^ k := Nat.pow_le_pow_left (by norm_num) k

theorem pick10_spec (n d : Nat) (e r : Int) (h : pick10 n d e = some r) :
    ge10 n d r = true ∧ ge10 n d (r + 1) = false := by
  unfold pick10 at h
  split at h
  · rename_i hc; cases h; simpa using hc
  · cases h

/-- `ilog10Q n d = ⌊log₁₀ (n/d)⌋`. -/
theorem ilog10Q_spec (n d : Nat) (hn : 0 < n) (hd : 0 < d) :
    ge10 n d (ilog10Q n d) = true ∧ ge10 n d (ilog10Q n d + 1) = false := by
  unfold ilog10Q
  simp only
  split
  · rename_i e h; exact pick10_spec n d _ e h
  split
  · rename_i e h; exact pick10_spec n d _ e h
  split
  · rename_i e h; exact pick10_spec n d _ e h
  · apply searchUp_spec
    · -- 10^-(log2 d + 1) ≤ 1/d ≤ n/d
      unfold ge10
      have : ¬ (0 : Int) ≤ -((d.log2 : Int) + 1) := by omega
      simp only [this, if_false, decide_eq_true_eq, neg_neg]
      have h1 : d < 2 ^ (d.log2 + 1) := Nat.lt_log2_self
      have h2 : 2 ^ (d.log2 + 1) ≤ 10 ^ (d.log2 + 1) := two_pow_le_ten_pow _
      have e : ((d.log2 : Int) + 1).toNat = d.log2 + 1 := by omega
      rw [e]
      calc d ≤ 10 ^ (d.log2 + 1) := by omega
        _ ≤ n * 10 ^ (d.log2 + 1) := Nat.le_mul_of_pos_left _ hn
    · unfold ge10
      have e : -((d.log2 : Int) + 1) + ((n.log2 + d.log2 + 2 : Nat) : Int) = ((n.log2 + 1 : Nat) : Int) := by
        push_cast; ring
      rw [e]
      have : (0 : Int) ≤ ((n.log2 + 1 : Nat) : Int) := by omega
      simp only [this, if_true, decide_eq_false_iff_not, not_le, Int.toNat_natCast]
      have h1 : n < 2 ^ (n.log2 + 1) := Nat.lt_log2_self
      have h2 : 2 ^ (n.log2 + 1) ≤ 10 ^ (n.log2 + 1) := two_pow_le_ten_pow _
      calc n < 10 ^ (n.log2 + 1) := by omega
        _ ≤ d * 10 ^ (n.log2 + 1) := Nat.le_mul_of_pos_left _ hd

/-- The real number a selection denotes (magnitude). -/
noncomputable def Printed.mag (pr : Printed) : ℝ := (pr.value.2.1 : ℝ) / (pr.value.2.2 : ℝ)

theorem value_den_pos (pr : Printed) : 0 < pr.value.2.2 := by
  cases pr with
  | zero => simp [Printed.value]
  | fixed neg sc prec => simp only [Printed.value]; positivity
  | sci neg m prec e =>
    simp only [Printed.value]
    split <;> simp only <;> positivity

theorem sci_mag (neg : Bool) (m prec : Nat) (e : Int) :
    (Printed.sci neg m prec e).mag = (m : ℝ) * (10 : ℝ) ^ (e - (prec : Int)) := by
  unfold Printed.mag Printed.value
  simp only
  by_cases hk : 0 ≤ e - (prec : Int)
  · simp only [hk, if_true]
    rw [Nat.cast_mul, ten_zpow_toNat hk]; simp
  · simp only [hk, if_false]
    have hk' : 0 ≤ -(e - (prec : Int)) := by omega
    rw [ten_zpow_toNat hk', zpow_neg]; field_simp

theorem fixed_mag (neg : Bool) (sc prec : Nat) :
    (Printed.fixed neg sc prec).mag = (sc : ℝ) / (10 : ℝ) ^ prec := by
  unfold Printed.mag Printed.value; simp

/-- Fixed notation with `prec` decimals is within half a unit of the last decimal. -/
theorem fixedSel_close (neg : Bool) (prec n d : Nat) (hd : 0 < d) :
    |(fixedSel neg prec n d).mag - (n : ℝ) / d| ≤ (10 : ℝ) ^ (-(prec : Int)) / 2 := by
  have hd' : (0 : ℝ) < d := by exact_mod_cast hd
  unfold fixedSel rne
  rw [fixed_mag]
  have h := rneDiv_spec (n * 10 ^ prec) d hd
  have h10 : (0 : ℝ) < (10 : ℝ) ^ prec := by positivity
  have e : ((rneDiv (n * 10 ^ prec) d : Nat) : ℝ) / (10 : ℝ) ^ prec - (n : ℝ) / d
      = (((rneDiv (n * 10 ^ prec) d : Nat) : ℝ) - ((n * 10 ^ prec : Nat) : ℝ) / d) / (10 : ℝ) ^ prec := by
    push_cast; field_simp
  rw [e, abs_div, abs_of_pos h10, div_le_iff₀ h10, zpow_neg, zpow_natCast]
  calc _ ≤ (1 : ℝ) / 2 := h
    _ = ((10 : ℝ) ^ prec)⁻¹ / 2 * (10 : ℝ) ^ prec := by field_simp

/-- Scientific notation with `prec` decimals is within half a unit of the last digit. -/
theorem sciSel_close (neg : Bool) (prec n d : Nat) (hn : 0 < n) (hd : 0 < d) :
    |(sciSel neg prec n d).mag - (n : ℝ) / d| ≤ (10 : ℝ) ^ (-(prec : Int)) / 2 * ((n : ℝ) / d) := by
  have hd' : (0 : ℝ) < d := by exact_mod_cast hd
  obtain ⟨hlo, _⟩ := ilog10Q_spec n d hn hd
  rw [ge10_iff n d hd] at hlo
  set e0 := ilog10Q n d with he0
  set sh := e0 - (prec : Int) with hsh
  have h10 : (0 : ℝ) < (10 : ℝ) ^ sh := by positivity
  -- the rounded mantissa
  set m : Nat := if 0 ≤ sh then rne n (d * 10 ^ sh.toNat) else rne (n * 10 ^ (-sh).toNat) d with hm
  have hmspec : |(m : ℝ) - (n : ℝ) / d / (10 : ℝ) ^ sh| ≤ 1 / 2 := by
    rw [hm]
    by_cases hs : 0 ≤ sh
    · simp only [hs, if_true]
      have := rneDiv_spec n (d * 10 ^ sh.toNat) (by positivity)
      rw [Nat.cast_mul, ten_zpow_toNat hs] at this
      rwa [div_div]
    · simp only [hs, if_false]
      have hs' : 0 ≤ -sh := by omega
      have := rneDiv_spec (n * 10 ^ (-sh).toNat) d hd
      rw [Nat.cast_mul, ten_zpow_toNat hs'] at this
      have e : (n : ℝ) / d / (10 : ℝ) ^ sh = (n : ℝ) * (10 : ℝ) ^ (-sh) / d := by
        rw [zpow_neg]; field_simp
      rwa [e]
  have hmag : (sciSel neg prec n d).mag = (m : ℝ) * (10 : ℝ) ^ sh := by
    unfold sciSel
    simp only [← he0, ← hsh, ← hm]
    by_cases hc : m = 10 ^ (prec + 1)
    · simp only [hc, if_true]
      rw [sci_mag, hsh]
      push_cast
      rw [show e0 + 1 - (prec : Int) = (e0 - prec) + 1 by ring, zpow_add₀ (by norm_num : (10 : ℝ) ≠ 0)]
      ring
    · simp only [hc, if_false]
      rw [sci_mag]
  rw [hmag]
  have e : (m : ℝ) * (10 : ℝ) ^ sh - (n : ℝ) / d = ((m : ℝ) - (n : ℝ) / d / (10 : ℝ) ^ sh) * (10 : ℝ) ^ sh := by
    field_simp
  rw [e, abs_mul, abs_of_pos h10]
  have hshle : (10 : ℝ) ^ sh ≤ (10 : ℝ) ^ (-(prec : Int)) * ((n : ℝ) / d) := by
    rw [hsh, show e0 - (prec : Int) = -(prec : Int) + e0 by ring, zpow_add₀ (by norm_num : (10 : ℝ) ≠ 0)]
    exact mul_le_mul_of_nonneg_left hlo (by positivity)
  calc _ ≤ 1 / 2 * (10 : ℝ) ^ sh := mul_le_mul_of_nonneg_right hmspec h10.le
    _ ≤ 1 / 2 * ((10 : ℝ) ^ (-(prec : Int)) * ((n : ℝ) / d)) := by nlinarith
    _ = _ := by ring

/-! ### The interval cascade -/

theorem thr_facts :
    (0 < (thr 1 1000).2 ∧ 1 * (thr 1 1000).2 ≤ (thr 1 1000).1 * 1000) ∧
    (0 < (thr 1 100).2 ∧ 1 * (thr 1 100).2 ≤ (thr 1 100).1 * 100) ∧
    (0 < (thr 1 10).2 ∧ 1 * (thr 1 10).2 ≤ (thr 1 10).1 * 10) ∧
    (0 < (thr 1 1).2 ∧ 1 * (thr 1 1).2 ≤ (thr 1 1).1 * 1) ∧
    (0 < (thr 10 1).2 ∧ 10 * (thr 10 1).2 ≤ (thr 10 1).1 * 1) ∧
    (0 < (thr 100 1).2 ∧ 100 * (thr 100 1).2 ≤ (thr 100 1).1 * 1) ∧
    (0 < (thr 1000 1).2 ∧ 1000 * (thr 1000 1).2 ≤ (thr 1000 1).1 * 1) := by decide +kernel

/-- Not being below a threshold that is at least `A/B` means being at least `A/B`. -/
theorem ge_of_not_ltR (a T : Nat × Nat) (A B : Nat) (ha2 : 0 < a.2) (hB : 0 < B)
    (hT : 0 < T.2 ∧ A * T.2 ≤ T.1 * B) (h : ¬ ltR a T = true) : (A : ℝ) / B ≤ (a.1 : ℝ) / a.2 := by
  obtain ⟨hT2, hTA⟩ := hT
  unfold ltR at h
  simp only [decide_eq_true_eq, not_lt] at h
  have ha2' : (0 : ℝ) < a.2 := by exact_mod_cast ha2
  have hB' : (0 : ℝ) < B := by exact_mod_cast hB
  have hT2' : (0 : ℝ) < T.2 := by exact_mod_cast hT2
  have h1 : ((T.1 : ℝ)) * a.2 ≤ (a.1 : ℝ) * T.2 := by exact_mod_cast h
  have h2 : (A : ℝ) * T.2 ≤ (T.1 : ℝ) * B := by exact_mod_cast hTA
  rw [div_le_div_iff₀ hB' ha2']
  -- A * a2 * T2 ≤ T1 * B * a2 ≤ a1 * T2 * B
  have : (A : ℝ) * a.2 * T.2 ≤ (a.1 : ℝ) * B * T.2 := by nlinarith
  exact le_of_mul_le_mul_right this hT2'

/-- In the band that gets `prec` decimals, the value is at least `10^(md - prec)`: the printed
number has at least `md + 1` significant digits. -/
theorem bandPrec_lower (md : Nat) (hmd : 3 ≤ md) (a : Nat × Nat) (ha2 : 0 < a.2) (prec : Nat)
    (h : bandPrec md a = some prec) : (10 : ℝ) ^ ((md : Int) - (prec : Int)) ≤ (a.1 : ℝ) / a.2 := by
  obtain ⟨t3, t2, t1, t0, u1, u2, u3⟩ := thr_facts
  unfold bandPrec at h
  split at h
  · split at h
    · cases h
    · rename_i h3
      split at h
      · split at h
        · cases h
          have := ge_of_not_ltR a _ 1 1000 ha2 (by norm_num) t3 h3
          rw [show ((md : Int) - ((md + 3 : Nat) : Int)) = -3 by push_cast; ring]
          norm_num at this ⊢; linarith
        · rename_i h2
          cases h
          have := ge_of_not_ltR a _ 1 100 ha2 (by norm_num) t2 h2
          rw [show ((md : Int) - ((md + 2 : Nat) : Int)) = -2 by push_cast; ring]
          norm_num at this ⊢; linarith
      · rename_i h1
        cases h
        have := ge_of_not_ltR a _ 1 10 ha2 (by norm_num) t1 h1
        rw [show ((md : Int) - ((md + 1 : Nat) : Int)) = -1 by push_cast; ring]
        norm_num at this ⊢; linarith
  · rename_i h0
    split at h
    · split at h
      · cases h
        have := ge_of_not_ltR a _ 1 1 ha2 (by norm_num) t0 h0
        rw [show ((md : Int) - ((md : Nat) : Int)) = 0 by ring]
        norm_num at this ⊢; linarith
      · rename_i g1
        split at h
        · cases h
          have := ge_of_not_ltR a _ 10 1 ha2 (by norm_num) u1 g1
          rw [show ((md : Int) - ((md - 1 : Nat) : Int)) = 1 by omega]
          norm_num at this ⊢; linarith
        · rename_i g2
          cases h
          have := ge_of_not_ltR a _ 100 1 ha2 (by norm_num) u2 g2
          rw [show ((md : Int) - ((md - 2 : Nat) : Int)) = 2 by omega]
          norm_num at this ⊢; linarith
    · rename_i g3
      split at h
      · cases h
        have := ge_of_not_ltR a _ 1000 1 ha2 (by norm_num) u3 g3
        rw [show ((md : Int) - ((md - 3 : Nat) : Int)) = 3 by omega]
        norm_num at this ⊢; linarith
      · cases h

theorem fixedSel_neg (neg : Bool) (prec n d : Nat) : (fixedSel neg prec n d).value.1 = neg := rfl

theorem sci_value_neg (neg : Bool) (m prec : Nat) (e : Int) : (Printed.sci neg m prec e).value.1 = neg := by
  unfold Printed.value; simp only; split <;> rfl

theorem sciSel_neg (neg : Bool) (prec n d : Nat) : (sciSel neg prec n d).value.1 = neg := by
  unfold sciSel; simp only; repeat' split
  all_goals exact sci_value_neg _ _ _ _

/-- `max_digits10` is large enough: `2^(p+1) ≤ 10^max_digits10`, and at least 3. -/
theorem maxDigits10_ok (fm : Fm) :
    3 ≤ maxDigits10 fm ∧ 2 ^ (fm.fmt.p + 1) ≤ 10 ^ maxDigits10 fm := by
  cases fm <;> simp [maxDigits10, Fm.fmt, F32, F64, F80]

/-- The two ways `select` answers for a non-zero finite number. -/
theorem select_cases (fm : Fm) (x : Fl) (a : Nat × Nat) (ha : magRat x = some a) (h0 : a.1 ≠ 0) (pr : Printed)
    (h : select fm x = some pr) :
    (∃ prec, bandPrec (maxDigits10 fm) a = some prec ∧ pr = fixedSel x.sign prec a.1 a.2) ∨
    (bandPrec (maxDigits10 fm) a = none ∧ pr = sciSel x.sign (maxDigits10 fm) a.1 a.2) := by
  unfold select at h
  rw [ha] at h
  simp only [h0, if_false] at h
  cases hb : bandPrec (maxDigits10 fm) a with
  | some prec =>
    rw [hb] at h
    simp only [Option.some.injEq] at h
    exact Or.inl ⟨prec, rfl, h.symm⟩
  | none =>
    rw [hb] at h
    simp only [Option.some.injEq] at h
    exact Or.inr ⟨rfl, h.symm⟩

/-- **C15 (printing is lossless).** For every normal number `x` of each of the three formats, the
decimal number that `PhQ::Print` selects — whichever notation and precision the interval cascade
picks — parsed back by a correctly rounding parser is `x` itself, bit for bit. -/
theorem print_parse_roundtrip (fm : Fm) (s : Bool) (m : Nat) (q : Int)
    (hc : Canonical fm.fmt (fin s m q)) (hnorm : 2 ^ (fm.fmt.p - 1) ≤ m) (pr : Printed)
    (h : select fm (fin s m q) = some pr) : pr.parseBack fm = fin s m q := by
  obtain ⟨hmd3, hmd⟩ := maxDigits10_ok fm
  have hp : 1 ≤ fm.fmt.p := by cases fm <;> decide
  have hm : 0 < m := lt_of_lt_of_le (by positivity) hnorm
  have two0 : (2 : ℝ) ≠ 0 := by norm_num
  have h2q : (0 : ℝ) < (2 : ℝ) ^ q := by positivity
  -- the exact magnitude as a quotient
  obtain ⟨a, ha, ha2, hax, ha1⟩ : ∃ a : Nat × Nat, magRat (fin s m q) = some a ∧ 0 < a.2 ∧
      (a.1 : ℝ) / a.2 = (m : ℝ) * (2 : ℝ) ^ q ∧ 0 < a.1 := by
    unfold magRat
    by_cases hq : 0 ≤ q
    · refine ⟨(m * 2 ^ q.toNat, 1), by simp [hq], Nat.one_pos, ?_, by positivity⟩
      simp only; rw [Nat.cast_mul, two_zpow_toNat hq]; simp
    · have hq' : 0 ≤ -q := by omega
      refine ⟨(m, 2 ^ (-q).toNat), by simp [hq], by positivity, ?_, hm⟩
      simp only; rw [two_zpow_toNat hq', zpow_neg]; field_simp
  set X : ℝ := (m : ℝ) * (2 : ℝ) ^ q with hX
  have hXpos : 0 < X := by positivity
  have ha2' : (0 : ℝ) < a.2 := by exact_mod_cast ha2
  -- what was selected is close to X
  have hclose : pr.value.1 = s ∧ |pr.mag - X| ≤ (10 : ℝ) ^ (-(maxDigits10 fm : Int)) / 2 * X := by
    rcases select_cases fm _ a ha (by omega) pr h with ⟨prec, hb, rfl⟩ | ⟨hb, rfl⟩
    · refine ⟨fixedSel_neg _ _ _ _, ?_⟩
      have h1 := fixedSel_close s prec a.1 a.2 ha2
      have h2 := bandPrec_lower _ hmd3 a ha2 prec hb
      rw [hax] at h1 h2
      have : (10 : ℝ) ^ (-(prec : Int)) ≤ (10 : ℝ) ^ (-(maxDigits10 fm : Int)) * X := by
        have e : (10 : ℝ) ^ (-(prec : Int)) =
            (10 : ℝ) ^ (-(maxDigits10 fm : Int)) * (10 : ℝ) ^ ((maxDigits10 fm : Int) - (prec : Int)) := by
          rw [← zpow_add₀ (by norm_num : (10 : ℝ) ≠ 0)]; congr 1; ring
        rw [e]
        exact mul_le_mul_of_nonneg_left h2 (by positivity)
      show |(fixedSel s prec a.1 a.2).mag - X| ≤ _
      linarith
    · refine ⟨sciSel_neg _ _ _ _, ?_⟩
      have h1 := sciSel_close s (maxDigits10 fm) a.1 a.2 ha1 ha2
      rwa [hax] at h1
  obtain ⟨hneg, hcl⟩ := hclose
  -- … hence within a quarter quantum
  obtain ⟨hlt, _, _, _⟩ := hc
  have hXlt : X < (2 : ℝ) ^ ((fm.fmt.p : Int) + q) := by
    rw [hX, zpow_add₀ two0]
    apply mul_lt_mul_of_pos_right _ h2q
    rw [zpow_natCast]; exact_mod_cast hlt
  have hten : (10 : ℝ) ^ (-(maxDigits10 fm : Int)) ≤ (2 : ℝ) ^ (-((fm.fmt.p : Int) + 1)) := by
    rw [zpow_neg, zpow_neg, zpow_natCast]
    have e : ((fm.fmt.p : Int) + 1) = ((fm.fmt.p + 1 : Nat) : Int) := by push_cast; ring
    rw [e, zpow_natCast]
    apply inv_anti₀ (by positivity)
    exact_mod_cast hmd
  have hquarter : |pr.mag - X| < (2 : ℝ) ^ q / 4 := by
    have h10pos : (0 : ℝ) < (10 : ℝ) ^ (-(maxDigits10 fm : Int)) := by positivity
    have e : (2 : ℝ) ^ q / 4 = (2 : ℝ) ^ (-((fm.fmt.p : Int) + 1)) / 2 * (2 : ℝ) ^ ((fm.fmt.p : Int) + q) := by
      rw [zpow_neg, zpow_add₀ two0, zpow_add₀ two0]
      have : (0 : ℝ) < (2 : ℝ) ^ (fm.fmt.p : Int) := by positivity
      field_simp; ring
    calc |pr.mag - X| ≤ (10 : ℝ) ^ (-(maxDigits10 fm : Int)) / 2 * X := hcl
      _ ≤ (2 : ℝ) ^ (-((fm.fmt.p : Int) + 1)) / 2 * X := by
          apply mul_le_mul_of_nonneg_right _ hXpos.le; linarith
      _ < (2 : ℝ) ^ (-((fm.fmt.p : Int) + 1)) / 2 * (2 : ℝ) ^ ((fm.fmt.p : Int) + q) := by
          apply mul_lt_mul_of_pos_left hXlt; positivity
      _ = (2 : ℝ) ^ q / 4 := e.symm
  -- the printed number is positive
  have hmagpos : 0 < pr.mag := by
    have := (abs_lt.mp (lt_of_lt_of_le hquarter (le_refl _))).1
    have hq4 : (2 : ℝ) ^ q / 4 < X := by
      have : (1 : ℝ) ≤ (m : ℝ) := by exact_mod_cast hm
      rw [hX]; nlinarith
    linarith
  have hdpos := value_den_pos pr
  have hnpos : 0 < pr.value.2.1 := by
    rcases Nat.eq_zero_or_pos pr.value.2.1 with h0 | h0
    · exfalso; unfold Printed.mag at hmagpos; rw [h0] at hmagpos; simp at hmagpos
    · exact h0
  unfold Printed.parseBack
  have hv : pr.value = (pr.value.1, pr.value.2.1, pr.value.2.2) := rfl
  rw [hv]
  simp only
  have hne : pr.value.2.1 ≠ 0 := by omega
  unfold Fl.round
  simp only [hne, if_false, hneg]
  exact roundPos_near fm.fmt hp s _ _ hnpos hdpos m q ⟨hlt, ‹_›, ‹_›, ‹_›⟩ hnorm hquarter

theorem ltR_mono (a A B : Nat × Nat) (h : ltR a A = true) (hAB : A.1 * B.2 ≤ B.1 * A.2) (hA2 : 0 < A.2)
    (hB2 : 0 < B.2) : ltR a B = true := by
  unfold ltR at *
  simp only [decide_eq_true_eq] at *
  have : a.1 * B.2 * A.2 < B.1 * a.2 * A.2 := by
    calc a.1 * B.2 * A.2 = a.1 * A.2 * B.2 := by ring
      _ < A.1 * a.2 * B.2 := Nat.mul_lt_mul_of_pos_right h hB2
      _ = A.1 * B.2 * a.2 := by ring
      _ ≤ B.1 * A.2 * a.2 := Nat.mul_le_mul_right _ hAB
      _ = B.1 * a.2 * A.2 := by ring
  exact Nat.lt_of_mul_lt_mul_right this

theorem thr_order :
    ((thr 1 1000).1 * (thr 1 1).2 ≤ (thr 1 1).1 * (thr 1 1000).2 ∧ 0 < (thr 1 1000).2 ∧ 0 < (thr 1 1).2) ∧
    ((thr 1 1).1 * (thr 1000 1).2 ≤ (thr 1000 1).1 * (thr 1 1).2 ∧ 0 < (thr 1000 1).2) ∧
    ((thr 1000 1).1 * (thr 10000 1).2 ≤ (thr 10000 1).1 * (thr 1000 1).2 ∧ 0 < (thr 10000 1).2) := by
  decide +kernel

/-- Scientific notation is chosen exactly below the first threshold and from the last one on. -/
theorem bandPrec_none_iff (md : Nat) (a : Nat × Nat) :
    bandPrec md a = none ↔ (ltR a (thr 1 1000) = true ∨ ltR a (thr 10000 1) = false) := by
  obtain ⟨⟨o1, p1, p2⟩, ⟨o2, p3⟩, ⟨o3, p4⟩⟩ := thr_order
  have m1 : ltR a (thr 1 1000) = true → ltR a (thr 1 1) = true := fun h => ltR_mono a _ _ h o1 p1 p2
  have m2 : ltR a (thr 1 1) = true → ltR a (thr 1000 1) = true := fun h => ltR_mono a _ _ h o2 p2 p3
  have m3 : ltR a (thr 1000 1) = true → ltR a (thr 10000 1) = true := fun h => ltR_mono a _ _ h o3 p3 p4
  unfold bandPrec
  cases h1 : ltR a (thr 1 1) <;> cases h3 : ltR a (thr 1 1000) <;> cases c3 : ltR a (thr 1000 1) <;>
    cases c4 : ltR a (thr 10000 1) <;> simp_all <;> split_ifs <;> simp

/-! ### Digit counts -/

/-- A natural number within `1/2` of a real `y ≥ K` (K natural) is at least `K`. -/
theorem nat_ge_of_close (r K : Nat) (y : ℝ) (h1 : |(r : ℝ) - y| ≤ 1 / 2) (h2 : (K : ℝ) ≤ y) : K ≤ r := by
  have := (abs_le.mp h1).1
  have a : (K : ℝ) < (r : ℝ) + 1 := by linarith
  have : K < r + 1 := by exact_mod_cast a
  omega

theorem nat_le_of_close (r K : Nat) (y : ℝ) (h1 : |(r : ℝ) - y| ≤ 1 / 2) (h2 : y < (K : ℝ)) : r ≤ K := by
  have := (abs_le.mp h1).2
  have a : (r : ℝ) < (K : ℝ) + 1 := by linarith
  have : r < K + 1 := by exact_mod_cast a
  omega

/-- **C15 (digit count, scientific notation).** The mantissa `sciSel` prints always has exactly
`prec + 1` digits: `10^prec ≤ m < 10^(prec+1)`. -/
theorem sciSel_digits (neg : Bool) (prec n d : Nat) (hn : 0 < n) (hd : 0 < d) :
    ∃ m e, sciSel neg prec n d = .sci neg m prec e ∧ 10 ^ prec ≤ m ∧ m < 10 ^ (prec + 1) := by
  have hd' : (0 : ℝ) < d := by exact_mod_cast hd
  obtain ⟨hlo, hhi⟩ := ilog10Q_spec n d hn hd
  rw [ge10_iff n d hd] at hlo
  have hhi' : (n : ℝ) / d < (10 : ℝ) ^ (ilog10Q n d + 1) := by
    by_contra hcon
    have := (ge10_iff n d hd (ilog10Q n d + 1)).mpr (not_lt.mp hcon)
    rw [hhi] at this; cases this
  set e0 := ilog10Q n d with he0
  set sh := e0 - (prec : Int) with hsh
  have h10 : (0 : ℝ) < (10 : ℝ) ^ sh := by positivity
  set m : Nat := if 0 ≤ sh then rne n (d * 10 ^ sh.toNat) else rne (n * 10 ^ (-sh).toNat) d with hm
  have hmspec : |(m : ℝ) - (n : ℝ) / d / (10 : ℝ) ^ sh| ≤ 1 / 2 := by
    rw [hm]
    by_cases hs : 0 ≤ sh
    · simp only [hs, if_true]
      have := rneDiv_spec n (d * 10 ^ sh.toNat) (by positivity)
      rw [Nat.cast_mul, ten_zpow_toNat hs] at this
      rwa [div_div]
    · simp only [hs, if_false]
      have hs' : 0 ≤ -sh := by omega
      have := rneDiv_spec (n * 10 ^ (-sh).toNat) d hd
      rw [Nat.cast_mul, ten_zpow_toNat hs'] at this
      have e : (n : ℝ) / d / (10 : ℝ) ^ sh = (n : ℝ) * (10 : ℝ) ^ (-sh) / d := by
        rw [zpow_neg]; field_simp
      rwa [e]
  -- 10^prec ≤ x / 10^sh < 10^(prec+1)
  have ylo : ((10 ^ prec : Nat) : ℝ) ≤ (n : ℝ) / d / (10 : ℝ) ^ sh := by
    rw [le_div_iff₀ h10]; push_cast
    rw [← zpow_natCast, ← zpow_add₀ (by norm_num : (10 : ℝ) ≠ 0), hsh,
      show (prec : Int) + (e0 - prec) = e0 by ring]
    exact hlo
  have yhi : (n : ℝ) / d / (10 : ℝ) ^ sh < ((10 ^ (prec + 1) : Nat) : ℝ) := by
    rw [div_lt_iff₀ h10]; push_cast
    rw [← zpow_natCast, ← zpow_add₀ (by norm_num : (10 : ℝ) ≠ 0), hsh]
    push_cast
    rw [show (prec : Int) + 1 + (e0 - prec) = e0 + 1 by ring]
    exact hhi'
  have mlo : 10 ^ prec ≤ m := nat_ge_of_close _ _ _ hmspec ylo
  have mhi : m ≤ 10 ^ (prec + 1) := nat_le_of_close _ _ _ hmspec yhi
  unfold sciSel
  simp only [← he0, ← hsh, ← hm]
  by_cases hc : m = 10 ^ (prec + 1)
  · simp only [hc, if_true]
    exact ⟨10 ^ prec, e0 + 1, rfl, le_rfl, Nat.pow_lt_pow_right (by norm_num) (by omega)⟩
  · simp only [hc, if_false]
    exact ⟨m, e0, rfl, mlo, by omega⟩

/-- **C15 (digit count, fixed notation).** In the band that gets `prec` decimals the printed integer
`scaled` (all digits, point removed) is at least `10^md` — at least `md + 1` significant digits — and,
when the value is below `10^(md + 1 - prec)` by more than half a unit of the last decimal, less than
`10^(md+1)`: exactly `md + 1`. -/
theorem fixedSel_digits (md : Nat) (hmd : 3 ≤ md) (a : Nat × Nat) (ha2 : 0 < a.2) (prec : Nat)
    (h : bandPrec md a = some prec) (neg : Bool) :
    ∃ sc, fixedSel neg prec a.1 a.2 = .fixed neg sc prec ∧ 10 ^ md ≤ sc ∧
      ((a.1 : ℝ) / a.2 * (10 : ℝ) ^ prec + 1 / 2 < (10 : ℝ) ^ (md + 1) → sc < 10 ^ (md + 1)) := by
  have ha2' : (0 : ℝ) < a.2 := by exact_mod_cast ha2
  have hlow := bandPrec_lower md hmd a ha2 prec h
  refine ⟨rne (a.1 * 10 ^ prec) a.2, rfl, ?_, ?_⟩
  · have hs := rneDiv_spec (a.1 * 10 ^ prec) a.2 ha2
    apply nat_ge_of_close _ _ _ hs
    push_cast
    have : (10 : ℝ) ^ md = (10 : ℝ) ^ ((md : Int) - (prec : Int)) * (10 : ℝ) ^ prec := by
      rw [← zpow_natCast, ← zpow_natCast (10 : ℝ) prec, ← zpow_add₀ (by norm_num : (10 : ℝ) ≠ 0)]
      congr 1; ring
    have h10 : (0 : ℝ) < (10 : ℝ) ^ prec := by positivity
    have e : (a.1 : ℝ) * (10 : ℝ) ^ prec / a.2 = (a.1 : ℝ) / a.2 * (10 : ℝ) ^ prec := by field_simp
    rw [this, e]
    exact mul_le_mul_of_nonneg_right hlow h10.le
  · intro hup
    have hs := rneDiv_spec (a.1 * 10 ^ prec) a.2 ha2
    have h2 := (abs_le.mp hs).2
    have e : ((a.1 * 10 ^ prec : Nat) : ℝ) / a.2 = (a.1 : ℝ) / a.2 * (10 : ℝ) ^ prec := by
      push_cast; field_simp
    rw [e] at h2
    have : ((rne (a.1 * 10 ^ prec) a.2 : Nat) : ℝ) < ((10 ^ (md + 1) : Nat) : ℝ) := by
      push_cast; unfold rne; linarith
    exact_mod_cast this

/-! ### The top of each fixed-notation band -/

theorem ratOf_real (M : Nat) (E : Int) :
    ((ratOf M E).1 : ℝ) / (ratOf M E).2 = (M : ℝ) * (2 : ℝ) ^ E ∧ 0 < (ratOf M E).2 := by
  unfold ratOf
  by_cases hE : 0 ≤ E
  · simp only [hE, if_true]
    refine ⟨?_, Nat.one_pos⟩
    rw [Nat.cast_mul, two_zpow_toNat hE]; simp
  · simp only [hE, if_false]
    have hE' : 0 ≤ -E := by omega
    refine ⟨?_, by positivity⟩
    rw [two_zpow_toNat hE', zpow_neg]; field_simp

theorem leR_real (a b : Nat × Nat) (ha : 0 < a.2) (hb : 0 < b.2) :
    leR a b = true ↔ (a.1 : ℝ) / a.2 ≤ (b.1 : ℝ) / b.2 := by
  have ha' : (0 : ℝ) < a.2 := by exact_mod_cast ha
  have hb' : (0 : ℝ) < b.2 := by exact_mod_cast hb
  unfold leR
  rw [decide_eq_true_eq, div_le_div_iff₀ ha' hb']
  constructor
  · intro h; exact_mod_cast h
  · intro h; exact_mod_cast h

theorem ltR_real (a b : Nat × Nat) (ha : 0 < a.2) (hb : 0 < b.2) :
    ltR a b = true ↔ (a.1 : ℝ) / a.2 < (b.1 : ℝ) / b.2 := by
  have ha' : (0 : ℝ) < a.2 := by exact_mod_cast ha
  have hb' : (0 : ℝ) < b.2 := by exact_mod_cast hb
  unfold ltR
  rw [decide_eq_true_eq, div_lt_div_iff₀ ha' hb']
  constructor
  · intro h; exact_mod_cast h
  · intro h; exact_mod_cast h

/-- If the band-top facts hold for `(fm, T, prec)`, every normal number of the format below `T` is
more than half a unit of the last printed decimal below `10^(max_digits10+1-prec)`. -/
theorem band_top (fm : Fm) (s : Bool) (m : Nat) (q : Int) (hc : Canonical fm.fmt (fin s m q))
    (T : Nat × Nat) (hT2 : 0 < T.2) (prec : Nat) (hok : bandTopOk fm T prec = true)
    (hlt : (m : ℝ) * (2 : ℝ) ^ q < (T.1 : ℝ) / T.2) :
    (m : ℝ) * (2 : ℝ) ^ q * (10 : ℝ) ^ prec + 1 / 2 < (10 : ℝ) ^ (maxDigits10 fm + 1) := by
  have hp : 1 ≤ fm.fmt.p := by cases fm <;> decide
  unfold bandTopOk at hok
  simp only [Bool.and_eq_true, decide_eq_true_eq] at hok
  obtain ⟨⟨⟨⟨⟨c1, c2⟩, c3⟩, c4⟩, c5⟩, c6⟩ := hok
  set M := (floorBelow fm.fmt T.1 T.2).1 with hM
  set E := (floorBelow fm.fmt T.1 T.2).2 with hE
  obtain ⟨r1, r1pos⟩ := ratOf_real (M + 1) E
  obtain ⟨r0, r0pos⟩ := ratOf_real M E
  have hsucc : (T.1 : ℝ) / T.2 ≤ ((M : ℝ) + 1) * (2 : ℝ) ^ E := by
    have := (leR_real T _ hT2 r1pos).mp c5
    rw [r1] at this; push_cast at this; exact this
  have hF : Canonical fm.fmt (fin false M E) := ⟨c2, c3, Or.inr c1, c4⟩
  have hxF : (m : ℝ) * (2 : ℝ) ^ q ≤ (M : ℝ) * (2 : ℝ) ^ E := by
    by_contra hcon
    have := canonical_gap fm.fmt hp s false m M q E hc hF c1 (not_le.mp hcon)
    linarith
  have h10 : (0 : ℝ) < (10 : ℝ) ^ prec := by positivity
  have hr2 : (0 : ℝ) < ((ratOf M E).2 : ℝ) := by exact_mod_cast r0pos
  have c6' : (2 : ℝ) * (ratOf M E).1 * (10 : ℝ) ^ prec + (ratOf M E).2 <
      2 * (10 : ℝ) ^ (maxDigits10 fm + 1) * (ratOf M E).2 := by exact_mod_cast c6
  have hFb : (M : ℝ) * (2 : ℝ) ^ E * (10 : ℝ) ^ prec + 1 / 2 < (10 : ℝ) ^ (maxDigits10 fm + 1) := by
    rw [← r0]
    have : ((ratOf M E).1 : ℝ) / (ratOf M E).2 * (10 : ℝ) ^ prec + 1 / 2 =
        (2 * (ratOf M E).1 * (10 : ℝ) ^ prec + (ratOf M E).2) / (2 * (ratOf M E).2) := by field_simp
    rw [this, div_lt_iff₀ (by positivity)]
    linarith
  have : (m : ℝ) * (2 : ℝ) ^ q * (10 : ℝ) ^ prec ≤ (M : ℝ) * (2 : ℝ) ^ E * (10 : ℝ) ^ prec :=
    mul_le_mul_of_nonneg_right hxF h10.le
  linarith

/-- The band-top facts hold for every format and every fixed-notation band. -/
theorem all_band_tops_ok (fm : Fm) :
    (bandTops (maxDigits10 fm)).all (fun tp => bandTopOk fm tp.1 tp.2 && decide (0 < tp.1.2)) = true := by
  cases fm <;> decide +kernel

/-- The band that gets `prec` decimals lies below one of the listed upper thresholds. -/
theorem bandPrec_upper (md : Nat) (a : Nat × Nat) (prec : Nat) (h : bandPrec md a = some prec) :
    ∃ tp ∈ bandTops md, tp.2 = prec ∧ ltR a tp.1 = true := by
  unfold bandPrec at h
  unfold bandTops
  split at h
  · rename_i h0
    split at h
    · cases h
    · split at h
      · rename_i h1
        split at h
        · rename_i h2
          cases h; exact ⟨(thr 1 100, md + 3), by simp, rfl, h2⟩
        · cases h; exact ⟨(thr 1 10, md + 2), by simp, rfl, h1⟩
      · cases h; exact ⟨(thr 1 1, md + 1), by simp, rfl, h0⟩
  · split at h
    · rename_i g3
      split at h
      · rename_i g1
        cases h; exact ⟨(thr 10 1, md), by simp, rfl, g1⟩
      · split at h
        · rename_i g2
          cases h; exact ⟨(thr 100 1, md - 1), by simp, rfl, g2⟩
        · cases h; exact ⟨(thr 1000 1, md - 2), by simp, rfl, g3⟩
    · split at h
      · rename_i g4
        cases h; exact ⟨(thr 10000 1, md - 3), by simp, rfl, g4⟩
      · cases h

/-- **C15 (digit count, fixed notation).** For every normal number of each format that the cascade
prints in fixed notation, the digits printed form an integer in `[10^md, 10^(md+1))`: exactly
`max_digits10 + 1` significant digits. -/
theorem fixedSel_exact_digits (fm : Fm) (s : Bool) (m : Nat) (q : Int)
    (hc : Canonical fm.fmt (fin s m q)) (a : Nat × Nat) (ha2 : 0 < a.2)
    (hax : (a.1 : ℝ) / a.2 = (m : ℝ) * (2 : ℝ) ^ q) (prec : Nat)
    (h : bandPrec (maxDigits10 fm) a = some prec) (neg : Bool) :
    ∃ sc, fixedSel neg prec a.1 a.2 = .fixed neg sc prec ∧ 10 ^ maxDigits10 fm ≤ sc ∧
      sc < 10 ^ (maxDigits10 fm + 1) := by
  obtain ⟨sc, h1, h2, h3⟩ := fixedSel_digits _ (maxDigits10_ok fm).1 a ha2 prec h neg
  refine ⟨sc, h1, h2, h3 ?_⟩
  obtain ⟨tp, htp, hprec, hlt⟩ := bandPrec_upper _ a prec h
  have hok := List.all_eq_true.mp (all_band_tops_ok fm) tp htp
  simp only [Bool.and_eq_true, decide_eq_true_eq] at hok
  have hltR := (ltR_real a tp.1 ha2 hok.2).mp hlt
  rw [hax] at hltR ⊢
  rw [← hprec]
  exact band_top fm s m q hc tp.1 hok.2 tp.2 hok.1 hltR

end PhQVerif.Print
