/-
Theory/FlBasic.lean — elementary algebraic facts about the soft-float model (no Mathlib needed):
floating-point addition and multiplication are commutative, bit for bit.
-/
import PhQVerif.Core.Fl

namespace PhQVerif.Fl

private theorem bne_comm' (a b : Bool) : (a != b) = (b != a) := by cases a <;> cases b <;> rfl

theorem mul_comm (f : Fmt) (a b : Fl) : mul f a b = mul f b a := by
  cases a <;> cases b <;> simp only [mul] <;> try rfl
  · rename_i s1 m1 e1 s2 m2 e2
    rw [Nat.mul_comm m1 m2, Int.add_comm e1 e2, bne_comm']
  · rename_i s m e t
    rw [bne_comm']
  · rename_i s t m e
    rw [bne_comm']
  · rename_i s t
    rw [bne_comm']

theorem add_comm (f : Fmt) (a b : Fl) : add f a b = add f b a := by
  cases a <;> cases b <;> simp only [add] <;> try rfl
  · rename_i s1 m1 e1 s2 m2 e2
    rw [Int.min_comm e1 e2, Int.add_comm (scaled s1 m1 e1 _) (scaled s2 m2 e2 _), Bool.and_comm]
  · rename_i s t
    by_cases h : s = t
    · subst h; rfl
    · have : ¬ t = s := fun h' => h h'.symm
      simp [h, this]

end PhQVerif.Fl
