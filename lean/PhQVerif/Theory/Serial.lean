/-
Theory/Serial.lean — meaning of traced strings and templates, and soundness of `Serial.checkSerial`.
-/
import PhQVerif.Core.Serial

namespace PhQVerif.Serial

/-- The text a traced string denotes, for a given number printer `pr` (the real one is `PhQ::Print`
at the entry's numeric type) and given inputs. -/
def render (pr : Fl → List Nat) (L : Libm) (env : Nat → Fl) : List StrPart → List Nat
  | [] => []
  | .text a :: r => a ++ render pr L env r
  | .num e :: r => pr (e.evalF L env) ++ render pr L env r

/-- The text a template denotes when slot `i` holds the number `x i`. -/
def renderTemplate (pr : Fl → List Nat) (x : Nat → Fl) : List Piece → List Nat
  | [] => []
  | .t s :: r => cps s ++ renderTemplate pr x r
  | .slot i :: r => pr (x i) ++ renderTemplate pr x r

theorem render_norm (pr : Fl → List Nat) (L : Libm) (env : Nat → Fl) (ps : List StrPart) :
    render pr L env (norm ps) = render pr L env ps := by
  induction ps with
  | nil => rfl
  | cons p r ih =>
    cases p with
    | num e => simp [norm, render, ih]
    | text a =>
      simp only [norm, render]
      rw [← ih]
      split
      · rename_i b r' h
        simp [render, h]
      · rename_i h
        by_cases ha : a.isEmpty
        · have : a = [] := List.isEmpty_iff.mp ha
          simp [this]
        · simp [ha, render]

theorem render_instantiate (pr : Fl → List Nat) (L : Libm) (env : Nat → Fl) (vals : List Expr)
    (tpl : List Piece) (parts : List StrPart) (h : instantiate vals tpl = some parts) :
    render pr L env parts =
      renderTemplate pr (fun i => match vals[i]? with | some e => e.evalF L env | none => Fl.nan) tpl := by
  induction tpl generalizing parts with
  | nil => simp [instantiate] at h; subst h; rfl
  | cons p r ih =>
    cases p with
    | t s =>
      simp only [instantiate, Option.map_eq_some_iff] at h
      obtain ⟨ps, hps, rfl⟩ := h
      simp [render, renderTemplate, ih ps hps]
    | slot i =>
      simp only [instantiate] at h
      cases hv : vals[i]? with
      | none => simp [hv] at h
      | some e =>
        simp only [hv, Option.map_eq_some_iff] at h
        obtain ⟨ps, hps, rfl⟩ := h
        simp [render, renderTemplate, ih ps hps, hv]

/-- Two traced strings with the same canonical form denote the same text. -/
theorem render_eq_of_norm_eq (pr : Fl → List Nat) (L : Libm) (env : Nat → Fl) {a b : List StrPart}
    (h : norm a = norm b) : render pr L env a = render pr L env b := by
  rw [← render_norm pr L env a, ← render_norm pr L env b, h]

end PhQVerif.Serial
