import PhQVerif.Core
