/-
Driver.lean — the correspondence driver. Reads one request per line

    <entry id>\t<fmt>\t<input> <input> ...

where an input is `m:e` (value m·2^e, optional leading `-`), `inf`, `-inf` or `nan`, evaluates the
*generated definition* of that entry with the bit-exact soft-float of Core/Fl.lean, and prints one
line with the outputs in slot order:  numbers as `M E` canonical text, booleans, `none` for an
unexplored branch, `libm:<op>:<arg>` when the root of an output is a libm call.

Run with:  lake env lean --run Driver.lean < requests
-/
import PhQVerif.Generated.All
import PhQVerif.Core
import Std.Data.HashMap

open PhQVerif

def parseFl (f : Fmt) (tok : String) : Option Fl :=
  if tok == "nan" then some .nan
  else if tok == "inf" then some (.inf false)
  else if tok == "-inf" then some (.inf true)
  else
    let neg := tok.startsWith "-"
    let body := if neg then (tok.drop 1).toString else tok
    match body.splitOn ":" with
    | [ms, es] =>
      match ms.toNat?, es.toInt? with
      | some m, some e => some (Fl.roundE f neg m e)
      | _, _ => none
    | _ => none

def unName : UnOp → String
  | .neg => "neg" | .sqrt => "sqrt" | .abs => "abs" | .acos => "acos" | .cbrt => "cbrt"
  | .exp => "exp" | .log => "log" | .log2 => "log2" | .log10 => "log10"

/-- Evaluate one numeric output. A libm call at the root is reported symbolically. -/
def showNum (env : Nat → Fl) (e : Expr) : String :=
  match e with
  | .un op f a =>
    if Expr.isLibmOp op then
      s!"libm:{unName op}:{f.bits}:{(a.evalF Libm.none env).toText}"
    else (e.evalF Libm.none env).toText
  | .bin .pow f a b =>
    s!"libm:pow:{f.bits}:{(a.evalF Libm.none env).toText}:{(b.evalF Libm.none env).toText}"
  | .cast f (.un op g a) =>
    if Expr.isLibmOp op then
      s!"libm:{unName op}:{g.bits}>{f.bits}:{(a.evalF Libm.none env).toText}"
    else (e.evalF Libm.none env).toText
  | _ => if e.hasLibm then "libm-inner" else (e.evalF Libm.none env).toText

def showPart (env : Nat → Fl) : StrPart → String
  | .text cps => String.ofList (cps.map Char.ofNat)
  | .num e => "⟦" ++ showNum env e ++ "⟧"

def showOut (env : Nat → Fl) : Out → String
  | .num e => showNum env e
  | .bool b => if b then "true" else "false"
  | .int i => s!"int:{i}"
  | .str parts => "str:" ++ String.join (parts.map (showPart env))
  | .dims d => s!"dims:{d}"

def runEntry (e : Entry) (toks : List String) : String :=
  let vals := toks.map (parseFl F80)  -- inputs are exact values; F80 contains all three formats
  if vals.any Option.isNone then "bad-input"
  else
    let arr := (vals.map (·.getD .nan)).toArray
    let env : Nat → Fl := fun i => arr.getD i .nan
    match e.tree.evalF Libm.none env with
    | none => "none"
    | some outs => String.intercalate "\t" (outs.map (showOut env))

def fmtKey (f : Fm) : String := toString f.bits

partial def loop (h : IO.FS.Stream) (tbl : Std.HashMap String Entry) : IO Unit := do
  let line ← h.getLine
  if line.isEmpty then return ()
  let l := (line.dropEndWhile (fun c => c == '\n' || c == '\r')).toString
  match l.splitOn "\t" with
  | [id, fmt, ins] =>
    match tbl.get? (id ++ "#" ++ fmt) with
    | some e => IO.println (runEntry e ((ins.splitOn " ").filter (· ≠ "")))
    | none => IO.println "unknown-entry"
  | [id, fmt] =>
    match tbl.get? (id ++ "#" ++ fmt) with
    | some e => IO.println (runEntry e [])
    | none => IO.println "unknown-entry"
  | _ => IO.println "bad-request"
  loop h tbl

def main : IO Unit := do
  let all := Generated.quantityEntries ++ Generated.unitEntries ++ Generated.modelEntries
  let tbl : Std.HashMap String Entry :=
    all.foldl (fun t e => t.insert (e.id ++ "#" ++ fmtKey e.fm) e) {}
  let out ← IO.getStdout
  out.putStrLn s!"ready {tbl.size}"
  loop (← IO.getStdin) tbl
