"""Per-property specifications and the generic check runner."""
import json
import os
import random
import re
import sys
from fractions import Fraction

VERIF = os.path.dirname(os.path.abspath(__file__))
sys.path.insert(0, VERIF)
import checklib as cl  # noqa: E402
import extract  # noqa: E402
import correspond as co  # noqa: E402
import pyfloat as pf  # noqa: E402
import sexpr  # noqa: E402

LEAN = cl.LEAN


class Ctx:
    """Everything a property's search / correspondence needs about the current tree."""

    def __init__(self, cache, tier, seed):
        self.cache = cache
        self.tier = tier
        self.seed = seed
        self._model = None
        self._classes = None
        self._tables = None
        self._exe = {}

    @property
    def model(self):
        if self._model is None:
            self._model = json.load(open(os.path.join(self.cache, 'model.json')))['entries']
        return self._model

    @property
    def by_id(self):
        return {e['id']: e for e in self.model}

    @property
    def classes(self):
        if self._classes is None:
            self._classes = json.load(open(os.path.join(self.cache, 'classes.json')))
        return self._classes

    @property
    def tables(self):
        if self._tables is None:
            self._tables = json.load(open(os.path.join(self.cache, 'tables.json')))
        return self._tables

    def native(self, variant='O1'):
        if variant not in self._exe:
            self._exe[variant] = co.build_native(self.cache, variant=variant)
        return self._exe[variant]

    def run_native(self, reqs, variant='O1'):
        """reqs: [(index, fmt, [hex], [params])] -> list of records."""
        exe = self.native(variant)
        res, err, rc = co.Native(exe).run_batch(reqs)
        return res, err, rc

    def class_dims(self, name):
        ci = self.classes['class_index'].get(name)
        if not ci:
            return None
        return self.classes['classes'][ci - 1]['dims']


# ---------------------------------------------------------------------------------------------------
# generic runner
# ---------------------------------------------------------------------------------------------------

def run(spec, tier, seed, collect=None):
    """Decide one property. `collect`: a list that receives the violation records instead of evidence and
    VIOLATION lines being written (used by --replay)."""
    T = cl.Timer()
    prop = spec['id']
    cl.RUN_INFO.clear()
    cl.RUN_INFO.update({'tier': tier, 'seed': seed, 'replay_with': 'python3-vt /verif/check.py %s --replay <this file>' % spec['id']})
    known = cl.load_known()
    violations = []
    notes = []
    coverage = {}
    assumptions = list(spec.get('assumptions', []))

    hits = cl.forbidden_constructs()
    if hits:
        violations.append({'kind': 'forbidden-construct', 'what': hits, 'failing_input_found': False})

    # 1. translate the current tree
    try:
        cache, emit_res = cl.prepare()
    except extract.ExtractError as e:
        v = {'kind': 'translator', 'stage': e.stage, 'detail': e.detail[-6000:],
             'what': 'the translator could not instantiate / trace the current tree: the model cannot be '
                     'regenerated, so no theorem is known to hold of this source',
             'failing_input_found': False}
        cl.write_evidence(prop, tier, seed, spec['level'],
                          {'obligations': 1, 'discharged': 0, 'checker_cmd': 'extract/extract.py',
                           'trusted_base': cl.TRUSTED_BASE, 'explanation': 'translation failed: ' + e.stage,
                           'samples': [e.detail[-500:]]}, assumptions, T.s(), 1)
        return cl.finish(prop, [v], known)
    ctx = Ctx(cache, tier, seed)
    cl.log('%s: model ready (%d files changed) %.1fs' % (prop, len(emit_res['changed']), T.s()))

    # the native harness (needed by the correspondence) is compiled while Lean builds
    prebuild = None
    if spec.get('correspond') or spec.get('search'):
        import threading

        def _pre():
            try:
                co.build_native(cache, variant='O1')
            except Exception:  # noqa: BLE001  (reported when the correspondence asks for it again)
                pass
        prebuild = threading.Thread(target=_pre, daemon=True)
        prebuild.start()

    # 2. prove
    targets = spec['lean_targets']
    # Generated.All is what the correspondence driver imports: it must be rebuilt from the regenerated
    # sources too, or the driver would read compiled modules of an earlier tree
    ok, out = cl.lake_build(targets + ['PhQVerif.Generated.All'])
    if prebuild is not None:
        prebuild.join()
    failed = cl.failed_theorems(out) if not ok else []
    axioms, counts, samples = cl.audit_info(out, prop)
    prop_file = os.path.join(LEAN, 'PhQVerif', 'Props', prop + '.lean')
    prop_theorems = [n for (_, n) in cl.theorems_in(prop_file) if not n.startswith('example')]
    examples = [n for (_, n) in cl.theorems_in(prop_file) if n.startswith('example')]
    obl_mods, obl_lemmas = cl.obligation_modules(prop_file)
    obligations = len(prop_theorems) + len(examples) + len(obl_lemmas)
    bad_axioms = {t: [a for a in ax if a not in cl.ALLOWED_AXIOMS] for t, ax in axioms.items()}
    bad_axioms = {t: a for t, a in bad_axioms.items() if a}
    if ok:
        missing = [t for t in prop_theorems if not any(k.endswith('.' + t) for k in axioms)]
        if missing and spec.get('audit_all', True):
            notes.append('theorems without an axiom report: %s' % missing)
    cl.log('%s: lake build %s (%d failed) %.1fs' % (prop, 'ok' if ok else 'FAILED', len(failed), T.s()))
    if bad_axioms:
        violations.append({'kind': 'axioms', 'what': bad_axioms, 'failing_input_found': False})
    # thorough tier: the compiled property module is re-checked by the toolchain's independent checker
    if ok and tier != 'quick':
        import subprocess
        pc = subprocess.run(['lake', 'env', 'leanchecker', 'PhQVerif.Props.' + prop], cwd=LEAN, stdout=subprocess.PIPE,
                            stderr=subprocess.STDOUT, text=True)
        coverage['leanchecker'] = {'module': 'PhQVerif.Props.' + prop, 'exit': pc.returncode}
        if pc.returncode != 0:
            violations.append({'kind': 'leanchecker', 'what': 'leanchecker rejects the compiled module: ' + pc.stdout[-1500:],
                               'failing_input_found': False})

    # 3. correspondence
    corr = None
    if spec.get('correspond'):
        try:
            corr = spec['correspond'](ctx)
        except co.HarnessError as e:
            violations.append({'kind': 'harness', 'what': str(e)[-4000:], 'failing_input_found': False})
        if corr is not None:
            cl.log('%s: correspondence %d lines, %d disagreements %.1fs' % (
                prop, corr['lines'], len(corr['disagreements']), T.s()))

    # 4. decide
    proof_broken = (not ok)
    corr_broken = corr is not None and (corr['disagreements'] or corr['crashes'])
    found = []
    if proof_broken or corr_broken or spec.get('always_search'):
        failing = {}
        if proof_broken:
            for chk in spec.get('checkers', []):
                name, biglist = chk[0], chk[1]
                try:
                    fe = cl.failing_entries('Chk.' + name, biglist, accessor=chk[2] if len(chk) > 2 else 'e',
                                            imports=spec.get('checker_imports', ('PhQVerif.Checkers', 'PhQVerif.Generated.All')))
                except Exception as ex:  # noqa: BLE001
                    fe = []
                    notes.append('could not list failing entries for %s: %s' % (name, ex))
                if fe:
                    failing[name] = fe
        if spec.get('search'):
            found = spec['search'](ctx, failing, corr, proof_broken or corr_broken) or []
        if proof_broken or corr_broken:
            if found:
                for f in found:
                    f.setdefault('failing_input_found', True)
                    f['failed_theorems'] = failed[:20]
                    f['failing_obligation_rows'] = {k: v[:20] for k, v in failing.items()}
                violations.extend(found)
            else:
                violations.append({
                    'kind': 'proof-or-correspondence-broken',
                    'what': 'the property is no longer shown to hold: a proof obligation or the '
                            'model/implementation correspondence no longer checks',
                    'failed_theorems': failed[:40],
                    'failing_obligation_rows': {k: v[:40] for k, v in failing.items()},
                    'correspondence_disagreements': (corr or {}).get('disagreements', [])[:10],
                    'crashes': (corr or {}).get('crashes', [])[:3],
                    'lean_output_tail': out[-3000:] if not ok else '',
                    'failing_input_found': False})
        else:
            for f in found:
                f.setdefault('failing_input_found', True)
            violations.extend(found)

    # 5. property-specific extra (known findings reproduced by the check itself, etc.)
    if spec.get('extra'):
        extra = spec['extra'](ctx) or {}
        violations.extend(extra.get('violations', []))
        coverage.update(extra.get('coverage', {}))
        notes.extend(extra.get('notes', []))

    discharged = obligations - len({(f['file'], f['theorem']) for f in failed}) if not ok else obligations
    coverage.update({
        'obligations': obligations,
        'discharged': max(0, discharged),
        'checker_cmd': 'cd /verif/lean && lake build ' + ' '.join(targets),
        'trusted_base': cl.TRUSTED_BASE + spec.get('trusted_extra', []),
        'property_theorems': prop_theorems,
        'nonvacuity_examples': len(examples),
        'generated_obligation_lemmas': len(obl_lemmas),
        'axioms_reported': axioms,
        'table_sizes': counts,
        'translator': {'cache_key': os.path.basename(cache), 'generated_modules': emit_res['modules'],
                       'generated_entries': sum(emit_res['entries'].values()),
                       'files_changed_by_this_run': len(emit_res['changed'])},
        'samples': (samples[:5] or []) + ([corr['sample_lines'][0]] if corr and corr['sample_lines'] else [])
        or [{'theorem': prop_theorems[:1]}],
        'notes': notes,
    })
    if corr is not None:
        coverage['correspondence'] = {k: corr[k] for k in ('lines', 'slots_exact', 'slots_libm',
                                                          'exponent_histogram')}
        coverage['correspondence']['disagreements'] = len(corr['disagreements'])
        coverage['traces_validated_against_impl'] = corr['lines']
    nviol = len([v for v in violations if cl.matches_known(prop, v, known) is None])
    if collect is not None:
        collect.extend(violations)
        return 1 if nviol else 0
    cl.write_evidence(prop, tier, seed, spec['level'], coverage, assumptions, T.s(), nviol)
    return cl.finish(prop, violations, known)


# ---------------------------------------------------------------------------------------------------
# helpers shared by searches
# ---------------------------------------------------------------------------------------------------

def var_dims(ctx, e, fmt_rec):
    """Dimension vector of each input variable of a quantity entry (numbers/raw tensors: zero)."""
    meta = e['meta']
    names = list(meta.get('args', []))
    if meta.get('self'):
        names = [meta['cls']] + names
    dims = []
    for name, size in zip(names, fmt_rec['arg_sizes']):
        d = ctx.class_dims(name.split(':')[0]) or [0] * 7
        dims += [d] * size
    while len(dims) < fmt_rec['n_in']:
        dims.append([0] * 7)
    return dims


def ret_dims(ctx, e):
    meta = e['meta']
    name = meta.get('ret', '')
    if meta['kind'] in ('mutator', 'mutable-ref', 'cast-assign'):
        name = meta['cls']
    return ctx.class_dims(name) or [0] * 7


def num_outs(rec):
    return [(o['l'], co.canon_of_hex(o['t'])) for o in rec['outs'] if o['l'].rsplit(':', 1)[1].startswith('num')]


def other_outs(rec):
    """Booleans, integers and enumerators of a record (strings embed the printed numbers, which do change
    under rescaling, and are not part of the comparison)."""
    return [(o['l'], o['t']) for o in rec['outs']
            if not o['l'].rsplit(':', 1)[1].startswith('num') and o['l'].rsplit(':', 1)[1] != 'str']


def is_relation(e):
    m = e['meta']
    if m['kind'] not in ('ctor', 'method', 'static', 'free', 'mutator', 'mutable-ref', 'cast-ctor',
                         'cast-assign', 'stdmath'):
        return False
    if m.get('unit') or m.get('family') or any('::' in a and a.startswith('Unit::') for a in m.get('args', [])):
        return False
    if m.get('name') in ('Value', 'SetValue', 'MutableValue', 'StaticValue'):
        return False
    return True


# ---------------------------------------------------------------------------------------------------
# C03
# ---------------------------------------------------------------------------------------------------

def c03_search(ctx, failing, corr, broken):
    """Rescale the base units by exact powers of two on the real code: a homogeneous relation
    commutes with the rescaling bit for bit; anything else shows up as a mismatch."""
    rng = random.Random(ctx.seed)
    targets = []
    by_id = ctx.by_id
    ids = set()
    for rows in failing.values():
        for (eid, fmt) in rows:
            ids.add((eid, int(fmt)))
    if not ids:
        if not broken:
            return []
        cand = [e for e in ctx.model if is_relation(e) and not e['meta']['cls'].startswith(('unit:', 'model:'))]
        rng.shuffle(cand)
        for e in cand[:4000]:
            ids.add((e['id'], 64))
    for (eid, fmt) in sorted(ids):
        e = by_id.get(eid)
        if e is None:
            continue
        v = e['instances'][0]['fmts'].get(str(fmt))
        if v is None:
            continue
        targets.append((e, fmt, v))
    reqs, info = [], []
    for (e, fmt, v) in targets:
        dims = var_dims(ctx, e, v)
        rd = ret_dims(ctx, e)
        infm = co.input_formats(v['tree'], v['n_in'], fmt)
        for _ in range(3):
            k = [rng.randrange(-3, 4) for _ in range(7)]
            vals = [co.random_value(rng, infm[i], 'moderate') for i in range(v['n_in'])]
            vals = [(s, m if m else 1, ex) for (s, m, ex) in vals]
            scaled = [(s, m, ex + sum(a * b for a, b in zip(k, dims[i]))) for i, (s, m, ex) in enumerate(vals)]
            reqs.append((e['index'], fmt, [co.hex_of(*x) for x in vals], []))
            reqs.append((e['index'], fmt, [co.hex_of(*x) for x in scaled], []))
            info.append((e, fmt, k, sum(a * b for a, b in zip(k, rd)), vals, scaled))
    if not reqs:
        return []
    res, err, rc = ctx.run_native(reqs)
    out = []
    for j, (e, fmt, k, shift, vals, scaled) in enumerate(info):
        a, b = res[2 * j], res[2 * j + 1]
        if a is None or b is None or a.get('error') or b.get('error'):
            continue
        bad = None
        if other_outs(a) != other_outs(b):
            bad = 'branch / non-numeric outputs differ under rescaling'
        for (la, ca), (lb, cb) in zip(num_outs(a), num_outs(b)):
            if ca in ('nan', 'inf', '-inf') or cb in ('nan', 'inf', '-inf'):
                continue
            fa, fb = co.frac_of_canon(ca), co.frac_of_canon(cb)
            if fa * Fraction(2) ** shift != fb:
                bad = '%s: f(rescaled x) = %s but 2^%d * f(x) = %s' % (la, cb, shift, co.canon(fa * Fraction(2) ** shift))
                break
        if bad:
            out.append({'kind': 'c03-rescale', 'entry': e['id'], 'fmt': fmt, 'index': e['index'],
                        'base_unit_exponents_of_two': k, 'expected_result_shift': shift,
                        'inputs': [co.hex_of(*x) for x in vals], 'rescaled_inputs': [co.hex_of(*x) for x in scaled],
                        'outputs': a['outs'], 'rescaled_outputs': b['outs'], 'what': bad})
            if len(out) >= 5:
                break
    return out


def c03_correspond(ctx):
    sel = [e for e in ctx.model if is_relation(e) and not e['meta']['cls'].startswith(('unit:', 'model:'))]
    per = 1 if ctx.tier == 'quick' else 20
    return co.correspond(ctx.cache, LEAN, sel, ctx.seed, per_entry=per)


# ---------------------------------------------------------------------------------------------------
# C04
# ---------------------------------------------------------------------------------------------------

OPNAMES = {'operator+': 'add', 'operator-': 'sub', 'operator*': 'mul', 'operator/': 'div',
           'operator+=': 'add', 'operator-=': 'sub', 'operator*=': 'mul', 'operator/=': 'div'}


def is_componentwise_op(e, v):
    m = e['meta']
    if m['kind'] not in ('method', 'free', 'mutator') or m.get('name') not in OPNAMES or m.get('unit'):
        return False
    sizes = v['arg_sizes']
    if len(sizes) != 2 or v['tree']['t'] != 'leaf':
        return False
    n, k = sizes
    op = OPNAMES[m['name']]
    nouts = len([o for o in v['tree']['outs'] if o['l'].rsplit(':', 1)[1].startswith('num')])
    if nouts != max(n, k):
        return False
    if op in ('add', 'sub'):
        return n == k
    if op == 'mul':
        return n == 1 or k == 1
    return k == 1


def c04_search(ctx, failing, corr, broken):
    """Evaluate C04's own statement on the real code: each output component must be the correctly
    rounded operation on the matching input components (exact rational reference)."""
    import pyfloat
    rng = random.Random(ctx.seed + 4)
    ids = set()
    for rows in failing.values():
        for (eid, fmt) in rows:
            ids.add((eid, int(fmt)))
    if corr:
        for d in corr['disagreements']:
            ids.add((d['id'], d['fmt']))
    cands = []
    by_id = ctx.by_id
    if ids:
        for (eid, fmt) in sorted(ids):
            e = by_id.get(eid)
            if e:
                cands.append((e, fmt))
    elif broken:
        for e in ctx.model:
            if e['meta'].get('name') in OPNAMES and not e['meta']['cls'].startswith(('unit:', 'model:')):
                cands.append((e, rng.choice((32, 64, 80))))
        rng.shuffle(cands)
        cands = cands[:3000]
    reqs, info = [], []
    for (e, fmt) in cands:
        v = e['instances'][0]['fmts'].get(str(fmt))
        if v is None or e['meta'].get('name') not in OPNAMES or len(v['arg_sizes']) != 2:
            continue
        infm = co.input_formats(v['tree'], v['n_in'], fmt)
        for _ in range(4):
            vals = co.gen_inputs(rng, infm, v['n_in'])
            reqs.append((e['index'], fmt, [co.hex_of(*x) for x in vals], []))
            info.append((e, fmt, v, vals))
    if not reqs:
        return c04_stdmath_search(ctx, failing, rng) + (narrowing_search(ctx, failing['NoNarrowing']) if failing.get('NoNarrowing') else [])
    res, err, rc = ctx.run_native(reqs)
    out = []
    for (e, fmt, v, vals), r in zip(info, res):
        if r is None or r.get('error'):
            continue
        n, k = v['arg_sizes']
        op = OPNAMES[e['meta']['name']]
        if (n != k and n != 1 and k != 1) or (n > 1 and k > 1 and op in ('mul', 'div')):
            continue   # a tensor product (matrix-matrix, matrix-vector), not a component-wise operator
        xs = [Fraction(-m if s else m) * Fraction(2) ** ex for (s, m, ex) in vals]
        outs = num_outs(r)
        if len(outs) != max(n, k):
            continue
        for i, (label, c) in enumerate(outs):
            a, b = (xs[i], xs[n + i]) if n == k else ((xs[i], xs[n]) if k == 1 else (xs[0], xs[1 + i]))
            if op == 'div' and b == 0:
                continue
            # operands stored in another format are converted first, as the code does
            infm = co.input_formats(v['tree'], v['n_in'], fmt)
            ra, rb = pyfloat.round_to(a, fmt), pyfloat.round_to(b, fmt)
            if isinstance(ra, str) or isinstance(rb, str) or (op == 'div' and rb == 0):
                continue
            want = pyfloat.binop(op, ra, rb, fmt)
            wc = want if isinstance(want, str) else co.canon(want)
            if c in ('nan',) or wc.lstrip('-') == '0 0' and c.lstrip('-') == '0 0':
                continue
            if c != wc:
                out.append({'kind': 'c04-op', 'entry': e['id'], 'fmt': fmt, 'index': e['index'],
                            'inputs': [co.hex_of(*x) for x in vals], 'component': i, 'operation': op,
                            'native_output': c, 'correctly_rounded': wc, 'outputs': r['outs'],
                            'what': '%s component %d: real code gives %s, correctly rounded %s of the stored '
                                    'values is %s' % (e['id'], i, c, op, wc)})
                break
        if len(out) >= 5:
            break
    out += c04_stdmath_search(ctx, failing, rng)
    return out


def c04_stdmath_search(ctx, failing, rng):
    """std:: overloads for dimensionless scalars on the real code against a 400-bit reference: the result must
    be that function of the stored number, to the accuracy of the C library (2 ulps of the quantity's type)."""
    rows = failing.get('C04std') or []
    if not rows:
        return []
    fn = {'std::abs': 'abs', 'std::cbrt': 'cbrt', 'std::exp': 'exp', 'std::log': 'log', 'std::log2': 'log2',
          'std::log10': 'log10', 'std::pow': 'pow', 'std::sqrt': 'sqrt'}
    by_id = ctx.by_id
    reqs, info = [], []
    for (eid, bits) in rows[:60]:
        e = by_id.get(eid)
        if e is None or e['meta']['kind'] != 'stdmath':
            continue
        fmt = int(bits)
        v = e['instances'][0]['fmts'].get(str(fmt))
        if v is None:
            continue
        name = next((fn[k] for k in fn if k in e['id']), None) or e['meta'].get('name')
        for _ in range(6):
            vals = []
            for i in range(v['n_in']):
                mm = rng.getrandbits(co.FMT[fmt][0] - 1) | (1 << (co.FMT[fmt][0] - 1))
                vals.append((False, mm, rng.randrange(-3, 3) - (co.FMT[fmt][0] - 1)))
            reqs.append((e['index'], fmt, [co.hex_of(*x) for x in vals], []))
            info.append((e, fmt, name, vals))
    if not reqs:
        return []
    res, _, _ = ctx.run_native(reqs)
    import mpmath
    out = []
    for (e, fmt, name, vals), r in zip(info, res):
        if not r or r.get('error'):
            continue
        outs = num_outs(r)
        if len(outs) != 1 or outs[0][1] in ('nan', 'inf', '-inf'):
            continue
        args = [co.canon(Fraction(mm) * Fraction(2) ** ee) for (_, mm, ee) in vals]
        if name == 'sqrt':
            mpmath.mp.prec = 400
            ref = mpmath.sqrt(mpmath.mpf(co.frac_of_canon(args[0]).numerator) / mpmath.mpf(co.frac_of_canon(args[0]).denominator))
        elif name == 'abs':
            continue
        else:
            ref = co.libm_reference(name, args)
        if ref is None or isinstance(ref, str):
            continue
        okk = co.within_ulps(outs[0][1], ref, fmt, 4)
        if okk is False:
            out.append({'kind': 'c04-stdmath', 'entry': e['id'], 'fmt': fmt, 'index': e['index'],
                        'inputs': [co.hex_of(*x) for x in vals],
                        'what': '%s of the stored value %s gives %s on the real code; %s of that number is %s' % (
                            e['id'], [float(co.frac_of_canon(a)) for a in args], float(co.frac_of_canon(outs[0][1])),
                            name, mpmath.nstr(ref, 25))})
            if len(out) >= 3:
                break
    return out


def c04_correspond(ctx):
    sel = [e for e in ctx.model if not e['meta']['cls'].startswith(('unit:', 'model:')) and
           (e['meta'].get('name') in OPNAMES or e['meta']['kind'] in ('stdmath', 'ctor'))
           and not e['meta'].get('unit')]
    per = 2 if ctx.tier == 'quick' else 30
    return co.correspond(ctx.cache, LEAN, sel, ctx.seed + 4, per_entry=per)


# ---------------------------------------------------------------------------------------------------
# C16, C17
# ---------------------------------------------------------------------------------------------------

def _targets(ctx, failing, corr, broken, pred, limit=3000, seed_off=0):
    rng = random.Random(ctx.seed + seed_off)
    ids = set()
    for rows in failing.values():
        for (eid, fmt) in rows:
            ids.add((eid, int(fmt)))
    if corr:
        for d in corr['disagreements']:
            ids.add((d['id'].split('@')[0], d['fmt']))
    by_id = ctx.by_id
    out = []
    if ids:
        for (eid, fmt) in sorted(ids):
            e = by_id.get(eid)
            if e is not None and pred(e):
                out.append((e, fmt))
    if not out and broken:
        for e in ctx.model:
            if pred(e):
                for fmt in (32, 64, 80):
                    out.append((e, fmt))
        rng.shuffle(out)
        out = out[:limit]
    return out, rng


def _run_targets(ctx, targets, rng, reps=3):
    reqs, info = [], []
    for (e, fmt) in targets:
        for inst in e['instances'][:1]:
            v = inst['fmts'].get(str(fmt))
            if v is None:
                continue
            infm = co.input_formats(v['tree'], v['n_in'], fmt)
            for _ in range(reps):
                vals = co.gen_inputs(rng, infm, v['n_in'])
                reqs.append((e['index'], fmt, [co.hex_of(*x) for x in vals], inst['params']))
                info.append((e, fmt, v, vals, infm))
    if not reqs:
        return []
    res, err, rc = ctx.run_native(reqs)
    return list(zip(info, res))


def _val(x):
    s, m, ex = x
    return Fraction(-m if s else m) * Fraction(2) ** ex


def c16_direction_search(ctx):
    """The direction clause on the real code: converting a unit vector to another precision (cast, then
    re-normalise) moves each component by at most two ulps of the coarser of the two precisions."""
    import pyfloat
    rng = random.Random(ctx.seed + 161)
    by_id = ctx.by_id
    out = []
    for cls, n, mk in (('Direction', 3, 'Direction::ctor(num,num,num)'), ('PlanarDirection', 2, 'PlanarDirection::ctor(num,num)')):
        make = by_id.get(mk)
        if make is None:
            continue
        for src in (32, 64, 80):
            stage1 = []
            for _ in range(12):
                vals = [co.random_value(rng, src, 'moderate') for _ in range(n)]
                vals = [(s_, mm or 1, ee) for (s_, mm, ee) in vals]
                stage1.append((make['index'], src, [co.hex_of(*x) for x in vals], []))
            res1, _, _ = ctx.run_native(stage1)
            for dst in (32, 64, 80):
                if dst == src:
                    continue
                for kind, label in (('ctor', 'r'), ('operator=', 'self')):
                    e = by_id.get('%s::%s(%s<Othernum>)[U=%d]' % (cls, kind, cls, src))
                    if e is None or str(dst) not in e['instances'][0]['fmts']:
                        continue
                    stage2, meta = [], []
                    for r in res1:
                        if not r or r.get('error'):
                            continue
                        u = [o['t'] for o in r['outs'] if o['l'].rsplit(':', 1)[1].startswith('num')]
                        if len(u) != n or any('nan' in x or 'inf' in x for x in u):
                            continue
                        args = u if kind == 'ctor' else ['0x0p+0'] * n + u
                        stage2.append((e['index'], dst, args, []))
                        meta.append(u)
                    res2, _, _ = ctx.run_native(stage2)
                    tol = 2 * Fraction(1, 2 ** (min(co.FMT[src][0], co.FMT[dst][0]) - 1))
                    for u, r in zip(meta, res2):
                        if not r or r.get('error'):
                            continue
                        got = [c for (l, c) in num_outs(r) if l.startswith(label)]
                        if len(got) != n or any(c in ('nan', 'inf', '-inf') for c in got):
                            continue
                        for i in range(n):
                            want = pyfloat.round_to(sexpr.hex_to_fraction(u[i]), dst)
                            if isinstance(want, str):
                                continue
                            if abs(co.frac_of_canon(got[i]) - want) > tol:
                                out.append({'kind': 'c16-direction', 'entry': e['id'], 'fmt': dst, 'inputs': u, 'component': i,
                                            'what': '%s at %d bits of the unit vector %s: component %d is %.20g, the cast of the '
                                                    'source component is %.20g: more than two ulps apart' % (
                                                        e['id'], dst, u, i, float(co.frac_of_canon(got[i])), float(want))})
                                break
                        # "additionally re-normalised": the result is a direction of the target type, so its length
                        # is one to within four ulps of the *target* precision (the tolerance of C10's search)
                        fr = [co.frac_of_canon(c) for c in got]
                        nn = sum(t * t for t in fr)
                        if nn != 0 and abs(nn - 1) > Fraction(16, 2 ** co.FMT[dst][0]):
                            out.append({'kind': 'c16-direction', 'entry': e['id'], 'fmt': dst, 'inputs': u,
                                        'squared_length_minus_one': float(nn - 1),
                                        'what': '%s at %d bits of the unit vector %s (a %d-bit direction): the result %s has '
                                                'squared length 1 %+.3e, more than four ulps of the target type from one: '
                                                'it was not re-normalised' % (e['id'], dst, u, src,
                                                                              [float(t) for t in fr], float(nn - 1))})
                        if len(out) >= 3:
                            return out
    return out


def c16_search(ctx, failing, corr, broken):
    import pyfloat
    targets, rng = _targets(ctx, failing, corr, broken,
                            lambda e: e['meta']['kind'] in ('cast-ctor', 'cast-assign'), seed_off=16)
    out = []
    for (e, fmt, v, vals, infm), r in _run_targets(ctx, targets, rng):
        if r is None or r.get('error'):
            continue
        if e['meta']['cls'] in ('Direction', 'PlanarDirection'):
            continue   # cast, then re-normalised: c16_direction_search
        outs = num_outs(r)
        n = len(outs)
        off = 0 if e['meta']['kind'] == 'cast-ctor' else n
        for i, (label, c) in enumerate(outs):
            if off + i >= len(vals):
                break
            want = pyfloat.round_to(_val(vals[off + i]), fmt)
            wc = want if isinstance(want, str) else co.canon(want)
            if c.lstrip('-') == '0 0' and wc.lstrip('-') == '0 0':
                continue
            if c != wc:
                out.append({'kind': 'c16-cast', 'entry': e['id'], 'fmt': fmt, 'index': e['index'],
                            'inputs': [co.hex_of(*x) for x in vals], 'component': i,
                            'native_output': c, 'plain_cast_of_source_component': wc, 'outputs': r['outs'],
                            'what': '%s: component %d is %s, the plain cast of the source component is %s' % (
                                e['id'], i, c, wc)})
                break
        if len(out) >= 5:
            break
    # signed zeros: a plain cast keeps the sign, also when a negative value underflows to zero
    if broken and len(out) < 5:
        seen = set()
        reqs, info = [], []
        for (e, fmt) in targets:
            if (e['id'], fmt) in seen or (e['meta']['cls'] in ('Direction', 'PlanarDirection')):
                continue
            seen.add((e['id'], fmt))
            v = e['instances'][0]['fmts'].get(str(fmt))
            if v is None:
                continue
            infm = co.input_formats(v['tree'], v['n_in'], fmt)
            for kind in ('negzero', 'tiny'):
                xs = []
                for f_ in infm:
                    p_, emax_ = co.FMT[f_]
                    xs.append((True, 0, 0) if kind == 'negzero' else (True, 1, 1 - emax_ - (p_ - 1)))
                reqs.append((e['index'], fmt, [co.hex_of(*x) for x in xs], []))
                info.append((e, fmt, xs))
            if len(reqs) > 3000:
                break
        res, _, _ = ctx.run_native(reqs) if reqs else ([], None, None)
        for (e, fmt, xs), r in zip(info, res):
            if r is None or r.get('error'):
                continue
            outs = num_outs(r)
            n = len(outs)
            off = 0 if e['meta']['kind'] == 'cast-ctor' else n
            for i, (label, c) in enumerate(outs):
                if off + i >= len(xs):
                    break
                want = pyfloat.round_to(_val(xs[off + i]), fmt)
                wc = '-0 0' if want == 0 else co.canon(want)
                if c != wc:
                    out.append({'kind': 'c16-cast', 'entry': e['id'], 'fmt': fmt, 'index': e['index'],
                                'inputs': [co.hex_of(*x) for x in xs], 'component': i, 'native_output': c,
                                'plain_cast_of_source_component': wc,
                                'what': '%s: component %d is %s, the plain cast of the source component %s is %s '
                                        '(the sign of zero is part of the value)' % (e['id'], i, c, co.hex_of(*xs[off + i]), wc)})
                    break
            if len(out) >= 5:
                break
    out += c16_direction_search(ctx)
    return out


COMP_NAMES = {2: ['x', 'y'], 3: ['x', 'y', 'z'], 6: ['xx', 'xy', 'xz', 'yy', 'yz', 'zz'],
              9: ['xx', 'xy', 'xz', 'yx', 'yy', 'yz', 'zx', 'zy', 'zz']}


def c17_expected(e, n, i):
    name = e['meta'].get('name', '')
    if e['meta']['kind'] in ('ctor', 'cast-ctor', 'cast-assign', 'free', 'hash', 'stream', 'stdmath'):
        return None
    if name == 'Value' and not e['meta'].get('unit'):
        return i
    if name in ('SetValue', 'MutableValue'):
        return n + i
    names = COMP_NAMES.get(n)
    if not names:
        return None
    base, pre = name, ''
    if name.startswith('Mutable_'):
        pre, base = 'mut', name[8:]
    elif name.startswith('Set_'):
        pre, base = 'set', name[4:]
    if n == 6:
        base = {'yx': 'xy', 'zx': 'xz', 'zy': 'yz'}.get(base, base)
    if base in names:
        k = names.index(base)
        if pre == '':
            return k
        return n if i == k else i
    if base == '_'.join(names):
        return i if pre == '' else n + i
    return None


def c17_search(ctx, failing, corr, broken):
    targets, rng = _targets(ctx, failing, corr, broken,
                            lambda e: not e['meta']['cls'].startswith(('unit:', 'model:')) and
                            e['meta'].get('name') and not e['meta'].get('unit') and
                            (e['meta']['name'] == 'Zero' or c17_expected(e, 3, 0) is not None or
                             c17_expected(e, 9, 0) is not None or c17_expected(e, 6, 0) is not None or
                             c17_expected(e, 2, 0) is not None or e['meta']['name'] in ('Value', 'SetValue', 'MutableValue')),
                            seed_off=17)
    out = []
    for (e, fmt, v, vals, infm), r in _run_targets(ctx, targets, rng):
        if r is None or r.get('error'):
            continue
        outs = num_outs(r)
        ci = ctx.classes['class_index'].get(e['meta']['cls'])
        n = ctx.classes['classes'][ci - 1]['comps'] if ci else 0
        for i, (label, c) in enumerate(outs):
            if e['meta']['name'] == 'Zero':
                want = '0 0'
            else:
                j = c17_expected(e, n, i)
                if j is None or j >= len(vals):
                    continue
                s, m, ex = vals[j]
                want = co.canon(_val(vals[j]), neg_zero=(m == 0 and s))
            if c != want:
                out.append({'kind': 'c17-access', 'entry': e['id'], 'fmt': fmt, 'index': e['index'],
                            'inputs': [co.hex_of(*x) for x in vals], 'component': i, 'native_output': c,
                            'expected_stored_value': want, 'outputs': r['outs'],
                            'what': '%s: slot %d is %s, expected the stored number %s' % (e['id'], i, c, want)})
                break
        if len(out) >= 5:
            break
    # static half: the compiler's own facts
    try:
        layout = json.load(open(os.path.join(ctx.cache, 'layout.json')))
        for r in layout:
            ci = ctx.classes['class_index'].get(r['cls'])
            n = ctx.classes['classes'][ci - 1]['comps']
            if r['size'] != n * r['num_size'] or not r['trivially_copyable'] or not r['standard_layout'] \
                    or r['polymorphic'] or n not in (1, 2, 3, 6, 9):
                out.append({'kind': 'c17-layout', 'row': r, 'stored_numbers': n,
                            'what': 'PhQ::%s<%s>: sizeof %d, %d stored numbers of %d bytes, trivially_copyable=%s '
                                    'standard_layout=%s polymorphic=%s' % (
                                        r['cls'], {32: 'float', 64: 'double', 80: 'long double'}[r['fmt']],
                                        r['size'], n, r['num_size'], r['trivially_copyable'],
                                        r['standard_layout'], r['polymorphic'])})
                if len(out) >= 8:
                    break
    except FileNotFoundError:
        pass
    return out


# ---------------------------------------------------------------------------------------------------
# C02
# ---------------------------------------------------------------------------------------------------

def c02_route(ctx, e, inst):
    """(unit type short name, from, to) of the scalar conversion an entry point must apply, or None."""
    m = e['meta']
    k = m['kind']
    tables = {u['name']: u for u in ctx.tables['units']}
    if m['cls'].startswith('unit:'):
        short = m['cls'][5:]
        std = tables['Unit::' + short]['standard']
        if k in ('convert-copy', 'convert-inplace'):
            return short, inst['params'][0], inst['params'][1], False
        if k == 'convert-static':
            ens = [x[0] for x in tables['Unit::' + short]['enumerators']]
            return short, ens.index(m['from']), ens.index(m['to']), True
        return None
    if not m.get('unit') or not m.get('enum'):
        return None
    short = m['enum'].split('::')[1]
    t = tables[m['enum']]
    ens = [x[0] for x in t['enumerators']]
    u, std = ens.index(m['unit']), t['standard']
    name = m.get('name')
    if k == 'ctor':
        return short, u, std, False
    if name == 'Value':
        return short, std, u, False
    if name == 'StaticValue':
        return short, std, u, True
    if name == 'Create':
        return short, u, std, True
    return None


def ulp_distance(a, b, fmt):
    """|a-b| in units of the last place of the larger magnitude (canonical strings)."""
    if a == b:
        return 0
    if a in ('nan', 'inf', '-inf') or b in ('nan', 'inf', '-inf'):
        return 10 ** 9
    fa, fb = co.frac_of_canon(a), co.frac_of_canon(b)
    big = max(abs(fa), abs(fb))
    if big == 0:
        return 0
    p, emax = co.FMT[fmt]
    e = big.numerator.bit_length() - big.denominator.bit_length()
    if Fraction(2) ** e > big:
        e -= 1
    e = max(e, 1 - emax)
    return abs(fa - fb) / (Fraction(2) ** (e - (p - 1)))


def c02_search(ctx, failing, corr, broken):
    """C02's own statement on the real code: each entry point's output component must agree (to one
    ulp) with the plain scalar Convert of the same component, and copying forms leave their argument."""
    targets, rng = _targets(ctx, failing, corr, broken,
                            lambda e: e['meta']['cls'].startswith('unit:') or e['meta'].get('unit'),
                            limit=2500, seed_off=2)
    by_id = ctx.by_id
    reqs, info = [], []
    for (e, fmt) in targets:
        insts = e['instances']
        for inst in ([rng.choice(insts)] if len(insts) > 1 else insts):
            v = inst['fmts'].get(str(fmt))
            route = c02_route(ctx, e, inst)
            if v is None or route is None:
                continue
            short, f, t, static = route
            conv = by_id.get('unit::Convert<%s>(num)' % short)
            if conv is None:
                continue
            n = v['n_in']
            vals = co.gen_inputs(rng, [fmt] * n, n)
            reqs.append((e['index'], fmt, [co.hex_of(*x) for x in vals], inst['params']))
            base = len(reqs)
            for x in vals:
                reqs.append((conv['index'], fmt, [co.hex_of(*x)], [f, t]))
            info.append((e, fmt, inst, vals, len(reqs) - n - 1, route))
    if not reqs:
        return []
    res, err, rc = ctx.run_native(reqs)
    out = []
    for (e, fmt, inst, vals, pos, route) in info:
        r = res[pos]
        if r is None or r.get('error'):
            continue
        outs = num_outs(r)
        n = len(vals)
        for i in range(min(n, len(outs))):
            s = res[pos + 1 + i]
            if s is None or s.get('error'):
                continue
            want = num_outs(s)[0][1]
            got = outs[i][1]
            d = ulp_distance(got, want, fmt)
            if d > 1:
                out.append({'kind': 'c02-agree', 'entry': e['id'], 'fmt': fmt, 'index': e['index'],
                            'params': inst['params'], 'inputs': [co.hex_of(*x) for x in vals], 'component': i,
                            'entry_output': got, 'scalar_convert_output': want,
                            'scalar_convert': 'unit::Convert<%s>(num)@%d,%d' % (route[0], route[1], route[2]),
                            'what': '%s component %d gives %s but the scalar Convert of that component gives %s' % (
                                e['id'], i, got, want)})
                break
        if e['meta']['kind'] in ('convert-copy', 'convert-static') and len(outs) >= 2 * n:
            for i in range(n):
                sgn, m, ex = vals[i]
                if outs[n + i][1] != co.canon(_val(vals[i]), neg_zero=(m == 0 and sgn)):
                    out.append({'kind': 'c02-copy-modified', 'entry': e['id'], 'fmt': fmt, 'index': e['index'],
                                'params': inst['params'], 'inputs': [co.hex_of(*x) for x in vals],
                                'what': '%s modified its argument: component %d is now %s' % (e['id'], i, outs[n + i][1])})
                    break
        if len(out) >= 5:
            break
    return out


def c02_correspond(ctx):
    rng = random.Random(ctx.seed + 2)
    sel = [e for e in ctx.model if e['meta']['cls'].startswith('unit:') or e['meta'].get('unit')]
    if ctx.tier == 'quick':
        rng.shuffle(sel)
        sel = sel[:2500]
    return co.correspond(ctx.cache, LEAN, sel, ctx.seed + 2, per_entry=1 if ctx.tier == 'quick' else 6)


# ---------------------------------------------------------------------------------------------------
# C09: textbook component formulas in exact integer arithmetic (the oracle of the failing-input search)
# ---------------------------------------------------------------------------------------------------

def _mat9(a):
    return [[a[0], a[1], a[2]], [a[3], a[4], a[5]], [a[6], a[7], a[8]]]


def _mat6(a):
    return [[a[0], a[1], a[2]], [a[1], a[3], a[4]], [a[2], a[4], a[5]]]


def _det(m):
    return (m[0][0] * (m[1][1] * m[2][2] - m[1][2] * m[2][1]) - m[0][1] * (m[1][0] * m[2][2] - m[1][2] * m[2][0])
            + m[0][2] * (m[1][0] * m[2][1] - m[1][1] * m[2][0]))


def _cof(m):
    c = [[0] * 3 for _ in range(3)]
    for i in range(3):
        for j in range(3):
            r = [k for k in range(3) if k != i]
            q = [k for k in range(3) if k != j]
            c[i][j] = (-1) ** (i + j) * (m[r[0]][q[0]] * m[r[1]][q[1]] - m[r[0]][q[1]] * m[r[1]][q[0]])
    return c


def _T(m):
    return [[m[j][i] for j in range(3)] for i in range(3)]


def _mm(a, b):
    return [[sum(a[i][k] * b[k][j] for k in range(3)) for j in range(3)] for i in range(3)]


def _mv(a, v):
    return [sum(a[i][k] * v[k] for k in range(3)) for i in range(3)]


def _flat9(m):
    return [m[i][j] for i in range(3) for j in range(3)]


def _flat6(m):
    return [m[0][0], m[0][1], m[0][2], m[1][1], m[1][2], m[2][2]]


def _v(a, n):
    return list(a) + [0] * (3 - n)


SHAPE = {'PlanarVector': 2, 'Vector': 3, 'SymmetricDyad': 6, 'Dyad': 9, 'Direction': 3, 'PlanarDirection': 2}


def c09_oracle(e, xs):
    """Expected numeric outputs (exact) of a tensor entry on integer inputs xs, or None."""
    m = e['meta']
    cls, name, args = m['cls'], m.get('name'), m.get('args', [])
    if cls not in ('PlanarVector', 'Vector', 'SymmetricDyad', 'Dyad') or m.get('ufmt'):
        return None
    n = SHAPE[cls]
    if m['kind'] == 'method':
        a = xs[:n]
        b = xs[n:]
        if cls in ('Vector', 'PlanarVector'):
            va = _v(a, n)
            if name == 'MagnitudeSquared':
                return [sum(t * t for t in va)]
            if name in ('Dot', 'Cross', 'Dyadic') and len(args) == 1 and args[0] in SHAPE and SHAPE[args[0]] == n:
                vb = _v(b, n)
                if name == 'Dot':
                    return [sum(p * q for p, q in zip(va, vb))]
                if name == 'Cross':
                    return [va[1] * vb[2] - va[2] * vb[1], va[2] * vb[0] - va[0] * vb[2], va[0] * vb[1] - va[1] * vb[0]]
                return [va[i] * vb[j] for i in range(3) for j in range(3)]
            return None
        M = _mat9(a) if cls == 'Dyad' else _mat6(a)
        fl = _flat9 if cls == 'Dyad' else _flat6
        if name == 'Trace':
            return [M[0][0] + M[1][1] + M[2][2]]
        if name == 'Determinant':
            return [_det(M)]
        if name == 'Transpose':
            return fl(_T(M))
        if name == 'Cofactors':
            return fl(_cof(M))
        if name == 'Adjugate':
            return fl(_T(_cof(M)))
        return None
    if m['kind'] == 'free' and name == 'operator*' and len(args) == 2 and all(a in SHAPE for a in args):
        na, nb = SHAPE[args[0]], SHAPE[args[1]]
        if na not in (6, 9):
            return None
        A = _mat9(xs[:na]) if na == 9 else _mat6(xs[:na])
        bb = xs[na:na + nb]
        if nb in (2, 3):
            return _mv(A, _v(bb, nb))
        B = _mat9(bb) if nb == 9 else _mat6(bb)
        return _flat9(_mm(A, B))
    return None


def c09_search(ctx, failing, corr, broken):
    rng = random.Random(ctx.seed + 9)
    cands = [e for e in ctx.model if e['meta']['cls'] in ('PlanarVector', 'Vector', 'SymmetricDyad', 'Dyad')]
    reqs, info = [], []
    for e in cands:
        for fmt in (32, 64, 80):
            v = e['instances'][0]['fmts'].get(str(fmt))
            if v is None:
                continue
            for _ in range(6 if broken else 2):
                xs = [rng.randrange(-9, 10) for _ in range(v['n_in'])]
                if c09_oracle(e, xs) is None and e['meta'].get('name') != 'Inverse':
                    break
                reqs.append((e['index'], fmt, [co.hex_of(x < 0, abs(x), 0) for x in xs], []))
                info.append((e, fmt, xs, 0))
            if e['meta'].get('name') == 'Inverse':
                # well-conditioned but tiny (and huge) tensors: an integer matrix times 2^-k (2^k); the
                # determinant is far below machine epsilon (far above 1) yet exactly non-zero
                for _ in range(6 if broken else 2):
                    xs = [rng.randrange(-9, 10) for _ in range(v['n_in'])]
                    sh = rng.choice([-1, 1]) * rng.randrange(8, 26)
                    reqs.append((e['index'], fmt, [co.hex_of(x < 0, abs(x), sh) for x in xs], []))
                    info.append((e, fmt, xs, sh))
    if not reqs:
        return []
    res, err, rc = ctx.run_native(reqs)
    out = []
    for (e, fmt, xs, sh), r in zip(info, res):
        if r is None or r.get('error'):
            continue
        outs = num_outs(r)
        if e['meta'].get('name') == 'Inverse':
            n = SHAPE[e['meta']['cls']]
            M = _mat9(xs[:n]) if n == 9 else _mat6(xs[:n])
            d = _det(M)
            has = [t for (l, t) in other_outs(r) if l.startswith('r.has')]
            if has and (has[0] == 'true') != (d != 0):
                out.append({'kind': 'c09-inverse-presence', 'entry': e['id'], 'fmt': fmt, 'index': e['index'],
                            'inputs': xs, 'scaled_by_two_to': sh, 'determinant': str(Fraction(d) * Fraction(2) ** (3 * sh)),
                            'has_value': has[0],
                            'what': '%s of the integer matrix %s times 2^%d: determinant %s but has_value=%s' % (
                                e['id'], xs, sh, Fraction(d) * Fraction(2) ** (3 * sh), has[0])})
            elif d != 0 and outs:
                adj = _T(_cof(M))
                want = [Fraction(t, d) * Fraction(2) ** (-sh) for t in (_flat9(adj) if n == 9 else _flat6(adj))]
                for i, ((l, c), w) in enumerate(zip(outs, want)):
                    if c in ('nan', 'inf', '-inf') or abs(co.frac_of_canon(c) - w) > abs(w) * Fraction(1, 2 ** 20) + Fraction(1, 2 ** 40):
                        out.append({'kind': 'c09-inverse-value', 'entry': e['id'], 'fmt': fmt, 'index': e['index'],
                                    'inputs': xs, 'component': i, 'native_output': c, 'adjugate_over_det': str(w),
                                    'what': '%s component %d is %s, adjugate/det is %s' % (e['id'], i, c, w)})
                        break
            continue
        want = c09_oracle(e, xs)
        if want is None or len(want) != len(outs):
            continue
        for i, ((l, c), w) in enumerate(zip(outs, want)):
            if c.lstrip('-') == '0 0' and w == 0:
                continue
            if c != co.canon(Fraction(w)):
                out.append({'kind': 'c09-formula', 'entry': e['id'], 'fmt': fmt, 'index': e['index'],
                            'inputs': xs, 'component': i, 'native_output': c, 'textbook_value': w,
                            'what': '%s on integer inputs %s: component %d is %s, the textbook formula gives %d' % (
                                e['id'], xs, i, c, w)})
                break
        if len(out) >= 5:
            break
    return out


# ---------------------------------------------------------------------------------------------------
# C12 / C13: exact rational oracles for the constitutive models
# ---------------------------------------------------------------------------------------------------

def _elastic_moduli(mu, lam):
    return {'ShearModulus': mu, 'LameFirstModulus': lam,
            'YoungModulus': mu * (3 * lam + 2 * mu) / (lam + mu),
            'IsentropicBulkModulus': lam + 2 * mu / 3, 'IsothermalBulkModulus': lam + 2 * mu / 3,
            'PWaveModulus': lam + 2 * mu, 'PoissonRatio': lam / (2 * (lam + mu))}


def _sym_apply(a, b, t):
    """a*t + b*tr(t)*I on 6 stored components xx xy xz yy yz zz."""
    tr = t[0] + t[3] + t[5]
    return [a * t[0] + b * tr, a * t[1], a * t[2], a * t[3] + b * tr, a * t[4], a * t[5] + b * tr]


def model_oracle(e, xs):
    """Expected outputs (exact rationals) of a model entry on rational inputs, or None."""
    m = e['meta']
    M = m['cls'][6:]
    nf = len(m.get('fields', []))
    if m['kind'] == 'model-accessor' and M == 'ElasticIsotropicSolid':
        return [_elastic_moduli(xs[0], xs[1])[m['name']]]
    if m['kind'] == 'model-accessor':
        return [xs[m['fields'].index(m['name'])]] if m['name'] in m['fields'] else None
    if m['kind'] == 'model-virtual':
        f, t = xs[:nf], xs[nf:nf + 6]
        name, args = m['name'], m['args']
        zero = [Fraction(0)] * 6
        if M == 'ElasticIsotropicSolid':
            mu, lam = f
            if name == 'Stress' and args[0] == 'Strain':
                return _sym_apply(2 * mu, lam, t)
            if name == 'Strain':
                return _sym_apply(1 / (2 * mu), -lam / (2 * mu * (2 * mu + 3 * lam)), t)
            return zero
        mu = f[0]
        b = f[1] if nf > 1 else Fraction(0)
        if name == 'Stress' and args[-1] == 'StrainRate':
            t = xs[nf + 6 * (len(args) - 1):nf + 6 * len(args)]
            return _sym_apply(2 * mu, b, t)
        if name == 'StrainRate':
            return _sym_apply(1 / (2 * mu), -b / (2 * mu * (2 * mu + 3 * b)), t)
        return zero
    return None


def close_enough(c, want, fmt, slack_bits=14):
    if c in ('nan', 'inf', '-inf'):
        return False
    got = co.frac_of_canon(c)
    p = co.FMT[fmt][0]
    tol = abs(want) * Fraction(1, 2 ** (p - slack_bits)) + Fraction(1, 2 ** 60)
    return abs(got - want) <= tol


def narrowing_search(ctx, rows, seed_off=77):
    """Failing input for a precision loss: the entry at its own numeric type against the same entry at
    long double (for model functions: the long double overload on a long double model), on inputs with full
    mantissas that both can represent. The two must agree to about 2^10 ulps of the lower precision."""
    import pyfloat
    rng = random.Random(ctx.seed + seed_off)
    by_id = ctx.by_id
    out, reqs, info = [], [], []
    for (eid, bits) in rows[:80]:
        fmt = int(bits)
        e = by_id.get(eid)
        if e is None:
            continue
        hid = re.sub(r'\[A=\d+', '[A=80', eid)
        hi = by_id.get(hid)
        afmt = int(re.search(r'\[A=(\d+)', eid).group(1)) if '[A=' in eid else fmt
        low = min(fmt, afmt)
        if hi is None or low >= 80:
            continue
        v = e['instances'][0]['fmts'].get(str(fmt))
        vh = hi['instances'][0]['fmts'].get('80')
        if v is None or vh is None or v['n_in'] != vh['n_in']:
            continue
        for _ in range(4):
            vals = []
            for i in range(v['n_in']):
                p_ = co.FMT[32][0] if low == 32 else co.FMT[low][0]
                mm = rng.getrandbits(p_ - 1) | (1 << (p_ - 1))
                vals.append((False, mm, rng.randrange(-2, 3) - (p_ - 1)))
            hx = [co.hex_of(*x) for x in vals]
            reqs.append((e['index'], fmt, hx, []))
            reqs.append((hi['index'], 80, hx, []))
            info.append((e, fmt, low, hx))
    if not reqs:
        return []
    res, _, _ = ctx.run_native(reqs)
    for k, (e, fmt, low, hx) in enumerate(info):
        a, b = res[2 * k], res[2 * k + 1]
        if not a or not b or a.get('error') or b.get('error'):
            continue
        oa, ob = num_outs(a), num_outs(b)
        if len(oa) != len(ob) or not oa:
            continue
        if any(c in ('nan', 'inf', '-inf') for _, c in oa + ob):
            continue
        fa = [co.frac_of_canon(c) for _, c in oa]
        fb = [co.frac_of_canon(c) for _, c in ob]
        scale = max([abs(t) for t in fb] + [Fraction(1, 10 ** 30)])
        tol = scale * Fraction(1, 2 ** (co.FMT[low][0] - 10))
        for i, (x_, y_) in enumerate(zip(fa, fb)):
            if abs(x_ - y_) > tol:
                out.append({'kind': 'precision-loss', 'entry': e['id'], 'fmt': fmt, 'index': e['index'], 'inputs': hx,
                            'component': i,
                            'what': '%s at %d bits gives %.21g in slot %d; the same computation in long double gives '
                                    '%.21g: they differ by %.3g relative, i.e. the result carries far fewer than %d '
                                    'significant bits' % (e['id'], fmt, float(x_), i, float(y_),
                                                          float(abs(x_ - y_) / scale), co.FMT[low][0])})
                break
        if len(out) >= 3:
            break
    return out


def models_search(which):
    def search(ctx, failing, corr, broken):
        rng = random.Random(ctx.seed + 12)
        out = []
        ents = [e for e in ctx.model if e['meta']['cls'].startswith('model:') and e['meta']['cls'][6:] in which]
        reqs, info = [], []
        for e in ents:
            m = e['meta']
            for fmt in (32, 64, 80):
                v = e['instances'][0]['fmts'].get(str(fmt))
                if v is None:
                    continue
                for _ in range(3):
                    n = v['n_in']
                    infm = co.input_formats(v['tree'], n, fmt)
                    vals = []
                    for i in range(n):
                        mant = rng.randrange(1, 200)
                        ex = rng.randrange(-3, 4)
                        neg = i >= len(m.get('fields', [])) and rng.random() < 0.4
                        vals.append((neg, mant, ex))
                    if m['kind'] == 'model-ctor' and m['cls'][6:] == 'ElasticIsotropicSolid' and len(m['args']) == 2:
                        mu = Fraction(rng.randrange(1, 200), 8)
                        lam = Fraction(rng.randrange(1, 200), 8)
                        mod = _elastic_moduli(mu, lam)
                        import pyfloat
                        vals = []
                        for a in m['args']:
                            r = pyfloat.round_to(mod[a], fmt)
                            neg, mm, ee = sexpr_dy(r)
                            vals.append((neg, mm, ee))
                        info.append((e, fmt, vals, ('rebuild', mu, lam)))
                    else:
                        info.append((e, fmt, vals, None))
                    reqs.append((e['index'], fmt, [co.hex_of(*x) for x in vals], []))
        if not reqs:
            return []
        res, err, rc = ctx.run_native(reqs)
        for (e, fmt, vals, extra), r in zip(info, res):
            if r is None or r.get('error'):
                continue
            outs = num_outs(r)
            xs = [_val(x) for x in vals]
            if extra:
                want = [extra[1], extra[2]]
                slack = 20
            else:
                want = model_oracle(e, xs)
                slack = 14
            if want is None or len(want) != len(outs):
                continue
            for i, ((l, c), w) in enumerate(zip(outs, want)):
                ofmt = min(fmt, int(l.rsplit(':num', 1)[1]), m_afmt(e, fmt))
                if not close_enough(c, w, ofmt, slack):
                    out.append({'kind': 'model-oracle', 'entry': e['id'], 'fmt': fmt, 'index': e['index'],
                                'inputs': [co.hex_of(*x) for x in vals], 'component': i, 'native_output': c,
                                'textbook_value': str(w),
                                'what': '%s: output %d is %s, the textbook value is %s (%s)' % (
                                    e['id'], i, c, float(w), 'rebuilding from reported moduli' if extra else 'formula')})
                    break
            if len(out) >= 5:
                break
        if failing.get('NoNarrowing'):
            out += narrowing_search(ctx, failing['NoNarrowing'])
        return out
    return search


def m_afmt(e, fmt):
    return e['meta'].get('afmt') or fmt


def sexpr_dy(fr):
    import sexpr
    return sexpr.dyadic(fr)


def models_corr(which, seed_off):
    def f(ctx):
        sel = [e for e in ctx.model if e['meta']['cls'].startswith('model:') and e['meta']['cls'][6:] in which
               and not (e['meta']['kind'] == 'model-ctor' and not e['meta']['args'])]
        return co.correspond(ctx.cache, LEAN, sel, ctx.seed + seed_off, per_entry=8 if ctx.tier == 'quick' else 200,
                             positive=True)
    return f


# ---------------------------------------------------------------------------------------------------
# C05 / C18
# ---------------------------------------------------------------------------------------------------

def _c05_compose(ctx, pr, f, g, fmt, vals, foff):
    r1, _, _ = ctx.run_native([(f['index'], fmt, [co.hex_of(*x) for x in vals], [])])
    if not r1 or not r1[0] or r1[0].get('error'):
        return None
    fouts = [o['t'] for o in r1[0]['outs'] if o['l'].rsplit(':', 1)[1].startswith('num')]
    ins = []
    for name, sz in zip(pr['g_args'], pr['g_sizes']):
        if name == pr['cls']:
            ins += fouts[:sz]
        else:
            fi = pr['f_args'].index(name)
            ins += [co.hex_of(*x) for x in vals[foff[fi]:foff[fi] + sz]]
    if any('nan' in t or 'inf' in t for t in ins):
        return None
    r2, _, _ = ctx.run_native([(g['index'], fmt, ins, [])])
    if not r2 or not r2[0] or r2[0].get('error'):
        return None
    return [c for (l, c) in num_outs(r2[0])]


def _c05_condition(ctx, pr, f, g, vals, foff, j, k):
    """Amplification of the first relation's rounding error by the second one, measured on the real code at
    long double: the intermediate result c = f(a, b) is perturbed by the relative amount 2^-30 and the change
    of g(c, b)[k] is divided by 2^-30 * scale. (The exact composition is the identity, so its own
    input-output sensitivity says nothing; the cancellation is inside.)"""
    import pyfloat
    r1, _, _ = ctx.run_native([(f['index'], 80, [co.hex_of(*x) for x in vals], [])])
    if not r1 or not r1[0] or r1[0].get('error'):
        return None
    fouts = [o['t'] for o in r1[0]['outs'] if o['l'].rsplit(':', 1)[1].startswith('num')]
    if any('nan' in t or 'inf' in t for t in fouts):
        return None

    def g_of(cs):
        ins = []
        for name, sz in zip(pr['g_args'], pr['g_sizes']):
            if name == pr['cls']:
                ins += cs[:sz]
            else:
                fi = pr['f_args'].index(name)
                ins += [co.hex_of(*x) for x in vals[foff[fi]:foff[fi] + sz]]
        r2, _, _ = ctx.run_native([(g['index'], 80, ins, [])])
        if not r2 or not r2[0] or r2[0].get('error'):
            return None
        outs = [c for (l, c) in num_outs(r2[0])]
        if k >= len(outs) or outs[k] in ('nan', 'inf', '-inf'):
            return None
        return co.frac_of_canon(outs[k])
    base = g_of(fouts)
    if base is None:
        return None
    scale = max(_val(v) for v in vals)
    delta = Fraction(1, 1 << 30)
    worst = Fraction(0)
    for i in range(len(fouts)):
        c = sexpr.hex_to_fraction(fouts[i])
        pc = pyfloat.round_to(c * (1 + delta), 80)
        if isinstance(pc, str):
            return None
        neg, m, e = sexpr.dyadic(pc) if pc != 0 else (False, 0, 0)
        cs = list(fouts)
        cs[i] = co.hex_of(neg, m, e)
        got = g_of(cs)
        if got is None:
            return None
        worst = max(worst, abs(got - base) / (delta * scale))
    return worst


def c05_search(ctx, failing, corr, broken, only=None):
    """Compose the two relations on the real code: g(f(a, b), b) must return a to a few ulps (relative
    to the larger operand for the subtractive pairs). `only`: a predicate selecting pairs."""
    path = os.path.join(ctx.cache, 'inverse_pairs.json')
    if not os.path.exists(path):
        return []
    pairs = json.load(open(path))
    rng = random.Random(ctx.seed + 5)
    by_id = ctx.by_id
    out = []
    for fmt in (64, 32, 80):
        stage1, info = [], []
        for pr in pairs:
            f, g = by_id.get(pr['f']), by_id.get(pr['g'])
            if f is None or g is None or (only is not None and not only(pr)):
                continue
            n = sum(pr['f_sizes'])
            for _ in range(2 if not broken else 5):
                vals = [(False, rng.randrange(1 << 20, 1 << 21), rng.randrange(-24, -16)) for _ in range(n)]
                stage1.append((f['index'], fmt, [co.hex_of(*x) for x in vals], []))
                info.append((pr, f, g, vals))
        res1, _, _ = ctx.run_native(stage1)
        stage2, info2 = [], []
        for (pr, f, g, vals), r in zip(info, res1):
            if r is None or r.get('error'):
                continue
            fouts = [o['t'] for o in r['outs'] if o['l'].rsplit(':', 1)[1].startswith('num')]
            foff, acc = [], 0
            for sz in pr['f_sizes']:
                foff.append(acc)
                acc += sz
            ins = []
            for name, sz in zip(pr['g_args'], pr['g_sizes']):
                if name == pr['cls']:
                    ins += fouts[:sz]
                else:
                    fi = pr['f_args'].index(name)
                    ins += [co.hex_of(*x) for x in vals[foff[fi]:foff[fi] + sz]]
            if any('nan' in t or 'inf' in t for t in ins):
                continue
            stage2.append((g['index'], fmt, ins, []))
            info2.append((pr, f, g, vals, foff))
        res2, _, _ = ctx.run_native(stage2)
        for (pr, f, g, vals, foff), r in zip(info2, res2):
            if r is None or r.get('error'):
                continue
            outs = num_outs(r)
            j = pr['j']
            scale = max(_val(v) for v in vals)
            p = co.FMT[fmt][0]
            for k, (l, c) in enumerate(outs):
                want = _val(vals[foff[j] + k])
                if c in ('nan', 'inf', '-inf'):
                    continue
                if abs(co.frac_of_canon(c) - want) > scale * Fraction(1, 2 ** (p - 8)):
                    # a pair that subtracts is ill-conditioned near cancellation (e.g. gamma close to 1): measure
                    # the condition number of the composition at this input on the real code (long double,
                    # each input perturbed by 2^-30) and allow that many times the usual tolerance
                    kappa = _c05_condition(ctx, pr, f, g, vals, foff, j, k)
                    if kappa is None or abs(co.frac_of_canon(c) - want) <= scale * Fraction(1, 2 ** (p - 8)) * (1 + kappa):
                        continue
                    out.append({'kind': 'c05-compose', 'pair': pr['g'] + ' ∘ ' + pr['f'], 'fmt': fmt,
                                'inputs': [co.hex_of(*x) for x in vals], 'recovered': c,
                                'original': co.canon(want),
                                'what': '%s(%s(...)) returns %s instead of the original %s' % (
                                    pr['g'], pr['f'], c, co.canon(want))})
                    break
            if len(out) >= 5:
                return out
    if broken and only is None and len(out) < 5:
        # operator spellings of the relations (C04's twins): an operator between quantities that is not the
        # correctly rounded operation its constructor twin performs
        for v in c04_search(ctx, {}, None, True) or []:
            if v.get('kind') == 'c04-op':
                v = dict(v)
                v['kind'] = 'c05-operator-spelling'
                out.append(v)
            if len(out) >= 5:
                break
    return out


import math  # noqa: E402


def _sqrt(x):
    return math.sqrt(float(x))


C18_TABLE = {
    'DynamicPressure::ctor(MassDensity,Speed)': lambda x: [x[0] * x[1] ** 2 / 2],
    'DynamicKinematicPressure::ctor(Speed)': lambda x: [x[0] ** 2 / 2],
    'TotalPressure::ctor(StaticPressure,DynamicPressure)': lambda x: [x[0] + x[1]],
    'TotalKinematicPressure::ctor(StaticKinematicPressure,DynamicKinematicPressure)': lambda x: [x[0] + x[1]],
    'SoundSpeed::ctor(IsentropicBulkModulus,MassDensity)': lambda x: [_sqrt(x[0] / x[1])],
    'SoundSpeed::ctor(HeatCapacityRatio,StaticPressure,MassDensity)': lambda x: [_sqrt(x[0] * x[1] / x[2])],
    'SoundSpeed::ctor(HeatCapacityRatio,SpecificGasConstant,Temperature)': lambda x: [_sqrt(x[0] * x[1] * x[2])],
    'MachNumber::ctor(Speed,SoundSpeed)': lambda x: [x[0] / x[1]],
    'ReynoldsNumber::ctor(MassDensity,Speed,Length,DynamicViscosity)': lambda x: [x[0] * x[1] * x[2] / x[3]],
    'ReynoldsNumber::ctor(Speed,Length,KinematicViscosity)': lambda x: [x[0] * x[1] / x[2]],
    'PrandtlNumber::ctor(SpecificIsobaricHeatCapacity,DynamicViscosity,ScalarThermalConductivity)':
        lambda x: [x[0] * x[1] / x[2]],
    'PrandtlNumber::ctor(KinematicViscosity,ThermalDiffusivity)': lambda x: [x[0] / x[1]],
    'HeatCapacityRatio::ctor(IsobaricHeatCapacity,IsochoricHeatCapacity)': lambda x: [x[0] / x[1]],
    'HeatCapacityRatio::ctor(SpecificIsobaricHeatCapacity,SpecificIsochoricHeatCapacity)': lambda x: [x[0] / x[1]],
    'GasConstant::ctor(IsobaricHeatCapacity,IsochoricHeatCapacity)': lambda x: [x[0] - x[1]],
    'SpecificGasConstant::ctor(SpecificIsobaricHeatCapacity,SpecificIsochoricHeatCapacity)': lambda x: [x[0] - x[1]],
    'ThermalDiffusivity::ctor(ScalarThermalConductivity,MassDensity,SpecificIsobaricHeatCapacity)':
        lambda x: [x[0] / (x[1] * x[2])],
    'KinematicViscosity::ctor(DynamicViscosity,MassDensity)': lambda x: [x[0] / x[1]],
    'Frequency::Period()': lambda x: [1 / x[0]],
    'Time::Frequency()': lambda x: [1 / x[0]],
    'Time::ctor(Frequency)': lambda x: [1 / x[0]],
    'Strain::ctor(DisplacementGradient)': lambda x: [x[0], (x[1] + x[3]) / 2, (x[2] + x[6]) / 2, x[4],
                                                     (x[5] + x[7]) / 2, x[8]],
    'StrainRate::ctor(VelocityGradient)': lambda x: [x[0], (x[1] + x[3]) / 2, (x[2] + x[6]) / 2, x[4],
                                                     (x[5] + x[7]) / 2, x[8]],
    'ScalarStrain::ctor(LinearThermalExpansionCoefficient,TemperatureDifference)': lambda x: [x[0] * x[1]],
    'Strain::ctor(VolumetricThermalExpansionCoefficient,TemperatureDifference)':
        lambda x: [x[0] * x[1] / 3, 0, 0, x[0] * x[1] / 3, 0, x[0] * x[1] / 3],
    'Stress::VonMises()': lambda x: [_sqrt(((x[0] - x[3]) ** 2 + (x[3] - x[5]) ** 2 + (x[5] - x[0]) ** 2
                                            + 6 * (x[1] ** 2 + x[2] ** 2 + x[4] ** 2)) / 2)],
    'Stress::Traction(Direction)': lambda x: _mv(_mat6(x[:6]), x[6:9]),
    'Traction::ctor(Stress,Direction)': lambda x: _mv(_mat6(x[:6]), x[6:9]),
    'Stress::ctor(StaticPressure)': lambda x: [-x[0], 0, 0, -x[0], 0, -x[0]],
}


def c18_search(ctx, failing, corr, broken):
    rng = random.Random(ctx.seed + 18)
    by_id = ctx.by_id
    reqs, info = [], []
    missing = [k for k in C18_TABLE if k not in by_id]
    out = []
    for k in missing:
        out.append({'kind': 'c18-missing', 'entry': k,
                    'what': 'definitional relation %s is no longer present in the tree' % k,
                    'failing_input_found': True})
    for eid, fn in C18_TABLE.items():
        e = by_id.get(eid)
        if e is None:
            continue
        for fmt in (32, 64, 80):
            v = e['instances'][0]['fmts'].get(str(fmt))
            if v is None:
                continue
            for _ in range(3):
                vals = [(False, rng.randrange(1 << 20, 1 << 21), rng.randrange(-24, -16)) for _ in range(v['n_in'])]
                reqs.append((e['index'], fmt, [co.hex_of(*x) for x in vals], []))
                info.append((e, fmt, vals, fn))
    res, _, _ = ctx.run_native(reqs)
    for (e, fmt, vals, fn), r in zip(info, res):
        if r is None or r.get('error'):
            continue
        xs = [_val(x) for x in vals]
        want = fn(xs)
        outs = num_outs(r)
        if len(want) != len(outs):
            out.append({'kind': 'c18-arity', 'entry': e['id'], 'what': 'result arity changed'})
            continue
        p = co.FMT[fmt][0]
        scale = max([abs(float(w)) for w in want] + [float(t) for t in xs if e['id'].startswith(('Gas', 'Specific', 'Total'))] + [1e-300])
        for i, ((l, c), w) in enumerate(zip(outs, want)):
            if c in ('nan', 'inf', '-inf'):
                bad = True
            else:
                bad = abs(float(co.frac_of_canon(c)) - float(w)) > scale * 2.0 ** -(min(p, 50) - 10)
            if bad:
                out.append({'kind': 'c18-formula', 'entry': e['id'], 'fmt': fmt, 'index': e['index'],
                            'inputs': [co.hex_of(*x) for x in vals], 'component': i, 'native_output': c,
                            'textbook_value': float(w),
                            'what': '%s: component %d is %s, the textbook formula gives %r' % (e['id'], i, c, float(w))})
                break
        if len(out) >= 5:
            break
    if broken and len(out) < 5:
        # rearrangements of the tabled definitions: C05's composition search, kept for the pairs one side
        # of which is in the table
        for v in c05_search(ctx, failing, corr, broken,
                            only=lambda pr: pr['f'] in C18_TABLE or pr['g'] in C18_TABLE) or []:
            v = dict(v)
            v['kind'] = 'c18-rearrangement'
            out.append(v)
    return out


# ---------------------------------------------------------------------------------------------------
# C14
# ---------------------------------------------------------------------------------------------------

CMP_PY = {'operator<': lambda a, b: a < b, 'operator>': lambda a, b: a > b, 'operator<=': lambda a, b: a <= b,
          'operator>=': lambda a, b: a >= b, 'operator==': lambda a, b: a == b, 'operator!=': lambda a, b: a != b}
GRID = [(True, 1, 0), (True, 0, 0), (False, 0, 0), (False, 1, -1), (False, 1, 0), (False, 3, 0)]


def _grid_float(x):
    """Exact value of a (neg, m, e) triple (a Fraction: -0 and +0 compare equal, long double values are
    not rounded)."""
    s, m, e = x
    v = Fraction(m) * Fraction(2) ** e
    return -v if s else v


def c14_search(ctx, failing, corr, broken):
    """On the real code: each operator must equal the Python comparison of the component tuples
    (lexicographic, -0 == +0) on grids that force ties in leading components; equal objects must hash
    equally."""
    rng = random.Random(ctx.seed + 14)
    ents = [e for e in ctx.model if e['meta'].get('name') in CMP_PY and
            e['meta']['kind'] in ('free', 'model-compare')]
    hashes = [e for e in ctx.model if e['meta']['kind'] in ('hash', 'model-hash')]
    reqs, info = [], []
    for e in ents:
        for fmt in (32, 64, 80):
            v = e['instances'][0]['fmts'].get(str(fmt))
            if v is None:
                continue
            n = v['n_in'] // 2
            for _ in range(6 if not broken else 20):
                a = [rng.choice(GRID) for _ in range(n)]
                b = list(a)
                k = rng.randrange(0, n + 1)
                for i in range(k, n):
                    b[i] = rng.choice(GRID)
                if rng.random() < 0.3 and n:
                    j = rng.randrange(n)
                    if a[j][1] == 0:
                        b[j] = (not a[j][0], 0, 0)
                reqs.append((e['index'], fmt, [co.hex_of(*x) for x in a + b], []))
                info.append(('cmp', e, fmt, a, b))
            # neighbouring values: one slot differs by one unit in the last place, the slots before it tie
            infm = co.input_formats(v['tree'], v['n_in'], fmt)
            pmin = min(co.FMT[f][0] for f in infm) if infm else co.FMT[fmt][0]
            for _ in range(2 if not broken else 8):
                a = []
                for i in range(n):
                    M = (1 << (pmin - 1)) | rng.getrandbits(pmin - 1)
                    a.append((rng.random() < 0.4, min(M, (1 << pmin) - 2), rng.randrange(-8, 9) - (pmin - 1)))
                b = list(a)
                j = rng.randrange(n) if n else 0
                if n:
                    b[j] = (a[j][0], a[j][1] + 1, a[j][2])
                    if rng.random() < 0.5:
                        a, b = b, a
                reqs.append((e['index'], fmt, [co.hex_of(*x) for x in a + b], []))
                info.append(('cmp', e, fmt, a, b))
    for e in hashes:
        for fmt in (32, 64, 80):
            v = e['instances'][0]['fmts'].get(str(fmt))
            if v is None:
                continue
            n = v['n_in']
            for _ in range(3):
                a = [rng.choice(GRID) for _ in range(n)]
                b = [(not x[0], 0, 0) if x[1] == 0 else x for x in a]
                reqs.append((e['index'], fmt, [co.hex_of(*x) for x in a], []))
                info.append(('hash', e, fmt, a, b))
                reqs.append((e['index'], fmt, [co.hex_of(*x) for x in b], []))
                info.append(('hash2', e, fmt, a, b))
    res, _, _ = ctx.run_native(reqs)
    out = []
    prev = None
    for (kind, e, fmt, a, b), r in zip(info, res):
        if r is None or r.get('error'):
            continue
        if kind == 'cmp':
            ta, tb = tuple(_grid_float(x) for x in a), tuple(_grid_float(x) for x in b)
            want = CMP_PY[e['meta']['name']](ta, tb)
            got = [t for (l, t) in other_outs(r)][0] == 'true'
            if got != want:
                out.append({'kind': 'c14-compare', 'entry': e['id'], 'fmt': fmt, 'index': e['index'],
                            'left': [str(t) for t in ta], 'right': [str(t) for t in tb],
                            'inputs': [co.hex_of(*x) for x in a + b],
                            'native': got, 'lexicographic': want,
                            'what': '%s%s %s %s is %s on the real code; lexicographic comparison of the stored '
                                    'components gives %s' % (e['id'], '', tuple(float(t) for t in ta),
                                                             tuple(float(t) for t in tb), got, want)})
        elif kind == 'hash':
            prev = [t for (l, t) in other_outs(r)]
        elif kind == 'hash2' and prev is not None:
            cur = [t for (l, t) in other_outs(r)]
            if cur != prev:
                out.append({'kind': 'c14-hash', 'entry': e['id'], 'fmt': fmt, 'index': e['index'],
                            'a': [co.hex_of(*x) for x in a], 'b': [co.hex_of(*x) for x in b],
                            'hash_a': prev, 'hash_b': cur,
                            'what': '%s: objects equal under == (differing only in the sign of zero) hash '
                                    'differently' % e['id']})
            prev = None
        if len(out) >= 5:
            break
    return out


# ---------------------------------------------------------------------------------------------------
# C11
# ---------------------------------------------------------------------------------------------------

def is_angle_entry(e):
    m = e['meta']
    if m['cls'].startswith(('unit:', 'model:')) or m.get('unit') or m.get('ufmt'):
        return False
    if m['cls'] == 'Angle' and m['kind'] == 'ctor' and len(m['args']) == 2 and m['args'][0] not in (
            'AngularSpeed',) and all(a in SHAPE_OF_VECTORISH for a in m['args']):
        return True
    return m.get('name') == 'Angle' and m['kind'] == 'method'


SHAPE_OF_VECTORISH = None


def _vectorish(ctx):
    global SHAPE_OF_VECTORISH
    if SHAPE_OF_VECTORISH is None:
        d = {}
        for c in ctx.classes['classes']:
            if c['comps'] in (2, 3):
                d[c['name']] = c['comps']
        SHAPE_OF_VECTORISH = d
    return SHAPE_OF_VECTORISH


def c11_search(ctx, failing, corr, broken):
    """C11 on the real code: the angle between non-zero finite vectors is a number in [0, Pi<T>], never
    NaN, the same under swapping the arguments (bit-identical between one kernel and itself; to the
    conditioning of the arc-cosine between the two kernels of a mixed pair), bit-identical under
    power-of-two rescaling of every argument that is not a direction, and within 10·2^(-p/2) rad of
    atan2(|a×b|, a·b) evaluated exactly on the inputs."""
    import mpmath
    _vectorish(ctx)
    rng = random.Random(ctx.seed + 11)
    ents = [e for e in ctx.model if is_angle_entry(e)]
    by_id = ctx.by_id
    pis = {int(k): co.frac_of_canon(co.canon_of_hex(v)) for k, v in ctx.tables['pi'].items()}
    norm3 = by_id.get('Direction::ctor(Vector)')
    norm2 = by_id.get('PlanarDirection::ctor(PlanarVector)')

    def args_of(e):
        m = e['meta']
        return ([m['cls']] if m.get('self') else []) + list(m['args'])
    by_args = {}
    for e in ents:
        by_args.setdefault((e['meta']['kind'], tuple(args_of(e))), e)

    def reference(a, b):
        dot = sum(x * y for x, y in zip(a, b))
        if len(a) == 2:
            cr2 = (a[0] * b[1] - a[1] * b[0]) ** 2
        else:
            cr2 = (a[1] * b[2] - a[2] * b[1]) ** 2 + (a[2] * b[0] - a[0] * b[2]) ** 2 + (a[0] * b[1] - a[1] * b[0]) ** 2
        with mpmath.workprec(400):
            return mpmath.atan2(mpmath.sqrt(mpmath.mpf(cr2.numerator) / cr2.denominator),
                                mpmath.mpf(dot.numerator) / dot.denominator)

    def hexes(fracs):
        return [co.hex_of(*sexpr_dy(fr)) for fr in fracs]
    out = []
    for fmt in (64, 32, 80):
        p = co.FMT[fmt][0]
        tol = mpmath.mpf(10) * mpmath.mpf(2) ** (-p / 2.0)
        # stage 0: unit vectors from the library's own normalisation
        pool = {2: [], 3: []}
        reqs0, meta0 = [], []
        for n, ne in ((3, norm3), (2, norm2)):
            if ne is None:
                continue
            for _ in range(40):
                v = [co.random_value(rng, fmt, 'moderate') for _ in range(n)]
                v = [(s, m or 1, e) for (s, m, e) in v]
                reqs0.append((ne['index'], fmt, [co.hex_of(*x) for x in v], []))
                meta0.append(n)
        res0, _, _ = ctx.run_native(reqs0)
        for n, r in zip(meta0, res0):
            if r and not r.get('error'):
                d = [co.frac_of_canon(co.canon_of_hex(o['t'])) for o in r['outs']
                     if o['l'].rsplit(':', 1)[1].startswith('num')]
                if len(d) == n and any(d):
                    pool[n].append(d)
        reqs, info = [], []
        for e in ents:
            args = args_of(e)
            if len(args) != 2 or not all(a in SHAPE_OF_VECTORISH for a in args):
                continue
            n = SHAPE_OF_VECTORISH[args[0]]
            if SHAPE_OF_VECTORISH[args[1]] != n:
                continue
            isdir = ['Direction' in a for a in args]
            if any(isdir) and not pool[n]:
                continue
            twin = e if args[0] == args[1] else by_args.get((e['meta']['kind'], (args[1], args[0])))
            for trial in range(8 if not broken else 30):
                mode = rng.choice(['parallel', 'antiparallel', 'random', 'parallel', 'random'])
                sign = -1 if mode == 'antiparallel' else 1

                def plain():
                    v = [co.random_value(rng, fmt, 'moderate') for _ in range(n)]
                    return [_val((s_, mm or 1, ee)) for (s_, mm, ee) in v]
                if mode == 'random':
                    vecs = [list(rng.choice(pool[n])) if isdir[k] else plain() for k in range(2)]
                elif any(isdir):
                    d = rng.choice(pool[n])
                    # the other argument: the same direction (or, if a vector, d times ±2^sh, exactly)
                    vecs = []
                    for k in range(2):
                        if isdir[k]:
                            vecs.append(list(d) if (sign == 1 or k == 0 or not isdir[0]) else [-t for t in d])
                        else:
                            sh = rng.randrange(-6, 7)
                            vecs.append([t * Fraction(2) ** sh * sign for t in d])
                else:
                    a = plain()
                    k3 = rng.randrange(1, 1 << 10) * sign
                    vecs = [a, [pyfloat_round(x * k3, fmt) for x in a]]
                ins = hexes(vecs[0]) + hexes(vecs[1])
                ref = reference(vecs[0], vecs[1])
                reqs.append((e['index'], fmt, ins, []))
                info.append((e, ins, n, mode, 'direct', ref))
                if twin is not None:
                    reqs.append((twin['index'], fmt, ins[n:] + ins[:n], []))
                    info.append((twin, ins[n:] + ins[:n], n, mode, 'swapped' if twin is e else 'swapped-mixed', ref))
                if not all(isdir):
                    ks = [0 if isdir[k] else rng.choice([-17, -9, -1, 1, 6, 20]) for k in range(2)]
                    sc = [[t * Fraction(2) ** ks[k] for t in vecs[k]] for k in range(2)]
                    ins2 = hexes(sc[0]) + hexes(sc[1])
                    reqs.append((e['index'], fmt, ins2, []))
                    info.append((e, ins2, n, mode, 'rescaled by 2^%d and 2^%d' % tuple(ks), ref))
        res, _, _ = ctx.run_native(reqs)
        last = None
        for (e, ins, n, mode, which, ref), r in zip(info, res):
            if which == 'direct':
                last = None
            if r is None or r.get('error'):
                continue
            outs = num_outs(r)
            if not outs:
                continue
            c = outs[0][1]
            bad = None
            if c == 'nan':
                bad = 'is NaN'
            elif c in ('inf', '-inf'):
                bad = 'is infinite'
            else:
                v = co.frac_of_canon(c)
                if v < 0 or v > pis[fmt]:
                    bad = 'is %s, outside [0, Pi<T>]' % c
                else:
                    with mpmath.workprec(400):
                        err = abs(mpmath.mpf(v.numerator) / v.denominator - ref)
                        if err > tol:
                            bad = 'is %.12g but atan2(|a x b|, a.b) of the same inputs is %.12g (off by %.3g rad, ' \
                                  'tolerance %.3g)' % (float(v), float(ref), float(err), float(tol))
            if which == 'direct':
                last = c
            elif bad is None and last is not None and last != c:
                if which == 'swapped':
                    bad = 'is %s but %s with the arguments swapped' % (last, c)
                elif which.startswith('rescaled'):
                    bad = 'is %s but %s with the vector arguments %s' % (last, c, which)
            if bad:
                out.append({'kind': 'c11-angle', 'entry': e['id'], 'fmt': fmt, 'index': e['index'],
                            'inputs': ins, 'arrangement': mode, 'variant': which, 'native_output': c,
                            'what': 'the angle computed by %s for %s non-zero finite vectors %s' % (e['id'], mode, bad)})
                if len(out) >= 4:
                    return out
    return out


def pyfloat_round(x, fmt):
    import pyfloat
    return pyfloat.round_to(x, fmt)


# ---------------------------------------------------------------------------------------------------
# C10
# ---------------------------------------------------------------------------------------------------

def produces_direction(e):
    m = e['meta']
    if m['cls'].startswith(('unit:', 'model:')) or m.get('unit'):
        return False
    if m['kind'] in ('ctor', 'cast-ctor', 'cast-assign') and m['cls'] in ('Direction', 'PlanarDirection'):
        return True
    if m['kind'] in ('method', 'static') and m.get('ret') in ('Direction', 'PlanarDirection'):
        return True
    return m['kind'] == 'mutator' and m['cls'] in ('Direction', 'PlanarDirection') and m.get('name') == 'Set'


def c10_search(ctx, failing, corr, broken):
    """C10 on the real code: unit length to 4 ulps, same sense, exact zero from the zero vector,
    bit-identical under power-of-two rescaling of the input."""
    rng = random.Random(ctx.seed + 10)
    ents = [e for e in ctx.model if produces_direction(e)]
    reqs, info = [], []
    for e in ents:
        for fmt in (32, 64, 80):
            inst = e['instances'][0]
            v = inst['fmts'].get(str(fmt))
            if v is None:
                continue
            n = v['n_in']
            infm = co.input_formats(v['tree'], n, fmt)
            simple = e['meta']['kind'] in ('ctor', 'method', 'mutator') and n in (2, 3) or \
                (e['meta']['kind'] == 'mutator' and n in (4, 6))
            for trial in range(4 if not broken else 12):
                lead = rng.randrange(-100, 100) if fmt != 32 else rng.randrange(-25, 26)
                vals = []
                for i in range(n):
                    s, mm, ee = co.random_value(rng, infm[i], 'moderate')
                    vals.append((s, mm or 1, ee + lead))
                reqs.append((e['index'], fmt, [co.hex_of(*x) for x in vals], []))
                info.append((e, fmt, vals, 'base', n, simple))
                k = rng.randrange(-10, 11)
                sc = [(s, mm, ee + k) for (s, mm, ee) in vals]
                reqs.append((e['index'], fmt, [co.hex_of(*x) for x in sc], []))
                info.append((e, fmt, sc, 'scaled', n, simple))
            if simple and all(f == fmt for f in infm[:n]):
                # the ends of the stated range: squared length a few binades above the smallest normal
                # number and a few binades below overflow (components within 2^±3 of each other)
                pp, emax = co.FMT[fmt]
                emin = 1 - emax
                for end in ('low', 'high'):
                    for trial in range(1 if not broken else 4):
                        base = (emin + 12) // 2 + 1 + rng.randrange(0, 7) if end == 'low' else \
                            (emax - 12) // 2 - rng.randrange(0, 7)
                        vals = [(rng.random() < 0.4, (1 << (pp - 1)) | rng.getrandbits(pp - 1),
                                 base + rng.randrange(-3, 4) - (pp - 1)) for _ in range(n)]
                        reqs.append((e['index'], fmt, [co.hex_of(*x) for x in vals], []))
                        info.append((e, fmt, vals, 'base', n, simple))
                        k = rng.randrange(1, 11) * (1 if end == 'low' else -1)
                        sc = [(s, mm, ee + k) for (s, mm, ee) in vals]
                        reqs.append((e['index'], fmt, [co.hex_of(*x) for x in sc], []))
                        info.append((e, fmt, sc, 'scaled', n, simple))
            zeros = [(False, 0, 0)] * n
            reqs.append((e['index'], fmt, [co.hex_of(*x) for x in zeros], []))
            info.append((e, fmt, zeros, 'zero', n, simple))
    res, _, _ = ctx.run_native(reqs)
    out = []
    last = None
    for (e, fmt, vals, mode, n, simple), r in zip(info, res):
        if r is None or r.get('error'):
            continue
        label = 'self' if e['meta']['kind'] in ('mutator', 'cast-assign') else 'r'
        outs = [c for (l, c) in num_outs(r) if l.startswith(label)]
        if not outs or any(c in ('nan', 'inf', '-inf') for c in outs):
            if mode != 'zero' and outs and e['meta']['kind'] not in ('cast-ctor', 'cast-assign'):
                out.append({'kind': 'c10-nonfinite', 'entry': e['id'], 'fmt': fmt, 'index': e['index'],
                            'inputs': [co.hex_of(*x) for x in vals], 'outputs': outs,
                            'what': '%s returns a non-finite direction for a finite non-zero in-range vector' % e['id']})
            continue
        fr = [co.frac_of_canon(c) for c in outs]
        nn = sum(t * t for t in fr)
        p = co.FMT[fmt][0]
        bad = None
        if mode == 'zero':
            if any(c != '0 0' for c in outs):
                bad = 'the zero vector gives %s, not exactly +0' % outs
        else:
            allzero_in = all(m == 0 for (_, m, _) in vals)
            if nn == 0:
                if simple and not allzero_in and e['meta']['kind'] not in ('cast-ctor', 'cast-assign'):
                    bad = 'a non-zero vector gives the zero direction'
            elif abs(nn - 1) > Fraction(8, 2 ** p) * 2:   # |‖d‖² − 1| ≤ 2·(4 ulp) to first order
                bad = 'squared length is 1 %+.3e, more than four ulps from one' % float(nn - 1)
            if bad is None and simple and e['meta']['kind'] != 'mutator':
                for c, (s, m, ee) in zip(outs, vals[:len(outs)]):
                    if m and (c.startswith('-') != s):
                        bad = 'component %s does not have the sign of the input component' % c
            if mode == 'base':
                last = outs
            elif mode == 'scaled' and bad is None and last is not None and simple and last != outs \
                    and e['meta']['kind'] not in ('cast-ctor', 'cast-assign'):
                bad = 'rescaling the input by a power of two changed the direction from %s to %s' % (last, outs)
        if bad:
            out.append({'kind': 'c10-direction', 'entry': e['id'], 'fmt': fmt, 'index': e['index'],
                        'inputs': [co.hex_of(*x) for x in vals], 'outputs': outs, 'what': '%s: %s' % (e['id'], bad)})
            if len(out) >= 5:
                break
    out += c10_rebuild_search(ctx, rng, broken)
    if failing.get('C17access'):
        # typed component accessors: reuse the accessor search of C17 on the failing rows
        for v in (c17_search(ctx, {'C17access': failing['C17access']}, None, True) or [])[:3]:
            v = dict(v)
            v['kind'] = 'c10-accessor'
            out.append(v)
    return out


def c10_rebuild_search(ctx, rng, broken):
    """Q(q.Magnitude(), q.Direction()) against q, on the real code, for every vector quantity class that has a
    (scalar, direction) constructor: within 8 ulps of the largest component, slot for slot."""
    by_id = ctx.by_id
    dirs = {'Direction': 3, 'PlanarDirection': 2}
    cases = []
    for e in ctx.model:
        m = e['meta']
        if m['kind'] != 'ctor' or len(m['args']) != 2 or m.get('unit'):
            continue
        a, b = m['args']

        def scalar(n_):
            ci = ctx.classes['class_index'].get(n_)
            return bool(ci) and ctx.classes['classes'][ci - 1]['comps'] == 1
        if b in dirs and scalar(a):
            order = 'sd'
        elif a in dirs and scalar(b):
            order = 'ds'
        else:
            continue
        mag = by_id.get('%s::Magnitude()' % m['cls'])
        dr = by_id.get('%s::Direction()' % m['cls']) or by_id.get('%s::PlanarDirection()' % m['cls'])
        if mag is None or dr is None:
            continue
        cases.append((e, mag, dr, order, dirs[b if order == 'sd' else a]))
    out = []
    stage1, meta = [], []
    for (e, mag, dr, order, n) in cases:
        for fmt in (32, 64, 80):
            if str(fmt) not in e['instances'][0]['fmts']:
                continue
            for _ in range(3 if not broken else 10):
                lead = rng.randrange(-20, 20)
                vals = []
                for i in range(n):
                    s_, mm, ee = co.random_value(rng, fmt, 'moderate')
                    vals.append((s_, mm or 1, ee + lead))
                hx = [co.hex_of(*x) for x in vals]
                stage1.append((mag['index'], fmt, hx, []))
                stage1.append((dr['index'], fmt, hx, []))
                meta.append((e, fmt, vals, order, n))
    res1, _, _ = ctx.run_native(stage1)
    stage2, meta2 = [], []
    for k, (e, fmt, vals, order, n) in enumerate(meta):
        rm, rd = res1[2 * k], res1[2 * k + 1]
        if not rm or not rd or rm.get('error') or rd.get('error'):
            continue
        mg = [o['t'] for o in rm['outs'] if o['l'].rsplit(':', 1)[1].startswith('num')]
        dc = [o['t'] for o in rd['outs'] if o['l'].rsplit(':', 1)[1].startswith('num')]
        if len(mg) != 1 or len(dc) != n:
            continue
        args = mg + dc if order == 'sd' else dc + mg
        stage2.append((e['index'], fmt, args, []))
        meta2.append((e, fmt, vals))
    res2, _, _ = ctx.run_native(stage2)
    for (e, fmt, vals), r in zip(meta2, res2):
        if not r or r.get('error'):
            continue
        got = [co.frac_of_canon(c) for (l, c) in num_outs(r) if c not in ('nan', 'inf', '-inf')]
        want = [(-1 if s_ else 1) * Fraction(mm) * Fraction(2) ** ee for (s_, mm, ee) in vals]
        if len(got) != len(want):
            continue
        p_ = co.FMT[fmt][0]
        scale = max(abs(w) for w in want)
        for i, (g, w) in enumerate(zip(got, want)):
            if abs(g - w) > 8 * scale * Fraction(1, 2 ** (p_ - 1)):
                out.append({'kind': 'c10-rebuild', 'entry': e['id'], 'fmt': fmt, 'index': e['index'],
                            'inputs': [co.hex_of(*x) for x in vals], 'slot': i,
                            'what': '%s(q.Magnitude(), q.Direction()) for q = %s gives %.17g in slot %d instead of %.17g' % (
                                e['meta']['cls'], [float(w_) for w_ in want], float(g), i, float(w))})
                break
        if len(out) >= 4:
            break
    return out


# ---------------------------------------------------------------------------------------------------
# text-facing tool (enumerations, numbers, dimensions)
# ---------------------------------------------------------------------------------------------------

def textio(ctx, lines):
    exe = os.path.join(ctx.cache, 'textio')
    env = dict(os.environ, ASAN_OPTIONS='detect_leaks=0')
    import subprocess
    p = subprocess.run([exe], input=''.join(l + '\n' for l in lines), stdout=subprocess.PIPE,
                       stderr=subprocess.PIPE, text=True, env=env)
    out = p.stdout.splitlines()
    return out, p.returncode, p.stderr[-2000:]


def hexs(s):
    b = s.encode('utf-8') if isinstance(s, str) else bytes(s)
    return b.hex() or '-'


# ---------------------------------------------------------------------------------------------------
# C01 / C07: the real code's numbers against the (Python copy of the) unit-symbol oracle
# ---------------------------------------------------------------------------------------------------

def c01_search(ctx, failing, corr, broken):
    """Convert x from every unit to the standard unit and back on the real code; compare with the
    exact answer A_u/A_std * x (affine for degC/degF in Unit::Temperature) to 16 ulps."""
    import oracle
    rng = random.Random(ctx.seed + 1)
    by_id = ctx.by_id
    out, reqs, info = [], [], []
    for u in ctx.tables['units']:
        short = u['name'].split('::')[1]
        conv = by_id.get('unit::Convert<%s>(num)' % short)
        if conv is None:
            continue
        ab = {v: a for v, a in u['abbreviations']}
        std = u['standard']
        rs = oracle.readings(ab[std], u['dims'])
        if not rs:
            out.append({'kind': 'c01-oracle', 'what': 'standard unit %s of %s has no reading with the declared dimensions' % (ab[std], u['name'])})
            continue
        As = oracle.value(rs[0])
        for name, v in u['enumerators']:
            ru = oracle.readings(ab.get(v, ''), u['dims'])
            if not ru:
                out.append({'kind': 'c01-oracle', 'unit': name, 'unit_type': u['name'], 'symbol': ab.get(v),
                            'what': 'unit symbol %r of %s::%s does not expand to the dimensions the type declares' % (ab.get(v), u['name'], name)})
                continue
            A = oracle.value(ru[0]) / As
            off = None
            if u['name'] == 'Unit::Temperature' and ab[v] in ('°C', '°F'):
                off = Fraction(27315, 100) if ab[v] == '°C' else Fraction(45967, 100)
            for fmt in (32, 64, 80):
                for _ in range(2 if not broken else 5):
                    x = co.random_value(rng, fmt, 'moderate')
                    x = (x[0], x[1] or 1, x[2])
                    reqs.append((conv['index'], fmt, [co.hex_of(*x)], [v, std]))
                    info.append((u, name, v, ab[v], fmt, x, A, off, 'to'))
                    reqs.append((conv['index'], fmt, [co.hex_of(*x)], [std, v]))
                    info.append((u, name, v, ab[v], fmt, x, A, off, 'from'))
    res, _, _ = ctx.run_native(reqs)
    for (u, name, v, sym, fmt, x, A, off, direction), r in zip(info, res):
        if r is None or r.get('error'):
            continue
        c = num_outs(r)[0][1]
        xv = _val(x)
        if direction == 'to':
            want = A * (xv + off) if off is not None else A * xv
            scale = abs(A * xv) + (abs(A * off) if off is not None else 0)
        else:
            want = xv / A - off if off is not None else xv / A
            scale = abs(xv / A) + (abs(off) if off is not None else 0)
        if c in ('nan', 'inf', '-inf'):
            bad = True
        else:
            bad = abs(co.frac_of_canon(c) - want) > scale * Fraction(16, 2 ** co.FMT[fmt][0])
        if bad:
            out.append({'kind': 'c01-factor', 'unit_type': u['name'], 'unit': name, 'symbol': sym, 'fmt': fmt,
                        'direction': 'unit -> standard' if direction == 'to' else 'standard -> unit',
                        'input': co.hex_of(*x), 'native_output': c, 'exact_answer': float(want),
                        'factor_implied_by_symbol': float(A),
                        'what': 'Convert(%s, %s) on the real code gives %s; the factor implied by the symbol "%s" gives %r' % (
                            co.hex_of(*x), ('%s -> standard' % name) if direction == 'to' else ('standard -> %s' % name),
                            c, sym, float(want))})
            if len(out) >= 6:
                break
    return out


def c01_correspond(ctx):
    sel = [e for e in ctx.model if e['meta']['kind'] in ('static-kernel', 'map-kernel')]
    return co.correspond(ctx.cache, LEAN, sel, ctx.seed + 1, per_entry=1 if ctx.tier == 'quick' else 20)


def c07_search(ctx, failing, corr, broken):
    import oracle
    out = []
    units = {u['name']: u for u in ctx.tables['units']}
    base = ['Unit::Time', 'Unit::Length', 'Unit::Mass', 'Unit::ElectricCurrent', 'Unit::Temperature', 'Unit::SubstanceAmount']
    systems = [x[1] for x in [e for e in ctx.tables['enums'] if e['name'] == 'UnitSystem'][0]['enumerators']]
    sysname = {x[1]: x[0] for x in [e for e in ctx.tables['enums'] if e['name'] == 'UnitSystem'][0]['enumerators']}

    def mag(u, v):
        ab = {k: a for k, a in u['abbreviations']}
        r = oracle.readings(ab.get(v, ''), u['dims'])
        return oracle.value(r[0]) if r else None
    for u in ctx.tables['units']:
        cons = {s: v for s, v in u['consistent']}
        ens = {x[1]: x[0] for x in u['enumerators']}
        for s in systems:
            if s not in cons:
                out.append({'kind': 'c07-missing', 'unit_type': u['name'], 'system': sysname[s],
                            'what': 'ConsistentUnit<%s>(%s) is missing (std::map::at throws)' % (u['name'], sysname[s])})
                continue
            if u['dims'][6] != 0:
                continue
            want = Fraction(1)
            ok = True
            for bn, ex in zip(base, u['dims'][:6]):
                bu = units[bn]
                bc = {a: b for a, b in bu['consistent']}
                mv = mag(bu, bc.get(s))
                if mv is None:
                    ok = False
                    break
                want *= mv ** ex if ex >= 0 else 1 / mv ** (-ex)
            got = mag(u, cons[s])
            if ok and got is not None and got != want:
                out.append({'kind': 'c07-incoherent', 'unit_type': u['name'], 'system': sysname[s],
                            'consistent_unit': ens.get(cons[s]), 'its_SI_magnitude': float(got),
                            'product_of_base_units': float(want),
                            'what': 'ConsistentUnit<%s>(%s) = %s has SI magnitude %r, but the product of that system\'s '
                                    'base units raised to the type\'s dimensions is %r' % (
                                        u['name'], sysname[s], ens.get(cons[s]), float(got), float(want))})
        if cons.get(ctx.tables['standard_unit_system']) != u['standard']:
            out.append({'kind': 'c07-standard', 'unit_type': u['name'],
                        'what': 'the standard system\'s consistent unit of %s is not its standard unit' % u['name']})
        rel = {a: b for a, b in u['related']}
        for name, v in [(x[0], x[1]) for x in u['enumerators']]:
            owners = [s for s in systems if cons.get(s) == v]
            if (v in rel and owners != [rel[v]]) or (v not in rel and len(owners) == 1):
                out.append({'kind': 'c07-related', 'unit_type': u['name'], 'unit': name,
                            'related_system': sysname.get(rel.get(v)), 'consistent_unit_of': [sysname[s] for s in owners],
                            'what': 'RelatedUnitSystem(%s::%s) is %s but the unit is the consistent unit of %s' % (
                                u['name'], name, sysname.get(rel.get(v)), [sysname[s] for s in owners])})
    if broken and len(out) < 8:
        # the code's own constants: C01's search, kept for the consistent units
        consistent = {(u['name'], dict((x[1], x[0]) for x in u['enumerators']).get(v))
                      for u in ctx.tables['units'] for _, v in u['consistent']}
        for v in c01_search(ctx, failing, corr, broken) or []:
            if (v.get('unit_type'), v.get('unit')) in consistent or v.get('unit') is None:
                v = dict(v)
                v['kind'] = 'c07-magnitude'
                out.append(v)
    return out[:8]


def c06_correspond(ctx):
    """The hand-written Lean model of the Dimensions class (Props/C06.lean: DimModel.print / cmp / hash)
    against the real class (textio `dims`), on every tuple of a small box and random int8 tuples."""
    import itertools
    rng = random.Random(ctx.seed + 6)
    box = list(itertools.product((-1, 0, 1), repeat=7))
    tuples = list(box)
    if ctx.tier != 'quick':
        tuples += [tuple(rng.randrange(-3, 4) for _ in range(7)) for _ in range(6000)]
    tuples += [tuple(rng.choice((-128, -127, -2, -1, 0, 0, 1, 2, 3, 127)) for _ in range(7)) for _ in range(400)]
    pairs = []
    for a in tuples:
        b = list(a)
        k = rng.randrange(0, 8)
        for i in range(k, 7):
            b[i] = rng.choice((-2, -1, 0, 1, 2))
        pairs.append((a, tuple(b)))
    outl, rc, err = textio(ctx, ['dims %s %s' % (' '.join(map(str, a)), ' '.join(map(str, b))) for a, b in pairs])
    # the Lean model on the same pairs
    lit = ', '.join('([%s], [%s])' % (', '.join('(%d)' % x for x in a), ', '.join('(%d)' % x for x in b)) for a, b in pairs)
    import subprocess
    pm = subprocess.run(['lake', 'env', 'lean', '--run', 'DimDriver.lean'], cwd=LEAN,
                        input=''.join('%s %s\n' % (' '.join(map(str, a)), ' '.join(map(str, b))) for a, b in pairs),
                        stdout=subprocess.PIPE, stderr=subprocess.PIPE, text=True)
    model = [tuple(l.split('\t')) for l in pm.stdout.splitlines() if l.count('\t') == 3]
    dis = []
    ops = {0: '011010', 1: '100011', 2: '010101'}   # == != < > <= >= for lt / eq / gt
    for (a, b), got, mod in zip(pairs, outl, model):
        parts = got.split()
        if len(parts) < 7:
            dis.append({'id': 'Dimensions', 'fmt': 0, 'detail': 'real code: ' + got, 'native': got, 'lean': mod,
                        'native_request': str(a), 'lean_request': str(b)})
            continue
        real_print = bytes.fromhex(parts[0]).decode('utf-8') if parts[0] != '-' else ''
        mprint = mod[0]
        want_ops = ops[int(mod[1])]
        if real_print != mprint or parts[4] != want_ops or parts[5] != mod[2] or parts[6] != mod[3]:
            dis.append({'id': 'Dimensions', 'fmt': 0,
                        'detail': '%s vs %s: real print %r ops %s hashes %s %s; model print %r ops %s hashes %s %s' % (
                            a, b, real_print, parts[4], parts[5], parts[6], mprint, want_ops, mod[2], mod[3]),
                        'native': got, 'lean': mod, 'native_request': str(a), 'lean_request': str(b)})
    crashes = [] if rc == 0 and len(outl) == len(pairs) and len(model) == len(pairs) else [
        {'returncode': rc, 'stderr': err, 'real_lines': len(outl), 'model_lines': len(model)}]
    return {'lines': len(pairs), 'slots_exact': 4 * len(pairs), 'slots_libm': 0, 'disagreements': dis,
            'crashes': crashes, 'exponent_histogram': {'box {-1,0,1}^7 exhaustive': len(box), 'other': len(pairs) - len(box)},
            'sample_lines': [{'request': 'dims %s %s' % pairs[5], 'native': outl[5] if len(outl) > 5 else None,
                              'lean': model[5] if len(model) > 5 else None}]}


def c06_search(ctx, failing, corr, broken):
    out = []
    for d in (corr or {}).get('disagreements', [])[:5]:
        out.append({'kind': 'c06-dimensions', 'what': 'Dimensions ' + d['detail'], 'tuples': [d['native_request'], d['lean_request']]})
    if broken and not out:
        snippet = ('def str (l : List Nat) : String := String.ofList (l.map Char.ofNat)\n'
                   '#eval unitTypes.flatMap fun u => (u.abbreviations.filter fun a => (magnitudeOf u a.1).isNone).map '
                   'fun a => (u.name, str a.2, u.dims.toList, (Symbol.expand a.2).map (fun m => m.d.toList))\n'
                   '#eval (classes.filter (fun c => !checkClassDims unitTypes c)).map (fun c => (c.name, c.dims.map (·.toList)))\n')
        txt = cl.lean_eval(snippet, ['PhQVerif.Core.UnitCheck', 'PhQVerif.Generated.Tables'])
        for m in re.finditer(r'\("(Unit::\w+)", "((?:[^"\\]|\\.)*)", (\[[^\]]*\]), (\[.*?\])\)', txt):
            out.append({'kind': 'c06-unit-dimensions', 'unit_type': m.group(1), 'unit_symbol': m.group(2),
                        'declared_dimension_set_TLMIΘNJ': m.group(3), 'dimensions_of_the_symbol': m.group(4),
                        'what': '%s declares the dimension set %s but its unit %s expands to %s' % (
                            m.group(1), m.group(3), m.group(2), m.group(4))})
        for m in re.finditer(r'\("(\w+)", (none|some \[[^\]]*\])\)', txt):
            out.append({'kind': 'c06-class-dimensions', 'class': m.group(1), 'reported': m.group(2),
                        'what': 'PhQ::%s::Dimensions() is %s, not the set of its unit type' % (m.group(1), m.group(2))})
    return out


def c08_search(ctx, failing, corr, broken):
    """Ask the Lean oracle which spellings do not denote the magnitude of the enumerator they map to,
    and confirm each on the real ParseEnumeration / Abbreviation."""
    out = []
    snippet = (
        'def str (l : List Nat) : String := String.ofList (l.map Char.ofNat)\n'
        '#eval unitTypes.flatMap fun u => (u.spellings.filter fun s => match magnitudeOf u s.2 with '
        '| none => true | some m => !(Symbol.readings u.dims s.1).any (Symbol.sameMagnitude m)).map fun s => '
        '(u.name, str s.1, s.2, (Symbol.readings u.dims s.1).map (fun m => (m.num, m.den, m.k)), '
        '(magnitudeOf u s.2).map (fun m => (m.num, m.den, m.k)))\n')
    txt = cl.lean_eval(snippet, ['PhQVerif.Core.UnitCheck', 'PhQVerif.Generated.Tables'])
    rows = re.findall(r'\("(Unit::\w+)", "((?:[^"\\]|\\.)*)", (\d+), (\[[^\]]*\]), (none|some \([^)]*\))\)', txt)
    tables = {u['name']: u for u in ctx.tables['units']}
    # holes in the tables themselves (the library's real table objects, dumped by iteration)
    for u in ctx.tables['units'] + ctx.tables['enums']:
        names = {val: nm for nm, val in u['enumerators']}
        ab = {k for k, _ in u['abbreviations']}
        for val, nm in sorted(names.items()):
            missing = []
            if val not in ab:
                missing.append('Abbreviations')
            for f in (32, 64, 80):
                mp = u.get('map%d' % f)
                if mp is not None:
                    if val not in mp['to']:
                        missing.append('MapOfConversionsToStandard<%s>' % {32: 'float', 64: 'double', 80: 'long double'}[f])
                    if val not in mp['from']:
                        missing.append('MapOfConversionsFromStandard<%s>' % {32: 'float', 64: 'double', 80: 'long double'}[f])
            if missing:
                out.append({'kind': 'c08-table-hole', 'unit_type': u['name'], 'enumerator': nm, 'missing_from': missing,
                            'what': 'enumerator %s::%s has no entry in %s: the unchecked find()->second on that table '
                                    'dereferences end() for it' % (u['name'], nm, ', '.join(missing))})
    # every abbreviation must parse back to its own enumerator (tables dumped from the real objects; confirmed on
    # the real ParseEnumeration)
    for u in ctx.tables['units'] + ctx.tables['enums']:
        names = {val: nm for nm, val in u['enumerators']}
        spell = {}
        for sp_, val in u.get('spellings', []):
            spell.setdefault(sp_, val)
        for val, ab_ in u['abbreviations']:
            if spell.get(ab_) != val:
                lines, rc, err = textio(ctx, ['enum %s %s' % (u['name'], hexs(ab_))])
                out.append({'kind': 'c08-abbreviation-roundtrip', 'unit_type': u['name'], 'enumerator': names.get(val),
                            'abbreviation': ab_, 'abbreviation_bytes': ab_.encode('utf-8').hex(),
                            'real_ParseEnumeration': lines[0] if lines else None,
                            'table_says': names.get(spell.get(ab_)) if ab_ in spell else None,
                            'what': 'PhQ::ParseEnumeration<%s>(Abbreviation(%s)) = ParseEnumeration("%s") is %s, not %s: '
                                    'a printed unit does not parse back' % (
                                        u['name'], names.get(val), ab_,
                                        names.get(spell.get(ab_)) if ab_ in spell else 'nothing', names.get(val))})
    for (tname, sp, v, reads, want) in rows:
        sp = bytes(sp, 'utf-8').decode('unicode_escape').encode('latin-1').decode('utf-8') if '\\' in sp else sp
        lines, rc, err = textio(ctx, ['enum %s %s' % (tname, hexs(sp)), 'abbr %s %s' % (tname, v)])
        abbr = bytes.fromhex(lines[1].split()[0]).decode('utf-8') if len(lines) > 1 and lines[1].split()[0] != '-' else ''
        ens = {x[1]: x[0] for x in tables[tname]['enumerators']}
        if want == 'none' or reads.strip() == '[]':
            # the oracle cannot expand the enumerator's own symbol or the spelling (a token it does not know): it
            # cannot judge, which is not the same as a wrong spelling
            out.append({'kind': 'c08-unknown-symbol', 'unit_type': tname, 'spelling': sp, 'parses_to': ens.get(int(v)),
                        'abbreviation_of_that_enumerator': abbr, 'failing_input_found': False,
                        'what': 'the unit-symbol oracle cannot read %r or the symbol %r of %s::%s (a token missing from '
                                'Core/Atoms.lean): the spelling cannot be judged' % (sp, abbr, tname, ens.get(int(v)))})
            continue
        out.append({'kind': 'c08-spelling', 'unit_type': tname, 'spelling': sp,
                    'real_ParseEnumeration': lines[0] if lines else None,
                    'parses_to': ens.get(int(v)), 'abbreviation_of_that_enumerator': abbr,
                    'oracle_readings_of_spelling(num,den,pi_power)': reads,
                    'oracle_magnitude_of_enumerator': want,
                    'what': 'PhQ::ParseEnumeration<%s>("%s") is %s (%s), but the spelling denotes a different '
                            'magnitude' % (tname, sp, ens.get(int(v)), abbr)})
    return out


def c08_correspond(ctx):
    """Real unordered_map::find / Abbreviation / operator<< against the table model: every key, every key
    with one byte mutated / inserted / deleted, random byte strings."""
    rng = random.Random(ctx.seed + 8)
    lines, expect = [], []
    allenums = ctx.tables['units'] + ctx.tables['enums']
    nostream = []
    for u in allenums:
        sp = {s: v for s, v in u['spellings']}
        keys = list(sp)
        cases = list(keys)
        nm = 2 if ctx.tier == 'quick' else 12
        for k in keys:
            b = k.encode('utf-8')
            for _ in range(nm):
                r = rng.random()
                if r < 0.34 and b:
                    i = rng.randrange(len(b)); m = b[:i] + bytes([rng.randrange(256)]) + b[i + 1:]
                elif r < 0.67:
                    i = rng.randrange(len(b) + 1); m = b[:i] + bytes([rng.randrange(1, 256)]) + b[i:]
                elif b:
                    i = rng.randrange(len(b)); m = b[:i] + b[i + 1:]
                else:
                    m = b'x'
                cases.append(m)
        for _ in range(20):
            cases.append(bytes(rng.randrange(256) for _ in range(rng.randrange(0, 12))))
        for c in cases:
            b = c.encode('utf-8') if isinstance(c, str) else c
            try:
                key = b.decode('utf-8')
            except UnicodeDecodeError:
                key = None
            lines.append('enum %s %s' % (u['name'], hexs(b)))
            expect.append(('enum', u['name'], b, sp.get(key) if key is not None else None))
        ab = {v: a for v, a in u['abbreviations']}
        for name, v in u['enumerators']:
            lines.append('abbr %s %d' % (u['name'], v))
            expect.append(('abbr', u['name'], v, ab.get(v)))
    outl, rc, err = textio(ctx, lines)
    dis = []
    for (kind, tname, x, want), got in zip(expect, outl):
        if kind == 'enum':
            w = 'none' if want is None else 'some %d' % want
            if got != w:
                dis.append({'id': 'ParseEnumeration<%s>' % tname, 'fmt': 0, 'detail': 'bytes %s: real %s, table model %s' % (
                    x.hex(), got, w), 'native_request': '', 'lean_request': '', 'native': got, 'lean': w})
        else:
            parts = got.split()
            a = bytes.fromhex(parts[0]).decode('utf-8') if parts and parts[0] != '-' else ''
            if a != (want or ''):
                dis.append({'id': 'Abbreviation<%s>' % tname, 'fmt': 0, 'detail': 'enumerator %s: real %r, table %r' % (x, a, want),
                            'native_request': '', 'lean_request': '', 'native': got, 'lean': want})
            elif len(parts) > 1 and parts[1] == 'no-operator<<':
                nostream.append(tname)
            elif len(parts) > 1 and parts[1] != parts[0]:
                dis.append({'id': 'operator<<(%s)' % tname, 'fmt': 0, 'detail': 'enumerator %s streams differently from its abbreviation' % x,
                            'native_request': '', 'lean_request': '', 'native': got, 'lean': want})
    crashes = [] if rc == 0 and len(outl) == len(lines) else [{'returncode': rc, 'stderr': err}]
    return {'lines': len(lines), 'slots_exact': len(lines), 'slots_libm': 0, 'disagreements': dis, 'crashes': crashes,
            'exponent_histogram': {}, 'sample_lines': [{'request': lines[0], 'native': outl[0] if outl else None}],
            'no_stream_operator': sorted(set(nostream))}


def c08_extra(ctx):
    """The one part of C08's statement the tree does not provide at all."""
    lines, rc, err = textio(ctx, ['abbr ConstitutiveModel::Type 0'])
    v = []
    if lines and lines[0].endswith('no-operator<<'):
        v.append({'kind': 'c08-no-stream-operator', 'enum': 'ConstitutiveModel::Type',
                  'what': 'ConstitutiveModel::Type has no operator<<: its enumerators cannot be streamed at all',
                  'failing_input_found': True})
    return {'violations': v}


# ---------------------------------------------------------------------------------------------------
# C15: printing
# ---------------------------------------------------------------------------------------------------

def _ceil_fmt(q, fmt):
    """Smallest positive value of the format that is >= the rational q, as (m, e) with m of p bits."""
    import math
    p, _ = pf.FMT[fmt]
    e = q.numerator.bit_length() - q.denominator.bit_length()
    while Fraction(2) ** e > q:
        e -= 1
    while Fraction(2) ** (e + 1) <= q:
        e += 1
    sc = Fraction(2) ** (e - (p - 1))
    m = math.ceil(q / sc)
    if m == 1 << p:
        m >>= 1
        e += 1
    return m, e - (p - 1)


def _norm(m, e, fmt):
    p, _ = pf.FMT[fmt]
    while m.bit_length() < p:
        m <<= 1
        e -= 1
    return m, e


def _step(m, e, k, fmt):
    """k-th neighbour (k may be negative) of the normal number m*2^e (m of p bits)."""
    p, _ = pf.FMT[fmt]
    for _ in range(abs(k)):
        if k > 0:
            m += 1
            if m == 1 << p:
                m >>= 1
                e += 1
        else:
            if m == 1 << (p - 1):
                m = (1 << p) - 1
                e -= 1
            else:
                m -= 1
    return m, e


def print_inputs(ctx, n_near, n_rand):
    """(fmt, neg, m, e) values: neighbourhoods of every cascade threshold, a log-uniform stream over the
    printable range, random bit patterns over the whole exponent range, extremes."""
    rng = random.Random(ctx.seed + 15)
    vals = []
    for fmt in (32, 64, 80):
        p, emax = pf.FMT[fmt]
        cents = []
        for k in range(-3, 5):
            q = Fraction(10) ** k
            cents.append(_ceil_fmt(q, fmt))
            if k < 0:   # the double literal of the source, as seen by this format
                d = pf.round_to(q, 64)
                cents.append(_ceil_fmt(d, fmt))
        for (m, e) in cents:
            for k in range(-n_near, n_near + 1):
                mm, ee = _step(m, e, k, fmt)
                vals.append((fmt, rng.random() < 0.3, mm, ee))
        for _ in range(n_rand):
            ex = rng.uniform(-7, 8)
            q = Fraction(10) ** int(ex) * Fraction(rng.getrandbits(70) | (1 << 70), 1 << 70)
            r = pf.round_to(q, fmt)
            m, e = _norm(r.numerator, -(r.denominator.bit_length() - 1), fmt)
            vals.append((fmt, rng.random() < 0.3, m, e))
        for _ in range(n_rand):
            m = (1 << (p - 1)) | rng.getrandbits(p - 1)
            e = rng.randrange(1 - emax, emax + 1) - (p - 1)
            vals.append((fmt, rng.random() < 0.3, m, e))
        vals += [(fmt, False, 0, 0), (fmt, True, 0, 0), (fmt, False, 1 << (p - 1), 1 - emax - (p - 1)),
                 (fmt, False, (1 << p) - 1, emax - (p - 1)), (fmt, True, 1 << (p - 1), -(p - 1))]
    return vals


def run_print_driver(lines):
    import subprocess
    pm = subprocess.run(['lake', 'env', 'lean', '--run', 'PrintDriver.lean'], cwd=LEAN,
                        input=''.join(l + '\n' for l in lines), stdout=subprocess.PIPE, stderr=subprocess.PIPE,
                        text=True)
    if pm.returncode != 0:
        raise co.HarnessError('PrintDriver failed: ' + pm.stderr[-2000:])
    return pm.stdout.splitlines()


def real_print(ctx, items):
    """items: [(fmt, neg, m, e)] -> texts of PhQ::Print on the real code."""
    outl, rc, err = textio(ctx, ['print %d %s' % (f, co.hex_of(n, m, e)) for (f, n, m, e) in items])
    if rc != 0 or len(outl) != len(items):
        raise co.HarnessError('textio print failed rc=%s: %s' % (rc, err))
    return [bytes.fromhex(h).decode('utf-8', 'replace') if h != '-' else '' for h in outl]


def str_printer(ctx):
    def f(keys):
        items = []
        for (fmt, t) in keys:
            if t in ('nan', 'inf', '-inf') or t.startswith('libm'):
                items.append(None)
                continue
            ms, es = t.split()
            items.append((fmt, ms.startswith('-'), abs(int(ms)), int(es)))
        texts = real_print(ctx, [i for i in items if i is not None])
        it = iter(texts)
        return {k: next(it) for k, i in zip(keys, items) if i is not None}
    return f


def is_serial_entry(e):
    m = e['meta']
    return (m['kind'] == 'method' and m.get('name') in ('Print', 'JSON', 'XML', 'YAML')) or m['kind'] == 'stream'


def c15_correspond(ctx):
    quick = ctx.tier == 'quick'
    # (a) the number printer: model text == real text; real parse-back == x; model parse of random decimals
    vals = print_inputs(ctx, 30 if quick else 900, 250 if quick else 6000)
    texts = real_print(ctx, vals)
    model = run_print_driver(['p %d %s' % (f, co.lean_tok(n, m, e)) for (f, n, m, e) in vals])
    dis = []
    for v, t, ml in zip(vals, texts, model):
        mt = ml.split('\t')[0]
        if mt != t:
            dis.append({'id': 'PhQ::Print', 'fmt': v[0], 'detail': 'Print(%s): real %r, model %r' % (co.hex_of(*v[1:]), t, mt),
                        'native_request': 'print %d %s' % (v[0], co.hex_of(*v[1:])),
                        'lean_request': 'p %d %s' % (v[0], co.lean_tok(*v[1:])), 'native': t, 'lean': ml, 'value': v})
    rng = random.Random(ctx.seed + 151)
    decs = []
    for _ in range(200 if quick else 4000):
        nd = rng.randrange(1, 26)
        digits = ''.join(rng.choice('0123456789') for _ in range(nd))
        pos = rng.randrange(0, nd + 1)
        body = (digits[:pos] or '0') + ('.' + digits[pos:] if pos < nd else '')
        if rng.random() < 0.6:
            body += 'e%+d' % rng.randrange(-45, 45)
        decs.append((rng.choice((32, 64, 80)), ('-' if rng.random() < 0.3 else '') + body))
    outl, rc, err = textio(ctx, ['num %d %s' % (f, hexs(t)) for f, t in decs])
    mparse = run_print_driver(['n %d %s' % (f, t) for f, t in decs])
    for (f, t), real, mod in zip(decs, outl, mparse):
        rc_ = 'none' if not real.startswith('some ') else co.canon_of_hex(real[5:])
        if rc_ != mod:
            dis.append({'id': 'PhQ::ParseNumber', 'fmt': f, 'detail': 'ParseNumber<%d>(%r): real %s, model %s' % (f, t, rc_, mod),
                        'native_request': 'num %d %s' % (f, hexs(t)), 'lean_request': 'n %d %s' % (f, t),
                        'native': real, 'lean': mod})
    res = {'lines': len(vals) + len(decs), 'slots_exact': len(vals) + len(decs), 'slots_libm': 0,
           'disagreements': dis, 'crashes': [] if len(model) == len(vals) and len(mparse) == len(decs) else [
               {'model_lines': len(model), 'wanted': len(vals)}],
           'exponent_histogram': {'print values': len(vals), 'decimal texts parsed': len(decs)},
           'sample_lines': [{'request': 'p %d %s' % (vals[3][0], co.lean_tok(*vals[3][1:])), 'lean': model[3] if len(model) > 3 else None,
                             'native': texts[3]}]}
    # (b) composite forms: the traced strings, with the real printer's text substituted, against the real strings
    sel = [e for e in ctx.model if not e['meta']['cls'].startswith(('unit:', 'model:')) and is_serial_entry(e)]
    if quick:
        r2 = random.Random(ctx.seed + 152)
        keep = [e for e in sel if not e['meta'].get('unit')]
        rest = [e for e in sel if e['meta'].get('unit')]
        sel = keep + r2.sample(rest, min(len(rest), 250))
    comp = co.correspond(ctx.cache, LEAN, sel, ctx.seed + 153, per_entry=1 if quick else 4,
                         str_printer=str_printer(ctx))
    res['lines'] += comp['lines']
    res['slots_exact'] += comp['slots_exact']
    res['disagreements'] += comp['disagreements']
    res['crashes'] += comp['crashes']
    res['exponent_histogram']['composite-form lines'] = comp['lines']
    return res


def build_printsweep(ctx):
    import subprocess
    src = os.path.join(cl.VERIF, 'harness', 'printsweep.cpp')
    exe = os.path.join(ctx.cache, 'printsweep')
    if not os.path.exists(exe) or os.path.getmtime(exe) < os.path.getmtime(src):
        p = subprocess.run(['g++', '-std=c++17', '-O2', '-fno-fast-math', '-ffp-contract=off', '-w', '-I', '/repo/include',
                            src, '-o', exe], stdout=subprocess.PIPE, stderr=subprocess.STDOUT, text=True)
        if p.returncode != 0:
            raise co.HarnessError('printsweep does not compile: ' + p.stdout[-3000:])
    return exe


def c15_classify(fmt, hexval):
    """Is the failing long double inside one of the gaps [10^-k, (double)10^-k)?"""
    x = abs(sexpr.hex_to_fraction(hexval))
    for k in (1, 2, 3):
        lo = Fraction(1, 10 ** k)
        hi = pf.round_to(lo, 64)
        if lo <= x < hi:
            return 'long-double-in-[10^-%d,(double)10^-%d)' % (k, k)
    return 'elsewhere'


def c15_search(ctx, failing, corr, broken):
    """Sweep the real PhQ::Print / ParseNumber: digit count, notation, parse-back identity. Quick: threshold
    neighbourhoods and random values in all three types; thorough: all 2^32 float patterns as well."""
    import subprocess
    from concurrent.futures import ThreadPoolExecutor
    exe = build_printsweep(ctx)
    tail = []
    for k in (1, 2, 3):
        m, e = _ceil_fmt(Fraction(1, 10 ** k), 80)
        tail.append('0x%xp%d' % (m, e))
    quick = ctx.tier == 'quick'
    jobs = []
    for fmt in (32, 64, 80):
        jobs.append(['near', str(fmt), '1200' if quick else '20000'])
        for j in range(2 if quick else 8):
            jobs.append(['random', str(fmt), str(ctx.seed * 100 + j), '150000' if quick else '2000000'])
    if not quick:
        step = 1 << 26
        for lo in range(0, 1 << 32, step):
            jobs.append(['range', hex(lo), hex(lo + step)])

    def run(job):
        p = subprocess.run([exe] + job + tail, stdout=subprocess.PIPE, stderr=subprocess.PIPE, text=True)
        return job, p.returncode, p.stdout
    with ThreadPoolExecutor(max_workers=16) as ex:
        results = list(ex.map(run, jobs))
    out = []
    seen = set()
    totals = {'checked': 0, 'digits': 0, 'notation': 0, 'roundtrip': 0, 'zero': 0}
    for job, rc, txt in results:
        if rc != 0 or 'DONE' not in txt:
            out.append({'kind': 'c15-sweep-crash', 'job': job, 'returncode': rc, 'what': 'printsweep died: ' + txt[-500:]})
            continue
        for line in txt.splitlines():
            if line.startswith('DONE'):
                for kv in line.split()[2:]:
                    k, v = kv.split('=')
                    totals[k] += int(v)
            elif line.startswith('FAIL'):
                _, kind, fmt, hx, text = line.split(' ', 4)
                where = c15_classify(int(fmt), hx)
                key = (kind, fmt, where)
                if key in seen:
                    continue
                seen.add(key)
                out.append({'kind': 'c15-' + kind, 'fmt': int(fmt), 'where': where, 'value': hx, 'printed': text,
                            'what': 'PhQ::Print(%s) at %s bits gives %r: wrong %s' % (hx, fmt, text, {
                                'digits': 'number of significant digits', 'notation': 'notation for its interval',
                                'roundtrip': '(does not parse back to the same number)', 'zero': 'text for zero'}[kind]),
                            'replay_cmd': 'printsweep near %s 2000' % fmt})
    ctx.c15_totals = totals
    out += c15_composite_search(ctx, failing)
    for d in (corr or {}).get('disagreements', [])[:3]:
        if d['id'].startswith('PhQ::'):
            continue
        out.append({'kind': 'c15-composite', 'entry': d['id'], 'fmt': d['fmt'], 'what': d['detail'],
                    'native_request': d['native_request']})
    return out


COMP_NAMES_C15 = {2: ['x', 'y'], 3: ['x', 'y', 'z'], 6: ['xx', 'xy', 'xz', 'yy', 'yz', 'zz'],
                  9: ['xx', 'xy', 'xz', 'yx', 'yy', 'yz', 'zx', 'zy', 'zz']}


def py_template(form, n, abbr, nums):
    """The text a serialisation must be (Python copy of Serial.template, for the search only)."""
    if n == 1:
        inner = nums[0]
    else:
        names = COMP_NAMES_C15[n]
        if form == 'Print':
            s_ = ''
            for i in range(n):
                sep = '(' if i == 0 else ('; ' if (n == 6 and i in (3, 5)) or (n == 9 and i in (3, 6)) else ', ')
                s_ += sep + nums[i]
            inner = s_ + ')'
        elif form == 'JSON':
            inner = '{' + ','.join('"%s":%s' % (nm, x) for nm, x in zip(names, nums)) + '}'
        elif form == 'XML':
            inner = ''.join('<%s>%s</%s>' % (nm, x, nm) for nm, x in zip(names, nums))
        else:
            inner = '{' + ','.join('%s:%s' % (nm, x) for nm, x in zip(names, nums)) + '}'
    if abbr is None:
        return inner
    return {'Print': '%s %s', 'JSON': '{"value":%s,"unit":"%s"}', 'XML': '<value>%s</value><unit>%s</unit>',
            'YAML': '{value:%s,unit:"%s"}'}[form] % (inner, abbr)


def c15_composite_search(ctx, failing):
    """For serialisation entries whose template obligation failed: the real strings on random distinct values
    against the template filled with the real printer's text of Value(unit)."""
    rows = (failing.get('C15serial') or []) + (failing.get('C15stream') or [])
    if not rows:
        return []
    rng = random.Random(ctx.seed + 154)
    by_id = ctx.by_id
    units = {u['name']: u for u in ctx.tables['units']}
    out, reqs, meta = [], [], []
    for (eid, bits) in rows[:40]:
        eid = eid.encode().decode('unicode_escape') if '\\' in eid else eid
        e = by_id.get(eid)
        if e is None:
            continue
        m = e['meta']
        fmt = int(bits)
        v = e['instances'][0]['fmts'].get(str(fmt))
        if v is None:
            continue
        form = m.get('name') if m['kind'] == 'method' else 'Print'
        vid = '%s::Value(UnitType)[%s]' % (m['cls'], m['unit']) if m.get('unit') else '%s::Value()' % m['cls']
        ve = by_id.get(vid)
        n = v['n_in']
        vals = []
        for i in range(n):
            s_, mm, ee = co.random_value(rng, fmt, 'moderate')
            vals.append((s_, (mm or 1) + 2 * i, ee))
        hx = [co.hex_of(*x) for x in vals]
        reqs.append((e['index'], fmt, hx, []))
        reqs.append(((ve or e)['index'], fmt, hx, []))
        meta.append((e, ve, fmt, form, hx, n))
    res, _, _ = ctx.run_native(reqs)
    for k, (e, ve, fmt, form, hx, n) in enumerate(meta):
        rs, rv = res[2 * k], res[2 * k + 1]
        if not rs or rs.get('error'):
            continue
        real = next((o['t'] for o in rs['outs'] if o['l'].endswith(':str')), None)
        if real is None:
            continue
        if ve is not None and rv and not rv.get('error'):
            comps = [o['t'] for o in rv['outs'] if o['l'].rsplit(':', 1)[1].startswith('num')]
        else:
            comps = hx
        items = []
        for c in comps:
            cn = co.canon_of_hex(c)
            if cn in ('nan', 'inf', '-inf'):
                items = None
                break
            ms, es = cn.split()
            items.append((fmt, ms.startswith('-'), abs(int(ms)), int(es)))
        if not items:
            continue
        nums = real_print(ctx, items)
        m = e['meta']
        ci = ctx.classes['class_index'].get(m['cls'])
        cinfo = ctx.classes['classes'][ci - 1] if ci else None
        abbr = None
        if cinfo and cinfo.get('unit'):
            u = ctx.tables['units'][cinfo['unit'] - 1]
            names = dict((nm, val) for nm, val in u['enumerators'])
            uv = names[m['unit']] if m.get('unit') else u['standard']
            abbr = dict(u['abbreviations'])[uv]
        want = py_template(form, len(nums), abbr, nums)
        if real != want:
            out.append({'kind': 'c15-composite', 'entry': e['id'], 'fmt': fmt, 'inputs': hx,
                        'what': '%s on components %s gives %r; the form of the property is %r' % (e['id'], hx, real, want)})
            if len(out) >= 3:
                break
    return out


def c15_extra(ctx):
    return {'coverage': {'print_sweep_on_real_code': getattr(ctx, 'c15_totals', {})}}


# ---------------------------------------------------------------------------------------------------
# C19: static initialisation
# ---------------------------------------------------------------------------------------------------

def c19_search(ctx, failing, corr, broken):
    """(1) What the model says about each facility for each enumeration (from the regenerated declaration
    facts); (2) the real library used before main() with g++ and clang++ at -O0 and -O2."""
    import static_init
    out = []
    txt = cl.lean_eval(
        '#eval (PhQVerif.Props.C19.enumerations.flatMap fun u => (Init.Facility.all.filter fun f => '
        '(f == .abbreviation || f == .parse || PhQVerif.Props.C19.unitTypes.contains u) && '
        '!Init.facilityReady tableDecls f u).map fun f => (u, reprStr f, (f.tables.filterMap fun t => '
        '(Init.provider tableDecls t u).map fun d => (t, reprStr (Init.classify d), d.file, d.line))))\n',
        ['PhQVerif.Props.C19'])
    unready = re.findall(r'\("([^"]+)",\s*"PhQVerif\.Init\.Facility\.(\w+)",\s*(\[.*?\]\))', txt, re.S)
    by_fac = {}
    for (u, f, detail) in unready:
        by_fac.setdefault(f, []).append((u, ' '.join(detail.split())[:400]))
    for f, lst in sorted(by_fac.items()):
        out.append({'kind': 'c19-static-init', 'facility': 'convert' if f == 'convert' else f, 'source': 'model',
                    'enumerations': [u for u, _ in lst], 'count': len(lst), 'tables': lst[0][1],
                    'what': '[basic.start.dynamic] does not order the table(s) behind `%s` before a user object for %d '
                            'enumeration(s), e.g. %s: %s' % (f, len(lst), lst[0][0], lst[0][1]),
                    'failing_input_found': True})
    inc = os.path.dirname(os.path.dirname(os.path.realpath(os.path.join(ctx.cache, 'symincl', 'PhQ', 'Base.hpp'))))
    work = os.path.join(ctx.cache, 'c19work')
    res = static_init.run_all(ctx.cache, inc, ctx.tier, work)
    ctx.c19_runs = [{k: j[k] for k in ('kind', 'cxx', 'opt', 'order', 'status')} for j in res]
    for j in res:
        if j['status'] == 'ok':
            continue
        out.append({'kind': 'c19-static-init', 'facility': 'convert' if j['kind'] == 'convert' else 'tables',
                    'source': 'real code', 'compiler': j['cxx'], 'opt': j['opt'], 'program': j['order'], 'status': j['status'],
                    'what': '%s %s, %s: namespace-scope objects using the %s facilities: %s: %s' % (
                        j['cxx'], j['opt'], j['order'], j['kind'], j['status'], j['detail'][:600]),
                    'replay_cmd': 'python3 /verif/harness/static_init.py <cache> %s' % ctx.tier,
                    'failing_input_found': True})
    return out


def c19_extra(ctx):
    runs = getattr(ctx, 'c19_runs', [])
    return {'coverage': {'static_init_programs_run': len(runs),
                         'static_init_ok': len([r for r in runs if r['status'] == 'ok']),
                         'static_init_runs': runs}}


# ---------------------------------------------------------------------------------------------------
# C20: no exceptions, no undefined behaviour
# ---------------------------------------------------------------------------------------------------

def c20_correspond(ctx):
    """Every entry point of the real library under AddressSanitizer + UndefinedBehaviorSanitizer + libstdc++
    assertions, on finite inputs, compared with the model: a sanitizer abort is a crash, an exception is a
    native error, a wrong value is a disagreement."""
    sel = [e for e in ctx.model if not (e['meta']['kind'] == 'model-ctor' and not e['meta'].get('args'))]
    sel = [e for e in sel if not e['id'].endswith('::ctor()') or not e['meta']['cls'].startswith('model:')]
    per = 1 if ctx.tier == 'quick' else 6
    return co.correspond(ctx.cache, LEAN, sel, ctx.seed + 20, per_entry=per, variant='san')


def parser_fuzz_inputs(ctx, n):
    rng = random.Random(ctx.seed + 201)
    out = []
    specials = [b'', b' ', b'-', b'+', b'.', b'e', b'.e1', b'1e', b'1e+', b'nan', b'NaN', b'inf', b'-inf', b'infinity',
                b'nan(123)', b'0x', b'0x1p3', b'0x1.8p-1074', b'1e999999999', b'-1e999999999', b'1e-999999999',
                b'9' * 400, b'0.' + b'0' * 400 + b'1', b'1' + b'0' * 5000, b'1.5\x00garbage', b'\x00', b'\x001.5',
                b'  \t\n 2.5', b'2.5   ', b'2,5', b'1_000', b'1e5e5', b'--1', b'+-1', b'\xff\xfe', b'\xc2\xb5m',
                b'1.7976931348623159e308', b'4.9e-324', b'2.2250738585072011e-308', b'3.4028236e38', b'1e-46',
                b'0.1e-4950', b'1.18973149535723176502e4932', b'1.2e4932']
    out += specials
    for _ in range(n):
        k = rng.random()
        if k < 0.35:
            ln = rng.choice((0, 1, 2, 3, 5, 8, 13, 40, 200))
            out.append(bytes(rng.getrandbits(8) for _ in range(ln)))
        elif k < 0.7:
            body = ''.join(rng.choice('0123456789.eE+-xXpPnNaAiIfF \t') for _ in range(rng.randrange(1, 24)))
            out.append(body.encode())
        else:
            d = ''.join(rng.choice('0123456789') for _ in range(rng.randrange(1, 30)))
            s = (rng.choice(['', '-', '+', ' ']) + d[:rng.randrange(0, len(d) + 1)] + rng.choice(['', '.', '.']) + d +
                 rng.choice(['', 'e%d' % rng.randrange(-5000, 5000), 'E+', 'f', 'L', '\x00', ' x']))
            out.append(s.encode('latin-1'))
    return out


def c20_search(ctx, failing, corr, broken):
    out = []
    # parsers on arbitrary bytes, real code under sanitizers
    n = 1500 if ctx.tier == 'quick' else 60000
    inputs = parser_fuzz_inputs(ctx, n)
    enums = ['Unit::' + u for u in json.load(open(os.path.join(ctx.cache, 'facts.json')))['units']] + [
        'UnitSystem', 'ConstitutiveModel::Type']
    rng = random.Random(ctx.seed + 202)
    spell = []
    for u in ctx.tables['units'] + ctx.tables['enums']:
        for sp, _ in u['spellings'][:6]:
            b = sp.encode('utf-8')
            spell.append(b)
            if b:
                i = rng.randrange(len(b))
                spell += [b[:i] + b[i + 1:], b + b'\x00', b[:i] + bytes([b[i] ^ 0x20]) + b[i + 1:], b' ' + b]
    lines, meta = [], []
    for b in inputs:
        for f in (32, 64, 80):
            lines.append('num %d %s' % (f, b.hex() or '-'))
            meta.append(('ParseNumber<%d>' % f, b))
    for b in inputs[:len(inputs) // 3] + spell:
        en = rng.choice(enums)
        lines.append('enum %s %s' % (en, b.hex() or '-'))
        meta.append(('ParseEnumeration<%s>' % en, b))
    outl, rc, err = textio(ctx, lines)
    kinds = {}
    for (what, b), got in zip(meta, outl):
        g = got.split()[0] if got else 'missing'
        kinds[g] = kinds.get(g, 0) + 1
        if g not in ('some', 'none'):
            out.append({'kind': 'c20-parser', 'call': what, 'bytes_hex': b.hex(), 'result': got,
                        'what': '%s on the bytes %r: %s (must return a value or nothing)' % (what, b[:60], got)})
            if len(out) > 5:
                break
    if rc != 0 or len(outl) != len(lines):
        bad = meta[len(outl)] if len(outl) < len(meta) else None
        out.append({'kind': 'c20-parser-crash', 'returncode': rc, 'stderr': err[-1500:],
                    'call': bad[0] if bad else None, 'bytes_hex': bad[1].hex() if bad else None,
                    'what': 'the parser harness died (sanitizer report or signal) at %s on %r' % (
                        bad[0] if bad else '?', bad[1][:60] if bad else b'')})
    ctx.c20_parsers = {'requests': len(lines), 'results': kinds}
    # failing inputs among the sanitizer run: a request that kills the instrumented harness takes the rest of
    # its batch with it, so each silent request is re-run alone to find the ones that die by themselves
    dis = (corr or {}).get('disagreements', [])
    silent = [d for d in dis if d['detail'].startswith('native harness produced no output')]
    loud = [d for d in dis if not d['detail'].startswith('native harness produced no output')]
    for d in loud[:4]:
        out.append({'kind': 'c20-entry', 'entry': d['id'], 'fmt': d['fmt'], 'what': d['detail'],
                    'native_request': d['native_request']})
    culprits = 0
    if silent:
        exe = ctx.native('san')
        import subprocess
        env = dict(os.environ, ASAN_OPTIONS='detect_leaks=0')
        for d in silent[:120]:
            p = subprocess.run([exe], input=d['native_request'] + '\n', stdout=subprocess.PIPE, stderr=subprocess.PIPE,
                               text=True, env=env)
            if p.returncode != 0 or not p.stdout.strip():
                culprits += 1
                out.append({'kind': 'c20-sanitizer', 'entry': d['id'], 'fmt': d['fmt'], 'native_request': d['native_request'],
                            'returncode': p.returncode,
                            'what': '%s at %d bits on the inputs "%s" dies under ASan/UBSan/libstdc++ assertions: %s' % (
                                d['id'], d['fmt'], d['native_request'], (p.stderr or '')[-900:])})
                if culprits >= 3:
                    break
    if not culprits:
        for c in (corr or {}).get('crashes', [])[:2]:
            out.append({'kind': 'c20-sanitizer', 'returncode': c.get('returncode'), 'what': 'sanitizer abort / crash of the '
                        'instrumented harness: ' + (c.get('stderr') or '')[-1200:]})
    return out


def c20_extra(ctx):
    return {'coverage': {'parser_fuzz_on_real_code': getattr(ctx, 'c20_parsers', {})}}


def quantity_corr(pred, seed_off, per_quick=2, per_thorough=30):
    def f(ctx):
        sel = [e for e in ctx.model if not e['meta']['cls'].startswith(('unit:', 'model:')) and pred(e)]
        per = per_quick if ctx.tier == 'quick' else per_thorough
        return co.correspond(ctx.cache, LEAN, sel, ctx.seed + seed_off, per_entry=per)
    return f


SPECS = {
    'C01': {
        'id': 'C01', 'level': 'proof',
        'lean_targets': ['PhQVerif.Audit.C01'],
        'checkers': [],
        'correspond': c01_correspond,
        'search': c01_search,
        'always_search': True,
        'assumptions': ['the unit-symbol oracle (364 atoms, SI/NIST definitional constants) is the reference',
                        'cap 4*2^-p on each kernel constant is proved; the end-to-end few-ulp bound combines it with one '
                        'rounding per kernel application (Theory/Round.lean) and C02; the search checks 16 ulps end to end '
                        'on the real code',
                        'affine units: bound relative to |a x| + |b| (DESIGN.md section 7, C01)'],
    },
    'C07': {
        'id': 'C07', 'level': 'proof',
        'lean_targets': ['PhQVerif.Audit.C07'],
        'checkers': [],
        'search': c07_search,
        'always_search': True,
        'assumptions': ['magnitudes are those of the unit-symbol oracle; agreement of the code\'s constants with it is C01',
                        'types with a luminous-intensity exponent are exempt from the coherence clause (no candela unit type)',
                        'tables are the library\'s real objects dumped by iteration; no arithmetic is involved, so no '
                        'separate correspondence run'],
    },
    'C06': {
        'id': 'C06', 'level': 'proof',
        'lean_targets': ['PhQVerif.Audit.C06'],
        'checkers': [],
        'correspond': c06_correspond,
        'search': c06_search,
        'assumptions': ['(a),(b): table theorems over regenerated tables + the unit-symbol oracle',
                        '(c): theorems about the hand-written model DimModel of the non-template Dimensions class, tied '
                        'to the code by the correspondence (Print, six comparisons, hash); JSON/XML/YAML of Dimensions '
                        'are not modelled'],
    },
    'C08': {
        'id': 'C08', 'level': 'proof',
        'lean_targets': ['PhQVerif.Audit.C08'],
        'checkers': [],
        'correspond': c08_correspond,
        'search': c08_search,
        'extra': c08_extra,
        'assumptions': ['"what a spelling denotes" is the hand-written unit-symbol oracle (Core/Symbol.lean grammar, '
                        'Core/Atoms.lean: 364 atoms with SI/NIST definitional constants)',
                        'std::unordered_map::find behaves as association-list lookup (checked on all keys, mutated '
                        'keys and random byte strings by the correspondence)'],
    },
    'C15': {
        'id': 'C15', 'level': 'proof',
        'lean_targets': ['PhQVerif.Audit.C15'],
        'checkers': [('C15serial', 'Generated.Serial.rows', 'e.1'), ('C15stream', 'Generated.Streams.rows', 'e.1')],
        'checker_imports': ('PhQVerif.Checkers', 'PhQVerif.Generated.All', 'PhQVerif.Generated.Serial',
                            'PhQVerif.Generated.Streams'),
        'correspond': c15_correspond,
        'search': c15_search,
        'always_search': True,
        'extra': c15_extra,
        'assumptions': [
            'PhQ::Print is modelled by hand (Core/Print.lean: interval cascade + the contract of a correctly rounding '
            'printf / strtod); the model is compared text for text with the real PhQ::Print and PhQ::ParseNumber '
            '(libstdc++/glibc) on threshold neighbourhoods and random values of all three types',
            'lossless printing and the digit count (scientific and fixed notation) are proved for all normal numbers '
            'of the model; the real-code sweep checks the same on the implementation: exhaustively for float in the '
            'thorough tier',
            'composite forms are translated from the code (traced strings); JSON validity is proved for the '
            'skeleton with number text substituted; that Print emits JSON-grammar numbers for finite values is '
            'checked on the real output',
        ],
        'trusted_extra': ['glibc printf/strtod family correctly rounded (validated against the model, not proved)'],
    },
    'C19': {
        'id': 'C19', 'level': 'proof',
        'lean_targets': ['PhQVerif.Audit.C19'],
        'checkers': [],
        'search': c19_search,
        'always_search': True,
        'extra': c19_extra,
        'assumptions': [
            'the order of dynamic initialisation is modelled by [basic.start.dynamic] of C++17 (Theory/Init.lean): the '
            'theorems quantify over every order a conforming implementation may choose; that GCC 12 and Clang 14 conform '
            'is not proved — their actual orders are exercised by real programs (single TU, two TUs in both link orders, '
            '-O0 and -O2)',
            'how each table is declared is read from clang\'s AST on every run; which tables a facility reads is '
            'written by hand from Base.hpp / UnitSystem.hpp / Unit.hpp (Core/Init.lean Facility.tables)',
            'user objects are assumed to be ordered or partially-ordered variables defined after the #include',
        ],
        'trusted_extra': ['clang 14 AST (declaration kind, inline, constexpr of each variable template declaration)',
                          'the hand-written reading of [basic.start.dynamic] in Core/Init.lean'],
    },
    'C20': {
        'id': 'C20', 'level': 'proof',
        'lean_targets': ['PhQVerif.Audit.C20'],
        'checkers': [('C20uninitStrict', 'quantityEntries'), ('C20uninitStrict', 'unitEntries'), ('C20uninit', 'modelEntries'),
                     ('C20lookups', 'unitTypes')],
        'correspond': c20_correspond,
        'search': c20_search,
        'always_search': True,
        'extra': c20_extra,
        'assumptions': [
            'lookups, uninitialised reads, exceptions on explored paths and ParseEnumeration totality are theorems over '
            'the translated model and the dumped tables',
            'signed overflow, invalid enum values, memory errors and the totality of std::stof/stod/stold behind '
            'ParseNumber are runtime behaviour: every entry point is run under ASan + UBSan + _GLIBCXX_ASSERTIONS and the '
            'parsers are fuzzed with arbitrary bytes (testing, not proof)',
            'a default-constructed constitutive model has indeterminate moduli (the library documents default '
            'construction as uninitialised); observing it is excluded, as for every default-constructed quantity',
        ],
        'trusted_extra': ['g++ 12 sanitizer runtimes (ASan, UBSan) and libstdc++ assertions detecting the undefined behaviour they cover'],
    },
    'C10': {
        'id': 'C10', 'level': 'proof',
        'lean_targets': ['PhQVerif.Audit.C10'],
        'checkers': [('C10dir', 'quantityEntries'), ('C10mag', 'quantityEntries'), ('C10scale', 'quantityEntries'),
                     ('C17access', 'quantityEntries')],
        'correspond': quantity_corr(lambda e: produces_direction(e) or e['meta'].get('name') == 'Magnitude', 10, 6, 200),
        'search': c10_search,
        'always_search': True,
        'assumptions': ['unit length / same sense / rebuild are proved over the reals; the four-ulp bound and '
                        'bit-exact power-of-two invariance are checked on the real code by the search',
                        'inherited SetValue/MutableValue of the direction classes are not construction paths '
                        '(they store their argument verbatim, C17)'],
    },
    'C11': {
        'id': 'C11', 'level': 'proof',
        'lean_targets': ['PhQVerif.Audit.C11'],
        'checkers': [],
        'correspond': lambda ctx: (_vectorish(ctx), quantity_corr(is_angle_entry, 11, 10, 300)(ctx))[1],
        'search': c11_search,
        'always_search': True, 'audit_all': False,
        'assumptions': ['LibmSpec: acos maps [-1, 1] into [0, fl(pi)] and acos(1) = 0 (glibc; sampled against an '
                        'mpmath reference by the correspondence)',
                        'the interval is [0, Pi<T>] with the library\'s own constant (for float and long double '
                        'Pi<T> > pi)'],
    },
    'C14': {
        'id': 'C14', 'level': 'proof',
        'lean_targets': ['PhQVerif.Audit.C14'],
        'checkers': [('C14cmp', 'quantityEntries'), ('C14cmp', 'modelEntries')],
        'correspond': lambda ctx: co.correspond(
            ctx.cache, LEAN, [e for e in ctx.model if e['meta'].get('name') in CMP_PY and
                              e['meta']['kind'] in ('free', 'model-compare')], ctx.seed + 14,
            per_entry=4 if ctx.tier == 'quick' else 100),
        'search': c14_search,
        'always_search': True,
        'assumptions': ['soundness theorem is over any LinearOrder on the component values; that the non-NaN floats '
                        'under IEEE comparison (with +0 = -0) are one is the standard fact relied on',
                        'hash combiner (17, 31*r + h mod 2^64) is hand-modelled; std::hash<T>(+0) = std::hash<T>(-0) '
                        'is a property of libstdc++ checked on the real code by the search',
                        'Dimensions (int8_t, not a template) is hand-modelled in C06'],
    },
    'C05': {
        'id': 'C05', 'level': 'proof',
        'lean_targets': ['PhQVerif.Audit.C05'],
        'checkers': [],
        'correspond': quantity_corr(lambda e: e['meta']['kind'] == 'ctor' and not e['meta'].get('unit')
                                    and not e['meta'].get('ufmt'), 5, 2, 40),
        'search': c05_search,
        'always_search': True,
        'assumptions': ['exact statement over the reals for all positive inputs in the domain of the composition; '
                        'the few-ulp clause is checked on the real code (search) and cannot hold relative to a for '
                        'subtractive pairs (DESIGN.md section 7, C05)',
                        'inverse pairs derived from constructor signatures by extract/emit_lean.py; per-pair proofs '
                        'are generated calls of one hand-written tactic, the quantified statement is Props/C05.lean'],
    },
    'C18': {
        'id': 'C18', 'level': 'proof',
        'lean_targets': ['PhQVerif.Audit.C18'],
        'checkers': [],
        'correspond': quantity_corr(lambda e: e['id'] in C18_TABLE, 18, 20, 400),
        'search': c18_search,
        'always_search': True, 'audit_all': False,
        'assumptions': ['textbook formulas typed into Props/C18.lean (and, independently, into props.py for the '
                        'search on the real code)', 'theorems over the reals; few-ulp clause by correspondence'],
    },
    'C12': {
        'id': 'C12', 'level': 'proof',
        'lean_targets': ['PhQVerif.Audit.C12'],
        'checkers': [('NoNarrowing', 'modelEntries')],
        'correspond': models_corr(('ElasticIsotropicSolid',), 12),
        'search': models_search(('ElasticIsotropicSolid',)),
        'always_search': True, 'audit_all': False,
        'assumptions': ['theorems are over the reals (rounding ignored); "to the precision of each type" is the '
                        'same-formula theorem plus the bit-exact correspondence',
                        'the (LameFirstModulus, PoissonRatio) constructor is stated for lambda > 0: at nu = 0 that '
                        'pair carries no information about mu (DESIGN.md section 7, C12)'],
    },
    'C13': {
        'id': 'C13', 'level': 'proof',
        'lean_targets': ['PhQVerif.Audit.C13'],
        'checkers': [('NoNarrowing', 'modelEntries')],
        'correspond': models_corr(('CompressibleNewtonianFluid', 'IncompressibleNewtonianFluid'), 13),
        'search': models_search(('CompressibleNewtonianFluid', 'IncompressibleNewtonianFluid')),
        'always_search': True, 'audit_all': False,
        'assumptions': ['theorems are over the reals (rounding ignored)'],
    },
    'C09': {
        'id': 'C09', 'level': 'proof',
        'lean_targets': ['PhQVerif.Audit.C09'],
        'checkers': [],
        'correspond': quantity_corr(lambda e: e['meta']['cls'] in ('PlanarVector', 'Vector', 'SymmetricDyad', 'Dyad'),
                                    9, 6, 200),
        'search': c09_search,
        'always_search': True,
        'audit_all': False,
        'assumptions': ['textbook formulas = Mathlib definitions (Matrix.det, adjugate, transpose, trace, mulVec, '
                        'matrix product, dotProduct, crossProduct, vecMulVec) on the embeddings of Theory/Tensor.lean',
                        'the theorems are over the reals; exactness on integer inputs and the few-ulp bound are '
                        'exercised on the real code by the integer-grid search and bit-exact correspondence'],
    },
    'C02': {
        'id': 'C02', 'level': 'proof',
        'lean_targets': ['PhQVerif.Audit.C02'],
        'checkers': [('C02unit', 'unitEntries'), ('C02class', 'quantityEntries'), ('NoNarrowing', 'unitEntries')],
        'correspond': c02_correspond,
        'search': c02_search,
        'assumptions': ['container forms are traced for a few unit pairs per unit type (the code is one template '
                        'per container, generic in the unit), the scalar Convert for all ordered pairs in double',
                        'std::vector form traced at length 4'],
    },
    'C16': {
        'id': 'C16', 'level': 'proof',
        'lean_targets': ['PhQVerif.Audit.C16'],
        'checkers': [('C16cast', 'quantityEntries')],
        'correspond': quantity_corr(lambda e: e['meta']['kind'] in ('cast-ctor', 'cast-assign'), 16, 4, 60),
        'search': c16_search,
        'always_search': True,
        'assumptions': ['Fl.cast is the exact value rounded once to the target format (nearest-even); validated '
                        'bit for bit against cvtss2sd/cvtsd2ss/fld/fstp by the correspondence',
                        'direction clause read as: converting constructor = cast then normalise; converting '
                        'assignment = plain cast (DESIGN.md section 7, C16)'],
    },
    'C17': {
        'id': 'C17', 'level': 'proof',
        'lean_targets': ['PhQVerif.Audit.C17'],
        'checkers': [('C17access', 'quantityEntries'), ('C20uninitStrict', 'quantityEntries')],
        'correspond': quantity_corr(lambda e: e['meta'].get('name') in ('Zero', 'Value', 'SetValue', 'MutableValue')
                                    or str(e['meta'].get('name', '')).startswith(('Set_', 'Mutable_'))
                                    or e['meta'].get('name') in sum(COMP_NAMES.values(), []), 17, 2, 20),
        'search': c17_search,
        'assumptions': ['layout half: sizeof/alignof/type traits are facts reported by g++ for the 288 instantiations '
                        '(complete table), not a model; the theorem checks them against the class table'],
        'trusted_extra': ['g++ 12 reporting sizeof, alignof, is_trivially_copyable, is_standard_layout, is_polymorphic'],
    },
    'C04': {
        'id': 'C04', 'level': 'proof',
        'lean_targets': ['PhQVerif.Audit.C04'],
        'checkers': [('C04arith', 'quantityEntries'), ('C04std', 'quantityEntries'), ('NoNarrowing', 'quantityEntries')],
        'correspond': c04_correspond,
        'search': c04_search,
        'assumptions': [
            'Fl.add/sub/mul/div of Core/Fl.lean (exact result rounded once, nearest-even) is the meaning of '
            '"correctly rounded"; it is validated bit for bit against the hardware by the correspondence',
            'Twins.rows / Compound.rows are derived from the declared signatures by extract/emit_lean.py',
        ],
    },
    'C03': {
        'id': 'C03', 'level': 'proof',
        'lean_targets': ['PhQVerif.Audit.C03'],
        'checkers': [('C03dim', 'quantityEntries'), ('C03op', 'quantityEntries')],
        'correspond': c03_correspond,
        'search': c03_search,
        'assumptions': [
            'real-number semantics evalR ignores rounding: homogeneity is a statement about the formula, for all '
            'positive real rescalings; that the formula is the code is the translator + correspondence',
            'x / 0 = 0 in evalR (Lean convention); homogeneity holds on both sides of that convention',
        ],
    },
}


def _vkey(v):
    who = v.get('entry') or v.get('id') or v.get('unit_type') or v.get('class') or v.get('call') or v.get('facility') \
        or v.get('value') or ''
    return (v.get('kind'), str(who), v.get('fmt'))


def replay(prop, path):
    """Re-run the check that produced the replay file, at the recorded tier and seed, on the current tree,
    and say whether the recorded violation recurs. Exit 1 + VIOLATION line if it (or any other violation
    of the property) occurs, 0 otherwise."""
    data = json.load(open(path))
    print(json.dumps({k: data[k] for k in data if k in ('kind', 'entry', 'id', 'fmt', 'what', 'inputs', 'value',
                                                         'native_request', 'tier', 'seed')}, indent=1, default=str)[:3000])
    spec = SPECS[prop]
    got = []
    run(spec, data.get('tier', 'quick'), int(data.get('seed', 20260926)), collect=got)
    known = cl.load_known()
    got = [v for v in got if cl.matches_known(prop, v, known) is None]
    same = [v for v in got if _vkey(v) == _vkey(data)]
    if same:
        print('REPLAY: the recorded violation recurs on the current tree: ' + str(same[0].get('what', ''))[:600])
        print('VIOLATION property=%s replay=%s' % (prop, path))
        return 1
    if got:
        print('REPLAY: the recorded violation does not recur as recorded, but the property is violated: ' +
              str(got[0].get('what', ''))[:600])
        print('VIOLATION property=%s replay=%s' % (prop, path))
        return 1
    print('REPLAY: no violation of %s on the current tree at tier=%s seed=%s' % (
        prop, data.get('tier', 'quick'), data.get('seed')))
    return 0
