// trace_rt.hpp -- runtime shared by the tracer (PhQ at S<32>/S<64>/S<80>) and the native
// correspondence harness (PhQ at float/double/long double). The generated entry functions are
// templates in the numeric type T and use only Ctx<T>::make / Ctx<T>::out, so the very same entry
// code is what gets traced and what gets executed natively.
#ifndef VERIF_TRACE_RT_HPP
#define VERIF_TRACE_RT_HPP

#include <array>
#include <cstdio>
#include <cstring>
#include <iostream>
#include <optional>
#include <sstream>
#include <string>
#include <type_traits>
#include <vector>

#ifndef VERIF_NATIVE
#include "symfloat.hpp"
#endif

#include "PhQ/Base.hpp"

#ifndef VERIF_NATIVE
namespace PhQ {
// The library's own constants, re-exported at the tracing types as *named* leaves.
template <> inline const sym::S<32> Pi<sym::S<32>>{sym::S<32>::Named("pi", Pi<float>)};
template <> inline const sym::S<64> Pi<sym::S<64>>{sym::S<64>::Named("pi", Pi<double>)};
template <> inline const sym::S<80> Pi<sym::S<80>>{sym::S<80>::Named("pi", Pi<long double>)};
// Printing a traced number yields a marker that refers to its node, so that Print/JSON/XML/YAML of
// quantities come out as string templates.
#define VERIF_PRINT_SPEC(F)                                                       \
  template <> inline std::string Print(const sym::S<F> value) {                   \
    return std::string("\x01") + std::to_string(value.nid()) + std::string("\x02");  \
  }
VERIF_PRINT_SPEC(32)
VERIF_PRINT_SPEC(64)
VERIF_PRINT_SPEC(80)
#undef VERIF_PRINT_SPEC
}  // namespace PhQ
#endif

#include "PhQ/PlanarVector.hpp"
#include "PhQ/Vector.hpp"
#include "PhQ/SymmetricDyad.hpp"
#include "PhQ/Dyad.hpp"
#include "PhQ/Dimensions.hpp"

namespace vrt {

#ifndef VERIF_NATIVE
template <typename T> struct IsSym : sym::IsS<T> {};
#else
template <typename T> struct IsSym : std::false_type {};
#endif

template <typename T> struct FmtTag;
template <> struct FmtTag<float> { static constexpr int value = 32; };
template <> struct FmtTag<double> { static constexpr int value = 64; };
template <> struct FmtTag<long double> { static constexpr int value = 80; };
#ifndef VERIF_NATIVE
template <int F> struct FmtTag<sym::S<F>> { static constexpr int value = F; };
#endif

// The numeric type of format F in the current mode.
#ifndef VERIF_NATIVE
template <int F> using Num = sym::S<F>;
#else
template <int F> struct NumOf;
template <> struct NumOf<32> { using type = float; };
template <> struct NumOf<64> { using type = double; };
template <> struct NumOf<80> { using type = long double; };
template <int F> using Num = typename NumOf<F>::type;
#endif

inline std::string JsonEscape(const std::string& s) {
  std::string o;
  char buf[8];
  for (unsigned char c : s) {
    if (c == '"') o += "\\\"";
    else if (c == '\\') o += "\\\\";
    else if (c < 0x20) { std::snprintf(buf, sizeof buf, "\\u%04x", c); o += buf; }
    else o += static_cast<char>(c);
  }
  return o;
}

template <typename N>
inline std::string HexOf(N v) {
  char buf[80];
  if constexpr (std::is_same<N, long double>::value) std::snprintf(buf, sizeof buf, "%La", v);
  else std::snprintf(buf, sizeof buf, "%a", static_cast<double>(v));
  return buf;
}

// ---- detection helpers -------------------------------------------------------------------------
template <typename, typename = void> struct HasValue : std::false_type {};
template <typename Q>
struct HasValue<Q, std::void_t<decltype(std::declval<const Q&>().Value())>> : std::true_type {};

template <typename V> struct IsStdArray : std::false_type {};
template <typename U, size_t N> struct IsStdArray<std::array<U, N>> : std::true_type {};

template <typename V> struct RawShape { static constexpr int n = 0; };
template <typename T> struct RawShape<PhQ::PlanarVector<T>> {
  static constexpr int n = 2; using Num = T;
  static constexpr const char* name = "PlanarVector";
  static std::array<T, 2> get(const PhQ::PlanarVector<T>& v) { return {v.x(), v.y()}; }
  static PhQ::PlanarVector<T> make(const std::array<T, 2>& a) { return PhQ::PlanarVector<T>(a[0], a[1]); }
};
template <typename T> struct RawShape<PhQ::Vector<T>> {
  static constexpr int n = 3; using Num = T;
  static constexpr const char* name = "Vector";
  static std::array<T, 3> get(const PhQ::Vector<T>& v) { return {v.x(), v.y(), v.z()}; }
  static PhQ::Vector<T> make(const std::array<T, 3>& a) { return PhQ::Vector<T>(a[0], a[1], a[2]); }
};
template <typename T> struct RawShape<PhQ::SymmetricDyad<T>> {
  static constexpr int n = 6; using Num = T;
  static constexpr const char* name = "SymmetricDyad";
  static std::array<T, 6> get(const PhQ::SymmetricDyad<T>& v) {
    return {v.xx(), v.xy(), v.xz(), v.yy(), v.yz(), v.zz()};
  }
  static PhQ::SymmetricDyad<T> make(const std::array<T, 6>& a) {
    return PhQ::SymmetricDyad<T>(a[0], a[1], a[2], a[3], a[4], a[5]);
  }
};
template <typename T> struct RawShape<PhQ::Dyad<T>> {
  static constexpr int n = 9; using Num = T;
  static constexpr const char* name = "Dyad";
  static std::array<T, 9> get(const PhQ::Dyad<T>& v) {
    return {v.xx(), v.xy(), v.xz(), v.yx(), v.yy(), v.yz(), v.zx(), v.zy(), v.zz()};
  }
  static PhQ::Dyad<T> make(const std::array<T, 9>& a) {
    return PhQ::Dyad<T>(a[0], a[1], a[2], a[3], a[4], a[5], a[6], a[7], a[8]);
  }
};

// Gives access to the protected stored value of a quantity class, legally: a derived class may
// touch the protected member through `this`, and slicing back to Q is an ordinary copy.
template <typename Q>
struct Access : Q {
  using V = std::decay_t<decltype(std::declval<const Q&>().Value())>;
  void set(const V& v) { this->value = v; }
};

struct Item { std::string label; std::string text; };

struct Ctx {
  std::vector<long double> vals;  // shadow values (tracing) or actual inputs (native)
  size_t next{0};
  std::vector<long long> params;  // run-time parameters of an entry family (enumerator values, ...)
  std::vector<int> arg_sizes;
  std::vector<Item> outs;
  std::string error;

  long double nextval() {
    const size_t i = next++;
    if (i < vals.size()) return vals[i];
    // default driving value: distinct, positive, not special
    return 1.25L + 0.375L * static_cast<long double>(i);
  }

  long long param(size_t i) const { return i < params.size() ? params[i] : 0; }

  template <typename T>
  T in() {
#ifndef VERIF_NATIVE
    return T::In(static_cast<typename T::N>(nextval()));
#else
    return static_cast<T>(nextval());
#endif
  }

  template <typename X>
  X make_inner() {
    using D = std::decay_t<X>;
    if constexpr (IsSym<D>::value || std::is_floating_point<D>::value) {
      return in<D>();
    } else if constexpr (RawShape<D>::n > 0) {
      std::array<typename RawShape<D>::Num, RawShape<D>::n> a;
      for (auto& e : a) e = in<typename RawShape<D>::Num>();
      return RawShape<D>::make(a);
    } else if constexpr (IsStdArray<D>::value) {
      D a;
      for (auto& e : a) e = in<typename D::value_type>();
      return a;
    } else if constexpr (HasValue<D>::value) {
      Access<D> acc;
      acc.set(make_inner<typename Access<D>::V>());
      return D(static_cast<const D&>(acc));
    } else {
      static_assert(sizeof(D) == 0, "vrt::Ctx::make: unsupported argument type");
    }
  }

  template <typename X>
  std::decay_t<X> make() {
    const size_t before = next;
    auto x = make_inner<std::decay_t<X>>();
    arg_sizes.push_back(static_cast<int>(next - before));
    return x;
  }

  template <typename U, size_t N>
  std::array<U, N> make_array() {
    const size_t before = next;
    std::array<U, N> a;
    for (auto& e : a) e = in<U>();
    arg_sizes.push_back(static_cast<int>(next - before));
    return a;
  }

  template <typename U>
  std::vector<U> make_vector(size_t n) {
    const size_t before = next;
    std::vector<U> a(n);
    for (auto& e : a) e = in<U>();
    arg_sizes.push_back(static_cast<int>(next - before));
    return a;
  }

  // ---- outputs ---------------------------------------------------------------------------------
  template <typename U>
  static std::string num_text(const U& x) {
#ifndef VERIF_NATIVE
    return sym::Str(x.nid());
#else
    return HexOf(x);
#endif
  }

  static std::string expand_markers(const std::string& s) {
#ifndef VERIF_NATIVE
    std::string o;
    for (size_t i = 0; i < s.size(); ++i) {
      if (s[i] == '\x01') {
        size_t j = s.find('\x02', i);
        const int id = std::stoi(s.substr(i + 1, j - i - 1));
        o += "\x01" + sym::Str(id) + "\x02";
        i = j;
      } else {
        o += s[i];
      }
    }
    return o;
#else
    return s;
#endif
  }

  template <typename X>
  void out(const std::string& label, const X& x) {
    using D = std::decay_t<X>;
    if constexpr (std::is_same<D, bool>::value) {
      outs.push_back({label + ":bool", x ? "true" : "false"});
    } else if constexpr (IsSym<D>::value || std::is_floating_point<D>::value) {
      outs.push_back({label + ":num" + std::to_string(FmtTag<D>::value), num_text(x)});
    } else if constexpr (std::is_integral<D>::value) {
      outs.push_back({label + ":int", std::to_string(x)});
    } else if constexpr (std::is_enum<D>::value) {
      outs.push_back({label + ":enum", std::to_string(static_cast<long long>(x))});
    } else if constexpr (std::is_same<D, std::string>::value) {
      outs.push_back({label + ":str", expand_markers(x)});
    } else if constexpr (std::is_same<D, std::string_view>::value) {
      outs.push_back({label + ":str", std::string(x)});
    } else if constexpr (std::is_same<D, PhQ::Dimensions>::value) {
      std::ostringstream os;
      os << static_cast<int>(x.Time().Value()) << " " << static_cast<int>(x.Length().Value()) << " "
         << static_cast<int>(x.Mass().Value()) << " " << static_cast<int>(x.ElectricCurrent().Value())
         << " " << static_cast<int>(x.Temperature().Value()) << " "
         << static_cast<int>(x.SubstanceAmount().Value()) << " "
         << static_cast<int>(x.LuminousIntensity().Value());
      outs.push_back({label + ":dims", os.str()});
    } else if constexpr (RawShape<D>::n > 0) {
      auto a = RawShape<D>::get(x);
      for (size_t i = 0; i < a.size(); ++i) out(label + "." + std::to_string(i), a[i]);
    } else if constexpr (HasValue<D>::value) {
      out(label, x.Value());
    } else {
      static_assert(sizeof(D) == 0, "vrt::Ctx::out: unsupported result type");
    }
  }

  template <typename X>
  void out(const std::string& label, const std::optional<X>& x) {
    if (x.has_value()) {
      outs.push_back({label + ".has:bool", "true"});
      out(label, x.value());
    } else {
      outs.push_back({label + ".has:bool", "false"});
    }
  }

  template <typename U, size_t N>
  void out(const std::string& label, const std::array<U, N>& a) {
    for (size_t i = 0; i < N; ++i) out(label + "." + std::to_string(i), a[i]);
  }

  template <typename U>
  void out(const std::string& label, const std::vector<U>& a) {
    for (size_t i = 0; i < a.size(); ++i) out(label + "." + std::to_string(i), a[i]);
  }
};

struct Entry {
  const char* id;      // stable identifier, e.g. "Speed::ctor(Length,Time)"
  const char* meta;    // JSON object with static metadata from the generator
  void (*run32)(Ctx&);
  void (*run64)(Ctx&);
  void (*run80)(Ctx&);
};

inline std::vector<Entry>& Registry() { static std::vector<Entry> r; return r; }
struct Reg { Reg(const Entry& e) { Registry().push_back(e); } };

}  // namespace vrt

#endif  // VERIF_TRACE_RT_HPP
