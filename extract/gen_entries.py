#!/usr/bin/env python3
"""Generate the C++ entry functions (one per public API entry point) from clang_facts.json.

Each entry is a function template in the numeric type T that builds its arguments from fresh inputs
(Ctx::make), calls exactly one library entry point, and records the result (Ctx::out). The same
generated code is compiled at the tracing types (translator) and at the native types (harness).

usage: gen_entries.py facts.json outdir nshards
"""
import json
import os
import re
import sys

BASES = ('DimensionalScalar', 'DimensionalPlanarVector', 'DimensionalVector',
         'DimensionalSymmetricDyad', 'DimensionalDyad', 'DimensionlessScalar',
         'DimensionlessPlanarVector', 'DimensionlessVector', 'DimensionlessSymmetricDyad',
         'DimensionlessDyad')
RAW = ('PlanarVector', 'Vector', 'SymmetricDyad', 'Dyad')
NOT_QUANTITY = set(BASES) | {'Dimensions', 'ConstitutiveModel'}
STRING_FORMS = ('Print', 'JSON', 'XML', 'YAML')
# Members that are ill-formed for every NumericType (they cannot be instantiated at all, so there is
# nothing to trace). Recorded in DESIGN.md section 8.
ILL_FORMED = {
    ('PlanarDisplacement', 'z'): 'calls PlanarVector::z(), which does not exist',
}


def norm_type(t):
    t = t.strip()
    t = re.sub(r'^const\s+', '', t)
    t = re.sub(r'\s*&&?$', '', t)
    t = re.sub(r'^const\s+', '', t)
    t = t.replace('PhQ::', '')
    return t.strip()


class Gen:
    def __init__(self, facts):
        self.facts = facts
        self.classes = facts['classes']
        self.enums = facts['enums']
        self.entries = []   # dicts: id, meta, body (C++ statements using T and c)
        self.skipped = []
        self.quantity_classes = sorted(
            k for k in self.classes
            if '::' not in k and k not in NOT_QUANTITY and k not in facts['models'])

    # ---- type handling ---------------------------------------------------------------------
    def unit_type_of(self, cls):
        for b in self.classes[cls]['bases']:
            m = re.match(r'^(Dimensional\w+)<(Unit::\w+), NumericType>$', b)
            if m:
                return m.group(1), m.group(2)
            m = re.match(r'^(Dimensionless\w+)<NumericType>$', b)
            if m:
                return m.group(1), None
        return None, None

    def arg(self, ptype, numvar='T', subst=None):
        """Return (cxx_expr, meta_name) for building one argument, or None if unsupported."""
        t = norm_type(ptype)
        if subst:
            for k, v in subst.items():
                t = re.sub(r'\b%s\b' % re.escape(k), v, t)
        if t in ('NumericType',):
            return 'c.make<%s>()' % numvar, 'num'
        if t == 'OtherNumericType':
            return 'c.make<U>()', 'num:U'
        m = re.match(r'^std::array<NumericType, (\d+)>$', t)
        if m:
            return 'c.make_array<%s, %s>()' % (numvar, m.group(1)), 'array%s' % m.group(1)
        m = re.match(r'^(\w+)<NumericType>$', t)
        if m and m.group(1) in self.classes and m.group(1) not in self.facts['models']:
            return 'c.make<PhQ::%s<%s>>()' % (m.group(1), numvar), m.group(1)
        m = re.match(r'^(\w+)<OtherNumericType>$', t)
        if m and m.group(1) in self.classes:
            return 'c.make<PhQ::%s<U>>()' % m.group(1), m.group(1) + ':U'
        return None

    def is_enum(self, ptype, subst=None):
        t = norm_type(ptype)
        if subst:
            for k, v in subst.items():
                t = re.sub(r'\b%s\b' % re.escape(k), v, t)
        if t in self.enums:
            return t
        return None

    def add(self, eid, meta, body):
        meta = dict(meta)
        self.entries.append({'id': eid, 'meta': meta, 'body': body})

    # ---- per-class generation --------------------------------------------------------------
    def members_with_inherited(self, cls):
        out = []
        base, unit = self.unit_type_of(cls)
        subst = {}
        if base:
            if unit:
                subst['UnitType'] = unit
            for m in self.classes[base]['members']:
                if m['access'] == 'public':
                    mm = dict(m)
                    mm['inherited'] = base
                    out.append((mm, subst))
        for m in self.classes[cls]['members']:
            if m['access'] == 'public':
                out.append((m, {}))
        return out

    def units_for(self, enum_name, limit=None):
        ens = self.enums[enum_name]
        if limit is not None and len(ens) > limit:
            # the standard unit is not necessarily first; take first, second and last
            picked = [ens[0], ens[1], ens[-1]][:limit]
            return picked
        return ens

    def gen_class(self, cls):
        fc = self.classes[cls]
        if fc.get('nontemplate'):
            return
        is_raw = cls in RAW
        for m, subst in self.members_with_inherited(cls):
            if m['deleted'] or m['implicit']:
                continue
            if (cls, m['name']) in ILL_FORMED:
                self.skipped.append((cls, m['name'], [], 'ill-formed: ' + ILL_FORMED[(cls, m['name'])]))
                continue
            name = m['name']
            params = m['params']
            ptypes = [p['type'] for p in params]
            sig = ','.join(norm_type(p).replace('<NumericType>', '').replace('NumericType', 'num')
                           for p in ptypes)
            tps = m['tparams']
            # ---- copy / move / default: nothing to trace
            if m['kind'] == 'ctor' and (len(params) == 0 or (len(params) == 1 and norm_type(
                    ptypes[0]) == '%s<NumericType>' % cls)):
                continue
            if name == 'operator=' and len(params) == 1 and norm_type(ptypes[0]) == '%s<NumericType>' % cls:
                continue
            # ---- converting constructor / assignment between numeric types
            if any(tp['kind'] == 'type' and tp['name'] == 'OtherNumericType' for tp in tps):
                for ufmt in (32, 64, 80):
                    args, metas, ok = [], [], True
                    for p in ptypes:
                        a = self.arg(p, subst=subst)
                        if a is None:
                            ok = False
                            break
                        args.append(a[0])
                        metas.append(a[1])
                    if not ok:
                        self.skipped.append((cls, name, ptypes, 'unsupported param'))
                        break
                    pre = 'using U = vrt::Num<%d>;\n' % ufmt
                    same_guard = ''
                    only_cast = all(norm_type(p) == '%s<OtherNumericType>' % cls for p in ptypes)
                    if only_cast:
                        same_guard = ('  if constexpr (std::is_same<U, T>::value) '
                                      '{ c.error = "same-format"; return; } else {\n')
                    body = pre + same_guard
                    decl = ''.join('  auto a%d = %s;\n' % (i, a) for i, a in enumerate(args))
                    al = ', '.join('a%d' % i for i in range(len(args)))
                    if m['kind'] == 'ctor':
                        body += decl + '  PhQ::%s<T> r(%s);\n  c.out("r", r);\n' % (cls, al)
                        kind = 'cast-ctor' if only_cast else 'ctor'
                        eid = '%s::ctor(%s)[U=%d]' % (cls, sig, ufmt)
                    elif name == 'operator=':
                        body += ('  auto self = c.make<PhQ::%s<T>>();\n' % cls) + decl + \
                                '  self = %s;\n  c.out("self", self);\n' % al
                        kind = 'cast-assign'
                        eid = '%s::operator=(%s)[U=%d]' % (cls, sig, ufmt)
                    else:
                        # e.g. Vector::operator*=(OtherNumericType)
                        body += ('  auto self = c.make<PhQ::%s<T>>();\n' % cls) + decl
                        if m['ret'] == 'void':
                            body += '  self.%s(%s);\n  c.out("self", self);\n' % (name, al)
                        else:
                            body += '  auto r = self.%s(%s);\n  c.out("r", r);\n' % (name, al)
                        kind = 'method'
                        eid = '%s::%s(%s)[U=%d]' % (cls, name, sig, ufmt)
                    if only_cast:
                        body += '  }\n'
                    self.add(eid, {'cls': cls, 'kind': kind, 'name': name, 'args': metas,
                                   'ret': cls if m['kind'] == 'ctor' else norm_type(m['ret']),
                                   'ufmt': ufmt, 'self': m['kind'] != 'ctor'}, body)
                continue
            # ---- enumerator variants (run-time unit argument or compile-time unit parameter)
            enum_param_idx = [i for i, p in enumerate(ptypes) if self.is_enum(p, subst)]
            value_tps = [tp for tp in tps if tp['kind'] == 'value']
            variants = [None]
            enum_name = None
            if enum_param_idx:
                enum_name = self.is_enum(ptypes[enum_param_idx[0]], subst)
            elif value_tps:
                t = value_tps[0]['type']
                for k, v in subst.items():
                    t = re.sub(r'\b%s\b' % re.escape(k), v, t)
                enum_name = norm_type(t)
                if enum_name not in self.enums:
                    self.skipped.append((cls, name, ptypes, 'template value param ' + enum_name))
                    continue
            if enum_name:
                limit = 3 if name in STRING_FORMS else None
                variants = self.units_for(enum_name, limit)
            if len(enum_param_idx) > 1 or len(value_tps) > 1:
                self.skipped.append((cls, name, ptypes, 'several enum params'))
                continue
            for var in variants:
                args, metas, ok = [], [], True
                for i, p in enumerate(ptypes):
                    if i in enum_param_idx:
                        args.append('PhQ::%s::%s' % (enum_name, var))
                        metas.append('%s::%s' % (enum_name, var))
                        continue
                    a = self.arg(p, subst=subst)
                    if a is None:
                        ok = False
                        break
                    args.append(a[0])
                    metas.append(a[1])
                if not ok:
                    self.skipped.append((cls, name, ptypes, 'unsupported param'))
                    break
                targ = ''
                vtag = ''
                if var is not None:
                    vtag = '[%s]' % var
                    if value_tps:
                        targ = '<PhQ::%s::%s>' % (enum_name, var)
                decl_args = []
                n_enum = 0
                for i, a in enumerate(args):
                    decl_args.append('  auto a%d = %s;\n' % (i, a))
                al = ', '.join('a%d' % i for i in range(len(args)))
                meta = {'cls': cls, 'name': name, 'args': metas, 'unit': var,
                        'enum': enum_name, 'static_unit': bool(value_tps) and var is not None}
                ret = norm_type(m['ret']) if m['kind'] == 'method' else cls
                meta['ret'] = ret.replace('<NumericType>', '')
                if m['kind'] == 'ctor':
                    body = ''.join(decl_args) + '  PhQ::%s<T> r(%s);\n  c.out("r", r);\n' % (cls, al)
                    meta.update(kind='ctor', self=False)
                    eid = '%s::ctor(%s)%s' % (cls, sig, vtag)
                elif m['static']:
                    body = ''.join(decl_args) + \
                        '  auto r = PhQ::%s<T>::%s%s(%s);\n  c.out("r", r);\n' % (
                            cls, ('template ' if targ else '') + name, targ, al)
                    meta.update(kind='static', self=False)
                    eid = '%s::%s(%s)%s' % (cls, name, sig, vtag)
                else:
                    self_decl = '  auto self = c.make<PhQ::%s<T>>();\n' % cls
                    call = 'self.%s%s(%s)' % (('template ' if targ else '') + name, targ, al)
                    rt = m['ret']
                    if rt == 'void':
                        body = self_decl + ''.join(decl_args) + '  %s;\n  c.out("self", self);\n' % call
                        meta.update(kind='mutator', self=True)
                    elif rt.endswith('&') and not rt.startswith('const') and not params \
                            and name.startswith('Mutable'):
                        # reference to the stored value: write a fresh input through it
                        body = self_decl + \
                            '  auto& ref = %s;\n  ref = c.make<std::decay_t<decltype(ref)>>();\n' \
                            '  c.out("self", self);\n' % call
                        meta.update(kind='mutable-ref', self=True)
                    elif name == 'operator=':
                        body = self_decl + ''.join(decl_args) + '  self = %s;\n  c.out("self", self);\n' % al
                        meta.update(kind='mutator', self=True)
                    else:
                        body = self_decl + ''.join(decl_args) + \
                            '  auto r = %s;\n  c.out("r", r);\n' % call
                        if not m['const']:
                            body += '  c.out("self", self);\n'
                        meta.update(kind='method', self=True)
                    eid = '%s::%s(%s)%s' % (cls, name, sig, vtag)
                self.add(eid, meta, body)

    def gen_free(self):
        known = set(self.quantity_classes) | set(RAW)
        for f in self.facts.get('free', []):
            name = f['name']
            ptypes = [p['type'] for p in f['params']]
            if not any(re.match(r'^(\w+)<NumericType>$', norm_type(p)) and
                       re.match(r'^(\w+)<', norm_type(p)).group(1) in known for p in ptypes):
                continue
            if name in ('operator<<', 'operator>>'):
                if name == 'operator<<' and len(ptypes) == 2:
                    a = self.arg(ptypes[1])
                    if a:
                        cls = a[1]
                        body = ('  auto a0 = %s;\n  std::ostringstream os;\n  os << a0;\n'
                                '  c.out("r", os.str());\n' % a[0])
                        self.add('free::operator<<(%s)' % cls,
                                 {'cls': cls, 'kind': 'stream', 'name': name, 'args': [cls],
                                  'ret': 'std::string', 'self': False}, body)
                continue
            has_other = any(tp['name'] == 'OtherNumericType' for tp in f['tparams'])
            for ufmt in ((32, 64, 80) if has_other else (None,)):
                args, metas, ok = [], [], True
                for p in ptypes:
                    a = self.arg(p)
                    if a is None:
                        ok = False
                        break
                    args.append(a[0])
                    metas.append(a[1])
                if not ok:
                    self.skipped.append(('free', name, ptypes, 'unsupported param'))
                    break
                sig = ','.join(mm.replace(':U', '') for mm in metas)
                body = ('using U = vrt::Num<%d>;\n' % ufmt) if ufmt else ''
                body += ''.join('  auto a%d = %s;\n' % (i, a) for i, a in enumerate(args))
                op = name[len('operator'):]
                if len(args) == 2:
                    body += '  auto r = a0 %s a1;\n  c.out("r", r);\n' % op
                elif len(args) == 1:
                    body += '  auto r = %s a0;\n  c.out("r", r);\n' % op
                else:
                    continue
                eid = 'free::%s(%s)%s' % (name, sig, '[U=%d]' % ufmt if ufmt else '')
                cls = next((mm for mm in metas if mm.split(':')[0] in known), 'free')
                self.add(eid, {'cls': cls.split(':')[0], 'kind': 'free', 'name': name, 'args': metas,
                               'ret': norm_type(f['ret']).replace('<NumericType>', ''),
                               'ufmt': ufmt, 'self': False}, body)

    def gen_std_math(self):
        # <cmath>-style overloads for dimensionless scalars (DimensionlessScalar.hpp, namespace std)
        for cls in self.quantity_classes:
            base, unit = self.unit_type_of(cls)
            if base != 'DimensionlessScalar':
                continue
            for fn in ('abs', 'cbrt', 'exp', 'log', 'log2', 'log10', 'sqrt'):
                body = ('  auto a0 = c.make<PhQ::%s<T>>();\n  auto r = std::%s(a0);\n  c.out("r", r);\n'
                        % (cls, fn))
                self.add('std::%s(%s)' % (fn, cls), {'cls': cls, 'kind': 'stdmath', 'name': fn,
                                                      'args': [cls], 'ret': 'num', 'self': False}, body)
            body = ('  auto a0 = c.make<PhQ::%s<T>>();\n  auto a1 = c.make<T>();\n'
                    '  auto r = std::pow(a0, a1);\n  c.out("r", r);\n' % cls)
            self.add('std::pow(%s,num)' % cls, {'cls': cls, 'kind': 'stdmath', 'name': 'pow',
                                                'args': [cls, 'num'], 'ret': 'num', 'self': False}, body)

    def gen_hash(self):
        for cls in self.quantity_classes + list(RAW):
            body = ('  auto a0 = c.make<PhQ::%s<T>>();\n'
                    '  auto r = std::hash<PhQ::%s<T>>()(a0);\n  c.out("r", r);\n' % (cls, cls))
            self.add('std::hash(%s)' % cls, {'cls': cls, 'kind': 'hash', 'name': 'hash',
                                             'args': [cls], 'ret': 'size_t', 'self': False}, body)

    def gen_units(self):
        """Conversion entry points of Unit.hpp, per unit type. Run-time units are entry-family
        parameters (c.param), compile-time units are separate entries."""
        containers = [
            ('num', 'c.make<T>()'),
            ('array3', 'c.make_array<T, 3>()'),
            ('stdvector4', 'c.make_vector<T>(4)'),
            ('stdvector0', 'c.make_vector<T>(0)'),   # the empty container: data() of nothing must not be touched
            ('PlanarVector', 'c.make<PhQ::PlanarVector<T>>()'),
            ('Vector', 'c.make<PhQ::Vector<T>>()'),
            ('SymmetricDyad', 'c.make<PhQ::SymmetricDyad<T>>()'),
            ('Dyad', 'c.make<PhQ::Dyad<T>>()'),
        ]
        for u in self.facts['units']:
            en = 'Unit::' + u
            ens = self.enums[en]
            U = 'PhQ::Unit::' + u
            fam2 = {'params': [en, en]}
            fam1 = {'params': [en]}
            for cname, mk in containers:
                pol = 'all-pairs' if cname == 'num' else 'few'
                body = ('  auto a0 = %s;\n  const auto from = static_cast<%s>(c.param(0));\n'
                        '  const auto to = static_cast<%s>(c.param(1));\n'
                        '  auto r = PhQ::Convert(a0, from, to);\n  c.out("r", r);\n  c.out("arg", a0);\n'
                        % (mk, U, U))
                self.add('unit::Convert<%s>(%s)' % (u, cname),
                         {'cls': 'unit:' + u, 'kind': 'convert-copy', 'name': 'Convert', 'args': [cname],
                          'ret': cname, 'self': False, 'family': fam2, 'policy': pol, 'enum': en}, body)
                body = ('  auto a0 = %s;\n  const auto from = static_cast<%s>(c.param(0));\n'
                        '  const auto to = static_cast<%s>(c.param(1));\n'
                        '  PhQ::ConvertInPlace(a0, from, to);\n  c.out("self", a0);\n' % (mk, U, U))
                self.add('unit::ConvertInPlace<%s>(%s)' % (u, cname),
                         {'cls': 'unit:' + u, 'kind': 'convert-inplace', 'name': 'ConvertInPlace',
                          'args': [cname], 'ret': cname, 'self': False, 'family': fam2,
                          'policy': 'ring' if cname == 'num' else 'few',
                          'enum': en}, body)
            # run-time dispatch tables
            for d in ('ToStandard', 'FromStandard'):
                body = ('  auto a0 = c.make<T>();\n  const auto u = static_cast<%s>(c.param(0));\n'
                        '  const auto& table = PhQ::Internal::MapOfConversions%s<%s, T>;\n'
                        '  const auto found = table.find(u);\n'
                        '  if (found == table.end()) { c.error = "missing-key"; return; }\n'
                        '  found->second(&a0, 1);\n  c.out("self", a0);\n' % (U, d, U))
                self.add('unit::map::%s<%s>' % (d, u),
                         {'cls': 'unit:' + u, 'kind': 'map-kernel', 'name': d, 'args': ['num'],
                          'ret': 'num', 'self': False, 'family': fam1, 'policy': 'all', 'enum': en}, body)
            # compile-time kernels and ConvertStatically
            for i, e in enumerate(ens):
                for d in ('ToStandard', 'FromStandard'):
                    body = ('  auto a0 = c.make<T>();\n'
                            '  PhQ::Internal::Conversion<%s, %s::%s>::%s(a0);\n  c.out("self", a0);\n'
                            % (U, U, e, d))
                    self.add('unit::kernel::%s<%s::%s>' % (d, u, e),
                             {'cls': 'unit:' + u, 'kind': 'static-kernel', 'name': d, 'args': ['num'],
                              'ret': 'num', 'self': False, 'enum': en, 'unit': e}, body)
                nxt = ens[(i + 1) % len(ens)]
                for cname, mk in containers:
                    if cname.startswith('stdvector'):
                        continue
                    sizes = ''
                    m = re.match(r'array(\d+)', cname)
                    for (f, t) in ((e, nxt),) if cname != 'num' else ((e, nxt), (e, e)):
                        if cname != 'num' and i % 5 != 0:
                            continue
                        if m:
                            call = 'PhQ::ConvertStatically<%s, %s::%s, %s::%s, %s, T>(a0)' % (
                                U, U, f, U, t, m.group(1))
                        else:
                            call = 'PhQ::ConvertStatically<%s, %s::%s, %s::%s>(a0)' % (U, U, f, U, t)
                        body = '  auto a0 = %s;\n  auto r = %s;\n  c.out("r", r);\n  c.out("arg", a0);\n' % (
                            mk, call)
                        self.add('unit::ConvertStatically<%s::%s,%s>(%s)' % (u, f, t, cname),
                                 {'cls': 'unit:' + u, 'kind': 'convert-static', 'name': 'ConvertStatically',
                                  'args': [cname], 'ret': cname, 'self': False, 'enum': en,
                                  'from': f, 'to': t}, body)

    def gen_models(self):
        """The three constitutive-model classes: constructors, accessors, the five virtual functions
        in their three numeric-type overloads (called through a base-class reference and directly),
        comparison, hashing, string forms."""
        nat = {'float': 32, 'double': 64, 'long double': 80}
        for M in self.facts['models']:
            fc = self.classes[M]
            MT = 'PhQ::ConstitutiveModel::%s<T>' % M
            fields = [(f['name'], re.match(r'^(?:PhQ::)?(\w+)<NumericType>$', f['type']).group(1))
                      for f in fc['fields']]
            canon = ''.join('  auto f%d = c.make<PhQ::%s<T>>();\n' % (i, t) for i, (_, t) in enumerate(fields))
            canon += '  const %s m(%s);\n' % (MT, ', '.join('f%d' % i for i in range(len(fields))))
            stored = [m['name'] for m in fc['members'] if m['kind'] == 'method' and m['access'] == 'public'
                      and not m['params'] and m['ret'].startswith('const PhQ::') and m['ret'].endswith('&')]
            base_meta = {'cls': 'model:' + M, 'fields': [t for _, t in fields], 'stored': stored}
            for m in fc['members']:
                if m['access'] != 'public' or m['implicit'] or m['deleted']:
                    continue
                ptypes = [p['type'] for p in m['params']]
                name = m['name']
                if m['kind'] == 'ctor':
                    if len(ptypes) == 0:
                        body = '  const %s m;\n' % MT + ''.join(
                            '  c.out("%s", m.%s());\n' % (a, a) for a in stored)
                        self.add('model::%s::ctor()' % M, dict(base_meta, kind='model-ctor', name='ctor',
                                                               args=[], ret=M, self=False), body)
                        continue
                    if len(ptypes) == 1 and norm_type(ptypes[0]) == '%s<NumericType>' % M:
                        continue
                    args, metas = [], []
                    for p in ptypes:
                        a = self.arg(p)
                        args.append(a[0])
                        metas.append(a[1])
                    body = ''.join('  auto a%d = %s;\n' % (i, a) for i, a in enumerate(args))
                    body += '  const %s m(%s);\n' % (MT, ', '.join('a%d' % i for i in range(len(args))))
                    body += ''.join('  c.out("%s", m.%s());\n' % (a, a) for a in stored)
                    self.add('model::%s::ctor(%s)' % (M, ','.join(metas)),
                             dict(base_meta, kind='model-ctor', name='ctor', args=metas, ret=M, self=False),
                             body)
                    continue
                if name == 'operator=':
                    continue
                if not ptypes and name not in ('GetType',) + STRING_FORMS:
                    body = canon + '  c.out("r", m.%s());\n' % name
                    self.add('model::%s::%s()' % (M, name),
                             dict(base_meta, kind='model-accessor', name=name, args=[],
                                  ret=norm_type(m['ret']).replace('<NumericType>', ''), self=True), body)
                    continue
                if name == 'GetType' or name in STRING_FORMS:
                    for via in ('base', 'direct'):
                        recv = 'base' if via == 'base' else 'm'
                        body = canon + '  const PhQ::ConstitutiveModel& base = m;\n  (void)base;\n' \
                            '  c.out("r", %s.%s());\n' % (recv, name)
                        self.add('model::%s::%s()[%s]' % (M, name, via),
                                 dict(base_meta, kind='model-string' if name != 'GetType' else 'model-type',
                                      name=name, args=[], ret=norm_type(m['ret']), via=via, self=True), body)
                    continue
                # virtual overloads on float / double / long double
                mm = [re.match(r'^const PhQ::(\w+)<(float|double|long double)> &$', p) for p in ptypes]
                if not all(mm):
                    self.skipped.append((M, name, ptypes, 'unsupported model member'))
                    continue
                afmt = nat[mm[0].group(2)]
                for via in ('base', 'direct'):
                    recv = 'base' if via == 'base' else 'm'
                    body = 'using A = vrt::Num<%d>;\n' % afmt + canon
                    body += ''.join('  auto a%d = c.make<PhQ::%s<A>>();\n' % (i, x.group(1))
                                    for i, x in enumerate(mm))
                    body += '  const PhQ::ConstitutiveModel& base = m;\n  (void)base;\n'
                    body += '  auto r = %s.%s(%s);\n  c.out("r", r);\n' % (
                        recv, name, ', '.join('a%d' % i for i in range(len(mm))))
                    self.add('model::%s::%s(%s)[A=%d,%s]' % (M, name, ','.join(x.group(1) for x in mm), afmt, via),
                             dict(base_meta, kind='model-virtual', name=name,
                                  args=[x.group(1) for x in mm], afmt=afmt, via=via,
                                  ret=re.match(r'^PhQ::(\w+)<', m['ret']).group(1), self=True), body)
            # comparison, hash, streaming
            two = canon.replace('f0', 'g0').replace('f1', 'g1').replace(' m(', ' m2(')
            for op, nm in (('==', 'eq'), ('!=', 'ne'), ('<', 'lt'), ('>', 'gt'), ('<=', 'le'), ('>=', 'ge')):
                body = canon + two + '  c.out("r", m %s m2);\n' % op
                self.add('model::%s::operator%s' % (M, op),
                         dict(base_meta, kind='model-compare', name='operator' + op, args=[M, M], ret='bool',
                              self=False), body)
            body = canon + '  c.out("r", std::hash<%s>()(m));\n' % MT
            self.add('model::%s::hash' % M, dict(base_meta, kind='model-hash', name='hash', args=[M],
                                                 ret='size_t', self=False), body)
            body = canon + '  std::ostringstream os;\n  os << m;\n  c.out("r", os.str());\n'
            self.add('model::%s::operator<<' % M, dict(base_meta, kind='model-stream', name='operator<<',
                                                       args=[M], ret='std::string', self=False), body)

    def run(self):
        self.gen_models()
        for cls in self.quantity_classes:
            self.gen_class(cls)
        self.gen_free()
        self.gen_std_math()
        self.gen_hash()
        self.gen_units()


HEADER = '''// GENERATED by gen_entries.py -- do not edit.
#include "trace_rt.hpp"
%s

namespace {
'''


def main():
    facts = json.load(open(sys.argv[1]))
    outdir = sys.argv[2]
    nshards = int(sys.argv[3])
    g = Gen(facts)
    g.run()
    os.makedirs(outdir, exist_ok=True)
    # stable order, shard by class so that each TU instantiates few classes deeply
    seen = set()
    uniq = []
    for e in g.entries:
        if e['id'] in seen:
            # overloads that normalise to the same id: disambiguate by ordinal
            k = 2
            while '%s#%d' % (e['id'], k) in seen:
                k += 1
            e['id'] = '%s#%d' % (e['id'], k)
        seen.add(e['id'])
        uniq.append(e)
    by_cls = {}
    for e in uniq:
        by_cls.setdefault(e['meta']['cls'], []).append(e)
    # greedy balance by entry count
    shards = [[] for _ in range(nshards)]
    loads = [0] * nshards
    for cls, es in sorted(by_cls.items(), key=lambda kv: -len(kv[1])):
        i = loads.index(min(loads))
        shards[i].extend(es)
        loads[i] += len(es)
    includes = '\n'.join('#include "PhQ/%s.hpp"' % c for c in g.quantity_classes)
    includes += '\n' + '\n'.join('#include "PhQ/ConstitutiveModel/%s.hpp"' % m for m in facts['models'])
    for si, es in enumerate(shards):
        with open(os.path.join(outdir, 'entries_%02d.cpp' % si), 'w') as f:
            f.write(HEADER % includes)
            for k, e in enumerate(es):
                f.write('template <typename T> void e%d(vrt::Ctx& c) {\n%s}\n' % (k, e['body']))
                f.write('vrt::Reg r%d{vrt::Entry{%s, %s, &e%d<vrt::Num<32>>, &e%d<vrt::Num<64>>, '
                        '&e%d<vrt::Num<80>>}};\n\n' % (
                            k, json.dumps(e['id']), json.dumps(json.dumps(e['meta'], sort_keys=True)),
                            k, k, k))
            f.write('}  // namespace\n')
    with open(os.path.join(outdir, 'entries_index.json'), 'w') as f:
        json.dump({'shards': [[e['id'] for e in es] for es in shards],
                   'skipped': [list(s) for s in g.skipped],
                   'quantity_classes': g.quantity_classes}, f, indent=1)
    print('gen_entries: %d entries in %d shards (%s), %d skipped' % (
        len(uniq), nshards, loads, len(g.skipped)), file=sys.stderr)


if __name__ == '__main__':
    main()
