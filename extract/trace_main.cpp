// trace_main.cpp -- line server around the generated entry functions.
//
//   request :  <entry-index> <fmt:32|64|80> [v0 v1 ...]     (values: anything strtold accepts)
//   response:  one JSON object per line
//
// Built twice: as the tracer (PhQ instantiated at sym::S<F>; values are shadow values that only
// steer branches) and, with -DVERIF_NATIVE, as the native harness (PhQ at float/double/long double;
// values are the actual inputs, outputs are hex floats).
#include "trace_rt.hpp"

#include <cstdlib>
#include <exception>
#include <typeinfo>

static std::string RunOne(const vrt::Entry& e, int fmt, const std::vector<long double>& vals,
                          const std::vector<long long>& params) {
  vrt::Ctx c;
  c.vals = vals;
  c.params = params;
#ifndef VERIF_NATIVE
  sym::G().clear_keep_permanent();
#endif
  std::string err;
  try {
    if (fmt == 32) e.run32(c);
    else if (fmt == 64) e.run64(c);
    else e.run80(c);
  } catch (const std::bad_alloc&) {
    err = "bad_alloc";
  } catch (const std::exception& ex) {
    err = std::string("exception:") + typeid(ex).name();
  } catch (...) {
    err = "exception:unknown";
  }
  if (!c.error.empty()) err = c.error;
  std::ostringstream os;
  os << "{\"id\":\"" << vrt::JsonEscape(e.id) << "\",\"fmt\":" << fmt << ",\"n_in\":" << c.next
     << ",\"params\":[";
  for (size_t i = 0; i < c.params.size(); ++i) os << (i ? "," : "") << c.params[i];
  os << "],\"arg_sizes\":[";
  for (size_t i = 0; i < c.arg_sizes.size(); ++i) os << (i ? "," : "") << c.arg_sizes[i];
  os << "],\"outs\":[";
  for (size_t i = 0; i < c.outs.size(); ++i) {
    os << (i ? "," : "") << "{\"l\":\"" << vrt::JsonEscape(c.outs[i].label) << "\",\"t\":\""
       << vrt::JsonEscape(c.outs[i].text) << "\"}";
  }
  os << "]";
#ifndef VERIF_NATIVE
  os << ",\"path\":[";
  const auto& path = sym::G().path;
  for (size_t i = 0; i < path.size(); ++i) {
    os << (i ? "," : "") << "{\"op\":\"" << path[i].op << "\",\"a\":\"" << sym::Str(path[i].a)
       << "\",\"b\":\"" << sym::Str(path[i].b) << "\",\"o\":" << (path[i].outcome ? "true" : "false")
       << "}";
  }
  os << "],\"events\":[";
  const auto& ev = sym::G().events;
  for (size_t i = 0; i < ev.size(); ++i) os << (i ? "," : "") << "\"" << vrt::JsonEscape(ev[i]) << "\"";
  os << "]";
#endif
  if (!err.empty()) os << ",\"error\":\"" << vrt::JsonEscape(err) << "\"";
  os << "}";
  return os.str();
}

int main(int argc, char** argv) {
  std::ios::sync_with_stdio(false);
#ifndef VERIF_NATIVE
  sym::G().mark_permanent();
#endif
  const auto& reg = vrt::Registry();
  if (argc > 1 && std::string(argv[1]) == "--list") {
    for (size_t i = 0; i < reg.size(); ++i) {
      std::cout << "{\"index\":" << i << ",\"id\":\"" << vrt::JsonEscape(reg[i].id) << "\",\"meta\":"
                << reg[i].meta << "}\n";
    }
    return 0;
  }
  std::string line;
  while (std::getline(std::cin, line)) {
    std::istringstream is(line);
    long idx; int fmt;
    if (!(is >> idx >> fmt)) continue;
    std::vector<long double> vals;
    std::vector<long long> params;
    std::string tok;
    while (is >> tok) {
      if (tok[0] == '@') params.push_back(std::strtoll(tok.c_str() + 1, nullptr, 10));
      else vals.push_back(std::strtold(tok.c_str(), nullptr));
    }
    if (idx < 0 || static_cast<size_t>(idx) >= reg.size()) { std::cout << "{\"error\":\"bad-index\"}\n"; continue; }
    std::cout << RunOne(reg[static_cast<size_t>(idx)], fmt, vals, params) << "\n";
    std::cout.flush();
  }
  return 0;
}
