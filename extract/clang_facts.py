#!/usr/bin/env python3
"""Declaration facts from clang's AST (declarations only, no semantics).

For every class template in include/PhQ/*.hpp (and the three constitutive models) lists the public
constructors and member functions with their parameter types, constness, staticness and template
parameters; for every `enum class` in the tree lists its enumerators from the declaration itself.

Output: JSON on stdout / to a file.  Used by gen_entries.py to decide what to trace (DESIGN 3.3).
"""
import json
import os
import re
import subprocess
import sys
import tempfile
from concurrent.futures import ThreadPoolExecutor


def run_clang(include_dir, header, filt, extra_incl=()):
    with tempfile.NamedTemporaryFile('w', suffix='.cpp', delete=False) as f:
        f.write('#include "%s"\n' % header)
        src = f.name
    try:
        cmd = ['clang++-14', '-std=gnu++17', '-fsyntax-only', '-I', include_dir]
        for e in extra_incl:
            cmd += ['-I', e]
        cmd += ['-Xclang', '-ast-dump=json', '-Xclang', '-ast-dump-filter=' + filt, src]
        p = subprocess.run(cmd, stdout=subprocess.PIPE, stderr=subprocess.PIPE, text=True)
        if p.returncode != 0 and not p.stdout.strip():
            raise RuntimeError('clang failed on %s: %s' % (header, p.stderr[-2000:]))
        return p.stdout
    finally:
        os.unlink(src)


def parse_concat(s):
    dec = json.JSONDecoder()
    i, n, out = 0, len(s), []
    while i < n:
        while i < n and s[i] in ' \n\r\t':
            i += 1
        if i >= n:
            break
        if s[i] != '{':
            j = s.find('\n', i)
            i = n if j < 0 else j + 1
            continue
        o, i = dec.raw_decode(s, i)
        out.append(o)
    return out


def qual(node):
    return node.get('type', {}).get('qualType', '')


def params_of(fn):
    ps = []
    for c in fn.get('inner', []):
        if c.get('kind') == 'ParmVarDecl':
            ps.append({'type': qual(c), 'name': c.get('name', ''), 'default': 'init' in c})
    return ps


def fn_record(fn, access, tparams=None):
    qt = qual(fn)
    rec = {
        'kind': 'ctor' if fn['kind'] == 'CXXConstructorDecl' else 'method',
        'name': fn.get('name', ''),
        'params': params_of(fn),
        'qualType': qt,
        'const': bool(re.search(r'\)\s*const', qt)),
        'static': fn.get('storageClass') == 'static',
        'virtual': bool(fn.get('virtual')),
        'pure': bool(fn.get('pure')),
        'deleted': bool(fn.get('explicitlyDeleted')),
        'defaulted': bool(fn.get('explicitlyDefaulted')),
        'implicit': bool(fn.get('isImplicit')),
        'access': access,
        'tparams': tparams or [],
        'line': fn.get('loc', {}).get('line') or fn.get('range', {}).get('begin', {}).get('line'),
    }
    m = re.match(r'^(.*?)\s*\(', qt)
    rec['ret'] = m.group(1).strip() if m and rec['kind'] == 'method' else ''
    return rec


def class_facts(record, default_access):
    access = default_access
    members, bases, fields = [], [], []
    for b in record.get('bases', []):
        bases.append(b.get('type', {}).get('qualType', ''))
    for c in record.get('inner', []):
        k = c.get('kind')
        if k == 'AccessSpecDecl':
            access = c.get('access', access)
        elif k in ('CXXConstructorDecl', 'CXXMethodDecl'):
            members.append(fn_record(c, access))
        elif k == 'FunctionTemplateDecl':
            tps, fn = [], None
            for d in c.get('inner', []):
                if d.get('kind') == 'TemplateTypeParmDecl':
                    tps.append({'kind': 'type', 'name': d.get('name', '')})
                elif d.get('kind') == 'NonTypeTemplateParmDecl':
                    tps.append({'kind': 'value', 'name': d.get('name', ''), 'type': qual(d)})
                elif d.get('kind') in ('CXXConstructorDecl', 'CXXMethodDecl') and fn is None:
                    fn = d
            if fn is not None:
                members.append(fn_record(fn, access, tps))
        elif k == 'FieldDecl':
            fields.append({'name': c.get('name', ''), 'type': qual(c), 'access': access})
        elif k == 'CXXDestructorDecl':
            pass
    dd = record.get('definitionData', {})
    return {'bases': bases, 'members': members, 'fields': fields,
            'isPolymorphic': bool(dd.get('isPolymorphic')),
            'isAbstract': bool(dd.get('isAbstract'))}


def find_class(objs, name, want_template=True):
    """Return facts for the class template `name` (the declaration with a complete definition), or,
    with want_template=False, for the non-template class of that name."""
    def walk(o):
        if isinstance(o, dict):
            yield o
            for c in o.get('inner', []):
                yield from walk(c)
    if want_template:
        for o in objs:
            for node in walk(o):
                if node.get('kind') == 'ClassTemplateDecl' and node.get('name') == name:
                    for c in node.get('inner', []):
                        if c.get('kind') == 'CXXRecordDecl' and c.get('completeDefinition'):
                            return class_facts(c, 'private' if c.get('tagUsed') == 'class' else 'public')
    for o in objs:
        if o.get('kind') == 'ClassTemplateDecl':
            continue
        for node in walk(o):
            if node.get('kind') == 'CXXRecordDecl' and node.get('name') == name \
                    and node.get('completeDefinition') and 'definitionData' in node \
                    and not node.get('isImplicit'):
                f = class_facts(node, 'private' if node.get('tagUsed') == 'class' else 'public')
                f['nontemplate'] = True
                return f
    return None


def find_enums(objs):
    out = {}
    def walk(o, scope):
        if not isinstance(o, dict):
            return
        k = o.get('kind')
        if k == 'EnumDecl' and o.get('name') and any(
                c.get('kind') == 'EnumConstantDecl' for c in o.get('inner', [])):
            ens = [c['name'] for c in o.get('inner', []) if c.get('kind') == 'EnumConstantDecl']
            out.setdefault(o['name'], ens)
        for c in o.get('inner', []):
            walk(c, scope)
    for o in objs:
        walk(o, [])
    return out


def free_operators(include_dir, classes):
    """Free (namespace-scope) operator function templates of the whole library."""
    with tempfile.NamedTemporaryFile('w', suffix='.hpp', delete=False, dir='/tmp') as f:
        for c in classes:
            if c != 'ConstitutiveModel':
                f.write('#include "PhQ/%s.hpp"\n' % c)
        hdr = f.name
    try:
        objs = parse_concat(run_clang(include_dir, hdr, 'operator'))
    finally:
        os.unlink(hdr)
    out = []
    for o in objs:
        if o.get('kind') != 'FunctionTemplateDecl':
            continue
        tps, fn = [], None
        for d in o.get('inner', []):
            if d.get('kind') == 'TemplateTypeParmDecl':
                tps.append({'kind': 'type', 'name': d.get('name', '')})
            elif d.get('kind') == 'NonTypeTemplateParmDecl':
                tps.append({'kind': 'value', 'name': d.get('name', ''), 'type': qual(d)})
            elif d.get('kind') == 'FunctionDecl' and fn is None:
                fn = d
        if fn is None:
            continue
        qt = qual(fn)
        m = re.match(r'^(.*?)\s*\(', qt)
        out.append({'name': o.get('name', ''), 'params': params_of(fn), 'qualType': qt,
                    'ret': m.group(1).strip() if m else '', 'tparams': tps})
    return out


def main():
    include_dir = sys.argv[1]
    out_path = sys.argv[2]
    phq = os.path.join(include_dir, 'PhQ')
    classes = sorted(f[:-4] for f in os.listdir(phq)
                     if f.endswith('.hpp') and f not in ('Base.hpp', 'Unit.hpp', 'UnitSystem.hpp'))
    models = sorted(f[:-4] for f in os.listdir(os.path.join(phq, 'ConstitutiveModel')) if f.endswith('.hpp'))
    units = sorted(f[:-4] for f in os.listdir(os.path.join(phq, 'Unit')) if f.endswith('.hpp'))
    dims = sorted(f[:-4] for f in os.listdir(os.path.join(phq, 'Dimension')) if f.endswith('.hpp'))

    jobs = []
    for c in classes:
        jobs.append(('class', c, 'PhQ/%s.hpp' % c, c))
    for m in models:
        jobs.append(('class', m, 'PhQ/ConstitutiveModel/%s.hpp' % m, m))
    for u in units:
        jobs.append(('enum', 'Unit::' + u, 'PhQ/Unit/%s.hpp' % u, 'PhQ::Unit::' + u))
    for d in dims:
        jobs.append(('class', 'Dimension::' + d, 'PhQ/Dimension/%s.hpp' % d, 'PhQ::Dimension::' + d))
    jobs.insert(0, ('free', 'operators', '', 'operator'))
    jobs.append(('enum', 'UnitSystem', 'PhQ/UnitSystem.hpp', 'PhQ::UnitSystem'))
    jobs.append(('enum', 'ConstitutiveModel::Type', 'PhQ/ConstitutiveModel.hpp', 'ConstitutiveModel::Type'))

    def do(job):
        kind, name, header, filt = job
        if kind == 'free':
            return job, free_operators(include_dir, classes)
        objs = parse_concat(run_clang(include_dir, header, filt))
        if kind == 'class':
            return job, find_class(objs, name.split('::')[-1], want_template=not name.startswith('Dimension::'))
        ens = find_enums(objs)
        return job, ens.get(name.split('::')[-1])

    facts = {'classes': {}, 'enums': {}, 'models': models, 'units': units, 'dimensions': dims}
    with ThreadPoolExecutor(max_workers=16) as ex:
        for job, res in ex.map(do, jobs):
            kind, name = job[0], job[1]
            if kind == 'free':
                facts['free'] = res
                continue
            if res is None:
                print('clang_facts: nothing found for', name, file=sys.stderr)
                continue
            facts['classes' if kind == 'class' else 'enums'][name] = res
    with open(out_path, 'w') as f:
        json.dump(facts, f, indent=1, sort_keys=True)
    print('clang_facts: %d classes, %d enums' % (len(facts['classes']), len(facts['enums'])), file=sys.stderr)


if __name__ == '__main__':
    main()
