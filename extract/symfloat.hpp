// symfloat.hpp -- format-tagged tracing numeric types S<32>, S<64>, S<80>.
//
// PhQ's templates are instantiated at these types instead of float / double / long double. Every
// primitive floating-point operation the instantiated code performs is appended to a global SSA
// graph; every comparison is appended to the path condition; every way a value can leave the traced
// world is an explicit escape. The C++ compiler does overload resolution, template instantiation,
// inlining and the usual arithmetic conversions exactly as it does for the native types; this header
// only has to mirror the *primitive* semantics (format of each operation's result).
//
// See /verif/DESIGN.md section 3.
#ifndef VERIF_SYMFLOAT_HPP
#define VERIF_SYMFLOAT_HPP

#include <array>
#include <cmath>
#include <cstdint>
#include <cstdio>
#include <functional>
#include <limits>
#include <sstream>
#include <string>
#include <type_traits>
#include <vector>

namespace sym {

template <int F> struct NativeOf;
template <> struct NativeOf<32> { using type = float; };
template <> struct NativeOf<64> { using type = double; };
template <> struct NativeOf<80> { using type = long double; };

enum class Op : int {
  In, Lit, Named, Uninit, Cast,
  Neg, Sqrt, Abs, Acos, Cbrt, Exp, Log, Log2, Log10,
  Add, Sub, Mul, Div, Pow, Powi
};

inline const char* OpName(Op op) {
  switch (op) {
    case Op::In: return "in"; case Op::Lit: return "lit"; case Op::Named: return "named";
    case Op::Uninit: return "uninit"; case Op::Cast: return "cast"; case Op::Neg: return "neg";
    case Op::Sqrt: return "sqrt"; case Op::Abs: return "abs"; case Op::Acos: return "acos";
    case Op::Cbrt: return "cbrt"; case Op::Exp: return "exp"; case Op::Log: return "log";
    case Op::Log2: return "log2"; case Op::Log10: return "log10"; case Op::Add: return "add";
    case Op::Sub: return "sub"; case Op::Mul: return "mul"; case Op::Div: return "div";
    case Op::Pow: return "pow"; case Op::Powi: return "powi";
  }
  return "?";
}

struct Node {
  Op op;
  int fmt;            // format of the result (32/64/80)
  int a{-1}, b{-1};   // operand node ids
  long double lit{0}; // exact value for Lit / Named (every float/double is a long double)
  int litfmt{0};      // format the literal had in the source: 32/64/80, 0 for an integer literal
  long long n{0};     // integer exponent for Powi, input index for In
  std::string name;   // for Named
};

struct Cmp { std::string op; int a, b; bool outcome; };

struct Graph {
  std::vector<Node> nodes;
  std::vector<Cmp> path;
  std::vector<std::string> events;  // escapes, hashes, prints, table accesses ...
  int n_inputs{0};
  size_t permanent{0};  // nodes created during static initialisation (named constants) are kept
  void mark_permanent() { permanent = nodes.size(); }
  void clear_keep_permanent() { nodes.resize(permanent); path.clear(); events.clear(); n_inputs = 0; }
  int add(const Node& n) { nodes.push_back(n); return static_cast<int>(nodes.size()) - 1; }
};

inline Graph& G() { static Graph g; return g; }

inline std::string HexLD(long double v) {
  char buf[80];
  std::snprintf(buf, sizeof buf, "%La", v);
  return buf;
}

// Expanded expression tree (sharing expanded) as an s-expression.
inline void Emit(std::ostream& os, int id) {
  const Node& n = G().nodes[static_cast<size_t>(id)];
  switch (n.op) {
    case Op::In: os << "(in " << n.n << " " << n.fmt << ")"; return;
    case Op::Lit: os << "(lit " << n.fmt << " " << n.litfmt << " " << HexLD(n.lit) << ")"; return;
    case Op::Named: os << "(named " << n.name << " " << n.fmt << " " << HexLD(n.lit) << ")"; return;
    case Op::Uninit: os << "(uninit " << n.fmt << ")"; return;
    case Op::Powi: os << "(powi " << n.fmt << " " << n.n << " "; Emit(os, n.a); os << ")"; return;
    default: break;
  }
  os << "(" << OpName(n.op) << " " << n.fmt << " ";
  Emit(os, n.a);
  if (n.b >= 0) { os << " "; Emit(os, n.b); }
  os << ")";
}

inline std::string Str(int id) { std::ostringstream os; Emit(os, id); return os.str(); }

template <int F>
class S {
public:
  using N = typename NativeOf<F>::type;
  // Node of the trace graph, or -1 for a literal that has not been entered into the graph yet. Literals
  // are constructible in constant expressions (so that `constexpr NumericType c{...};` in the library
  // compiles at the tracing type, as it does at `double`); they enter the graph when first used.
  int id;
  N v;
  long double lit_ = 0.0L;
  int litfmt_ = 0;

  S() : id(G().add(Node{Op::Uninit, F})), v(0) {}
  constexpr S(const S&) = default;
  constexpr S& operator=(const S&) = default;

  struct Raw {};
  constexpr S(Raw, int id_, N v_) : id(id_), v(v_) {}

  // Literals. A literal keeps the format it had in the source; the conversion to this format is a
  // separate rounding step, recorded as a cast unless the formats coincide.
  constexpr S(float x) : id(-1), v(static_cast<N>(x)), lit_(x), litfmt_(32) {}
  constexpr S(double x) : id(-1), v(static_cast<N>(x)), lit_(x), litfmt_(64) {}
  constexpr S(long double x) : id(-1), v(static_cast<N>(x)), lit_(x), litfmt_(80) {}
  constexpr S(int x) : id(-1), v(static_cast<N>(x)), lit_(x), litfmt_(0) {}
  constexpr S(long x) : id(-1), v(static_cast<N>(x)), lit_(x), litfmt_(0) {}
  constexpr S(long long x) : id(-1), v(static_cast<N>(x)), lit_(x), litfmt_(0) {}
  constexpr S(unsigned x) : id(-1), v(static_cast<N>(x)), lit_(x), litfmt_(0) {}
  constexpr S(unsigned long x) : id(-1), v(static_cast<N>(x)), lit_(x), litfmt_(0) {}

  /// The node of this value; a pending literal is entered into the graph now.
  int nid() const { return id >= 0 ? id : FromLit(lit_, litfmt_); }

  // Conversion between formats (implicit, as between native floating-point types).
  template <int Gf, typename = std::enable_if_t<Gf != F>>
  S(const S<Gf>& o) : id(G().add(Node{Op::Cast, F, o.nid()})), v(static_cast<N>(o.v)) {}

  static S In(N shadow) {
    Node n{Op::In, F};
    n.n = G().n_inputs++;
    return S(Raw{}, G().add(n), shadow);
  }
  static S Named(const char* name, N value) {
    Node n{Op::Named, F};
    n.name = name;
    n.lit = static_cast<long double>(value);
    return S(Raw{}, G().add(n), value);
  }

  // Escapes: a traced value leaving the traced world.
  explicit operator float() const { G().events.push_back("escape:float"); return static_cast<float>(v); }
  explicit operator double() const { G().events.push_back("escape:double"); return static_cast<double>(v); }
  explicit operator long double() const { G().events.push_back("escape:longdouble"); return static_cast<long double>(v); }
  explicit operator int() const { G().events.push_back("escape:int"); return static_cast<int>(v); }
  explicit operator bool() const { G().events.push_back("escape:bool"); return v != 0; }

  S operator-() const { return S(Raw{}, G().add(Node{Op::Neg, F, nid()}), -v); }
  S operator+() const { return *this; }

  template <typename U> S& operator+=(const U& o) { *this = S(*this + o); return *this; }
  template <typename U> S& operator-=(const U& o) { *this = S(*this - o); return *this; }
  template <typename U> S& operator*=(const U& o) { *this = S(*this * o); return *this; }
  template <typename U> S& operator/=(const U& o) { *this = S(*this / o); return *this; }

private:
  static int FromLit(long double x, int litfmt) {
    if (litfmt == F || litfmt == 0) {
      Node n{Op::Lit, F};
      n.lit = static_cast<long double>(static_cast<N>(x));
      n.litfmt = litfmt;
      if (litfmt == 0 && static_cast<long double>(static_cast<N>(x)) != x) {
        G().events.push_back("escape:inexact-int-literal");
      }
      return G().add(n);
    }
    Node n{Op::Lit, litfmt};
    n.lit = x;
    n.litfmt = litfmt;
    const int lid = G().add(n);
    return G().add(Node{Op::Cast, F, lid});
  }
};

template <typename T> struct IsS : std::false_type {};
template <int F> struct IsS<S<F>> : std::true_type {};

// Format of a native arithmetic operand under the usual arithmetic conversions (0: integer, which
// adopts the other operand's floating-point format).
template <typename U> struct FmtOf { static constexpr int value = 0; };
template <> struct FmtOf<float> { static constexpr int value = 32; };
template <> struct FmtOf<double> { static constexpr int value = 64; };
template <> struct FmtOf<long double> { static constexpr int value = 80; };

constexpr int MaxF(int a, int b) { return a > b ? a : b; }

template <int R, int A>
inline S<R> Widen(const S<A>& x) {
  if constexpr (R == A) return x; else return S<R>(x);
}

#define SYM_BINOP(SYMBOL, OPNAME)                                                                  \
  template <int A, int B>                                                                          \
  inline S<MaxF(A, B)> operator SYMBOL(const S<A>& x, const S<B>& y) {                             \
    constexpr int R = MaxF(A, B);                                                                  \
    const S<R> l = Widen<R>(x);                                                                    \
    const S<R> r = Widen<R>(y);                                                                    \
    return S<R>(typename S<R>::Raw{}, G().add(Node{Op::OPNAME, R, l.nid(), r.nid()}), l.v SYMBOL r.v);   \
  }                                                                                                \
  template <int A, typename U, typename = std::enable_if_t<std::is_arithmetic<U>::value>>          \
  inline S<MaxF(A, FmtOf<U>::value)> operator SYMBOL(const S<A>& x, const U y) {                   \
    constexpr int R = MaxF(A, FmtOf<U>::value);                                                    \
    return x SYMBOL S<R>(y);                                                                       \
  }                                                                                                \
  template <int A, typename U, typename = std::enable_if_t<std::is_arithmetic<U>::value>>          \
  inline S<MaxF(A, FmtOf<U>::value)> operator SYMBOL(const U x, const S<A>& y) {                   \
    constexpr int R = MaxF(A, FmtOf<U>::value);                                                    \
    return S<R>(x) SYMBOL y;                                                                       \
  }

SYM_BINOP(+, Add)
SYM_BINOP(-, Sub)
SYM_BINOP(*, Mul)
SYM_BINOP(/, Div)
#undef SYM_BINOP

#define SYM_CMP(SYMBOL, NAME)                                                                      \
  template <int A, int B>                                                                          \
  inline bool operator SYMBOL(const S<A>& x, const S<B>& y) {                                      \
    constexpr int R = MaxF(A, B);                                                                  \
    const S<R> l = Widen<R>(x);                                                                    \
    const S<R> r = Widen<R>(y);                                                                    \
    const bool out = l.v SYMBOL r.v;                                                               \
    G().path.push_back(Cmp{NAME, l.nid(), r.nid(), out});                                                \
    return out;                                                                                    \
  }                                                                                                \
  template <int A, typename U, typename = std::enable_if_t<std::is_arithmetic<U>::value>>          \
  inline bool operator SYMBOL(const S<A>& x, const U y) {                                          \
    constexpr int R = MaxF(A, FmtOf<U>::value);                                                    \
    return x SYMBOL S<R>(y);                                                                       \
  }                                                                                                \
  template <int A, typename U, typename = std::enable_if_t<std::is_arithmetic<U>::value>>          \
  inline bool operator SYMBOL(const U x, const S<A>& y) {                                          \
    constexpr int R = MaxF(A, FmtOf<U>::value);                                                    \
    return S<R>(x) SYMBOL y;                                                                       \
  }

SYM_CMP(<, "lt")
SYM_CMP(>, "gt")
SYM_CMP(<=, "le")
SYM_CMP(>=, "ge")
SYM_CMP(==, "eq")
SYM_CMP(!=, "ne")
#undef SYM_CMP

// <cmath> overload set. f(float) -> float, f(double) -> double, f(long double) -> long double.
#define SYM_UNARY(FN, OPNAME)                                                                      \
  template <int A>                                                                                 \
  inline S<A> FN(const S<A>& x) {                                                                  \
    return S<A>(typename S<A>::Raw{}, G().add(Node{Op::OPNAME, A, x.nid()}), std::FN(x.v));           \
  }
SYM_UNARY(sqrt, Sqrt)
SYM_UNARY(abs, Abs)
SYM_UNARY(fabs, Abs)
SYM_UNARY(acos, Acos)
SYM_UNARY(cbrt, Cbrt)
SYM_UNARY(exp, Exp)
SYM_UNARY(log, Log)
SYM_UNARY(log2, Log2)
SYM_UNARY(log10, Log10)
#undef SYM_UNARY

// The C names with a precision suffix (`cbrtf`, `sqrtl`, ...): the argument is first converted to that
// precision, as the C prototypes do with a native argument.
#define SYM_SUFFIXED(FN, BASE, F)                                                                  \
  template <int A>                                                                                 \
  inline S<F> FN(const S<A>& x) {                                                                  \
    return BASE(Widen<F>(x));                                                                      \
  }
SYM_SUFFIXED(sqrtf, sqrt, 32)
SYM_SUFFIXED(sqrtl, sqrt, 80)
SYM_SUFFIXED(fabsf, fabs, 32)
SYM_SUFFIXED(fabsl, fabs, 80)
SYM_SUFFIXED(acosf, acos, 32)
SYM_SUFFIXED(acosl, acos, 80)
SYM_SUFFIXED(cbrtf, cbrt, 32)
SYM_SUFFIXED(cbrtl, cbrt, 80)
SYM_SUFFIXED(expf, exp, 32)
SYM_SUFFIXED(expl, exp, 80)
SYM_SUFFIXED(logf, log, 32)
SYM_SUFFIXED(logl, log, 80)
SYM_SUFFIXED(log2f, log2, 32)
SYM_SUFFIXED(log2l, log2, 80)
SYM_SUFFIXED(log10f, log10, 32)
SYM_SUFFIXED(log10l, log10, 80)
#undef SYM_SUFFIXED

// std::pow(floating, floating): result in the wider format.
template <int A, int B>
inline S<MaxF(A, B)> pow(const S<A>& x, const S<B>& y) {
  constexpr int R = MaxF(A, B);
  const S<R> l = Widen<R>(x);
  const S<R> r = Widen<R>(y);
  return S<R>(typename S<R>::Raw{}, G().add(Node{Op::Pow, R, l.nid(), r.nid()}), std::pow(l.v, r.v));
}
// std::pow(floating, integer): C++11 [c.math]: the integer is converted to double, so a float base is
// computed in double. The exponent is kept as an integer literal in the trace.
template <int A, typename I, typename = std::enable_if_t<std::is_integral<I>::value>>
inline S<MaxF(A, 64)> pow(const S<A>& x, const I n) {
  constexpr int R = MaxF(A, 64);
  const S<R> l = Widen<R>(x);
  Node node{Op::Powi, R, l.nid()};
  node.n = static_cast<long long>(n);
  return S<R>(typename S<R>::Raw{}, G().add(node),
              std::pow(l.v, static_cast<typename S<R>::N>(n)));
}
template <int A, typename U, typename = std::enable_if_t<std::is_floating_point<U>::value>, typename = void>
inline S<MaxF(A, FmtOf<U>::value)> pow(const S<A>& x, const U y) {
  return pow(x, S<FmtOf<U>::value>(y));
}
// std::pow(arithmetic, traced): an integer base is converted to double ([c.math]), a floating base keeps
// its format; the result has the wider of the two formats.
template <typename U, int B, typename = std::enable_if_t<std::is_arithmetic<U>::value>>
inline S<MaxF(B, FmtOf<U>::value == 0 ? 64 : FmtOf<U>::value)> pow(const U x, const S<B>& y) {
  constexpr int XF = FmtOf<U>::value == 0 ? 64 : FmtOf<U>::value;
  return pow(S<XF>(static_cast<typename S<XF>::N>(x)), y);
}

template <int A> inline bool isnan(const S<A>& x) { G().events.push_back("escape:isnan"); return std::isnan(x.v); }
template <int A> inline bool isfinite(const S<A>& x) { G().events.push_back("escape:isfinite"); return std::isfinite(x.v); }

template <int A>
inline std::ostream& operator<<(std::ostream& os, const S<A>& x) {
  G().events.push_back("escape:stream");
  return os << "<<" << x.nid() << ">>";
}

}  // namespace sym

namespace std {
template <int F> struct is_floating_point<sym::S<F>> : true_type {};
template <int F> struct is_arithmetic<sym::S<F>> : true_type {};
template <int F> struct numeric_limits<sym::S<F>> : numeric_limits<typename sym::NativeOf<F>::type> {};
template <int F>
struct hash<sym::S<F>> {
  size_t operator()(const sym::S<F>& x) const {
    sym::G().events.push_back("hash:" + sym::Str(x.nid()));
    return hash<typename sym::NativeOf<F>::type>()(x.v);
  }
};
using sym::sqrt;
using sym::abs;
using sym::fabs;
using sym::acos;
using sym::cbrt;
using sym::exp;
using sym::log;
using sym::log2;
using sym::log10;
using sym::pow;
using sym::isnan;
using sym::isfinite;
}  // namespace std

#endif  // VERIF_SYMFLOAT_HPP
