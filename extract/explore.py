"""Drive the tracer: run every entry at every format, explore both outcomes of every comparison,
merge the traces of an entry into a decision tree.

The tracer is a line server (trace_main.cpp). Shadow input values only steer branches; the traces
themselves are symbolic.
"""
import json
import subprocess
from concurrent.futures import ProcessPoolExecutor

import sexpr

FMTS = (32, 64, 80)
MAX_RUNS = 400


def generic_vals(n):
    """Distinct, positive, 'generic' driving values (no ties, no zero minors)."""
    vals, x = [], 12345
    for _ in range(n):
        x = (x * 1103515245 + 12345) % (1 << 31)
        vals.append(0.5 + (x % 100003) / 100003.0 * 3.0)
    return vals


class Tracer:
    def __init__(self, binary):
        self.p = subprocess.Popen([binary], stdin=subprocess.PIPE, stdout=subprocess.PIPE, text=True,
                                  bufsize=1)

    def run(self, index, fmt, vals, params=()):
        line = '%d %d %s %s\n' % (index, fmt, ' '.join(repr(float(v)) for v in vals),
                                  ' '.join('@%d' % p for p in params))
        self.p.stdin.write(line)
        self.p.stdin.flush()
        out = self.p.stdout.readline()
        if not out:
            raise RuntimeError('tracer died on: ' + line)
        return json.loads(out)

    def close(self):
        try:
            self.p.stdin.close()
            self.p.wait(timeout=10)
        except Exception:
            self.p.kill()


def want_outcome(op, outcome):
    """Which of 'lt', 'eq', 'gt' relations between a and b give comparison `op` the value `outcome`."""
    truth = {'lt': {'lt'}, 'gt': {'gt'}, 'le': {'lt', 'eq'}, 'ge': {'gt', 'eq'}, 'eq': {'eq'},
             'ne': {'lt', 'gt'}}[op]
    return truth if outcome else ({'lt', 'eq', 'gt'} - truth)


def candidates_for_flip(cmp_rec, vals, n):
    """Candidate shadow-value vectors intended to flip the given comparison."""
    a = sexpr.strip_casts(sexpr.parse(cmp_rec['a']))
    b = sexpr.strip_casts(sexpr.parse(cmp_rec['b']))
    rels = want_outcome(cmp_rec['op'], not cmp_rec['o'])
    cands = []
    vals = list(vals) + generic_vals(n)[len(vals):]
    if a[0] == 'in' and b[0] == 'in':
        i, j = a[1], b[1]
        for r in ('eq', 'lt', 'gt'):
            if r in rels:
                v = list(vals)
                v[i] = v[j] + {'eq': 0.0, 'lt': -1.0, 'gt': 1.0}[r]
                cands.append(v)
    else:
        used = sexpr.inputs_of(a) | sexpr.inputs_of(b)
        # zero every input the comparison depends on
        v = list(vals)
        for i in used:
            v[i] = 0.0
        cands.append(v)
        # generic non-zero
        g = generic_vals(n)
        cands.append(g)
        # negatives
        cands.append([-x for x in g])
        # second half of the inputs (anti)parallel to the first half, several lengths: drives
        # comparisons that only rounding decides (cosine slightly beyond +-1)
        half = n // 2
        if half and n == 2 * half:
            x = 987654321
            for k in range(24):
                a = []
                for _ in range(half):
                    x = (x * 6364136223846793005 + 1442695040888963407) % (1 << 64)
                    a.append(0.25 + (x >> 11) / float(1 << 53) * 7.0)
                sc = (3.0 + k * 0.37) * (1.0 if k % 2 == 0 else -1.0)
                cands.append(a + [sc * t for t in a])
                cands.append([sc * t for t in a] + a)
            cands.append(g[:half] + [-4.0 * t for t in g[:half]])
            cands.append(g[:half] + [4.0 * t for t in g[:half]])
        # one input zero at a time
        for i in sorted(used)[:12]:
            v = list(vals)
            v[i] = 0.0
            cands.append(v)
    return cands


def path_key(rec):
    return tuple((c['op'], c['a'], c['b'], c['o']) for c in rec['path'])


def explore(tr, index, fmt, params=()):
    _run = tr.run
    class _P:
        def run(self, i, f, v):
            return _run(i, f, v, params)
    tr = _P()
    first = tr.run(index, fmt, [])
    if 'error' in first and first['error'] == 'same-format':
        return None
    n = first['n_in']
    first = tr.run(index, fmt, generic_vals(n))
    seen = {path_key(first): (first, generic_vals(n))}
    if not first['path']:
        return [first]
    work = [path_key(first)]
    runs = 1
    attempted = set()
    while work and runs < MAX_RUNS:
        key = work.pop()
        rec, vals = seen[key]
        for j, c in enumerate(rec['path']):
            target = key[:j] + ((c['op'], c['a'], c['b'], not c['o']),)
            if target in attempted:
                continue
            if any(k[:j + 1] == target for k in seen):
                continue
            attempted.add(target)
            for cand in candidates_for_flip(c, vals, n):
                r = tr.run(index, fmt, cand)
                runs += 1
                k = path_key(r)
                if k not in seen:
                    seen[k] = (r, cand)
                    work.append(k)
                if k[:j + 1] == target:
                    break
    return [v[0] for v in seen.values()]


def build_tree(records):
    """Merge complete paths into a decision tree (dict form)."""
    def rec_build(recs, depth):
        if not recs:
            return {'t': 'unexplored'}
        if all(len(r['path']) == depth for r in recs):
            r0 = recs[0]
            # all runs with the same full path must agree
            for r in recs[1:]:
                if r['outs'] != r0['outs']:
                    return {'t': 'inconsistent'}
            return {'t': 'leaf', 'outs': r0['outs'], 'events': r0.get('events', []),
                    'error': r0.get('error')}
        if any(len(r['path']) == depth for r in recs):
            return {'t': 'inconsistent'}
        c0 = recs[0]['path'][depth]
        for r in recs:
            c = r['path'][depth]
            if (c['op'], c['a'], c['b']) != (c0['op'], c0['a'], c0['b']):
                return {'t': 'inconsistent'}
        yes = [r for r in recs if r['path'][depth]['o']]
        no = [r for r in recs if not r['path'][depth]['o']]
        return {'t': 'node', 'op': c0['op'], 'a': c0['a'], 'b': c0['b'],
                'yes': rec_build(yes, depth + 1), 'no': rec_build(no, depth + 1)}
    return rec_build(records, 0)


def family_instances(meta, enums):
    fam = meta.get('family')
    if not fam:
        return [()]
    sizes = [len(enums[e]) for e in fam['params']]
    pol = meta.get('policy', 'all')
    if len(sizes) == 1:
        return [(i,) for i in range(sizes[0])]
    n = sizes[0]
    if pol == 'all-pairs':
        return [(i, j) for i in range(n) for j in range(n)]
    s = set()
    if pol == 'ring':
        for i in range(n):
            s.update([(i, (i + 1) % n), (i, i)])
    else:  # 'few'
        for i in range(min(n, 3)):
            s.add((i, (i + 1) % n))
        s.add((n - 1, n - 1))
        s.add((0, 0))
    return sorted(s)


def trace_slice(binary, items, enums):
    tr = Tracer(binary)
    out = []
    try:
        for index, eid, meta in items:
            insts = []
            for params in family_instances(meta, enums):
                per_fmt = {}
                for fmt in FMTS:
                    recs = explore(tr, index, fmt, params)
                    if recs is None:
                        continue
                    per_fmt[str(fmt)] = {'n_in': recs[0]['n_in'], 'arg_sizes': recs[0]['arg_sizes'],
                                         'tree': build_tree(recs), 'n_paths': len(recs)}
                insts.append({'params': list(params), 'fmts': per_fmt})
            out.append({'id': eid, 'index': index, 'meta': meta, 'instances': insts})
    finally:
        tr.close()
    return out


def trace_all(binary, enums, jobs=16):
    listing = subprocess.run([binary, '--list'], stdout=subprocess.PIPE, text=True, check=True).stdout
    items = []
    for line in listing.splitlines():
        o = json.loads(line)
        items.append((o['index'], o['id'], o['meta']))
    items.sort(key=lambda it: (0 if it[2].get('family') else 1, it[1]))
    slices = [items[i::jobs] for i in range(jobs)]
    with ProcessPoolExecutor(max_workers=jobs) as ex:
        parts = list(ex.map(trace_slice, [binary] * jobs, slices, [enums] * jobs))
    entries = [e for p in parts for e in p]
    entries.sort(key=lambda e: e['id'])
    return entries


if __name__ == '__main__':
    import sys
    import time
    t0 = time.time()
    facts = json.load(open(sys.argv[3]))
    entries = trace_all(sys.argv[1], facts['enums'])
    json.dump({'entries': entries}, open(sys.argv[2], 'w'))
    print('traced %d entries in %.1fs' % (len(entries), time.time() - t0), file=sys.stderr)
