#!/usr/bin/env python3
"""Emit lean/PhQVerif/Generated/*.lean from the extracted model (model.json, tables.json, facts.json).

Plain data only: `Expr` trees, decision trees, tables. Generated files import only PhQVerif.Core.
A file is rewritten only when its content changes, so lake rebuilds only what an edit to /repo
actually affected.

usage: emit_lean.py <cache-dir> <lean-project-dir>
"""
import json
import os
import re
import sys

HERE = os.path.dirname(os.path.abspath(__file__))
sys.path.insert(0, HERE)
import sexpr  # noqa: E402

RAW = {'PlanarVector': 2, 'Vector': 3, 'SymmetricDyad': 6, 'Dyad': 9}
FM = {32: '.f32', 64: '.f64', 80: '.f80'}
KIND = {
    'ctor': '.ctor', 'method': '.method', 'static': '.static', 'free': '.free', 'mutator': '.mutator',
    'mutable-ref': '.mutableRef', 'cast-ctor': '.castCtor', 'cast-assign': '.castAssign',
    'hash': '.hash', 'stream': '.stream', 'stdmath': '.stdmath', 'convert-copy': '.convertCopy',
    'convert-inplace': '.convertInplace',
    'convert-static': '.convertStatic', 'model-ctor': '.modelCtor', 'model-accessor': '.modelAccessor',
    'model-virtual': '.modelVirtual', 'model-string': '.modelString', 'model-type': '.modelType',
    'model-compare': '.modelCompare', 'model-hash': '.modelHash', 'model-stream': '.modelStream',
}
OPR = {'operator+': '.add', 'operator-': '.sub', 'operator*': '.mul', 'operator/': '.div',
       'operator+=': '.addAssign', 'operator-=': '.subAssign', 'operator*=': '.mulAssign',
       'operator/=': '.divAssign', 'operator<': '.lt', 'operator>': '.gt', 'operator<=': '.le',
       'operator>=': '.ge', 'operator==': '.eq', 'operator!=': '.ne', 'operator=': '.assign'}


COMP_NAMES = {
    2: ['x', 'y'],
    3: ['x', 'y', 'z'],
    6: ['xx', 'xy', 'xz', 'yy', 'yz', 'zz'],
    9: ['xx', 'xy', 'xz', 'yx', 'yy', 'yz', 'zx', 'zy', 'zz'],
}
SYM_ALIAS = {'yx': 'xy', 'zx': 'xz', 'zy': 'yz'}
SIMPLE_MEM = {
    'Zero': 'zero', 'StaticValue': 'staticValue', 'MutableValue': 'mutableValue', 'SetValue': 'setValue',
    'Create': 'create', 'Print': 'print', 'JSON': 'json', 'XML': 'xml', 'YAML': 'yaml',
    'Dimensions': 'dimensions', 'Unit': 'unit', 'Magnitude': 'magnitude',
    'MagnitudeSquared': 'magnitudeSquared', 'Direction': 'direction', 'PlanarDirection': 'direction',
    'Angle': 'angle', 'Dot': 'dot', 'Cross': 'cross', 'Dyadic': 'dyadic', 'Trace': 'trace',
    'Determinant': 'determinant', 'Transpose': 'transpose', 'Cofactors': 'cofactors',
    'Adjugate': 'adjugate', 'Inverse': 'inverse', 'IsSymmetric': 'isSymmetric',
}


def mem_of(meta, comps):
    name = meta.get('name', '')
    if meta['kind'] in ('ctor', 'cast-ctor', 'cast-assign', 'free', 'hash', 'stream', 'stdmath') or \
            meta['kind'].startswith(('model', 'convert', 'map', 'static-kernel')):
        return '.other'
    if name == 'Value':
        return '.valueUnit' if meta.get('unit') else '.value'
    if name in SIMPLE_MEM:
        return '.' + SIMPLE_MEM[name]
    names = COMP_NAMES.get(comps)
    if names:
        base = name
        pre = ''
        if name.startswith('Mutable_'):
            pre, base = 'mut', name[8:]
        elif name.startswith('Set_'):
            pre, base = 'set', name[4:]
        if comps == 6:
            base = SYM_ALIAS.get(base, base)
        if base in names:
            k = names.index(base)
            return '(.%s %d)' % ({'': 'comp', 'mut': 'mutComp', 'set': 'setComp'}[pre], k)
        if base == '_'.join(names):
            return {'': '.allComps', 'mut': '.mutAll', 'set': '.setAll'}[pre]
    return '.other'


def lint(i):
    return str(i) if i >= 0 else '(%d)' % i


def lean_str(s):
    return '"' + s.replace('\\', '\\\\').replace('"', '\\"') + '"'


def cps(s):
    return '[' + ', '.join(str(ord(c)) for c in s) + ']'


def ident(s):
    return '«' + s.replace('»', '>>').replace('«', '<<') + '»'


def expr(t):
    h = t[0]
    if h == 'in':
        return '(.var %d %s)' % (t[1], FM[t[2]])
    if h == 'lit':
        neg, m, e = sexpr.dyadic(sexpr.hex_to_fraction(t[3]))
        if m == 0 and t[3].strip().startswith('-'):
            neg = True
        return '(.lit %s %s %d %s)' % (FM[t[1]], 'true' if neg else 'false', m, lint(e))
    if h == 'named':
        neg, m, e = sexpr.dyadic(sexpr.hex_to_fraction(t[3]))
        assert t[1] == 'pi' and not neg
        return '(.pi %s %d %s)' % (FM[t[2]], m, lint(e))
    if h == 'uninit':
        return '(.uninit %s)' % FM[t[1]]
    if h == 'cast':
        return '(.cast %s %s)' % (FM[t[1]], expr(t[2]))
    if h == 'powi':
        return '(.powi %s %s %s)' % (FM[t[1]], lint(t[2]), expr(t[3]))
    if h in sexpr.UNOPS:
        return '(.un .%s %s %s)' % (h, FM[t[1]], expr(t[2]))
    return '(.bin .%s %s %s %s)' % (h, FM[t[1]], expr(t[2]), expr(t[3]))


def out_item(o):
    label, text = o['l'], o['t']
    ty = label.rsplit(':', 1)[1]
    if ty.startswith('num'):
        return '.num ' + expr(sexpr.parse(text))
    if ty == 'bool':
        return '.bool ' + text
    if ty in ('int', 'enum'):
        return '.int ' + lint(int(text))
    if ty == 'dims':
        return '.dims [' + ', '.join(lint(int(x)) for x in text.split()) + ']'
    if ty == 'str':
        parts = []
        for i, seg in enumerate(re.split('\x01|\x02', text)):
            if i % 2 == 0:
                if seg:
                    parts.append('.text ' + cps(seg))
            else:
                parts.append('.num ' + expr(sexpr.parse(seg)))
        return '.str [' + ', '.join(parts) + ']'
    raise ValueError('unknown out type ' + label)


CONST_CMPS = {}


def is_closed(t):
    h = t[0]
    if h in ('in', 'uninit'):
        return False
    if h in ('lit', 'named'):
        return True
    if h == 'cast':
        return is_closed(t[2])
    if h == 'powi':
        return is_closed(t[3])
    if h in sexpr.UNOPS:
        return is_closed(t[2])
    return is_closed(t[2]) and is_closed(t[3])


def dtree(t):
    k = t['t']
    if k == 'node':
        a, b = sexpr.parse(t['a']), sexpr.parse(t['b'])
        if is_closed(a) and is_closed(b):
            # a comparison between two compile-time constants has one outcome for all inputs: fold it,
            # and record it so that Lean re-checks the outcome (ConstCmp obligation)
            yes_dead = t['yes']['t'] == 'unexplored'
            no_dead = t['no']['t'] == 'unexplored'
            if yes_dead != no_dead:
                CONST_CMPS[(t['op'], t['a'], t['b'], no_dead)] = True
                return dtree(t['no'] if yes_dead else t['yes'])
    if k == 'leaf':
        return '(.leaf [' + ', '.join(out_item(o) for o in t['outs']) + '])'
    if k == 'node':
        return '(.node .%s %s %s %s %s)' % (t['op'], expr(sexpr.parse(t['a'])), expr(sexpr.parse(t['b'])),
                                          dtree(t['yes']), dtree(t['no']))
    return '.unexplored'


class Emitter:
    def __init__(self, cache, lean_dir):
        self.cache = cache
        self.gen_dir = os.path.join(lean_dir, 'PhQVerif', 'Generated')
        self.model = json.load(open(os.path.join(cache, 'model.json')))['entries']
        self.tables = json.load(open(os.path.join(cache, 'tables.json')))
        self.facts = json.load(open(os.path.join(cache, 'facts.json')))
        self.written = set()
        self.changed = []
        self.by_id = {e['id']: e for e in self.model}
        self.unit_names = [u['name'] for u in self.tables['units']]       # 'Unit::Length'
        self.unit_index = {n: i + 1 for i, n in enumerate(self.unit_names)}
        self.build_class_table()

    # ---- class table ---------------------------------------------------------------------------
    def build_class_table(self):
        idx = json.load(open(os.path.join(self.cache, 'gen', 'entries_index.json')))
        qcs = idx['quantity_classes']
        self.classes = []   # dicts name, comps, dims, unit, dimensional
        for c in qcs:
            info = {'name': c, 'comps': RAW.get(c), 'dims': None, 'unit': 0, 'dimensional': False}
            if c not in RAW:
                h = self.by_id.get('std::hash(%s)' % c)
                info['comps'] = h['instances'][0]['fmts']['64']['n_in']
                d = self.by_id.get('%s::Dimensions()' % c)
                outs = d['instances'][0]['fmts']['64']['tree']['outs']
                dims = [o for o in outs if o['l'].endswith(':dims')]
                info['dims'] = [int(x) for x in dims[0]['t'].split()]
                for b in self.facts['classes'][c]['bases']:
                    m = re.match(r'^Dimensional\w+<(Unit::\w+), NumericType>$', b)
                    if m:
                        info['unit'] = self.unit_index[m.group(1)]
                        info['dimensional'] = True
            self.classes.append(info)
        self.class_index = {c['name']: i + 1 for i, c in enumerate(self.classes)}

    def ty(self, name):
        name = name.split(':U')[0] if name.endswith(':U') else name
        if name in ('num', 'NumericType', 'num:U'):
            return '.num'
        if name in RAW:
            return '(.raw %d)' % RAW[name]
        if name in self.class_index:
            return '(.q %d)' % self.class_index[name]
        m = re.match(r'^array(\d+)$', name) or re.match(r'^std::array<NumericType, (\d+)>$', name) \
            or re.match(r'^stdvector(\d+)$', name)
        if m:
            return '(.arr %s)' % m.group(1)
        m = re.match(r'^(Unit::\w+)::(\w+)$', name)
        if m and m.group(1) in self.unit_index:
            ens = self.facts['enums'][m.group(1)]
            return '(.enumv %d %d)' % (self.unit_index[m.group(1)], ens.index(m.group(2)))
        return '.other'

    # ---- file writing --------------------------------------------------------------------------
    def write(self, rel, text):
        path = os.path.join(self.gen_dir, rel)
        os.makedirs(os.path.dirname(path), exist_ok=True)
        self.written.add(os.path.abspath(path))
        old = None
        if os.path.exists(path):
            old = open(path).read()
        if old != text:
            open(path, 'w').write(text)
            self.changed.append(rel)

    def entry_def(self, e, inst, fmt, name_suffix=''):
        meta = e['meta']
        v = inst['fmts'][str(fmt)]
        cls = meta['cls']
        cidx = self.class_index.get(cls, 0)
        args = list(meta.get('args', []))
        arg_tys = [self.ty(a) for a in args]
        if meta.get('self'):
            arg_tys = [self.ty(cls)] + arg_tys
        arg_sizes = list(v['arg_sizes'])
        kind = KIND.get(meta['kind'])
        if meta['kind'] in ('map-kernel', 'static-kernel'):
            kind = '.%sKernel%s' % ('map' if meta['kind'] == 'map-kernel' else 'static',
                                    'To' if meta['name'] == 'ToStandard' else 'From')
        if meta.get('family'):
            for en, pv in zip(meta['family']['params'], inst['params']):
                arg_tys.append('(.enumv %d %d)' % (self.unit_index[en], pv))
                arg_sizes.append(0)
        elif meta['kind'] == 'static-kernel':
            arg_tys.append(self.ty('%s::%s' % (meta['enum'], meta['unit'])))
            arg_sizes.append(0)
        elif meta['kind'] == 'convert-static':
            for u in (meta['from'], meta['to']):
                arg_tys.append(self.ty('%s::%s' % (meta['enum'], u)))
                arg_sizes.append(0)
        if meta.get('static_unit'):
            # compile-time unit argument: recorded as a trailing enumerator argument of size 0
            arg_tys.append(self.ty('%s::%s' % (meta['enum'], meta['unit'])))
            arg_sizes.append(0)
        ret_name = meta.get('ret', '')
        if meta['kind'] in ('mutator', 'mutable-ref', 'cast-assign'):
            ret_name = cls
        ufm = meta.get('ufmt') or meta.get('afmt')
        opr = OPR.get(meta.get('name', ''), '.named')
        if meta['kind'] == 'free' and meta.get('name') == 'operator-' and len(args) == 1:
            opr = '.named'
        if meta['kind'] == 'model-compare':
            opr = OPR.get(meta.get('name', ''), '.named')
        if meta.get('name') in ('Value', 'SetValue', 'MutableValue', 'StaticValue'):
            opr = '.valueAccess'
        eid = e['id'] + name_suffix
        comps = self.classes[cidx - 1]['comps'] if cidx else 0
        body = ('{ id := %s, kind := %s, opr := %s, mem := %s, cls := %d, fm := %s, ufm := %s, self := %s,\n'
                '    args := [%s], argSizes := [%s], ret := %s, nIn := %d,\n    tree := %s }' % (
                    lean_str(eid), kind, opr, mem_of(meta, comps), cidx, FM[fmt],
                    ('some ' + FM[ufm]) if ufm else 'none', 'true' if meta.get('self') else 'false',
                    ', '.join(arg_tys), ', '.join(str(x) for x in arg_sizes),
                    self.ty(ret_name), v['n_in'], dtree(v['tree'])))
        return eid, body

    def emit_entries_module(self, modname, entries, rel):
        """One module: defs in namespaces f32/f64/f80 plus the list of all of them."""
        lines = ['-- GENERATED by emit_lean.py from /repo/include -- do not edit.',
                 'import PhQVerif.Core.Model', 'set_option maxRecDepth 100000',
                 'namespace PhQVerif.Generated', '']
        names = []
        compact = [e for e in entries if e['meta']['kind'] == 'convert-copy' and e['meta']['args'] == ['num']]
        entries = [e for e in entries if e not in compact]
        for e in compact:
            # scalar Convert over all ordered pairs: compact rows (from, to, result, argument afterwards)
            n = len(self.facts['enums'][e['meta']['enum']])
            for fmt in (32, 64, 80):
                rows = []
                for inst in e['instances']:
                    i, j = inst['params']
                    if fmt != 64 and not (j == (i + 1) % n or j == i):
                        continue
                    t = inst['fmts'][str(fmt)]['tree']
                    outs = {o['l'].split(':')[0]: o['t'] for o in t['outs']} if t['t'] == 'leaf' else {}
                    if 'r' not in outs or 'arg' not in outs:
                        # the real code threw (or branched) on this pair: recorded in Throws.lean; here the row
                        # carries an indeterminate value, which no checker accepts
                        rows.append('(%d, %d, .uninit %s, .uninit %s)' % (i, j, FM[fmt], FM[fmt]))
                        continue
                    rows.append('(%d, %d, %s, %s)' % (i, j, expr(sexpr.parse(outs['r'])),
                                                      expr(sexpr.parse(outs['arg']))))
                chunks = [rows[k:k + 100] for k in range(0, len(rows), 100)]
                for ci, ch in enumerate(chunks):
                    lines.append('def %s.convertPairs%d_%d : List (Nat × Nat × Expr × Expr) := [\n  %s]' % (
                        modname, fmt, ci, ',\n  '.join(ch)))
                lines.append('def %s.convertPairs%d : List (Nat × Nat × Expr × Expr) :=\n  %s' % (
                    modname, fmt, ' ++ '.join('%s.convertPairs%d_%d' % (modname, fmt, ci)
                                              for ci in range(len(chunks))) or '[]'))
        if modname.startswith('U_') and not compact:
            for fmt in (32, 64, 80):
                lines.append('def %s.convertPairs%d : List (Nat × Nat × Expr × Expr) := []' % (modname, fmt))
        for fmt in (32, 64, 80):
            lines.append('namespace f%d' % fmt)
            for e in entries:
                for inst in e['instances']:
                    if str(fmt) not in inst['fmts']:
                        continue
                    suffix = ('@' + ','.join(str(p) for p in inst['params'])) if inst['params'] else ''
                    eid, body = self.entry_def(e, inst, fmt, suffix)
                    lines.append('def %s : Entry :=\n  %s' % (ident(eid), body))
                    names.append('f%d.%s' % (fmt, ident(eid)))
            lines.append('end f%d' % fmt)
            lines.append('')
        nchunks = [names[k:k + 200] for k in range(0, len(names), 200)]
        for ci, ch in enumerate(nchunks):
            lines.append('def %s.entries_%d : List Entry := [\n  %s]' % (modname, ci, ',\n  '.join(ch)))
        lines.append('def %s.entries : List Entry :=\n  %s' % (
            modname, ' ++ '.join('%s.entries_%d' % (modname, ci) for ci in range(len(nchunks))) or '[]'))
        lines.append('')
        lines.append('end PhQVerif.Generated')
        self.write(rel, '\n'.join(lines) + '\n')
        return len(names)

    # ---- top level -----------------------------------------------------------------------------
    def run(self):
        groups = {}
        for e in self.model:
            groups.setdefault(e['meta']['cls'], []).append(e)
        mods = []
        counts = {}
        for cls, es in sorted(groups.items()):
            if cls.startswith('unit:'):
                mod = 'U_' + cls[5:]
            elif cls.startswith('model:'):
                mod = 'M_' + cls[6:]
            else:
                mod = 'Q_' + cls
            counts[mod] = self.emit_entries_module(mod, es, mod + '.lean')
            mods.append(mod)
        self.emit_tables()
        self.emit_kernels()
        emit_obligations(self, counts)
        self.n_twins = emit_twins(self)
        emit_dircast(self)
        emit_layout(self)
        emit_serial(self)
        emit_print_facts(self)
        emit_init_facts(self)
        emit_throws(self)
        emit_fmt_triples(self)
        emit_model_overloads(self)
        self.n_inverse_pairs = emit_inverse_pairs(self)
        emit_hash_rows(self)
        emit_angle_lists(self)
        emit_table_obligations(self)
        emit_const_cmps(self)
        self._emit_pairs = lambda umods: emit_pairs_obligations(self, umods)
        # aggregate
        lines = ['-- GENERATED by emit_lean.py -- do not edit.']
        lines += ['import PhQVerif.Generated.%s' % m for m in mods]
        lines += ['import PhQVerif.Generated.Tables', 'import PhQVerif.Generated.Kernels',
                  'namespace PhQVerif.Generated', '']
        qmods = [m for m in mods if m.startswith('Q_')]
        umods = [m for m in mods if m.startswith('U_')]
        mmods = [m for m in mods if m.startswith('M_')]
        lines.append('def quantityEntries : List Entry :=\n  ' + ' ++\n  '.join('%s.entries' % m for m in qmods))
        lines.append('def unitEntries : List Entry :=\n  ' + ' ++\n  '.join('%s.entries' % m for m in umods))
        lines.append('def modelEntries : List Entry :=\n  ' + ' ++\n  '.join('%s.entries' % m for m in mmods))
        lines.append('def unitEntriesByType : List (Nat × List Entry) := [\n  ' + ',\n  '.join(
            '(%d, %s.entries)' % (self.unit_index['Unit::' + m[2:]], m) for m in umods) + ']')
        for fmt in (32, 64, 80):
            lines.append('def convertPairsByType%d : List (Nat × List (Nat × Nat × Expr × Expr)) := [\n  ' % fmt
                         + ',\n  '.join('(%d, %s.convertPairs%d)' % (
                             self.unit_index['Unit::' + m[2:]], m, fmt) for m in umods) + ']')
        lines.append('end PhQVerif.Generated')
        self.write('All.lean', '\n'.join(lines) + '\n')
        self._emit_pairs(umods)
        # remove stale generated files
        for fn in os.listdir(self.gen_dir):
            p = os.path.abspath(os.path.join(self.gen_dir, fn))
            if fn.endswith('.lean') and p not in self.written:
                os.unlink(p)
                self.changed.append('-' + fn)
        return {'modules': len(mods) + 2, 'entries': counts, 'changed': self.changed}

    def emit_kernels(self):
        """Per unit type: the traced static conversion kernels, as small separate modules."""
        names = []
        for en in self.unit_names:
            short = en.split('::')[1]
            ens = self.facts['enums'][en]
            std = [u for u in self.tables['units'] if u['name'] == en][0]['standard']
            L = ['-- GENERATED by emit_lean.py from /repo/include -- do not edit.',
                 'import PhQVerif.Core.Model', 'set_option maxRecDepth 100000',
                 'namespace PhQVerif.Generated', '']
            for fmt in (32, 64, 80):
                to, frm = [], []
                for u in ens:
                    for (d, acc) in (('ToStandard', to), ('FromStandard', frm)):
                        ke = self.by_id.get('unit::kernel::%s<%s::%s>' % (d, short, u))
                        t = ke['instances'][0]['fmts'][str(fmt)]['tree']
                        assert t['t'] == 'leaf' and len(t['outs']) == 1, 'branching conversion kernel'
                        acc.append(expr(sexpr.parse(t['outs'][0]['t'])))
                L.append('def K_%s.kernels%d : UnitKernels :=\n  { standard := %d,\n    toStd := [%s],\n'
                         '    fromStd := [%s] }' % (short, fmt, std, ',\n      '.join(to), ',\n      '.join(frm)))
            L.append('end PhQVerif.Generated')
            self.write('K_%s.lean' % short, '\n'.join(L) + '\n')
            names.append(short)
        L = ['-- GENERATED by emit_lean.py -- do not edit.'] + ['import PhQVerif.Generated.K_%s' % n for n in names]
        L += ['namespace PhQVerif.Generated', '']
        for fmt in (32, 64, 80):
            L.append('/-- Row `t` (1-based) is the kernel table of unit type `t`. -/')
            L.append('def kernelsByType%d : List UnitKernels := [\n  %s]' % (
                fmt, ',\n  '.join('K_%s.kernels%d' % (n, fmt) for n in names)))
        L.append('def kernelsOf (fm : Fm) (t : Nat) : Option UnitKernels :=\n  if t = 0 then none else\n'
                 '  match fm with\n  | .f32 => kernelsByType32[t - 1]?\n  | .f64 => kernelsByType64[t - 1]?\n'
                 '  | .f80 => kernelsByType80[t - 1]?')
        L.append('end PhQVerif.Generated')
        self.write('Kernels.lean', '\n'.join(L) + '\n')

    def emit_tables(self):
        t = self.tables
        L = ['-- GENERATED by emit_lean.py from /repo/include -- do not edit.',
             'import PhQVerif.Core.Tables', 'import PhQVerif.Core.UnitCheck', 'set_option maxRecDepth 100000',
             'namespace PhQVerif.Generated', '']
        # classes
        rows = []
        for c in self.classes:
            dims = ('some ⟨%s⟩' % ', '.join(lint(x) for x in c['dims'])) if c['dims'] is not None else 'none'
            rows.append('{ name := %s, comps := %d, dims := %s, unitEnum := %d, dimensional := %s, '
                        'isDirection := %s }' % (
                            lean_str(c['name']), c['comps'], dims, c['unit'],
                            'true' if c['dimensional'] else 'false',
                            'true' if c['name'] in ('Direction', 'PlanarDirection') else 'false'))
        L.append('/-- Row `i` (1-based; `Ty.q i`) of the class table. -/')
        L.append('def classes : List ClassInfo := [\n  ' + ',\n  '.join(rows) + ']')
        L.append('')
        # unit types
        rows = []
        for u in t['units']:
            decl = self.facts['enums'][u['name']]
            rows.append(self.enum_table_row(u, decl, unit=True))
        L.append('def unitTypes : List UnitType := [\n  ' + ',\n  '.join(rows) + ']')
        L.append('')
        rows = []
        for en in t['enums']:
            decl = self.facts['enums'][en['name']]
            rows.append(self.enum_table_row(en, decl, unit=False))
        L.append('def plainEnums : List UnitType := [\n  ' + ',\n  '.join(rows) + ']')
        L.append('')
        L.append('def standardUnitSystem : Nat := %d' % t['standard_unit_system'])
        ui = self.unit_index
        L.append('/-- Unit types of the base quantities (1-based rows of `unitTypes`). -/')
        L.append('def baseTypes : BaseTypes := ⟨%d, %d, %d, %d, %d, %d⟩' % (
            ui.get('Unit::Time', 0), ui.get('Unit::Length', 0), ui.get('Unit::Mass', 0),
            ui.get('Unit::ElectricCurrent', 0), ui.get('Unit::Temperature', 0), ui.get('Unit::SubstanceAmount', 0)))
        us = [e for e in t['enums'] if e['name'] == 'UnitSystem'][0]
        L.append('def unitSystemValues : List Nat := [%s]' % ', '.join(str(x[1]) for x in us['enumerators']))
        for f in ('32', '64', '80'):
            neg, m, e = sexpr.dyadic(sexpr.hex_to_fraction(t['pi'][f]))
            L.append('def pi%s : Nat × Int := (%d, %s)' % (f, m, lint(e)))
        L.append('end PhQVerif.Generated')
        self.write('Tables.lean', '\n'.join(L) + '\n')

    def enum_table_row(self, u, decl, unit):
        def pairs(xs, f):
            return '[' + ', '.join(f(x) for x in xs) + ']'
        s = '{ name := %s,\n    declared := %s,\n    values := %s,\n' % (
            lean_str(u['name']), pairs(decl, lambda n: cps(n)),
            pairs(u['enumerators'], lambda x: str(x[1])))
        s += '    abbreviations := %s,\n' % pairs(u['abbreviations'], lambda x: '(%d, %s)' % (x[0], cps(x[1])))
        s += '    spellings := %s,\n' % pairs(sorted(u['spellings']), lambda x: '(%s, %d)' % (cps(x[0]), x[1]))
        if unit:
            s += '    standard := %d, dims := ⟨%s⟩,\n' % (u['standard'], ', '.join(lint(x) for x in u['dims']))
            s += '    consistent := %s,\n' % pairs(u['consistent'], lambda x: '(%d, %d)' % (x[0], x[1]))
            s += '    related := %s,\n' % pairs(u['related'], lambda x: '(%d, %d)' % (x[0], x[1]))
            for f in ('32', '64', '80'):
                s += '    mapTo%s := %s, mapFrom%s := %s,\n' % (
                    f, pairs(u['map' + f]['to'], str), f, pairs(u['map' + f]['from'], str))
        else:
            s += '    standard := 0, dims := ⟨0, 0, 0, 0, 0, 0, 0⟩, consistent := [], related := [],\n'
            for f in ('32', '64', '80'):
                s += '    mapTo%s := [], mapFrom%s := [],\n' % (f, f)
        s += '    spellingsSize := %d }' % u['spellings_size']
        return s


# (name, scope, checker, list-of-entries it ranges over in All.lean). Scope selects the data modules.
OBLIGATIONS = [
    ('C03dim', 'Q', 'Chk.C03dim', 'quantityEntries'),
    ('C03op', 'Q', 'Chk.C03op', 'quantityEntries'),
    ('C04arith', 'Q', 'Chk.C04arith', 'quantityEntries'),
    ('C04std', 'Q', 'Chk.C04std', 'quantityEntries'),
    ('C02unit', 'U', 'Chk.C02unit', 'unitEntries'),
    ('C02class', 'Q', 'Chk.C02class', 'quantityEntries'),
    ('C10dir', 'Q', 'Chk.C10dir', 'quantityEntries'),
    ('C10mag', 'Q', 'Chk.C10mag', 'quantityEntries'),
    ('C14cmpQ', 'Q', 'Chk.C14cmp', 'quantityEntries'),
    ('C14cmpM', 'M', 'Chk.C14cmp', 'modelEntries'),
    ('C16cast', 'Q', 'Chk.C16cast', 'quantityEntries'),
    ('C17access', 'Q', 'Chk.C17access', 'quantityEntries'),
    ('C10scale', 'Q', 'Chk.C10scale', 'quantityEntries'),
    ('NarrowQ', 'Q', 'Chk.NoNarrowing', 'quantityEntries'),
    ('NarrowU', 'U', 'Chk.NoNarrowing', 'unitEntries'),
    ('NarrowM', 'M', 'Chk.NoNarrowing', 'modelEntries'),
    ('C20uninitQ', 'Q', 'Chk.C20uninitStrict', 'quantityEntries'),
    ('C20uninitU', 'U', 'Chk.C20uninitStrict', 'unitEntries'),
    ('C20uninitM', 'M', 'Chk.C20uninit', 'modelEntries'),
]
NCHUNKS = 16


def emit_obligations(em, counts):
    mods = sorted(counts)
    for name, scope, checker, biglist in OBLIGATIONS:
        sel = [m for m in mods if m.startswith(scope + '_')]
        chunks = [[] for _ in range(NCHUNKS)]
        loads = [0] * NCHUNKS
        for m in sorted(sel, key=lambda m: -counts[m]):
            i = loads.index(min(loads))
            chunks[i].append(m)
            loads[i] += counts[m]
        used = []
        for k, ch in enumerate(chunks):
            if not ch:
                continue
            L = ['-- GENERATED by emit_lean.py -- obligations discharged by kernel evaluation.',
                 'import PhQVerif.Checkers']
            L += ['import PhQVerif.Generated.%s' % m for m in sorted(ch)]
            L += ['set_option maxRecDepth 100000', 'namespace PhQVerif.Generated.Obl', '']
            for m in sorted(ch):
                L.append('theorem %s.%s : %s.entries.all %s = true := by decide +kernel' % (
                    name, m, m, checker))
            L += ['', 'end PhQVerif.Generated.Obl']
            em.write('Obl_%s_%02d.lean' % (name, k), '\n'.join(L) + '\n')
            used.append(k)
        L = ['-- GENERATED by emit_lean.py -- do not edit.', 'import PhQVerif.Generated.All']
        L += ['import PhQVerif.Generated.Obl_%s_%02d' % (name, k) for k in used]
        L += ['namespace PhQVerif.Generated.Obl', '']
        L.append('theorem %s : %s.all %s = true := by' % (name, biglist, checker))
        L.append('  unfold %s' % biglist)
        L.append('  exact ' + nest(['%s.%s' % (name, m) for m in sel]))
        L += ['', 'end PhQVerif.Generated.Obl']
        em.write('Obl_%s.lean' % name, '\n'.join(L) + '\n')


def emit_list_with_obligation(em, modname, elem_type, rows, imports, checker, oblname, chunk=150, extra=()):
    """A generated list `modname.rows` (chunked) together with the obligation that `checker` holds of
    every row, discharged chunk by chunk by kernel evaluation. `extra`: further (checker, obligation
    name) pairs over the same list, each in its own module."""
    for (ch2, ob2) in extra:
        _emit_obligation(em, modname, max(1, -(-len(rows) // chunk)), ch2, ob2)
    chunks = [rows[k:k + chunk] for k in range(0, len(rows), chunk)] or [[]]
    L = ['-- GENERATED by emit_lean.py -- do not edit.'] + ['import %s' % i for i in imports]
    L += ['set_option maxRecDepth 100000', 'namespace PhQVerif.Generated', '']
    for ci, ch in enumerate(chunks):
        L.append('def %s.rows_%d : List (%s) := [\n  %s]' % (modname, ci, elem_type, ',\n  '.join(ch)))
    L.append('def %s.rows : List (%s) :=\n  %s' % (
        modname, elem_type, ' ++ '.join('%s.rows_%d' % (modname, ci) for ci in range(len(chunks)))))
    L.append('end PhQVerif.Generated')
    em.write('%s.lean' % modname, '\n'.join(L) + '\n')
    L = ['-- GENERATED by emit_lean.py -- obligations discharged by kernel evaluation.',
         'import PhQVerif.Checkers', 'import PhQVerif.Generated.%s' % modname,
         'set_option maxRecDepth 100000', 'namespace PhQVerif.Generated.Obl', '']
    for ci in range(len(chunks)):
        L.append('theorem %s.c%d : %s.rows_%d.all %s = true := by decide +kernel' % (
            oblname, ci, modname, ci, checker))
    L.append('theorem %s : %s.rows.all %s = true := by' % (oblname, modname, checker))
    L.append('  unfold %s.rows' % modname)
    L.append('  exact ' + nest(['%s.c%d' % (oblname, ci) for ci in range(len(chunks))]))
    L += ['', 'end PhQVerif.Generated.Obl']
    em.write('Obl_%s.lean' % oblname, '\n'.join(L) + '\n')


def _emit_obligation(em, modname, nchunks, checker, oblname):
    L = ['-- GENERATED by emit_lean.py -- obligations discharged by kernel evaluation.',
         'import PhQVerif.Checkers', 'import PhQVerif.Generated.%s' % modname,
         'set_option maxRecDepth 100000', 'namespace PhQVerif.Generated.Obl', '']
    for ci in range(nchunks):
        L.append('theorem %s.c%d : %s.rows_%d.all %s = true := by decide +kernel' % (
            oblname, ci, modname, ci, checker))
    L.append('theorem %s : %s.rows.all %s = true := by' % (oblname, modname, checker))
    L.append('  unfold %s.rows' % modname)
    L.append('  exact ' + nest(['%s.c%d' % (oblname, ci) for ci in range(nchunks)]))
    L += ['', 'end PhQVerif.Generated.Obl']
    em.write('Obl_%s.lean' % oblname, '\n'.join(L) + '\n')


def emit_pairs_obligations(em, umods):
    """Scalar Convert over all ordered pairs: one kernel-evaluated lemma per unit type and format."""
    for fmt in (32, 64, 80):
        L = ['-- GENERATED by emit_lean.py -- obligations discharged by kernel evaluation.',
             'import PhQVerif.Checkers', 'import PhQVerif.Generated.All',
             'set_option maxRecDepth 100000', 'namespace PhQVerif.Generated.Obl', '']
        names = []
        for m in umods:
            t = em.unit_index['Unit::' + m[2:]]
            L.append('theorem C02pairs%d.%s : Chk.C02pairs .f%d (%d, %s.convertPairs%d) = true := by decide +kernel'
                     % (fmt, m, fmt, t, m, fmt))
            names.append('C02pairs%d.%s' % (fmt, m))
        L.append('theorem C02pairs%d : convertPairsByType%d.all (Chk.C02pairs .f%d) = true := by' % (fmt, fmt, fmt))
        L.append('  simp only [convertPairsByType%d, List.all_cons, List.all_nil, %s, Bool.and_self]'
                 % (fmt, ', '.join(names)))
        L += ['', 'end PhQVerif.Generated.Obl']
        em.write('Obl_C02pairs%d.lean' % fmt, '\n'.join(L) + '\n')


def emit_fmt_triples(em):
    """(float, double, long double) instantiations of every entry that has no unit argument."""
    rows, mods = [], set()
    for e in em.model:
        m = e['meta']
        if m['cls'].startswith('unit:') or m.get('unit') or m.get('family') or m['kind'] in ('hash', 'model-hash'):
            continue
        inst = e['instances'][0]
        if not all(str(f) in inst['fmts'] for f in (32, 64, 80)):
            continue
        rows.append('(f32.%s, f64.%s, f80.%s)' % (ident(e['id']), ident(e['id']), ident(e['id'])))
        mods.add(('M_' + m['cls'][6:]) if m['cls'].startswith('model:') else ('Q_' + m['cls']))
    imports = ['PhQVerif.Core.Model'] + ['PhQVerif.Generated.%s' % x for x in sorted(mods)]
    emit_list_with_obligation(em, 'FmtTriples', 'Entry × Entry × Entry', rows, imports, 'Chk.SameFormula',
                              'SameFormula', chunk=300)


def emit_model_overloads(em):
    """For each virtual function of each model: every (argument format, base/direct) variant paired
    with the [A=64,direct] variant, per model format. Same skeleton <=> same formula."""
    rows, mods = [], set()
    for e in em.model:
        m = e['meta']
        if m['kind'] not in ('model-virtual', 'model-string', 'model-type'):
            continue
        ref_id = re.sub(r'\[A=\d+,(base|direct)\]$', '[A=64,direct]', e['id'])
        ref_id = re.sub(r'\[(base|direct)\]$', '[direct]', ref_id)
        ref = em.by_id.get(ref_id)
        if ref is None or ref is e:
            continue
        for fmt in (32, 64, 80):
            rows.append('(f%d.%s, f64.%s, f%d.%s)' % (fmt, ident(e['id']), ident(ref_id), fmt, ident(e['id'])))
        mods.add('M_' + m['cls'][6:])
    imports = ['PhQVerif.Core.Model'] + ['PhQVerif.Generated.%s' % x for x in sorted(mods)]
    emit_list_with_obligation(em, 'ModelOverloads', 'Entry × Entry × Entry', rows, imports, 'Chk.SameFormula',
                              'ModelOverloads', chunk=100)


def subst_sexpr(t, mapping):
    """Substitute s-expression trees for inputs: mapping[i] is a tree or an int (renamed input)."""
    h = t[0]
    if h == 'in':
        m = mapping[t[1]]
        return ('in', m, t[2]) if isinstance(m, int) else m
    if h in ('lit', 'named', 'uninit'):
        return t
    if h == 'cast':
        return ('cast', t[1], subst_sexpr(t[2], mapping))
    if h == 'powi':
        return ('powi', t[1], t[2], subst_sexpr(t[3], mapping))
    if h in sexpr.UNOPS:
        return (h, t[1], subst_sexpr(t[2], mapping))
    return (h, t[1], subst_sexpr(t[2], mapping), subst_sexpr(t[3], mapping))


def emit_inverse_pairs(em):
    """Inverse pairs derived from the declared signatures: C(A1..An) together with Aj(.. C ..) whose
    other arguments are the remaining Ai; one-argument pairs; planar <-> 3-D embeddings."""
    ctors = {}
    for e in em.model:
        m = e['meta']
        if m['kind'] == 'ctor' and not m.get('unit') and not m.get('ufmt') and m['cls'] in em.class_index \
                and all(a in em.class_index for a in m['args']) and m['args']:
            v = e['instances'][0]['fmts'].get('64')
            if v and v['tree']['t'] == 'leaf':
                ctors.setdefault(m['cls'], []).append((e, v))
    rows = []
    pairs_json = []
    for cls, lst in sorted(ctors.items()):
        for (f, fv) in lst:
            fargs = f['meta']['args']
            if len(set(fargs)) != len(fargs):
                continue
            fouts = [sexpr.parse(o['t']) for o in fv['tree']['outs'] if o['l'].rsplit(':', 1)[1].startswith('num')]
            # input offsets of f's arguments
            foff, acc = [], 0
            for sz in fv['arg_sizes']:
                foff.append(acc)
                acc += sz
            for j, A in enumerate(fargs):
                for (g, gv) in ctors.get(A, []):
                    gargs = g['meta']['args']
                    if sorted(gargs) != sorted([cls] + [a for k, a in enumerate(fargs) if k != j]):
                        continue
                    if len(set(gargs)) != len(gargs):
                        continue
                    # map g's inputs: inputs of the argument of type cls -> f's outputs; others -> f's inputs
                    goff, acc2 = [], 0
                    mapping = {}
                    ok = True
                    for name, sz in zip(gargs, gv['arg_sizes']):
                        if name == cls:
                            if sz != len(fouts):
                                ok = False
                                break
                            for k in range(sz):
                                mapping[acc2 + k] = fouts[k]
                        else:
                            fi = fargs.index(name)
                            if fv['arg_sizes'][fi] != sz:
                                ok = False
                                break
                            for k in range(sz):
                                mapping[acc2 + k] = foff[fi] + k
                        acc2 += sz
                    if not ok:
                        continue
                    gouts = [sexpr.parse(o['t']) for o in gv['tree']['outs']
                             if o['l'].rsplit(':', 1)[1].startswith('num')]
                    if len(gouts) != fv['arg_sizes'][j]:
                        continue
                    if len(fargs) == 1 and len(fouts) < fv['arg_sizes'][0]:
                        continue  # f drops components (3-D -> planar): not invertible by construction
                    comp = [subst_sexpr(t, mapping) for t in gouts]
                    if any('acos' in json.dumps(c) for c in comp):
                        continue
                    target = [foff[j] + k for k in range(fv['arg_sizes'][j])]
                    rid = '%s ∘ %s' % (g['id'], f['id'])
                    pairs_json.append({'f': f['id'], 'g': g['id'], 'j': j, 'f_args': fargs, 'g_args': gargs,
                                       'f_sizes': fv['arg_sizes'], 'g_sizes': gv['arg_sizes'], 'cls': cls})
                    rows.append('{ id := %s, comp := [%s], target := [%s] }' % (
                        lean_str(rid), ', '.join(expr(c) for c in comp), ', '.join(str(t) for t in target)))
    L = ['-- GENERATED by emit_lean.py -- do not edit.', 'import PhQVerif.Theory.Inverse',
         'set_option maxRecDepth 100000', 'namespace PhQVerif.Generated', '']
    for k, r in enumerate(rows):
        L.append('def InversePairs.p%d : InversePair :=\n  %s' % (k, r))
    nch = 16
    chunks = [list(range(c, len(rows), nch)) for c in range(nch)]
    chunks = [ks for ks in chunks if ks]
    for c, ks in enumerate(chunks):
        L.append('def InversePairs.rows_%d : List InversePair := [%s]' % (
            c, ', '.join('InversePairs.p%d' % k for k in ks)))
    L.append('def InversePairs.rows : List InversePair :=\n  %s' % (
        ' ++ '.join('InversePairs.rows_%d' % c for c in range(len(chunks))) or '[]'))
    L.append('end PhQVerif.Generated')
    em.write('InversePairs.lean', '\n'.join(L) + '\n')
    for c, ks in enumerate(chunks):
        L = ['-- GENERATED by emit_lean.py -- per-pair obligations, discharged by the `inverse_pair` tactic.',
             'import PhQVerif.Generated.InversePairs', 'namespace PhQVerif.Generated.Obl', '']
        for k in ks:
            L.append('theorem C05inv.p%d : InverseOn InversePairs.p%d := by\n  unfold InversePairs.p%d InverseOn\n'
                     '  inverse_pair' % (k, k, k))
        t = 'forall_nil\''
        for k in reversed(ks):
            t = '(forall_cons\' C05inv.p%d %s)' % (k, t)
        L.append('theorem C05inv.c%d : ∀ p ∈ InversePairs.rows_%d, InverseOn p :=\n  %s' % (c, c, t))
        L += ['', 'end PhQVerif.Generated.Obl']
        em.write('Obl_C05inv_%02d.lean' % c, '\n'.join(L) + '\n')
    L = ['-- GENERATED by emit_lean.py -- do not edit.'] + [
        'import PhQVerif.Generated.Obl_C05inv_%02d' % c for c in range(len(chunks))]
    t = 'C05inv.c0'
    for c in range(1, len(chunks)):
        t = '(forall_append\' %s C05inv.c%d)' % (t, c)
    L += ['namespace PhQVerif.Generated.Obl', '',
          'theorem C05inv : ∀ p ∈ InversePairs.rows, InverseOn p := by',
          '  unfold InversePairs.rows', '  exact ' + t, '', 'end PhQVerif.Generated.Obl']
    em.write('Obl_C05inv.lean', '\n'.join(L) + '\n')
    json.dump(pairs_json, open(os.path.join(em.cache, 'inverse_pairs.json'), 'w'))
    return len(rows)


def emit_hash_rows(em):
    rows, mods = [], set()
    for e in em.model:
        m = e['meta']
        if m['kind'] not in ('hash', 'model-hash'):
            continue
        for fmt in (32, 64, 80):
            v = e['instances'][0]['fmts'].get(str(fmt))
            if v is None or v['tree']['t'] != 'leaf':
                continue
            hashed = [ev[5:] for ev in v['tree']['events'] if ev.startswith('hash:')]
            rows.append('(f%d.%s, [%s])' % (fmt, ident(e['id']), ', '.join(expr(sexpr.parse(h)) for h in hashed)))
            mods.add(('M_' + m['cls'][6:]) if m['cls'].startswith('model:') else ('Q_' + m['cls']))
    imports = ['PhQVerif.Core.Model'] + ['PhQVerif.Generated.%s' % x for x in sorted(mods)]
    emit_list_with_obligation(em, 'HashRows', 'Entry × List Expr', rows, imports, 'Chk.C14hash', 'C14hash')


def emit_const_cmps(em):
    rows = []
    for (op, a, b, outcome) in sorted(CONST_CMPS):
        rows.append('(.%s, %s, %s, %s)' % (op, expr(sexpr.parse(a)), expr(sexpr.parse(b)),
                                           'true' if outcome else 'false'))
    emit_list_with_obligation(em, 'ConstCmp', 'CmpOp × Expr × Expr × Bool', rows, ['PhQVerif.Core.Model'],
                              'Chk.ConstCmp', 'ConstCmp')


def emit_angle_lists(em):
    vec = {c['name']: c['comps'] for c in em.classes if c['comps'] in (2, 3)}
    ents = []
    for e in em.model:
        m = e['meta']
        if m['cls'].startswith(('unit:', 'model:')) or m.get('unit') or m.get('ufmt'):
            continue
        args = ([m['cls']] if m.get('self') else []) + list(m.get('args', []))
        isang = (m['cls'] == 'Angle' and m['kind'] == 'ctor' and len(args) == 2 and all(a in vec for a in args)) \
            or (m.get('name') == 'Angle' and m['kind'] == 'method' and len(args) == 2 and all(a in vec for a in args))
        if isang:
            ents.append((e, args))
    rows_all, rows_sym, rows_ker, mods = [], [], [], set()
    by_args = {}
    for e, args in ents:
        by_args.setdefault((e['meta']['kind'], tuple(args)), e)
    kernel_of = {2: {}, 3: {}}
    for e, args in ents:
        if e['meta']['cls'] == 'Angle' and all(a in ('Vector', 'PlanarVector', 'Direction', 'PlanarDirection') for a in args):
            shape = tuple('D' if 'Direction' in a else 'V' for a in args)
            kernel_of[vec[args[0]]][shape] = e
    for e, args in ents:
        mods.add('Q_' + e['meta']['cls'])
        for fmt in (32, 64, 80):
            rows_all.append('f%d.%s' % (fmt, ident(e['id'])))
        other = by_args.get((e['meta']['kind'], tuple(reversed(args))))
        if other is not None:
            mods.add('Q_' + other['meta']['cls'])
            for fmt in (32, 64, 80):
                rows_sym.append('(f%d.%s, f%d.%s)' % (fmt, ident(e['id']), fmt, ident(other['id'])))
        shape = tuple('D' if 'Direction' in a else 'V' for a in args)
        k = kernel_of[vec[args[0]]].get(shape)
        if k is not None and k is not e:
            mods.add('Q_' + k['meta']['cls'])
            for fmt in (32, 64, 80):
                rows_ker.append('(f%d.%s, f%d.%s)' % (fmt, ident(e['id']), fmt, ident(k['id'])))
    imports = ['PhQVerif.Core.Model'] + ['PhQVerif.Generated.%s' % x for x in sorted(mods)]
    emit_list_with_obligation(em, 'AngleEntries', 'Entry', rows_all, imports, 'Chk.C11clamp', 'C11clamp',
                              extra=[('Chk.C11exact', 'C11exact')])
    emit_list_with_obligation(em, 'AngleSym', 'Entry × Entry', rows_sym, imports, 'Chk.C11sym', 'C11sym')
    emit_list_with_obligation(em, 'AngleKernel', 'Entry × Entry', rows_ker, imports, 'Chk.C11kernel', 'C11kernel')


def emit_table_obligations(em):
    def one(name, stmt):
        L = ['-- GENERATED by emit_lean.py -- obligations discharged by kernel evaluation.',
             'import PhQVerif.Checkers', 'set_option maxRecDepth 100000',
             'namespace PhQVerif.Generated.Obl', '',
             'theorem %s : %s := by decide +kernel' % (name, stmt), '', 'end PhQVerif.Generated.Obl']
        em.write('Obl_%s.lean' % name, '\n'.join(L) + '\n')
    one('C06unit', 'unitTypes.all Chk.C06unit = true')
    one('C06class', 'classes.all Chk.C06class = true')
    one('C07', 'unitTypes.all Chk.C07 = true')
    one('C08unit', 'unitTypes.all Chk.C08unit = true')
    one('C08plain', 'plainEnums.all Chk.C08plain = true')
    one('C08spell', 'unitTypes.all Chk.C08spell = true')
    one('C20lookups', 'unitTypes.all Chk.C20lookups = true')
    one('C20abbr', 'plainEnums.all Chk.C20abbr = true')
    for f in (32, 64, 80):
        one('C01k%d' % f, '(unitTypes.zip kernelsByType%d).all (Chk.C01 .f%d) = true' % (f, f))


def emit_dircast(em):
    rows, mods = [], set()
    for cls, norm in (('Direction', 'Direction::ctor(Vector)'), ('PlanarDirection', 'PlanarDirection::ctor(PlanarVector)')):
        if norm not in em.by_id:
            continue
        for e in em.model:
            m = e['meta']
            if m['cls'] == cls and m['kind'] in ('cast-ctor', 'cast-assign'):
                for fmt in (32, 64, 80):
                    if str(fmt) in e['instances'][0]['fmts']:
                        rows.append('(f%d.%s, f%d.%s)' % (fmt, ident(e['id']), fmt, ident(norm)))
                        mods.add('Q_' + cls)
    imports = ['PhQVerif.Core.Model'] + ['PhQVerif.Generated.%s' % x for x in sorted(mods)]
    emit_list_with_obligation(em, 'DirCast', 'Entry × Entry', rows, imports, 'Chk.C16dir', 'C16dir')


def cxx_float_literal(text):
    """Exact value (Fraction) of a C++ floating literal as the compiler reads it: rounded to double, or to
    float / long double when suffixed."""
    import re
    from fractions import Fraction
    sys.path.insert(0, os.path.join(os.path.dirname(os.path.dirname(os.path.abspath(__file__))), 'harness'))
    import pyfloat
    t = text.replace("'", '')
    fmt = 64
    if t[-1] in 'lL':
        fmt, t = 80, t[:-1]
    elif t[-1] in 'fF' and not t.lower().startswith('0x'):
        fmt, t = 32, t[:-1]
    if t.lower().startswith('0x'):
        m = re.match(r'0[xX]([0-9a-fA-F]*)\.?([0-9a-fA-F]*)[pP]([+-]?\d+)$', t)
        v = Fraction(int((m.group(1) + m.group(2)) or '0', 16), 16 ** len(m.group(2))) * Fraction(2) ** int(m.group(3))
    else:
        m = re.match(r'(\d*)\.?(\d*)(?:[eE]([+-]?\d+))?$', t)
        v = Fraction(int((m.group(1) + m.group(2)) or '0'), 10 ** len(m.group(2))) * Fraction(10) ** int(m.group(3) or 0)
    r = pyfloat.round_to(v, fmt)
    return r


def emit_print_facts(em):
    """C15: the constants of PhQ::Print's interval cascade, read from the source text of Base.hpp in source
    order: the literals `absolute` is compared with, and the notation / precision offset of every leaf."""
    import re
    src = open(os.path.join(em.cache, 'symincl', 'PhQ', 'Base.hpp')).read()
    a = src.find('inline std::string Print(const NumericType value)')
    b = src.find('return stream.str();', a)
    body = src[a:b] if a >= 0 and b >= 0 else ''
    body = re.sub(r'//[^\n]*', '', body)
    thr = []
    for m in re.finditer(r'absolute\s*(<|==)\s*([0-9][0-9a-fA-FxX.\'pP+-]*[fFlL]?)', body):
        if m.group(1) == '==':
            continue
        v = cxx_float_literal(m.group(2))
        thr.append('(%d, %d)' % (v.numerator, v.denominator))
    leaves = []
    for m in re.finditer(r'stream\s*<<\s*(0|std::(fixed|scientific)\s*<<\s*std::setprecision\(\s*'
                         r'std::numeric_limits<NumericType>::max_digits10\s*(?:([+-])\s*(\d+))?\s*\)\s*<<\s*value)',
                         body):
        if m.group(1) == '0':
            leaves.append('(none : Option (Bool × Int))')
        else:
            off = int(m.group(4) or 0) * (-1 if m.group(3) == '-' else 1)
            leaves.append('some (%s, (%d : Int))' % ('true' if m.group(2) == 'scientific' else 'false', off))
    L = ['-- GENERATED by emit_lean.py -- do not edit.', 'namespace PhQVerif.Generated', '',
         '/-- The literals `absolute` is compared with in `PhQ::Print`, in source order, as exact rationals. -/',
         'def printThresholds : List (Nat × Nat) := [%s]' % ', '.join(thr), '',
         '/-- What each leaf of the cascade writes, in source order: `none` = the literal `0`,',
         '`some (scientific?, offset)` = that notation with `max_digits10 + offset` decimals. -/',
         'def printLeaves : List (Option (Bool × Int)) := [%s]' % ', '.join(leaves), '',
         'end PhQVerif.Generated']
    em.write('PrintFacts.lean', '\n'.join(L) + '\n')


def emit_init_facts(em):
    """C19: how each namespace-scope table is declared (clang AST), as Lean data."""
    path = os.path.join(em.cache, 'init_facts.json')
    if not os.path.exists(path):
        import init_facts
        inc = os.path.dirname(os.path.dirname(os.path.realpath(os.path.join(em.cache, 'symincl', 'PhQ', 'Base.hpp'))))
        json.dump(init_facts.collect(inc, em.cache), open(path, 'w'), indent=1)
    decls = json.load(open(path))
    kinds = {'VarTemplateDecl': '.primary', 'VarTemplateSpecializationDecl': '.explicitSpec',
             'VarTemplatePartialSpecializationDecl': '.partialSpec', 'VarDecl': '.plain'}
    rows = []
    for d in decls:
        rows.append('{ name := %s, arg := %s, decl := %s, isInline := %s, isConstexpr := %s, file := %s, line := %d }' % (
            lean_str(d['name']), lean_str(d['arg'] or ''), kinds[d['decl']], str(d['inline']).lower(),
            str(d['constexpr']).lower(), lean_str(d['file'] or ''), d['line'] or 0))
    L = ['-- GENERATED by emit_lean.py -- do not edit.', 'import PhQVerif.Core.Init',
         'set_option maxRecDepth 100000', 'namespace PhQVerif.Generated', 'open PhQVerif.Init', '']
    chunks = [rows[k:k + 60] for k in range(0, len(rows), 60)] or [[]]
    for ci, ch in enumerate(chunks):
        L.append('def tableDecls_%d : List TableDecl := [\n  %s]' % (ci, ',\n  '.join(ch)))
    L.append('def tableDecls : List TableDecl :=\n  %s' % ' ++ '.join('tableDecls_%d' % ci for ci in range(len(chunks))))
    L.append('end PhQVerif.Generated')
    em.write('InitFacts.lean', '\n'.join(L) + '\n')


def emit_throws(em):
    """C20: every (entry, format, branch) on which the traced real code raised an exception, and every
    entry whose runs with identical branch outcomes disagreed (non-determinism)."""
    rows, bad = [], []

    def walk(t, eid, fmt):
        if t['t'] == 'leaf':
            if t.get('error'):
                rows.append('(%s, %d, %s)' % (lean_str(eid), fmt, lean_str(str(t['error'])[:200])))
        elif t['t'] == 'node':
            walk(t['yes'], eid, fmt)
            walk(t['no'], eid, fmt)
        elif t['t'] == 'inconsistent':
            bad.append('(%s, %d)' % (lean_str(eid), fmt))
    n = 0
    for e in em.model:
        for inst in e['instances']:
            for f, v in inst['fmts'].items():
                n += 1
                walk(v['tree'], e['id'], int(f))
    L = ['-- GENERATED by emit_lean.py -- do not edit.', 'namespace PhQVerif.Generated', '',
         '/-- (entry, format, what()) for every explored path on which the real code threw. -/',
         'def throwingPaths : List (String × Nat × String) := [%s]' % ', '.join(rows), '',
         '/-- Entries whose repeated runs along the same branch outcomes produced different results. -/',
         'def inconsistentEntries : List (String × Nat) := [%s]' % ', '.join(bad), '',
         'def tracedInstantiations : Nat := %d' % n, '', 'end PhQVerif.Generated']
    em.write('Throws.lean', '\n'.join(L) + '\n')


def emit_serial(em):
    """C15: every Print/JSON/XML/YAML entry paired with the Value entry that has the same unit argument
    (none for the raw vector and tensor types, whose value is their stored components), and every
    stream operator paired with Print()."""
    rows, srows, mods = [], [], set()
    for e in em.model:
        m = e['meta']
        if m['kind'] == 'method' and m.get('name') in ('Print', 'JSON', 'XML', 'YAML'):
            v = '%s::Value(UnitType)[%s]' % (m['cls'], m['unit']) if m.get('unit') else '%s::Value()' % m['cls']
            for fmt in (32, 64, 80):
                if str(fmt) not in e['instances'][0]['fmts']:
                    continue
                ve = em.by_id.get(v)
                if ve is not None and str(fmt) in ve['instances'][0]['fmts']:
                    rows.append('(f%d.%s, some f%d.%s)' % (fmt, ident(e['id']), fmt, ident(v)))
                else:
                    rows.append('(f%d.%s, none)' % (fmt, ident(e['id'])))
                mods.add('Q_' + m['cls'])
        if m['kind'] == 'stream':
            pr = '%s::Print()' % m['cls']
            for fmt in (32, 64, 80):
                if str(fmt) not in e['instances'][0]['fmts']:
                    continue
                if pr in em.by_id and str(fmt) in em.by_id[pr]['instances'][0]['fmts']:
                    srows.append('(f%d.%s, some f%d.%s)' % (fmt, ident(e['id']), fmt, ident(pr)))
                else:
                    srows.append('(f%d.%s, none)' % (fmt, ident(e['id'])))
                mods.add('Q_' + m['cls'])
    imports = ['PhQVerif.Core.Model'] + ['PhQVerif.Generated.%s' % x for x in sorted(mods)]
    emit_list_with_obligation(em, 'Serial', 'Entry × Option Entry', rows, imports, 'Chk.C15serial', 'C15serial',
                              chunk=120)
    emit_list_with_obligation(em, 'Streams', 'Entry × Option Entry', srows, imports, 'Chk.C15stream',
                              'C15stream')


def emit_layout(em):
    layout = json.load(open(os.path.join(em.cache, 'layout.json')))
    rows = []
    for r in layout:
        rows.append('{ cls := %d, fm := %s, size := %d, align := %d, numSize := %d, triviallyCopyable := %s, '
                    'standardLayout := %s, polymorphic := %s }' % (
                        em.class_index[r['cls']], FM[r['fmt']], r['size'], r['align'], r['num_size'],
                        str(r['trivially_copyable']).lower(), str(r['standard_layout']).lower(),
                        str(r['polymorphic']).lower()))
    emit_list_with_obligation(em, 'Layout', 'LayoutRow', rows, ['PhQVerif.Core.Tables'], 'Chk.C17layout',
                              'C17layout')


def emit_twins(em):
    """Constructor / operator twins, derived from signatures: C(A, B) and `A op B -> C`."""
    ops = {}
    for e in em.model:
        m = e['meta']
        if m['kind'] in ('method', 'free') and m.get('name') in ('operator*', 'operator/') \
                and not m.get('ufmt') and not m.get('unit'):
            args = list(m['args'])
            if m.get('self'):
                args = [m['cls']] + args
            if len(args) == 2:
                ops.setdefault((args[0], args[1], m.get('ret')), []).append(e)
    rows = []
    mods = set()
    for e in em.model:
        m = e['meta']
        if m['kind'] != 'ctor' or m.get('unit') or m.get('ufmt') or len(m['args']) != 2:
            continue
        a, b = m['args']
        for (key, swapped) in (((a, b, m['cls']), False), ((b, a, m['cls']), True)):
            if swapped and a == b:
                continue
            for o in ops.get(key, []):
                for fmt in (32, 64, 80):
                    if str(fmt) in e['instances'][0]['fmts'] and str(fmt) in o['instances'][0]['fmts']:
                        rows.append('(f%d.%s, f%d.%s, %s)' % (fmt, ident(e['id']), fmt, ident(o['id']),
                                                             'true' if swapped else 'false'))
                        mods.add('Q_' + m['cls'])
                        mods.add('Q_' + o['meta']['cls'])
    imports = ['PhQVerif.Core.Model'] + ['PhQVerif.Generated.%s' % x for x in sorted(mods)]
    emit_list_with_obligation(em, 'Twins', 'Entry × Entry × Bool', rows, imports, 'Chk.C04twin', 'C04twin')
    # compound assignment / pure operator pairs: `a op= b` and `a op b` of the same class and operand
    pure = {}
    for e in em.model:
        m = e['meta']
        if m['kind'] == 'method' and m.get('name') in ('operator+', 'operator-', 'operator*', 'operator/') \
                and not m.get('unit') and m.get('ret') == m['cls']:
            pure[(m['cls'], m['name'], tuple(m['args']), m.get('ufmt'))] = e
    rows2, mods2 = [], set()
    for e in em.model:
        m = e['meta']
        if m.get('name') in ('operator+=', 'operator-=', 'operator*=', 'operator/=') and not m.get('unit'):
            o = pure.get((m['cls'], m['name'][:-1], tuple(m['args']), m.get('ufmt')))
            if o is None:
                # tensors: `v * number` is a free function template
                for cand in em.model:
                    cm = cand['meta']
                    if cm['kind'] == 'free' and cm.get('name') == m['name'][:-1] and \
                            cm['args'] == [m['cls']] + list(m['args']) and cm.get('ufmt') == m.get('ufmt'):
                        o = cand
                        break
            if o is None:
                continue
            for fmt in (32, 64, 80):
                if str(fmt) in e['instances'][0]['fmts'] and str(fmt) in o['instances'][0]['fmts']:
                    rows2.append('(f%d.%s, f%d.%s, false)' % (fmt, ident(e['id']), fmt, ident(o['id'])))
                    mods2.add('Q_' + m['cls'])
    imports = ['PhQVerif.Core.Model'] + ['PhQVerif.Generated.%s' % x for x in sorted(mods2)]
    emit_list_with_obligation(em, 'Compound', 'Entry × Entry × Bool', rows2, imports, 'Chk.C04compound',
                              'C04compound')
    return len(rows)


def nest(names):
    """Left-nested conjunction proof matching `(((a ++ b) ++ c) ++ d).all f`."""
    t = names[0]
    for n in names[1:]:
        t = '(all_append_of %s %s)' % (t, n)
    return t


def main():
    cache, lean_dir = sys.argv[1], sys.argv[2]
    em = Emitter(cache, lean_dir)
    res = em.run()
    json.dump(res, open(os.path.join(cache, 'emit.json'), 'w'), indent=1)
    print('emit_lean: %d modules, %d entries, %d files changed' % (
        res['modules'], sum(res['entries'].values()), len(res['changed'])), file=sys.stderr)


if __name__ == '__main__':
    main()
