"""S-expression trees emitted by the tracer, exact rational / interval-free evaluation helpers.

Expr forms (tuples):
  ('in', i, fmt)                      input i of format fmt
  ('lit', fmt, litfmt, hexvalue)      literal; exact value given by C99 hex-float text
  ('named', name, fmt, hexvalue)      named library constant (pi)
  ('uninit', fmt)
  ('cast', fmt, a)
  ('neg'|'sqrt'|'abs'|'acos'|'cbrt'|'exp'|'log'|'log2'|'log10', fmt, a)
  ('add'|'sub'|'mul'|'div'|'pow', fmt, a, b)
  ('powi', fmt, n, a)
"""
from fractions import Fraction
import re

UNOPS = ('neg', 'sqrt', 'abs', 'acos', 'cbrt', 'exp', 'log', 'log2', 'log10')
BINOPS = ('add', 'sub', 'mul', 'div', 'pow')

_tok = re.compile(r'\(|\)|[^\s()]+')


def parse(s):
    toks = _tok.findall(s)
    pos = 0

    def rd():
        nonlocal pos
        t = toks[pos]
        pos += 1
        if t != '(':
            return t
        items = []
        while toks[pos] != ')':
            items.append(rd())
        pos += 1
        return items

    tree = rd()
    if pos != len(toks):
        raise ValueError('trailing tokens in s-expression: ' + s[:80])
    return norm(tree)


def norm(t):
    h = t[0]
    if h == 'in':
        return ('in', int(t[1]), int(t[2]))
    if h == 'lit':
        return ('lit', int(t[1]), int(t[2]), t[3])
    if h == 'named':
        return ('named', t[1], int(t[2]), t[3])
    if h == 'uninit':
        return ('uninit', int(t[1]))
    if h == 'cast':
        return ('cast', int(t[1]), norm(t[2]))
    if h == 'powi':
        return ('powi', int(t[1]), int(t[2]), norm(t[3]))
    if h in UNOPS:
        return (h, int(t[1]), norm(t[2]))
    if h in BINOPS:
        return (h, int(t[1]), norm(t[2]), norm(t[3]))
    raise ValueError('unknown node ' + str(h))


def hex_to_fraction(h):
    """Exact value of a C99 hex-float string ('0xf.ap+6', '-0x1p-3', '0x0p+0', 'inf', 'nan')."""
    s = h.strip().lower()
    neg = s.startswith('-')
    if s[0] in '+-':
        s = s[1:]
    if s in ('inf', 'infinity') or s.startswith('nan'):
        raise ValueError('non-finite literal ' + h)
    m = re.match(r'^0x([0-9a-f]*)(?:\.([0-9a-f]*))?p([+-]?\d+)$', s)
    if not m:
        raise ValueError('bad hex float ' + h)
    ip, fp, ex = m.group(1) or '0', m.group(2) or '', int(m.group(3))
    mant = int(ip + fp, 16)
    val = Fraction(mant) * Fraction(2) ** (ex - 4 * len(fp))
    return -val if neg else val


def dyadic(fr):
    """(neg, m, e) with fr = ±m·2^e, m odd (or 0)."""
    neg = fr < 0
    fr = abs(fr)
    if fr == 0:
        return (neg, 0, 0)
    n, d = fr.numerator, fr.denominator
    assert d & (d - 1) == 0, 'not dyadic'
    e = -(d.bit_length() - 1)
    while n % 2 == 0:
        n //= 2
        e += 1
    return (neg, n, e)


def inputs_of(t, acc=None):
    if acc is None:
        acc = set()
    h = t[0]
    if h == 'in':
        acc.add(t[1])
    elif h == 'cast':
        inputs_of(t[2], acc)
    elif h == 'powi':
        inputs_of(t[3], acc)
    elif h in UNOPS:
        inputs_of(t[2], acc)
    elif h in BINOPS:
        inputs_of(t[2], acc)
        inputs_of(t[3], acc)
    return acc


def size(t):
    h = t[0]
    if h in ('cast',) or h in UNOPS:
        return 1 + size(t[2])
    if h == 'powi':
        return 1 + size(t[3])
    if h in BINOPS:
        return 1 + size(t[2]) + size(t[3])
    return 1


def strip_casts(t):
    while t[0] == 'cast':
        t = t[2]
    return t


def eval_exact(t, env):
    """Evaluate over exact rationals ignoring all rounding (the real-number semantics). Raises
    ZeroDivisionError / ValueError (sqrt of non-square, libm) when not representable."""
    h = t[0]
    if h == 'in':
        return env[t[1]]
    if h == 'lit':
        return hex_to_fraction(t[3])
    if h == 'named':
        return hex_to_fraction(t[3])
    if h == 'cast':
        return eval_exact(t[2], env)
    if h == 'neg':
        return -eval_exact(t[2], env)
    if h == 'abs':
        return abs(eval_exact(t[2], env))
    if h == 'sqrt':
        v = eval_exact(t[2], env)
        return rational_sqrt(v)
    if h == 'powi':
        return eval_exact(t[3], env) ** t[2]
    if h in ('add', 'sub', 'mul', 'div'):
        a, b = eval_exact(t[2], env), eval_exact(t[3], env)
        if h == 'add':
            return a + b
        if h == 'sub':
            return a - b
        if h == 'mul':
            return a * b
        return a / b
    raise ValueError('cannot evaluate exactly: ' + h)


def rational_sqrt(v):
    from math import isqrt
    if v < 0:
        raise ValueError('sqrt of negative')
    n, d = v.numerator, v.denominator
    rn, rd = isqrt(n), isqrt(d)
    if rn * rn == n and rd * rd == d:
        return Fraction(rn, rd)
    raise ValueError('irrational sqrt')


def to_str(t):
    h = t[0]
    if h == 'in':
        return 'x%d' % t[1]
    if h == 'lit':
        return str(float(hex_to_fraction(t[3])))
    if h == 'named':
        return t[1]
    if h == 'uninit':
        return 'UNINIT'
    if h == 'cast':
        return '(%s)%s' % ({32: 'f', 64: 'd', 80: 'L'}[t[1]], to_str(t[2]))
    if h == 'powi':
        return 'pow(%s,%d)' % (to_str(t[3]), t[2])
    if h in UNOPS:
        return '%s(%s)' % (h, to_str(t[2]))
    sym = {'add': '+', 'sub': '-', 'mul': '*', 'div': '/'}.get(h)
    if sym:
        return '(%s %s %s)' % (to_str(t[2]), sym, to_str(t[3]))
    return '%s(%s,%s)' % (h, to_str(t[2]), to_str(t[3]))
