#!/usr/bin/env python3
"""Translator driver: /repo/include (current working tree) -> model.json + tables.json + facts.json.

Results are cached under /verif/.cache/<key>/ where <key> hashes every file under /repo/include and
the translator's own sources, so an edited tree is always re-extracted.

usage: extract.py [--repo /repo] [--force]      prints the cache directory
"""
import hashlib
import json
import os
import shutil
import subprocess
import sys
import time
from concurrent.futures import ThreadPoolExecutor

HERE = os.path.dirname(os.path.abspath(__file__))
VERIF = os.path.dirname(HERE)
CACHE = os.path.join(VERIF, '.cache')
NSHARDS = 16
TOOL_FILES = ('symfloat.hpp', 'trace_rt.hpp', 'trace_main.cpp', 'clang_facts.py', 'gen_entries.py',
              'gen_tables.py', 'explore.py', 'sexpr.py', 'extract.py', 'models_rt.hpp')


class ExtractError(Exception):
    def __init__(self, stage, detail):
        super().__init__('%s: %s' % (stage, detail[:400]))
        self.stage = stage
        self.detail = detail


def tree_key(repo):
    h = hashlib.sha256()
    inc = os.path.join(repo, 'include')
    for root, dirs, files in os.walk(inc):
        dirs.sort()
        for fn in sorted(files):
            p = os.path.join(root, fn)
            h.update(os.path.relpath(p, inc).encode())
            h.update(b'\0')
            with open(p, 'rb') as f:
                h.update(f.read())
            h.update(b'\0')
    for fn in TOOL_FILES:
        p = os.path.join(HERE, fn)
        if os.path.exists(p):
            h.update(fn.encode())
            with open(p, 'rb') as f:
                h.update(f.read())
    return h.hexdigest()[:20]


def sh(cmd, stage, **kw):
    p = subprocess.run(cmd, stdout=subprocess.PIPE, stderr=subprocess.PIPE, text=True, **kw)
    if p.returncode != 0:
        raise ExtractError(stage, (p.stderr or '') + (p.stdout or ''))
    return p.stdout


def prepare_model_headers(repo, d):
    """Scratch include tree in which the three constitutive-model headers (the only code that names
    float/double/long double literally) have those names replaced, token-wise, by the tracing types.
    Every other header is the original, reached through symlinks."""
    import re
    inc = os.path.join(repo, 'include', 'PhQ')
    out = os.path.join(d, 'symincl', 'PhQ')
    if os.path.isdir(os.path.join(d, 'symincl')):
        shutil.rmtree(os.path.join(d, 'symincl'))
    os.makedirs(os.path.join(out, 'ConstitutiveModel'))
    for fn in os.listdir(inc):
        src = os.path.join(inc, fn)
        if fn in ('ConstitutiveModel.hpp', 'ConstitutiveModel'):
            continue
        os.symlink(src, os.path.join(out, fn))
    files = [('ConstitutiveModel.hpp', '')] + [
        (os.path.join('ConstitutiveModel', f), '') for f in os.listdir(os.path.join(inc, 'ConstitutiveModel'))]
    for rel, _ in files:
        s = open(os.path.join(inc, rel)).read()
        # order matters: 'long double' before 'double'
        s = re.sub(r'\blong\s+double\b', 'sym::S<80>', s)
        s = re.sub(r'(?<![\w:])double\b', 'sym::S<64>', s)
        s = re.sub(r'(?<![\w:])float\b', 'sym::S<32>', s)
        s = s.replace('= sym::S<64>>', '= sym::S<64> >')
        open(os.path.join(out, rel), 'w').write('#include "symfloat.hpp"\n' + s)
    return os.path.join(d, 'symincl')


def build(repo, d, log):
    inc = os.path.join(repo, 'include')
    t0 = time.time()
    facts_path = os.path.join(d, 'facts.json')
    sh([sys.executable, os.path.join(HERE, 'clang_facts.py'), inc, facts_path], 'clang-facts')
    log('facts %.1fs' % (time.time() - t0))
    gen = os.path.join(d, 'gen')
    os.makedirs(gen, exist_ok=True)
    sh([sys.executable, os.path.join(HERE, 'gen_entries.py'), facts_path, gen, str(NSHARDS)], 'gen-entries')
    sh([sys.executable, os.path.join(HERE, 'gen_tables.py'), facts_path, os.path.join(gen, 'tables_main.cpp'),
        os.path.join(gen, 'entries_index.json'), os.path.join(gen, 'layout_main.cpp'),
        os.path.join(gen, 'textio_main.cpp')], 'gen-tables')
    syminc = prepare_model_headers(repo, d)
    cxx = ['g++', '-std=c++17', '-O0', '-w', '-I', HERE, '-I', syminc]
    jobs = []
    for i in range(NSHARDS):
        jobs.append((cxx + ['-c', os.path.join(gen, 'entries_%02d.cpp' % i), '-o',
                            os.path.join(d, 'e%02d.o' % i)], 'compile-tracer-shard-%02d' % i))
    jobs.append((cxx + ['-c', os.path.join(HERE, 'trace_main.cpp'), '-o', os.path.join(d, 'main.o')],
                 'compile-tracer-main'))
    jobs.append((['g++', '-std=c++17', '-O0', '-w', '-I', inc, os.path.join(gen, 'tables_main.cpp'), '-o',
                  os.path.join(d, 'tables')], 'compile-tables'))
    jobs.append((['g++', '-std=c++17', '-O0', '-w', '-I', inc, os.path.join(gen, 'layout_main.cpp'), '-o',
                  os.path.join(d, 'layout')], 'compile-layout'))
    jobs.append((['g++', '-std=c++17', '-O1', '-w', '-fno-fast-math', '-ffp-contract=off', '-fsanitize=address,undefined',
                  '-fno-sanitize-recover=all', '-D_GLIBCXX_ASSERTIONS', '-I', inc,
                  os.path.join(gen, 'textio_main.cpp'), '-o', os.path.join(d, 'textio')], 'compile-textio'))
    errors = []

    def run(job):
        try:
            sh(job[0], job[1])
        except ExtractError as e:
            errors.append(e)
    with ThreadPoolExecutor(max_workers=18) as ex:
        list(ex.map(run, jobs))
    if errors:
        raise ExtractError('compile', '\n'.join('[%s]\n%s' % (e.stage, e.detail[-3000:]) for e in errors))
    log('compiled %.1fs' % (time.time() - t0))
    tracer = os.path.join(d, 'tracer')
    sh(['g++', '-o', tracer, os.path.join(d, 'main.o')] +
       [os.path.join(d, 'e%02d.o' % i) for i in range(NSHARDS)], 'link-tracer')
    tables = sh([os.path.join(d, 'tables')], 'run-tables')
    open(os.path.join(d, 'tables.json'), 'w').write(tables)
    open(os.path.join(d, 'layout.json'), 'w').write(sh([os.path.join(d, 'layout')], 'run-layout'))
    sys.path.insert(0, HERE)
    import explore
    facts = json.load(open(facts_path))
    entries = explore.trace_all(tracer, facts['enums'])
    json.dump({'entries': entries}, open(os.path.join(d, 'model.json'), 'w'))
    log('traced %d entries %.1fs' % (len(entries), time.time() - t0))
    for i in range(NSHARDS):
        os.unlink(os.path.join(d, 'e%02d.o' % i))
    os.unlink(os.path.join(d, 'main.o'))


def ensure(repo='/repo', force=False, log=lambda s: print('[extract] ' + s, file=sys.stderr)):
    key = tree_key(repo)
    d = os.path.join(CACHE, key)
    done = os.path.join(d, 'DONE')
    if force and os.path.isdir(d):
        shutil.rmtree(d)
    if not os.path.exists(done):
        if os.path.isdir(d):
            shutil.rmtree(d)
        os.makedirs(d)
        try:
            build(repo, d, log)
        except ExtractError as e:
            with open(os.path.join(d, 'ERROR.txt'), 'w') as f:
                f.write('%s\n%s' % (e.stage, e.detail))
            raise
        open(done, 'w').write(time.strftime('%Y-%m-%dT%H:%M:%S'))
        prune(keep=key)
    return d


def prune(keep, n_keep=3):
    if not os.path.isdir(CACHE):
        return
    ds = [os.path.join(CACHE, x) for x in os.listdir(CACHE) if len(x) == 20]
    ds.sort(key=lambda p: os.path.getmtime(p), reverse=True)
    for p in ds[n_keep:]:
        if os.path.basename(p) != keep:
            shutil.rmtree(p, ignore_errors=True)


if __name__ == '__main__':
    repo = '/repo'
    force = '--force' in sys.argv
    if '--repo' in sys.argv:
        repo = sys.argv[sys.argv.index('--repo') + 1]
    try:
        print(ensure(repo, force))
    except ExtractError as e:
        print('EXTRACT-ERROR %s' % e.stage)
        print(e.detail[-4000:], file=sys.stderr)
        sys.exit(2)
