"""C19 facts: how every namespace-scope table of the library is declared, from clang's AST.

For each variable-template declaration whose name contains one of NAMES, in a translation unit that
includes every public header: the kind of declaration (primary template, explicit specialisation,
partial specialisation), whether it is `inline`, whether it is `constexpr`, the first template
argument, and where it is. [basic.start.dynamic] classifies a variable's dynamic initialisation from
exactly these facts.
"""
import json
import os
import subprocess
import sys
from concurrent.futures import ThreadPoolExecutor

NAMES = ['Abbreviations', 'Spellings', 'ConsistentUnits', 'RelatedUnitSystems', 'MapOfConversionsFromStandard',
         'MapOfConversionsToStandard', 'Standard', 'RelatedDimensions']


def _objs(txt):
    dec = json.JSONDecoder()
    i, out = 0, []
    while i < len(txt):
        while i < len(txt) and txt[i] in ' \n\r\t':
            i += 1
        if i >= len(txt):
            break
        if txt[i] != '{':
            j = txt.find('\n', i)
            i = j + 1 if j >= 0 else len(txt)
            continue
        o, j = dec.raw_decode(txt, i)
        out.append(o)
        i = j
    return out


def _first_arg(node):
    for c in node.get('inner', []):
        if c.get('kind') == 'TemplateArgument':
            t = c.get('type', {}).get('qualType')
            if t:
                return t
    return None


def _loc(node, last):
    loc = node.get('loc', {})
    if 'spellingLoc' in loc:
        loc = loc['spellingLoc']
    f = loc.get('file') or last.get('file')
    if loc.get('file'):
        last['file'] = loc['file']
    return f, loc.get('line')


def collect(include_dir, workdir):
    hdrs = sorted(fn for fn in os.listdir(os.path.join(include_dir, 'PhQ')) if fn.endswith('.hpp'))
    hdrs += sorted('Unit/' + fn for fn in os.listdir(os.path.join(include_dir, 'PhQ', 'Unit')) if fn.endswith('.hpp'))
    hdrs += sorted('ConstitutiveModel/' + fn for fn in os.listdir(os.path.join(include_dir, 'PhQ', 'ConstitutiveModel'))
                   if fn.endswith('.hpp'))
    tu = os.path.join(workdir, 'init_facts_tu.cpp')
    open(tu, 'w').write(''.join('#include "PhQ/%s"\n' % h for h in hdrs))

    def run(name):
        p = subprocess.run(['clang++-14', '-std=gnu++17', '-fsyntax-only', '-w', '-I', include_dir, '-Xclang',
                            '-ast-dump=json', '-Xclang', '-ast-dump-filter=' + name, tu],
                           stdout=subprocess.PIPE, stderr=subprocess.PIPE, text=True)
        return name, p.stdout, p.stderr, p.returncode
    with ThreadPoolExecutor(max_workers=len(NAMES)) as ex:
        results = list(ex.map(run, NAMES))
    decls = []
    seen = set()
    for name, out, err, rc in results:
        if not out.strip():
            raise RuntimeError('clang produced no AST for %s: %s' % (name, err[-2000:]))
        last = {}
        for o in _objs(out):
            k = o.get('kind')
            if k not in ('VarTemplateDecl', 'VarTemplateSpecializationDecl', 'VarTemplatePartialSpecializationDecl',
                         'VarDecl'):
                continue
            f, line = _loc(o, last)
            var = o
            if k == 'VarTemplateDecl':
                var = next((c for c in o.get('inner', []) if c.get('kind') == 'VarDecl'), o)
            key = (o.get('name'), k, f, line)
            if key in seen or o.get('name') not in NAMES:
                continue
            seen.add(key)
            decls.append({
                'name': o.get('name'), 'decl': k, 'file': os.path.relpath(os.path.realpath(f), os.path.realpath(include_dir))
                if f else None, 'line': line, 'inline': bool(var.get('inline')), 'constexpr': bool(var.get('constexpr')),
                'arg': _first_arg(o), 'has_init': 'init' in var,
                'type': var.get('type', {}).get('qualType')})
    decls.sort(key=lambda d: (d['name'], d['arg'] or '', d['decl']))
    return decls


if __name__ == '__main__':
    d = collect(sys.argv[1], sys.argv[2])
    json.dump(d, sys.stdout, indent=1)
