"""Shared machinery of the per-property checks (see DESIGN.md section 6).

    extract  -> emit Lean -> lake build Props/Audit -> correspondence -> decide -> evidence
"""
import hashlib
import json
import os
import re
import subprocess
import sys
import time

VERIF = os.path.dirname(os.path.abspath(__file__))
LEAN = os.path.join(VERIF, 'lean')
sys.path.insert(0, os.path.join(VERIF, 'extract'))
sys.path.insert(0, os.path.join(VERIF, 'harness'))

import extract  # noqa: E402
import emit_lean  # noqa: E402

ALLOWED_AXIOMS = {'propext', 'Classical.choice', 'Quot.sound'}
FORBIDDEN = re.compile(r'\b(sorry|admit|native_decide|bv_decide|implemented_by|unsafe|maxHeartbeats\s+0)\b|^\s*axiom\s',
                       re.M)
TRUSTED_BASE = [
    "Lean 4.33 kernel (decide +kernel uses the kernel's own evaluator with GMP naturals; no native_decide)",
    'axioms: propext, Classical.choice, Quot.sound only (audited with #print axioms on every run)',
    'Mathlib v4.33 as a library of kernel-checked theorems',
    'translator: PhQ instantiated by g++ at the tracing types of extract/symfloat.hpp; entry list from clang AST '
    '(extract/clang_facts.py, gen_entries.py); emitter extract/emit_lean.py',
    'correspondence harness: g++ 12 compiling the real headers with -fno-fast-math -ffp-contract=off; x86-64 SSE/x87 '
    'arithmetic being IEEE-754 correctly rounded',
]


class Timer:
    def __init__(self):
        self.t0 = time.time()

    def s(self):
        return round(time.time() - self.t0, 2)


def log(msg):
    print('[check] ' + msg, file=sys.stderr)
    sys.stderr.flush()


def strip_comments(text):
    text = re.sub(r'/-.*?-/', '', text, flags=re.S)
    text = re.sub(r'--.*', '', text)
    return text


def forbidden_constructs():
    """Scan every hand-written Lean file for constructs that would void the proofs."""
    hits = []
    root = os.path.join(LEAN, 'PhQVerif')
    for d, _, files in os.walk(root):
        for fn in files:
            if not fn.endswith('.lean'):
                continue
            p = os.path.join(d, fn)
            body = strip_comments(open(p).read())
            # string literals cannot hide a tactic; remove them to avoid false hits
            body = re.sub(r'"(?:\\.|[^"\\])*"', '""', body)
            for m in FORBIDDEN.finditer(body):
                hits.append('%s: %s' % (os.path.relpath(p, LEAN), m.group(0).strip()))
    return hits


import contextlib
import fcntl


@contextlib.contextmanager
def exclusive(name='build'):
    """Serialise translation / model regeneration / lake builds between concurrent invocations of the
    checks (they share /verif/.cache and the lake workspace)."""
    os.makedirs(os.path.join(VERIF, '.cache'), exist_ok=True)
    f = open(os.path.join(VERIF, '.cache', '%s.lock' % name), 'w')
    try:
        fcntl.flock(f, fcntl.LOCK_EX)
        yield
    finally:
        fcntl.flock(f, fcntl.LOCK_UN)
        f.close()


def prepare(repo='/repo'):
    """Extract (cached by tree hash) and regenerate the Lean model. Returns (cache_dir, emit_result)."""
    with exclusive('prepare'):
        return _prepare(repo)


def _prepare(repo='/repo'):
    cache = extract.ensure(repo, log=log)
    keyfile = os.path.join(LEAN, 'PhQVerif', 'Generated', '.key')
    emit_json = os.path.join(cache, 'emit.json')
    key = os.path.basename(cache) + ':' + _file_hash(os.path.join(VERIF, 'extract', 'emit_lean.py'))
    if os.path.exists(keyfile) and open(keyfile).read() == key and os.path.exists(emit_json) \
            and os.path.exists(os.path.join(cache, 'classes.json')):
        res = json.load(open(emit_json))
        res['changed'] = []
        return cache, res
    em = emit_lean.Emitter(cache, LEAN)
    res = em.run()
    json.dump({'classes': em.classes, 'class_index': em.class_index, 'unit_index': em.unit_index},
              open(os.path.join(cache, 'classes.json'), 'w'))
    json.dump(res, open(emit_json, 'w'))
    open(keyfile, 'w').write(key)
    return cache, res


def _file_hash(p):
    return hashlib.sha256(open(p, 'rb').read()).hexdigest()[:12]


def lake_build(targets, timeout=3600):
    """Build the given module targets. Returns (ok, output)."""
    cmd = ['lake', 'build'] + targets
    with exclusive('lake'):
        p = subprocess.run(cmd, cwd=LEAN, stdout=subprocess.PIPE, stderr=subprocess.STDOUT, text=True,
                           timeout=timeout)
    return p.returncode == 0, p.stdout


ERR_RE = re.compile(r'^error: (PhQVerif/[\w/]+\.lean):(\d+):(\d+): (.*)$', re.M)


def theorems_in(path):
    """(line, name) of every theorem / lemma / example in a Lean file."""
    out = []
    if not os.path.exists(path):
        return out
    for i, line in enumerate(open(path), 1):
        m = re.match(r'^\s*(?:private\s+)?(theorem|lemma|example)\s*([^\s:(\[{]*)', line)
        if m:
            out.append((i, m.group(2) or ('example@%d' % i)))
    return out


def failed_theorems(output):
    """Map Lean error locations in the build output to the enclosing theorem."""
    failed = []
    for m in ERR_RE.finditer(output):
        rel, line, msg = m.group(1), int(m.group(2)), m.group(4)
        path = os.path.join(LEAN, rel)
        ths = theorems_in(path)
        name = None
        for (l, n) in ths:
            if l <= line:
                name = n
        failed.append({'file': rel, 'line': line, 'theorem': name, 'message': msg[:500]})
    # modules that failed for other reasons (import of a failed module, bad generated syntax ...)
    for m in re.finditer(r'^- (PhQVerif\.[\w.]+)$', output, re.M):
        mod = m.group(1)
        rel = mod.replace('.', '/') + '.lean'
        if not any(f['file'] == rel for f in failed):
            failed.append({'file': rel, 'line': 0, 'theorem': None, 'message': 'module failed to build'})
    return failed


def audit_info(output, prop):
    """Parse `#print axioms` reports and COUNT lines from the Audit module's (replayed) log."""
    axioms = {}
    for m in re.finditer(r"'([\w.]+)' depends on axioms: \[([^\]]*)\]", output):
        axioms[m.group(1)] = [a.strip() for a in m.group(2).split(',') if a.strip()]
    for m in re.finditer(r"'([\w.]+)' does not depend on any axioms", output):
        axioms[m.group(1)] = []
    counts = {}
    for m in re.finditer(r'COUNT (\S+) (\d+)', output):
        counts[m.group(1)] = int(m.group(2))
    samples = re.findall(r'SAMPLE (.*?)"?$', output, re.M)
    return axioms, counts, samples


def obligation_modules(prop_module_path):
    """Generated obligation aggregators a Props file imports, and their chunk lemmas."""
    text = open(prop_module_path).read()
    names = re.findall(r'^import PhQVerif\.Generated\.(Obl_\w+)$', text, re.M)
    lemmas = []
    gen = os.path.join(LEAN, 'PhQVerif', 'Generated')
    for n in names:
        agg = os.path.join(gen, n + '.lean')
        if not os.path.exists(agg):
            continue
        for ch in re.findall(r'^import PhQVerif\.Generated\.(Obl_\w+_\d+)$', open(agg).read(), re.M):
            for (_, th) in theorems_in(os.path.join(gen, ch + '.lean')):
                lemmas.append('%s:%s' % (ch, th))
        lemmas.append('%s:%s' % (n, n[4:]))
    return names, lemmas


def lean_eval(snippet, imports, timeout=900):
    """Run a small Lean script against the built library; returns its stdout."""
    src = ''.join('import %s\n' % i for i in imports) + 'open PhQVerif Generated\n' + snippet
    path = os.path.join(LEAN, '.lake', 'eval_%d.lean' % os.getpid())
    os.makedirs(os.path.dirname(path), exist_ok=True)
    open(path, 'w').write(src)
    try:
        p = subprocess.run(['lake', 'env', 'lean', path], cwd=LEAN, stdout=subprocess.PIPE,
                           stderr=subprocess.STDOUT, text=True, timeout=timeout)
        return p.stdout
    finally:
        os.unlink(path)


def failing_entries(checker, biglist, imports=('PhQVerif.Checkers', 'PhQVerif.Generated.All'), accessor='e'):
    """Ids (with format) of the generated entries on which a Boolean checker is false. `accessor` says how to
    reach the entry from a list element (`e` for lists of entries, `e.1` for lists of rows led by an entry)."""
    out = lean_eval('#eval (%s.filter (fun e => !(%s e))).map (fun e => ((%s).id, (%s).fm.bits))\n' % (
        biglist, checker, accessor, accessor), list(imports))
    return re.findall(r'\("((?:[^"\\]|\\.)*)", (\d+)\)', out)


# ---- known findings, replays, evidence ----------------------------------------------------------------

def load_known():
    p = os.path.join(VERIF, 'known_findings.json')
    if not os.path.exists(p):
        return {'open': [], 'fixed': []}
    return json.load(open(p))


RUN_INFO = {}


def write_replay(prop, payload):
    os.makedirs(os.path.join(VERIF, 'replay'), exist_ok=True)
    payload = dict(payload)
    payload.setdefault('property', prop)
    for k, v in RUN_INFO.items():
        payload.setdefault(k, v)
    blob = json.dumps(payload, sort_keys=True, indent=1, default=str)
    h = hashlib.sha256(blob.encode()).hexdigest()[:12]
    path = os.path.join(VERIF, 'replay', '%s-%s.json' % (prop, h))
    open(path, 'w').write(blob)
    return path


def matches_known(prop, violation, known):
    """A violation is covered by an open known finding iff the finding's `match` keys all agree."""
    for k in known.get('open', []):
        if k['property'] != prop:
            continue
        ok = True
        for key, want in k.get('match', {}).items():
            have = violation.get(key)
            if isinstance(want, list):
                if have not in want:
                    ok = False
            elif isinstance(want, str) and want.startswith('re:'):
                if not re.search(want[3:], str(have or '')):
                    ok = False
            elif have != want:
                ok = False
        if ok:
            return k
    return None


def write_evidence(prop, tier, seed, level, coverage, assumptions, wall, violations):
    os.makedirs(os.path.join(VERIF, 'evidence'), exist_ok=True)
    ev = {'property_id': prop, 'tier': tier, 'seed': seed, 'level': level, 'coverage': coverage,
          'assumptions': assumptions, 'wall_s': wall, 'violations': violations}
    open(os.path.join(VERIF, 'evidence', prop + '.json'), 'w').write(json.dumps(ev, indent=1, default=str))
    return ev


def finish(prop, violations, known):
    """Print KNOWN-FINDING / VIOLATION lines; return the exit code."""
    rc = 0
    reported_known = set()
    for v in violations:
        k = matches_known(prop, v, known)
        if k is not None:
            if k['id'] not in reported_known:
                print('KNOWN-FINDING: property=%s %s' % (prop, k['what']))
                reported_known.add(k['id'])
            continue
        path = write_replay(prop, v)
        tail = '' if v.get('failing_input_found') else ' no-failing-input-found'
        print('VIOLATION property=%s replay=%s%s' % (prop, path, tail))
        rc = 1
    sys.stdout.flush()
    return rc
